import Cherab.Lemmas.Instruments
import Mathlib.Tactic.Ring
import Mathlib.Tactic.Linarith
import Mathlib.Tactic.FieldSimp
import Mathlib.Tactic.Positivity
import Mathlib.Algebra.Order.Field.Basic
import Mathlib.Algebra.Order.Floor.Ring
import Mathlib.Algebra.Order.Ring.Rat
import Mathlib.Data.Rat.Floor
import Mathlib.Analysis.Real.Sqrt

/-!
# C16 — instruments: settings follow parameters, calibration conserves the spectrum

Property theorems only (helpers: `Cherab/Lemmas/Instruments.lean`; theorems about the tables generated from the
source: `Cherab/Props/C16Table.lean`, `Cherab/Props/C16Init.lean`).

* protocol — `covered_of_check`, `settings_follow_parameters`, `observations_do_not_matter` (on the shared invalidation
  theory `Inval`), `never_attr_error` (class-table interpreter);
* arithmetic over an arbitrary ordered field (`ceil := Int.ceil` of a `FloorRing` where the ceiling matters) —
  spectrometer: `range_covers_pixels`, `range_tight`, `step_is_narrowest`, `bin_width_bound`, `bins_minimal`,
  `settings_exist`; polychromator: `range_covers_filters`, `poly_step_bound`, `poly_range_tight`,
  `poly_bin_width_bound`, `trapezoid_spec`; Czerny-Turner: `ct_edges_*`, `ct_resolution_pos`, `ct_valid_w2p`;
  `centres_inside`; `calibrate_conserves`, `calibrate_total`, `calibrate_guard`; pipelines.
-/
namespace Cherab.Props.C16
set_option linter.unusedSectionVars false
open Cherab.Instruments Cherab.Lemmas.Instruments

section protocol
variable {P C : Type} [DecidableEq P] [DecidableEq C]

theorem covered_of_check (t : ClassTable) (h : coveredB t = true) : Inval.Covered (protoOf t) := by
  intro c p hp
  simp only [protoOf] at hp ⊢
  have hc : c < t.attrs.length := by
    by_contra hn
    simp [depsOf, hn] at hp
  simp only [coveredB, List.all_eq_true, List.mem_range] at h
  have := h c hc p hp
  simpa using this

/-- **settings follow parameters**: under `Covered`, after any history of setter calls and observations every derived
setting equals the one observed on an instrument built directly in the final configuration -/
theorem settings_follow_parameters (pr : Inval.Proto P C) (hc : Inval.Covered pr) (ops : List (Inval.Op P C)) (c : C) :
    (Inval.step pr (Inval.run pr Inval.init ops) (.obs c)).2
      = (Inval.step pr (freshAt (Inval.run pr Inval.init ops).ver) (.obs c)).2 := by
  rw [fresh_obs]
  exact Inval.no_stale pr hc ops c

/-- interleaved observations do not influence what is observed at the end: only the setter calls matter -/
theorem observations_do_not_matter (pr : Inval.Proto P C) (hc : Inval.Covered pr) (ops : List (Inval.Op P C)) (c : C) :
    (Inval.step pr (Inval.run pr Inval.init ops) (.obs c)).2
      = (Inval.step pr (Inval.run pr Inval.init (ops.filter isSet)) (.obs c)).2 := by
  have h1 := Inval.no_stale pr hc ops c
  have h2 := Inval.no_stale pr hc (ops.filter isSet) c
  simp only at h1 h2
  rw [h1, h2, ver_run_filter pr ops Inval.init Inval.init rfl]

end protocol

/-- **init_total, for all histories**: if `__init__` assigns every attribute the class ever touches, then no sequence
of setter / getter / public-method calls on the constructed instance can raise AttributeError -/
theorem never_attr_error (t : ClassTable) (h : initStaticB t = true) (hk : t.knownUninit = []) (calls : List Nat) :
    ∀ r ∈ runCalls t (initState t) calls, ∀ a s, r ≠ .attrErr a s := by
  have key : ∀ (calls : List Nat) (s0 : St), Defined t s0 → ∀ r ∈ runCalls t s0 calls, GoodRes t r := by
    intro calls
    induction calls with
    | nil => intro s0 _ r hr; simp [runCalls] at hr
    | cons m ms ih =>
      intro s0 hs0 r hr
      simp only [runCalls, List.mem_cons] at hr
      have hg := runMethod_good t s0 m hs0
      rcases hr with rfl | hr
      · exact hg
      · refine ih _ ?_ r hr
        cases hres : runMethod t s0 m with
        | ok s' => rw [hres] at hg; simpa [Res.state?, GoodRes] using hg
        | ret s' => rw [hres] at hg; simpa [Res.state?, GoodRes] using hg
        | notImpl s' => rw [hres] at hg; simpa [Res.state?, GoodRes] using hg
        | attrErr a s' => rw [hres] at hg; exact absurd hg (by simp [GoodRes])
        | stuck w => simpa [Res.state?] using hs0
  intro r hr a s heq
  have := key calls (initState t) (defined_of_initStatic t h hk) r hr
  rw [heq] at this
  exact this


/-! ## value-level state machine of `CzernyTurnerSpectrometer` -/

section machine
variable {α : Type} [Add α] [Sub α] [Mul α] [Div α] [Neg α] [Zero α] [One α] [OfScientific α] [NatCast α]
  [LT α] [LE α] [DecidableLT α] [DecidableLE α]

/-- every stored derived value is the function of the *current* parameters it would be on a fresh instrument -/
def CTInv (x : CTExt α) (s : CTState α) : Prop :=
  s.w2p = ctW2P x s.p ∧ s.wavelengths = (ctW2P x s.p).map centres ∧
  (∀ st, s.settings = some st → spectralSettings x.ceil s.w2p s.p.mbpp = some st) ∧
  (∀ k, s.kwargs = some k → k = specPipelineNames' s.p.name)

theorem ctInv_fresh (x : CTExt α) (p : CTParams α) : CTInv x (ctFresh x p) := by
  refine ⟨rfl, rfl, ?_, ?_⟩ <;> intro _ h <;> simp [ctFresh] at h

theorem ctInv_refresh (x : CTExt α) (s : CTState α) (p : CTParams α) (h : CTInv x s) (hn : p.name = s.p.name) :
    CTInv x (ctRefresh x s p) := by
  refine ⟨rfl, rfl, ?_, ?_⟩
  · intro _ h'; simp [ctRefresh] at h'
  · intro k hk; simp only [ctRefresh] at hk ⊢; rw [hn]; exact h.2.2.2 k hk

theorem ctInv_fill (x : CTExt α) (s : CTState α) (h : CTInv x s) :
    CTInv x (ctFill x s).1 ∧ (ctFill x s).1.p = s.p ∧ (ctFill x s).1.w2p = s.w2p ∧
    (ctFill x s).2 = spectralSettings x.ceil (ctW2P x s.p) s.p.mbpp := by
  unfold ctFill
  cases hs : s.settings with
  | some st =>
    exact ⟨h, rfl, rfl, by rw [← h.1]; exact (h.2.2.1 st hs).symm⟩
  | none =>
    cases hq : spectralSettings x.ceil s.w2p s.p.mbpp with
    | some st =>
      refine ⟨⟨h.1, h.2.1, ?_, h.2.2.2⟩, rfl, rfl, by rw [← h.1]; exact hq.symm⟩
      intro st' hst'
      have : st = st' := by simpa using hst'
      subst this; exact hq
    | none =>
      exact ⟨h, rfl, rfl, by rw [← h.1]; exact hq.symm⟩

theorem ctInv_step (x : CTExt α) (s : CTState α) (o : CTOp α) (h : CTInv x s) : CTInv x (ctStep x s o).1 := by
  cases o with
  | setOrder v => simp only [ctStep]; split; exact h; exact ctInv_refresh x s _ h rfl
  | setGrating v => simp only [ctStep]; split; exact h; exact ctInv_refresh x s _ h rfl
  | setFocal v => simp only [ctStep]; split; exact h; exact ctInv_refresh x s _ h rfl
  | setSpacing v => simp only [ctStep]; split; exact h; exact ctInv_refresh x s _ h rfl
  | setAngle v => simp only [ctStep]; split; exact h; exact ctInv_refresh x s _ h rfl
  | setAcc v => simp only [ctStep]; split; exact ctInv_refresh x s _ h rfl; exact h
  | setMbpp v =>
    simp only [ctStep]; split
    · exact h
    · refine ⟨h.1, h.2.1, ?_, h.2.2.2⟩
      intro _ h'; simp at h'
  | setName v =>
    simp only [ctStep]
    refine ⟨h.1, h.2.1, h.2.2.1, ?_⟩
    intro _ h'; simp at h'
  | getMin => simp only [ctStep]; have := (ctInv_fill x s h).1; split <;> simp_all
  | getMax => simp only [ctStep]; have := (ctInv_fill x s h).1; split <;> simp_all
  | getBins => simp only [ctStep]; have := (ctInv_fill x s h).1; split <;> simp_all
  | getW2p => exact h
  | getWavelengths => exact h
  | getKwargs =>
    simp only [ctStep]; split
    · exact h
    · refine ⟨h.1, h.2.1, h.2.2.1, ?_⟩
      intro k hk; simp only [Option.some.injEq] at hk; exact hk.symm
  | calibrate I a b =>
    simp only [ctStep]; have := (ctInv_fill x s h).1
    split
    · split <;> simp_all
    · simp_all

theorem ctInv_run (x : CTExt α) (ops : List (CTOp α)) (s : CTState α) (h : CTInv x s) : CTInv x (ctRun x s ops) := by
  induction ops generalizing s with
  | nil => exact h
  | cons o os ih => exact ih _ (ctInv_step x s o h)

/-- what an observation returns is a function of the parameters alone, in every state satisfying the invariant -/
theorem ct_obs_of_inv (x : CTExt α) (s : CTState α) (o : CTOp α) (h : CTInv x s) :
    (ctStep x s o).2 = (ctStep x (ctFresh x s.p) o).2 := by
  have hf := ctInv_fill x s h
  have hf' := ctInv_fill x (ctFresh x s.p) (ctInv_fresh x s.p)
  have e : (ctFill x s).2 = (ctFill x (ctFresh x s.p)).2 := by rw [hf.2.2.2, hf'.2.2.2]; rfl
  have ew : (ctFill x s).1.w2p = (ctFill x (ctFresh x s.p)).1.w2p := by rw [hf.2.2.1, hf'.2.2.1, h.1]; rfl
  cases o with
  | setOrder v => simp only [ctStep]; split <;> rfl
  | setGrating v => simp only [ctStep]; split <;> rfl
  | setFocal v => simp only [ctStep]; split <;> rfl
  | setSpacing v => simp only [ctStep]; split <;> rfl
  | setAngle v => simp only [ctStep]; split <;> rfl
  | setAcc v => simp only [ctStep]; split <;> rfl
  | setMbpp v => simp only [ctStep]; split <;> rfl
  | setName v => rfl
  | getMin =>
    simp only [ctStep]
    rcases hA : ctFill x s with ⟨s1, r1⟩
    rcases hB : ctFill x (ctFresh x s.p) with ⟨s2, r2⟩
    rw [hA, hB] at e; simp only at e; subst e
    cases r1 <;> rfl
  | getMax =>
    simp only [ctStep]
    rcases hA : ctFill x s with ⟨s1, r1⟩
    rcases hB : ctFill x (ctFresh x s.p) with ⟨s2, r2⟩
    rw [hA, hB] at e; simp only at e; subst e
    cases r1 <;> rfl
  | getBins =>
    simp only [ctStep]
    rcases hA : ctFill x s with ⟨s1, r1⟩
    rcases hB : ctFill x (ctFresh x s.p) with ⟨s2, r2⟩
    rw [hA, hB] at e; simp only at e; subst e
    cases r1 <;> rfl
  | getW2p => simp only [ctStep]; rw [h.1]; rfl
  | getWavelengths => simp only [ctStep]; rw [h.2.1]; rfl
  | getKwargs =>
    simp only [ctStep, ctFresh]
    cases hk : s.kwargs with
    | some k => simp only; rw [h.2.2.2 k hk]
    | none => rfl
  | calibrate I a b =>
    simp only [ctStep]
    rcases hA : ctFill x s with ⟨s1, r1⟩
    rcases hB : ctFill x (ctFresh x s.p) with ⟨s2, r2⟩
    rw [hA, hB] at e ew; simp only at e ew; subst e
    cases r1 with
    | none => rfl
    | some st => simp only [ew]; cases calibrate I a b st.minW st.maxW s2.w2p <;> rfl

/-- **settings and calibration follow the parameters, value level**: after any history of (accepted or rejected)
assignments, reads and calibrations, whatever is observed next — spectral range, bin count, pixel edges, pixel centres,
pipeline keywords, `calibrate` of any spectrum — is what a freshly constructed instrument with the final parameters
returns; in particular no pixel width survives a change of a diffraction parameter -/
theorem ct_history_eq_fresh (x : CTExt α) (p0 : CTParams α) (ops : List (CTOp α)) (o : CTOp α) :
    (ctStep x (ctRun x (ctFresh x p0) ops) o).2
      = (ctStep x (ctFresh x (ctRun x (ctFresh x p0) ops).p) o).2 :=
  ct_obs_of_inv x _ o (ctInv_run x ops _ (ctInv_fresh x p0))

/-- a rejected assignment (`ValueError`) leaves the instrument exactly as it was -/
theorem ct_rejected_unchanged (x : CTExt α) (s : CTState α) (o : CTOp α)
    (hset : match o with
      | .setOrder _ | .setGrating _ | .setFocal _ | .setSpacing _ | .setAngle _ | .setAcc _ | .setMbpp _ | .setName _ => True
      | _ => False)
    (h : (ctStep x s o).2 = .valueError) : (ctStep x s o).1 = s := by
  cases o <;> simp only [ctStep] at h ⊢ <;> first | (split at h <;> simp_all) | simp_all

end machine

/-! ## arithmetic -/

variable {α : Type} [Field α] [LinearOrder α] [IsStrictOrderedRing α]

/-- what the `wavelength_to_pixel` setter accepts -/
def ValidW2P (w2p : List (List α)) : Prop := ∀ arr ∈ w2p, validEdges arr = true

/-- **the range covers every pixel**: every pixel edge of every accommodated spectrum lies in
`[min_wavelength, max_wavelength]` -/
theorem range_covers_pixels {ceil : α → Int} {w2p : List (List α)} {mbpp : Nat} {s : Settings α}
    (hv : ValidW2P w2p) (h : spectralSettings ceil w2p mbpp = some s) :
    ∀ arr ∈ w2p, ∀ e ∈ arr, s.minW ≤ e ∧ e ≤ s.maxW := by
  obtain ⟨firsts, lasts, widths, w, h1, h2, _, h4, h5, _, _, _⟩ := spectralSettings_unfold h
  intro arr harr e he
  obtain ⟨f, hf, hf'⟩ := (optAll_map_mem h1).1 arr harr
  obtain ⟨la, hl, hl'⟩ := (optAll_map_mem h2).1 arr harr
  obtain ⟨_, hb⟩ := validEdges_bounds arr (hv arr harr) f la hf' hl'
  obtain ⟨hb1, hb2⟩ := hb e he
  exact ⟨(minL_le h4 f hf).trans hb1, hb2.trans (maxL_ge h5 la hl)⟩

/-- the range is not wider than necessary: its ends are a first edge and a last edge -/
theorem range_tight {ceil : α → Int} {w2p : List (List α)} {mbpp : Nat} {s : Settings α}
    (h : spectralSettings ceil w2p mbpp = some s) :
    (∃ arr ∈ w2p, arr.head? = some s.minW) ∧ (∃ arr ∈ w2p, arr.getLast? = some s.maxW) := by
  obtain ⟨firsts, lasts, widths, w, h1, h2, _, h4, h5, _, _, _⟩ := spectralSettings_unfold h
  exact ⟨(optAll_map_mem h1).2 _ (minL_mem h4), (optAll_map_mem h2).2 _ (maxL_mem h5)⟩

/-- the raytracing step is the narrowest pixel divided by `min_bins_per_pixel` -/
theorem step_is_narrowest {ceil : α → Int} {w2p : List (List α)} {mbpp : Nat} {s : Settings α}
    (h : spectralSettings ceil w2p mbpp = some s) :
    (∃ arr ∈ w2p, ∃ d ∈ diffs arr, s.step = d / (mbpp : α)) ∧
    (0 < mbpp → ∀ arr ∈ w2p, ∀ d ∈ diffs arr, s.step ≤ d / (mbpp : α)) := by
  obtain ⟨firsts, lasts, widths, w, _, _, h3, _, _, h6, h7, _⟩ := spectralSettings_unfold h
  constructor
  · obtain ⟨arr, harr, hw⟩ := (optAll_map_mem h3).2 w (minL_mem h6)
    exact ⟨arr, harr, w, minL_mem hw, h7⟩
  · intro hm arr harr d hd
    obtain ⟨w', hw', hw''⟩ := (optAll_map_mem h3).1 arr harr
    have h1 : w ≤ w' := minL_le h6 w' hw'
    have h2 : w' ≤ d := minL_le hw'' d hd
    rw [h7]
    have : (0 : α) < mbpp := by exact_mod_cast hm
    exact div_le_div_of_nonneg_right (h1.trans h2) this.le

/-- **bin width bound**: with `ceil` the real ceiling, the number of bins is positive and the width of a raytraced
spectral bin, `(max − min) / bins`, never exceeds any pixel's width divided by `min_bins_per_pixel` -/
theorem bin_width_bound [FloorRing α] {w2p : List (List α)} {mbpp : Nat} {s : Settings α}
    (hv : ValidW2P w2p) (hm : 0 < mbpp) (h : spectralSettings Int.ceil w2p mbpp = some s) :
    0 < s.bins ∧ ∀ arr ∈ w2p, ∀ d ∈ diffs arr, (s.maxW - s.minW) / (s.bins : α) ≤ d / (mbpp : α) := by
  obtain ⟨⟨arr0, harr0, d0, hd0, hstep⟩, hle⟩ := step_is_narrowest h
  obtain ⟨firsts, lasts, widths, w, h1, h2, _, h4, h5, _, _, hbins⟩ := spectralSettings_unfold h
  have hmpos : (0 : α) < mbpp := by exact_mod_cast hm
  have hd0pos : 0 < d0 := validEdges_diffs_pos arr0 (hv arr0 harr0) d0 hd0
  have hsp : 0 < s.step := by rw [hstep]; positivity
  -- the extent is at least the narrowest pixel
  obtain ⟨f, hf, hf'⟩ := (optAll_map_mem h1).1 arr0 harr0
  obtain ⟨la, hl, hl'⟩ := (optAll_map_mem h2).1 arr0 harr0
  have hext : d0 ≤ la - f := diffs_le_extent arr0 (hv arr0 harr0) f la hf' hl' d0 hd0
  have hrange : 0 < s.maxW - s.minW := by
    have := minL_le h4 f hf
    have := maxL_ge h5 la hl
    linarith
  have hq : 0 < (s.maxW - s.minW) / s.step := div_pos hrange hsp
  have hbpos : 0 < s.bins := by rw [hbins]; exact Int.ceil_pos.mpr hq
  refine ⟨hbpos, ?_⟩
  intro arr harr d hd
  have hbα : (0 : α) < (s.bins : α) := by exact_mod_cast hbpos
  have hceil : (s.maxW - s.minW) / s.step ≤ (s.bins : α) := by rw [hbins]; exact Int.le_ceil _
  have h3 : (s.maxW - s.minW) / (s.bins : α) ≤ s.step := by
    rw [div_le_iff₀ hbα]
    rw [div_le_iff₀ hsp] at hceil
    linarith [mul_comm (s.bins : α) s.step]
  exact h3.trans (hle hm arr harr d hd)

/-- the bin count is the least that achieves the step: one bin fewer would be too coarse -/
theorem bins_minimal [FloorRing α] {w2p : List (List α)} {mbpp : Nat} {s : Settings α}
    (hv : ValidW2P w2p) (hm : 0 < mbpp) (h : spectralSettings Int.ceil w2p mbpp = some s) :
    ((s.bins : α) - 1) * s.step < s.maxW - s.minW := by
  obtain ⟨⟨arr0, harr0, d0, hd0, hstep⟩, _⟩ := step_is_narrowest h
  obtain ⟨_, _, _, _, _, _, _, _, _, _, _, hbins⟩ := spectralSettings_unfold h
  have hmpos : (0 : α) < mbpp := by exact_mod_cast hm
  have hd0pos : 0 < d0 := validEdges_diffs_pos arr0 (hv arr0 harr0) d0 hd0
  have hsp : 0 < s.step := by rw [hstep]; positivity
  have := Int.ceil_lt_add_one ((s.maxW - s.minW) / s.step)
  rw [← hbins] at this
  have h2 : (s.bins : α) - 1 < (s.maxW - s.minW) / s.step := by linarith
  rwa [lt_div_iff₀ hsp] at h2

/-- a non-empty tuple of valid arrays always yields settings (no ValueError) -/
theorem settings_exist (ceil : α → Int) {w2p : List (List α)} (mbpp : Nat) (hv : ValidW2P w2p) (hne : w2p ≠ []) :
    ∃ s, spectralSettings ceil w2p mbpp = some s := by
  obtain ⟨firsts, h1, n1⟩ := optAll_map_exists List.head? w2p (fun arr ha => by
    cases arr with
    | nil => exact absurd rfl (valid_ne_nil (hv _ ha))
    | cons x xs => exact ⟨x, rfl⟩)
  obtain ⟨lasts, h2, n2⟩ := optAll_map_exists List.getLast? w2p (fun arr ha => by
    have := valid_ne_nil (hv _ ha)
    exact ⟨arr.getLast this, List.getLast?_eq_some_getLast this⟩)
  obtain ⟨widths, h3, n3⟩ := optAll_map_exists (fun a => minL (diffs a)) w2p (fun arr ha =>
    minL_exists (diffs_ne_nil_of_valid arr (hv _ ha)))
  obtain ⟨mn, h4⟩ := minL_exists (n1 hne)
  obtain ⟨mx, h5⟩ := maxL_exists (n2 hne)
  obtain ⟨w, h6⟩ := minL_exists (n3 hne)
  exact ⟨⟨mn, mx, w / (mbpp : α), ceil ((mx - mn) / (w / (mbpp : α)))⟩, by
    simp only [spectralSettings, h1, h2, h3, h4, h5, h6]⟩


/-! ### polychromator -/

/-- a filter as the polychromator sees it: a non-degenerate window -/
def ValidFilter (f : PFilter α) : Prop := f.minW < f.maxW ∧ 0 < f.window

/-- **the range covers every filter** (whatever stands in for `numpy.inf`) -/
theorem range_covers_filters (ceil : α → Int) (inf : α) (fs : List (PFilter α)) (mbpw : Nat) :
    ∀ f ∈ fs, (polySettings ceil inf fs mbpw).minW ≤ f.minW ∧ f.maxW ≤ (polySettings ceil inf fs mbpw).maxW := by
  intro f hf
  have := ((poly_fold_bounds mbpw fs (inf, inf, 0)).2.1 f hf)
  exact ⟨this.2.1, this.2.2⟩

/-- the step resolves every filter window with at least `min_bins_per_window` bins -/
theorem poly_step_bound (ceil : α → Int) (inf : α) (fs : List (PFilter α)) (mbpw : Nat) :
    ∀ f ∈ fs, (polySettings ceil inf fs mbpw).step ≤ f.window / (mbpw : α) := by
  intro f hf
  exact ((poly_fold_bounds mbpw fs (inf, inf, 0)).2.1 f hf).1

/-- with `inf` at least as large as every filter quantity and filters at positive wavelengths, the range is exactly
the hull of the filters and the step is the narrowest window over `min_bins_per_window` -/
theorem poly_range_tight (ceil : α → Int) (inf : α) (fs : List (PFilter α)) (mbpw : Nat) (hne : fs ≠ [])
    (hinf : ∀ f ∈ fs, f.minW ≤ inf ∧ f.window / (mbpw : α) ≤ inf) (hpos : ∀ f ∈ fs, 0 ≤ f.maxW) :
    (∃ f ∈ fs, (polySettings ceil inf fs mbpw).minW = f.minW) ∧
    (∃ f ∈ fs, (polySettings ceil inf fs mbpw).maxW = f.maxW) ∧
    (∃ f ∈ fs, (polySettings ceil inf fs mbpw).step = f.window / (mbpw : α)) := by
  obtain ⟨_, hall, m1, m2, m3⟩ := poly_fold_bounds mbpw fs (inf, inf, 0)
  obtain ⟨g, hg⟩ := List.exists_mem_of_ne_nil fs hne
  refine ⟨?_, ?_, ?_⟩
  · rcases m2 with h | h
    · exact ⟨g, hg, le_antisymm (hall g hg).2.1 (by rw [polySettings_eq]; simp only [polyAcc]; rw [h]; exact (hinf g hg).1)⟩
    · exact h
  · rcases m3 with h | h
    · exact ⟨g, hg, le_antisymm (by rw [polySettings_eq]; simp only [polyAcc]; rw [h]; exact hpos g hg) (hall g hg).2.2⟩
    · exact h
  · rcases m1 with h | h
    · exact ⟨g, hg, le_antisymm (hall g hg).1 (by rw [polySettings_eq]; simp only [polyAcc]; rw [h]; exact (hinf g hg).2)⟩
    · exact h

/-- **bin width bound, polychromator**: positive bin count, and a raytraced bin is never wider than any filter window
divided by `min_bins_per_window` -/
theorem poly_bin_width_bound [FloorRing α] (inf : α) (hinf : 0 < inf) (fs : List (PFilter α)) (mbpw : Nat) (hm : 0 < mbpw)
    (hne : fs ≠ []) (hv : ∀ f ∈ fs, ValidFilter f) :
    let s := polySettings Int.ceil inf fs mbpw
    0 < s.bins ∧ ∀ f ∈ fs, (s.maxW - s.minW) / (s.bins : α) ≤ f.window / (mbpw : α) := by
  intro s
  obtain ⟨_, hall, m1, _, _⟩ := poly_fold_bounds mbpw fs (inf, inf, 0)
  have hmpos : (0 : α) < mbpw := by exact_mod_cast hm
  have hsp : 0 < s.step := by
    show 0 < (polyAcc inf fs mbpw).1
    rcases m1 with h | ⟨f, hf, h⟩
    · simp only [polyAcc]; rw [h]; exact hinf
    · simp only [polyAcc]; rw [h]; have := (hv f hf).2; positivity
  obtain ⟨g, hg⟩ := List.exists_mem_of_ne_nil fs hne
  have hrange : 0 < s.maxW - s.minW := by
    have h1 : s.minW ≤ g.minW := (hall g hg).2.1
    have h2 : g.maxW ≤ s.maxW := (hall g hg).2.2
    have := (hv g hg).1
    linarith
  have hbins : s.bins = Int.ceil ((s.maxW - s.minW) / s.step) := rfl
  have hq : 0 < (s.maxW - s.minW) / s.step := div_pos hrange hsp
  have hbpos : 0 < s.bins := by rw [hbins]; exact Int.ceil_pos.mpr hq
  refine ⟨hbpos, ?_⟩
  intro f hf
  have hbα : (0 : α) < (s.bins : α) := by exact_mod_cast hbpos
  have hceil : (s.maxW - s.minW) / s.step ≤ (s.bins : α) := by rw [hbins]; exact Int.le_ceil _
  have h3 : (s.maxW - s.minW) / (s.bins : α) ≤ s.step := by
    rw [div_le_iff₀ hbα]
    rw [div_le_iff₀ hsp] at hceil
    linarith [mul_comm (s.bins : α) s.step]
  exact h3.trans (hall f hf).1

/-- a trapezoidal filter spans `window` around its centre -/
theorem trapezoid_spec (c w : α) (hw : 0 < w) :
    (trapezoid c w).minW = c - w / 2 ∧ (trapezoid c w).maxW = c + w / 2 ∧ (trapezoid c w).window = w ∧
    ValidFilter (trapezoid c w) := by
  have h5 : (0.5 : α) = 1 / 2 := by norm_num
  simp only [trapezoid, filterOf, ValidFilter, h5]
  refine ⟨by ring, by ring, by ring, by linarith, by linarith⟩



/-- **lower bound on the bin count, spectrometer**: the range is resolved with at least `min_bins_per_pixel` bins per
pixel width — for every pixel of every array, hence for the narrowest one -/
theorem bins_lower_bound [FloorRing α] {w2p : List (List α)} {mbpp : Nat} {s : Settings α}
    (hv : ValidW2P w2p) (hm : 0 < mbpp) (h : spectralSettings Int.ceil w2p mbpp = some s) :
    ∀ arr ∈ w2p, ∀ d ∈ diffs arr, (mbpp : α) * (s.maxW - s.minW) / d ≤ (s.bins : α) := by
  obtain ⟨hb, hall⟩ := bin_width_bound hv hm h
  intro arr harr d hd
  have hd0 : 0 < d := validEdges_diffs_pos arr (hv arr harr) d hd
  have hbα : (0 : α) < (s.bins : α) := by exact_mod_cast hb
  have hmα : (0 : α) < mbpp := by exact_mod_cast hm
  have := hall arr harr d hd
  rw [div_le_div_iff₀ hbα hmα] at this
  rw [div_le_iff₀ hd0]
  linarith [mul_comm (s.bins : α) d]

/-- **lower bound on the bin count, polychromator**, for arbitrary filter lists: at least `min_bins_per_window` bins per
window width over the whole range — for every filter, hence for the narrowest window -/
theorem poly_bins_lower_bound [FloorRing α] (inf : α) (hinf : 0 < inf) (fs : List (PFilter α)) (mbpw : Nat) (hm : 0 < mbpw)
    (hne : fs ≠ []) (hv : ∀ f ∈ fs, ValidFilter f) :
    let s := polySettings Int.ceil inf fs mbpw
    ∀ f ∈ fs, (mbpw : α) * (s.maxW - s.minW) / f.window ≤ (s.bins : α) := by
  intro s f hf
  obtain ⟨hb, hall⟩ := poly_bin_width_bound inf hinf fs mbpw hm hne hv
  have hw : 0 < f.window := (hv f hf).2
  have hbα : (0 : α) < (s.bins : α) := by exact_mod_cast hb
  have hmα : (0 : α) < mbpw := by exact_mod_cast hm
  have := hall f hf
  rw [div_le_div_iff₀ hbα hmα] at this
  rw [div_le_iff₀ hw]
  linarith [mul_comm (s.bins : α) f.window]

/-- **a filter's range does not depend on the order in which its wavelengths are tabulated** -/
theorem filterOfTab_perm (ws ws' : List α) (h : ws.Perm ws') : filterOfTab ws = filterOfTab ws' := by
  unfold filterOfTab; rw [sorted_eq_of_perm ws ws' h]

/-- … it is `[min, max]` of the tabulated wavelengths, both attained, the window is their difference, and any non-empty
table yields a filter -/
theorem filterOfTab_spec (ws : List α) :
    (ws ≠ [] → ∃ f, filterOfTab ws = some f) ∧
    ∀ f, filterOfTab ws = some f →
      f.minW ∈ ws ∧ f.maxW ∈ ws ∧ f.window = f.maxW - f.minW ∧ ∀ w ∈ ws, f.minW ≤ w ∧ w ≤ f.maxW := by
  have hp := List.mergeSort_perm ws (fun a b => decide (a ≤ b))
  have hs : (ws.mergeSort (fun a b => decide (a ≤ b))).Pairwise (fun a b => decide (a ≤ b) = true) :=
    List.pairwise_mergeSort (fun a b c h1 h2 => by simp at *; exact le_trans h1 h2)
      (fun a b => by simp; exact le_total a b) ws
  constructor
  · intro hne
    unfold filterOfTab
    have : ws.mergeSort (fun a b => decide (a ≤ b)) ≠ [] := by
      intro h0; rw [h0] at hp; exact hne (List.Perm.eq_nil hp.symm)
    cases hsrt : ws.mergeSort (fun a b => decide (a ≤ b)) with
    | nil => exact absurd hsrt this
    | cons a t => simp only [List.head?_cons]; rw [List.getLast?_eq_some_getLast (by simp)]; exact ⟨_, rfl⟩
  · intro f hf
    unfold filterOfTab at hf
    generalize hsrt : ws.mergeSort (fun a b => decide (a ≤ b)) = srt at hf hp hs
    cases srt with
    | nil => simp at hf
    | cons a t =>
      have hl : (a :: t).getLast? = some ((a :: t).getLast (by simp)) := List.getLast?_eq_some_getLast (by simp)
      simp only [List.head?_cons, hl, Option.some.injEq] at hf
      subst hf
      have hmem : ∀ w, w ∈ ws ↔ w ∈ a :: t := fun w => (hp.mem_iff).symm
      have hlast_mem : (a :: t).getLast (by simp) ∈ a :: t := List.getLast_mem _
      refine ⟨(hmem _).2 (by simp [filterOf]), (hmem _).2 (by simpa [filterOf] using hlast_mem), rfl, ?_⟩
      intro w hw
      have hw' := (hmem w).1 hw
      simp only [filterOf]
      constructor
      · rcases List.mem_cons.mp hw' with rfl | hw''
        · exact le_refl _
        · have := (List.pairwise_cons.mp hs).1 w hw''; simp at this; exact this
      · -- every element is ≤ the last one of a sorted list
        have key : ∀ (l : List α) (hne : l ≠ []), l.Pairwise (fun a b => decide (a ≤ b) = true) →
            ∀ w ∈ l, w ≤ l.getLast hne := by
          intro l
          induction l with
          | nil => intro hne; exact absurd rfl hne
          | cons b r ih =>
            intro hne hpw w hw
            cases r with
            | nil => simp at hw; subst hw; simp
            | cons c r' =>
              rw [List.getLast_cons (by simp)]
              have hpw' := List.pairwise_cons.mp hpw
              rcases List.mem_cons.mp hw with rfl | hw'
              · have h1 : w ≤ c := by simpa using hpw'.1 c (by simp)
                exact h1.trans (ih (by simp) hpw'.2 c (by simp))
              · exact ih (by simp) hpw'.2 w hw'
        exact key (a :: t) (by simp) hs w hw'


/-! ### Czerny-Turner -/

theorem ct_edges_length (res : α → α) (w0 : α) (n : Nat) : (ctEdges res w0 n).length = n + 1 := by
  induction n generalizing w0 with
  | zero => rfl
  | succ k ih => simp [ctEdges, ih]

theorem ct_edges_head (res : α → α) (w0 : α) (n : Nat) : (ctEdges res w0 n).head? = some w0 := by
  cases n <;> rfl

/-- each pixel is as wide as the resolution at its lower edge -/
theorem ct_edges_pixels (res : α → α) (w0 : α) (n : Nat) :
    ∀ p ∈ pixels (ctEdges res w0 n), p.2 = p.1 + res p.1 := by
  induction n generalizing w0 with
  | zero => simp [ctEdges, pixels]
  | succ k ih =>
    intro p hp
    cases k with
    | zero =>
      simp only [ctEdges, pixels, List.mem_cons, List.not_mem_nil, or_false] at hp
      subst hp; rfl
    | succ j =>
      have hstep : ctEdges res w0 (j + 1 + 1) = w0 :: ctEdges res (w0 + res w0) (j + 1) := rfl
      have hnext : ctEdges res (w0 + res w0) (j + 1) = (w0 + res w0) :: ctEdges res (w0 + res w0 + res (w0 + res w0)) j := rfl
      rw [hstep, hnext, pixels, List.mem_cons] at hp
      rcases hp with rfl | hp
      · rfl
      · rw [← hnext] at hp
        exact ih (w0 + res w0) p hp

/-- **Czerny-Turner edges are strictly increasing** when the resolution is positive: the generated arrays satisfy the
validation of `Spectrometer.wavelength_to_pixel` (so `range_covers_pixels`, `bin_width_bound` apply to them) -/
theorem ct_edges_increasing (res : α → α) (hres : ∀ w, 0 < res w) (w0 : α) (n : Nat) (hn : 0 < n) :
    validEdges (ctEdges res w0 n) = true := by
  induction n generalizing w0 with
  | zero => omega
  | succ k ih =>
    cases k with
    | zero => simp [ctEdges, validEdges, hres]
    | succ j =>
      have hstep : ctEdges res w0 (j + 1 + 1) = w0 :: ctEdges res (w0 + res w0) (j + 1) := rfl
      have hnext : ctEdges res (w0 + res w0) (j + 1) = (w0 + res w0) :: ctEdges res (w0 + res w0 + res (w0 + res w0)) j := rfl
      have := ih (w0 + res w0) (by omega)
      rw [hstep, hnext]
      rw [hnext] at this
      cases j with
      | zero =>
        simp only [ctEdges, validEdges, Bool.and_eq_true, decide_eq_true_eq]
        exact ⟨by linarith [hres w0], by linarith [hres (w0 + res w0)]⟩
      | succ i =>
        have h3 : ctEdges res (w0 + res w0 + res (w0 + res w0)) (i + 1) =
          (w0 + res w0 + res (w0 + res w0)) :: ctEdges res (w0 + res w0 + res (w0 + res w0) + res (w0 + res w0 + res (w0 + res w0))) i := rfl
        rw [h3] at this ⊢
        simp only [validEdges, Bool.and_eq_true, decide_eq_true_eq] at this ⊢
        exact ⟨by linarith [hres w0], this⟩

/-- the resolution formula is positive on the physical branch: `0 < p < cos²(angle)` with `p = ½·m·g·λ`
(`sqrt` any function that squares back on non-negatives, `tanA = sinA / cosA`, `sinA² + cosA² = 1`) -/
theorem ct_resolution_pos (sqrt : α → α) (hs : ∀ x, 0 ≤ x → 0 ≤ sqrt x ∧ sqrt x * sqrt x = x)
    (cosA sinA grating m dxdp fl wl : α) (hc : 0 < cosA) (htrig : sinA * sinA + cosA * cosA = 1)
    (hg : 0 < grating) (hm : 0 < m) (hd : 0 < dxdp) (hf : 0 < fl) (hw : 0 < wl)
    (hp : 0.5 * m * grating * wl < cosA * cosA) :
    0 < ctResolution sqrt cosA (sinA / cosA) grating m dxdp fl wl := by
  unfold ctResolution
  set p := 0.5 * m * grating * wl with hpdef
  have hp0 : 0 < p := by
    have : (0.5 : α) = 1 / 2 := by norm_num
    rw [hpdef, this]; positivity
  have hc1 : cosA * cosA ≤ 1 := by nlinarith [mul_self_nonneg sinA]
  have hpc : p < cosA := by nlinarith
  have hrad : 0 ≤ cosA * cosA - p * p := by nlinarith
  obtain ⟨hs0, hs1⟩ := hs _ hrad
  -- sqrt(cos² − p²) > p·sin/cos  ⇔  cos²(cos² − p²) > p² sin²  ⇔  cos⁴ > p²
  have key : p * (sinA / cosA) < sqrt (cosA * cosA - p * p) := by
    rw [mul_div_assoc', div_lt_iff₀ hc]
    by_contra hcon
    push Not at hcon
    have h1 : (sqrt (cosA * cosA - p * p) * cosA) * (sqrt (cosA * cosA - p * p) * cosA) ≤ (p * sinA) * (p * sinA) := by
      apply mul_self_le_mul_self _ hcon
      positivity
    have h2 : (sqrt (cosA * cosA - p * p) * cosA) * (sqrt (cosA * cosA - p * p) * cosA)
        = (cosA * cosA - p * p) * (cosA * cosA) := by
      calc (sqrt (cosA * cosA - p * p) * cosA) * (sqrt (cosA * cosA - p * p) * cosA)
          = (sqrt (cosA * cosA - p * p) * sqrt (cosA * cosA - p * p)) * (cosA * cosA) := by ring
        _ = (cosA * cosA - p * p) * (cosA * cosA) := by rw [hs1]
    have h3 : (p * sinA) * (p * sinA) = p * p * (1 - cosA * cosA) := by
      rw [← htrig]; ring
    rw [h2, h3] at h1
    have : p * p < (cosA * cosA) * (cosA * cosA) := by nlinarith
    nlinarith
  have : 0 < sqrt (cosA * cosA - p * p) - p * (sinA / cosA) := by linarith
  positivity

/-- … and on the obtuse branch (angle between 90° and 180°: `cos < 0 < sin`, so `tan < 0` and the pixel width *grows*
with wavelength) it is positive as soon as the square root is defined, `p² ≤ cos²` -/
theorem ct_resolution_pos_obtuse (sqrt : α → α) (hs : ∀ x, 0 ≤ x → 0 ≤ sqrt x ∧ sqrt x * sqrt x = x)
    (cosA sinA grating m dxdp fl wl : α) (hc : cosA < 0) (hsin : 0 < sinA)
    (hg : 0 < grating) (hm : 0 < m) (hd : 0 < dxdp) (hf : 0 < fl) (hw : 0 < wl)
    (hp : (0.5 * m * grating * wl) * (0.5 * m * grating * wl) ≤ cosA * cosA) :
    0 < ctResolution sqrt cosA (sinA / cosA) grating m dxdp fl wl := by
  unfold ctResolution
  set p := 0.5 * m * grating * wl with hpdef
  have hp0 : 0 < p := by
    have : (0.5 : α) = 1 / 2 := by norm_num
    rw [hpdef, this]; positivity
  obtain ⟨hs0, _⟩ := hs (cosA * cosA - p * p) (by linarith)
  have htan : sinA / cosA < 0 := div_neg_of_pos_of_neg hsin hc
  have : 0 < sqrt (cosA * cosA - p * p) - p * (sinA / cosA) := by nlinarith
  positivity

/-! ### pixel centres -/

theorem centres_length (l : List α) : (centres l).length = (pixels l).length := by
  induction l with
  | nil => rfl
  | cons a t ih =>
    cases t with
    | nil => rfl
    | cons b r => simp only [centres, pixels, List.length_cons] at ih ⊢; rw [ih]

/-- `wavelengths`: the i-th centre lies strictly inside the i-th pixel (midpoint) -/
theorem centres_inside : ∀ (l : List α), validEdges l = true →
    ∀ cp ∈ (centres l).zip (pixels l), cp.1 = (cp.2.1 + cp.2.2) / 2 ∧ cp.2.1 < cp.1 ∧ cp.1 < cp.2.2
  | [], h => by simp [validEdges] at h
  | [_], h => by simp [validEdges] at h
  | a :: b :: rest, h => by
    obtain ⟨hab, hr⟩ := validEdges_cons h
    intro cp hcp
    simp only [centres, pixels, List.zip_cons_cons, List.mem_cons] at hcp
    have h5 : (0.5 : α) = 1 / 2 := by norm_num
    rcases hcp with rfl | hcp
    · simp only [h5]
      refine ⟨by ring, by linarith, by linarith⟩
    · rcases hr with rfl | hr
      · simp [centres, pixels] at hcp
      · exact centres_inside (b :: rest) hr cp hcp

/-! ### calibrate -/

theorem calibrate_length (I : α → α → α) (l : List α) : (calibrateEdges I l).length = (pixels l).length := by
  induction l with
  | nil => rfl
  | cons a t ih =>
    cases t with
    | nil => rfl
    | cons b r => simp only [calibrateEdges, pixels, List.length_cons] at ih ⊢; rw [ih]

/-- **calibration conserves the spectrum pixel by pixel**: value × width = the spectrum's integral over the pixel,
for any pixel layout with distinct consecutive edges and any `integrate` (any source binning) -/
theorem calibrate_conserves (I : α → α → α) : ∀ (l : List α), validEdges l = true →
    ∀ vp ∈ (calibrateEdges I l).zip (pixels l), vp.1 * (vp.2.2 - vp.2.1) = I vp.2.1 vp.2.2
  | [], h => by simp [validEdges] at h
  | [_], h => by simp [validEdges] at h
  | a :: b :: rest, h => by
    obtain ⟨hab, hr⟩ := validEdges_cons h
    intro vp hvp
    simp only [calibrateEdges, pixels, List.zip_cons_cons, List.mem_cons] at hvp
    rcases hvp with rfl | hvp
    · have : b - a ≠ 0 := by linarith [sub_pos.mpr hab] |> ne_of_gt
      simp only
      field_simp
    · rcases hr with rfl | hr
      · simp [calibrateEdges, pixels] at hvp
      · exact calibrate_conserves I (b :: rest) hr vp hvp

/-- `integrate` is additive over adjacent intervals -/
def Additive (I : α → α → α) : Prop := ∀ a b c, a ≤ b → b ≤ c → I a c = I a b + I b c

/-- **… and in total**: Σ value_i · width_i = integrate(e_0, e_n) for an additive `integrate` -/
theorem calibrate_total (I : α → α → α) (hI : Additive I) : ∀ (l : List α), validEdges l = true →
    ∀ f la, l.head? = some f → l.getLast? = some la → weightedSum (calibrateEdges I l) l = I f la
  | [], h => by simp [validEdges] at h
  | [_], h => by simp [validEdges] at h
  | a :: b :: rest, h => by
    intro f la hf hl
    obtain ⟨hab, hr⟩ := validEdges_cons h
    simp only [List.head?_cons, Option.some.injEq] at hf
    subst hf
    have hne : b - a ≠ 0 := ne_of_gt (sub_pos.mpr hab)
    rcases hr with rfl | hr
    · simp at hl; subst hl
      simp only [calibrateEdges, weightedSum]
      field_simp
      ring
    · have hl' : (b :: rest).getLast? = some la := by
        rw [List.getLast?_cons_cons] at hl; exact hl
      obtain ⟨hbl, _⟩ := validEdges_bounds (b :: rest) hr b la rfl hl'
      have ih := calibrate_total I hI (b :: rest) hr b la rfl hl'
      simp only [calibrateEdges, weightedSum]
      rw [ih, hI a b la hab.le hbl.le]
      field_simp

/-- `Spectrometer.calibrate`: raises exactly when the spectrum is narrower than the instrument, otherwise one
calibrated array per accommodated spectrum, one value per pixel -/
theorem calibrate_guard (I : α → α → α) (smin smax imin imax : α) (w2p : List (List α)) :
    (calibrate I smin smax imin imax w2p = none ↔ (imin < smin ∨ smax < imax)) ∧
    (∀ r, calibrate I smin smax imin imax w2p = some r → r = w2p.map (calibrateEdges I)) := by
  unfold calibrate
  split_ifs with h
  · simp [h]
  · simp [h]


/-- the arrays a Czerny-Turner spectrometer generates for `(min_wavelength, pixels)` pairs with `pixels ≥ 1` are
accepted layouts, so everything proved for `Spectrometer` settings holds for them -/
theorem ct_valid_w2p (res : α → α) (hres : ∀ w, 0 < res w) (acc : List (α × Nat)) (hacc : ∀ a ∈ acc, 0 < a.2) :
    ValidW2P (acc.map fun a => ctEdges res a.1 a.2) := by
  intro arr harr
  obtain ⟨a, ha, rfl⟩ := List.mem_map.mp harr
  exact ct_edges_increasing res hres a.1 a.2 (hacc a ha)

/-! ### pipelines -/

/-- one pipeline (class and keyword set) per filter, in filter order, named `instrument: filter` -/
theorem poly_pipelines (name : String) (filters : List String) :
    (polyPipelineNames name filters).length = filters.length ∧
    ∀ i (h : i < filters.length), (polyPipelineNames name filters)[i]? = some (name ++ ": " ++ filters[i]) := by
  constructor
  · simp [polyPipelineNames]
  · intro i h; simp [polyPipelineNames, h]

/-! ## non-vacuity -/

/-- the docstring example of `Spectrometer`, min_bins_per_pixel = 2 (the value test_spectral_properties expects) -/
example : (spectralSettings Int.ceil [[400, 400.5, 401.5, 402, 404], [600, 600.5, 601.5, 602, 604, (607 : ℚ)]] 2).map
    (fun s => (s.minW, s.maxW, s.step, s.bins)) = some (400, 607, 1 / 4, 828) := by
  norm_num [spectralSettings, optAll, minL, maxL, diffs, pmin, pmax, List.getLast?]

example : ValidW2P [[400, 400.5, 401.5, 402, 404], [600, 600.5, 601.5, 602, 604, (607 : ℚ)]] := by
  intro arr h
  simp only [List.mem_cons, List.not_mem_nil, or_false] at h
  rcases h with rfl | rfl <;> norm_num [validEdges]

/-- a constant spectral density is an additive `integrate`; calibrating it returns the density in every pixel -/
example : Additive (fun a b : ℚ => 3 * (b - a)) := by intro a b c _ _; ring
example : calibrateEdges (fun a b : ℚ => 3 * (b - a)) [1, 2, 4, 7] = [3, 3, 3] := by
  norm_num [calibrateEdges]

example : ctEdges (fun _ : ℚ => 1 / 2) 600 3 = [600, 1201 / 2, 601, 1203 / 2] := by norm_num [ctEdges]

/-- the hypotheses of `ct_resolution_pos` are satisfiable over ℝ with the real square root
(angle with cos = 4/5, sin = 3/5; grating 2·10⁻³ nm⁻¹, first order, 600 nm: p = 0.6 < cos² = 0.64) -/
example : 0 < ctResolution Real.sqrt (4 / 5 : ℝ) ((3 / 5) / (4 / 5)) (1 / 500) 1 20000 1000000000 600 := by
  apply ct_resolution_pos Real.sqrt (fun x hx => ⟨Real.sqrt_nonneg x, Real.mul_self_sqrt hx⟩) (4 / 5) (3 / 5)
  all_goals norm_num

/-- obtuse branch, non-vacuity: cos = -4/5, sin = 3/5, p = 0.6 -/
example : 0 < ctResolution Real.sqrt (-4 / 5 : ℝ) ((3 / 5) / (-4 / 5)) (1 / 500) 1 20000 1000000000 600 := by
  apply ct_resolution_pos_obtuse Real.sqrt (fun x hx => ⟨Real.sqrt_nonneg x, Real.mul_self_sqrt hx⟩) (-4 / 5) (3 / 5)
  all_goals norm_num

/-- the two filters of test_spectral_properties: range (397, 704), 512 bins at 10 bins per window -/
example : (fun s : Settings ℚ => (s.minW, s.maxW, s.bins))
    (polySettings Int.ceil 1000000 [trapezoid 400 6, trapezoid 700 8] 10) = (397, 704, 512) := by
  norm_num [polySettings, trapezoid, filterOf, pmin, pmax]


/-- non-vacuity of the new statements -/
example : filterOfTab [658, 654, (656 : ℚ)] = filterOfTab [654, 656, 658] :=
  filterOfTab_perm _ _ (by decide)

example : ∃ f, filterOfTab [658, 654, (656 : ℚ)] = some f ∧ ∀ w ∈ [658, 654, (656 : ℚ)], f.minW ≤ w ∧ w ≤ f.maxW := by
  obtain ⟨f, hf⟩ := (filterOfTab_spec [658, 654, (656 : ℚ)]).1 (by simp)
  exact ⟨f, hf, ((filterOfTab_spec _).2 f hf).2.2.2⟩

/-- a rejected assignment: non-positive grating -/
example (x : CTExt ℚ) (s : CTState ℚ) : (ctStep x s (.setGrating (-1))).2 = .valueError ∧ (ctStep x s (.setGrating (-1))).1 = s := by
  constructor <;> simp [ctStep]

/-- a history on which the theorem says something: the cached settings are dropped by `setGrating` -/
example (x : CTExt ℚ) (p : CTParams ℚ) :
    (ctRun x (ctFresh x p) [.getBins, .setGrating 2]).settings = none ∧
    (ctRun x (ctFresh x p) [.getBins, .setGrating 2]).p.grating = 2 := by
  constructor <;> norm_num [ctRun, ctStep, ctRefresh]

/-- a protocol in which `Covered` holds and one in which it fails (the witness history is stale) -/
example : Inval.Covered (⟨fun _ => [0], fun _ => [0]⟩ : Inval.Proto (Fin 1) (Fin 1)) := by
  intro c p _; simp; omega

example : ¬ Inval.Covered (⟨fun _ => [0], fun _ => []⟩ : Inval.Proto (Fin 1) (Fin 1)) := by
  intro h; simpa using h 0 0 (by simp)

/-- … and there the history `[obs c, set p, obs c]` does return a stale value -/
example :
    let pr : Inval.Proto (Fin 1) (Fin 1) := ⟨fun _ => [0], fun _ => []⟩
    let s := Inval.run pr Inval.init [.obs 0, .set 0]
    (Inval.step pr s (.obs 0)).2 ≠ some ((pr.deps 0).map s.ver) :=
  Inval.stale_witness _ 0 0 (by simp) (by simp)

end Cherab.Props.C16
