# Redirects the editable install of cherab (/repo) to the worktree named by CHERAB_WT.  Used only by the seeded-change
# tools (tools/seedeval.sh …); the registered checks never set CHERAB_WT.
import os, sys
_wt = os.environ.get('CHERAB_WT')
if _wt:
    _p = os.path.join(_wt, 'cherab')
    try:
        import __editable___cherab_1_5_0_finder as _f
        _f.MAPPING['cherab'] = _p
    except Exception:
        pass
    _m = sys.modules.get('cherab')
    if _m is not None:
        try:
            _m.__path__ = [_p]
        except Exception:
            pass
