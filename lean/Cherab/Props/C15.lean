import Cherab.Model.Groups
import Cherab.Lemmas.Groups

/-!
# C15 — observer groups broadcast settings faithfully and keep members consistent

Property theorems over the descriptor interpreter of `Cherab.Model.Groups`, for **every** descriptor that satisfies the
decidable well-formedness predicate (`wfBroadcast`, or the documented special shapes `wfSeqOnly` = `names`,
`wfLenOnly` = `pipelines`, `wfAllSeq` = `targets`), every world (group + heap of observers), every value and every
history.  That the descriptors generated from /repo *are* well-formed is `Cherab.Props.C15Table.table_wf`.

Member-level behaviour (raysect's own attribute setters) is a parameter: `Obj.rej` / `Obj.stored`.
-/
namespace Cherab.Props.C15
open Cherab.Groups

/-! ## The broadcast laws (property clauses 1–4) for every well-formed descriptor -/

/-- **clause 1 — a single value reaches every member.**  `value` is not one of the sequence kinds the setter names and
the member's own setter accepts it: no exception, every member's attribute holds the value, nothing else changed. -/
theorem wf_scalar_broadcast (d : Descriptor) (hwf : d.wfBroadcast = true) (w : World) (v : Val)
    (hk : ¬ IsSeq d v) (hok : Passes (scalarChk d) v.obj) :
    (setAttr d w v).2 = none ∧
    Wrote (memberAttr d) w (setAttr d w v).1 (List.replicate w.members.length v.obj.stored) ∧
    ∀ u ∈ w.members, ((setAttr d w v).1.heap u).attrs (memberAttr d) = v.obj.stored := by
  obtain ⟨s, ks, chk, err, h⟩ := wfBroadcast_unpack d hwf
  have hk' : kindIn v.obj.kind ks = false := by simpa [IsSeq, h.kindsOf] using hk
  rw [h.scalarChk] at hok
  rw [h.run, hk']
  simp only [Bool.false_eq_true, if_false]
  obtain ⟨h1, h2⟩ := elseBranch_broadcast_ok s _ chk err h.orelse w v hok
  exact ⟨h1, h2, h2.each⟩

/-- **clause 2 — a sequence of group length is assigned element-wise** (members distinct). -/
theorem wf_elementwise (d : Descriptor) (hwf : d.wfBroadcast = true) (w : World) (v : Val)
    (hk : IsSeq d v) (hlen : v.items.length = w.members.length)
    (hok : ∀ o ∈ v.items, Passes (elemChk d) o) (hnd : w.members.Nodup) :
    (setAttr d w v).2 = none ∧
    Wrote (memberAttr d) w (setAttr d w v).1 (v.items.map (·.stored)) ∧
    ∀ i (h1 : i < w.members.length) (h2 : i < v.items.length),
      ((setAttr d w v).1.heap w.members[i]).attrs (memberAttr d) = v.items[i].stored := by
  obtain ⟨s, ks, chk, err, h⟩ := wfBroadcast_unpack d hwf
  have hk' : kindIn v.obj.kind ks = true := by simpa [IsSeq, h.kindsOf] using hk
  rw [h.elemChk] at hok
  rw [h.run, hk']
  simp only [if_true]
  obtain ⟨h1, h2⟩ := seqBranch_ok s w v hlen hok hnd
  rw [h.seqAttr] at h2
  refine ⟨h1, h2, ?_⟩
  intro i hi1 hi2
  have := h2.nth i hi1 (by simpa using hi2)
  simpa using this

/-- **clause 3 — any other length raises `ValueError` and changes nothing** (whatever the elements are). -/
theorem wf_wrong_length (d : Descriptor) (hwf : d.wfBroadcast = true) (w : World) (v : Val)
    (hk : IsSeq d v) (hlen : v.items.length ≠ w.members.length) :
    setAttr d w v = (w, some .valueError) := by
  obtain ⟨s, ks, chk, err, h⟩ := wfBroadcast_unpack d hwf
  have hk' : kindIn v.obj.kind ks = true := by simpa [IsSeq, h.kindsOf] using hk
  rw [h.run, hk']
  simp only [if_true]
  rw [seqBranch_wrong_length s w v h.lenCheck hlen, h.lenErr]

/-- **clause 4 — reading returns the members' current values in member order.** -/
theorem wf_read (d : Descriptor) (hwf : d.wfBroadcast = true) (w : World) :
    getAttr d w = .vals (w.members.map fun u => (w.heap u).attrs (memberAttr d)) := by
  obtain ⟨s, ks, chk, err, h⟩ := wfBroadcast_unpack d hwf
  simp [getAttr, h.getter, readEach]

/-- list and tuple are always among the recognised sequence kinds -/
theorem wf_list_tuple_are_sequences (d : Descriptor) (hwf : d.wfBroadcast = true) (v : Val)
    (hv : v.obj.kind = some .list ∨ v.obj.kind = some .tuple) : IsSeq d v := by
  obtain ⟨s, ks, chk, err, h⟩ := wfBroadcast_unpack d hwf
  have hk := h.kinds
  simp only [hasListTuple, Bool.and_eq_true] at hk
  rcases hv with hv | hv
  · simpa [IsSeq, h.kindsOf, kindIn, hv] using hk.1
  · simpa [IsSeq, h.kindsOf, kindIn, hv] using hk.2

/-- a non-sequence object is never mistaken for a sequence -/
theorem wf_scalar_is_not_sequence (d : Descriptor) (v : Val) (hv : v.obj.kind = none) : ¬ IsSeq d v := by
  simp [IsSeq, kindIn, hv]

theorem wf_read_back_scalar (d : Descriptor) (hwf : d.wfBroadcast = true) (w : World) (v : Val)
    (hk : ¬ IsSeq d v) (hok : Passes (scalarChk d) v.obj) :
    getAttr d (setAttr d w v).1 = .vals (List.replicate w.members.length v.obj.stored) := by
  obtain ⟨_, hw, _⟩ := wf_scalar_broadcast d hwf w v hk hok
  rw [wf_read d hwf]
  have := hw.read
  unfold readEach at this
  rw [this]

theorem wf_read_back_elementwise (d : Descriptor) (hwf : d.wfBroadcast = true) (w : World) (v : Val)
    (hk : IsSeq d v) (hlen : v.items.length = w.members.length)
    (hok : ∀ o ∈ v.items, Passes (elemChk d) o) (hnd : w.members.Nodup) :
    getAttr d (setAttr d w v).1 = .vals (v.items.map (·.stored)) := by
  obtain ⟨_, hw, _⟩ := wf_elementwise d hwf w v hk hlen hok hnd
  rw [wf_read d hwf]
  have := hw.read
  unfold readEach at this
  rw [this]

/-! ### idempotence and last-write-wins over histories -/

/-- what an accepted assignment writes: one value per member -/
def target (d : Descriptor) (n : Nat) (v : Val) : List Nat :=
  if kindIn v.obj.kind (kindsOf d) then v.items.map (·.stored) else List.replicate n v.obj.stored

/-- the value has an admissible length for a group of `n` members -/
def lenOk (d : Descriptor) (n : Nat) (v : Val) : Bool :=
  !kindIn v.obj.kind (kindsOf d) || v.items.length == n

/-- the members' own setters accept what the group hands them -/
def Acceptable (d : Descriptor) (v : Val) : Prop :=
  (IsSeq d v → ∀ o ∈ v.items, Passes (elemChk d) o) ∧ (¬ IsSeq d v → Passes (scalarChk d) v.obj)

/-- one step of a history, seen through an arbitrary attribute `b` -/
theorem wf_step (d : Descriptor) (hwf : d.wfBroadcast = true) (w : World) (v : Val)
    (hacc : Acceptable d v) (hnd : w.members.Nodup) :
    (setAttr d w v).1.members = w.members ∧
    ∀ b, readEach (setAttr d w v).1 b =
      if memberAttr d = b ∧ lenOk d w.members.length v = true then target d w.members.length v else readEach w b := by
  by_cases hk : IsSeq d v
  · have hk' : kindIn v.obj.kind (kindsOf d) = true := hk
    by_cases hlen : v.items.length = w.members.length
    · obtain ⟨_, hw, _⟩ := wf_elementwise d hwf w v hk hlen (hacc.1 hk) hnd
      refine ⟨hw.members, ?_⟩
      intro b
      by_cases hb : memberAttr d = b
      · subst hb
        simp [lenOk, target, hk', hlen, hw.read]
      · simp only [hb, false_and, if_false]
        exact readEach_of_frame hw.members hw.frame (fun e => hb e.symm)
    · rw [wf_wrong_length d hwf w v hk hlen]
      refine ⟨rfl, ?_⟩
      intro b
      simp [lenOk, hk', hlen]
  · have hk' : kindIn v.obj.kind (kindsOf d) = false := by simpa [IsSeq] using hk
    obtain ⟨_, hw, _⟩ := wf_scalar_broadcast d hwf w v hk (hacc.2 hk)
    refine ⟨hw.members, ?_⟩
    intro b
    by_cases hb : memberAttr d = b
    · subst hb
      simp [lenOk, target, hk', hw.read]
    · simp only [hb, false_and, if_false]
      exact readEach_of_frame hw.members hw.frame (fun e => hb e.symm)

/-- **idempotence**: repeating an accepted assignment changes nothing further (equality of whole states) -/
theorem wf_idempotent (d : Descriptor) (hwf : d.wfBroadcast = true) (w : World) (v : Val)
    (hacc : Acceptable d v) (hnd : w.members.Nodup) :
    setAttr d (setAttr d w v).1 v = setAttr d w v := by
  by_cases hk : IsSeq d v
  · by_cases hlen : v.items.length = w.members.length
    · obtain ⟨he, hw, _⟩ := wf_elementwise d hwf w v hk hlen (hacc.1 hk) hnd
      obtain ⟨he2, hw2, _⟩ := wf_elementwise d hwf (setAttr d w v).1 v hk (by rw [hw.members]; exact hlen) (hacc.1 hk)
        (by rw [hw.members]; exact hnd)
      apply Prod.ext
      · exact hw.again hw2
      · rw [he, he2]
    · rw [wf_wrong_length d hwf w v hk hlen]
      exact wf_wrong_length d hwf w v hk hlen
  · obtain ⟨he, hw, _⟩ := wf_scalar_broadcast d hwf w v hk (hacc.2 hk)
    obtain ⟨he2, hw2, _⟩ := wf_scalar_broadcast d hwf (setAttr d w v).1 v hk (hacc.2 hk)
    rw [hw.members] at hw2
    apply Prod.ext
    · exact hw.again hw2
    · rw [he, he2]

/-- a history of group-level assignments (any mix of attributes / descriptors), exceptions ignored as in a session -/
def runAssign (w : World) : List (Descriptor × Val) → World
  | [] => w
  | (d, v) :: hs => runAssign (setAttr d w v).1 hs

/-- the specification of reading attribute `b` after a history: the last assignment of admissible length to the
public attribute that stands for `b` decides; wrong-length assignments and other attributes are skipped -/
def specRead (b : Attr) (n : Nat) : List (Descriptor × Val) → List Nat → List Nat
  | [], cur => cur
  | (d, v) :: hs, cur =>
    specRead b n hs (if memberAttr d = b ∧ lenOk d n v = true then target d n v else cur)

/-- **last write wins, for every history**: after any sequence of assignments through well-formed descriptors
(scalars, right-length and wrong-length sequences, any attributes, any order) the members' values of every attribute
are exactly those of the last admissible assignment to it — or the initial ones if there was none. -/
theorem history_last_write_wins (hs : List (Descriptor × Val)) (w : World) (hnd : w.members.Nodup)
    (hwf : ∀ p ∈ hs, p.1.wfBroadcast = true ∧ Acceptable p.1 p.2) (b : Attr) :
    (runAssign w hs).members = w.members ∧
    readEach (runAssign w hs) b = specRead b w.members.length hs (readEach w b) := by
  induction hs generalizing w with
  | nil => exact ⟨rfl, rfl⟩
  | cons p hs ih =>
    obtain ⟨d, v⟩ := p
    obtain ⟨hd, hacc⟩ := hwf (d, v) List.mem_cons_self
    obtain ⟨hm, hr⟩ := wf_step d hd w v hacc hnd
    obtain ⟨ihm, ihr⟩ := ih (setAttr d w v).1 (by rw [hm]; exact hnd) (fun p hp => hwf p (List.mem_cons_of_mem _ hp))
    refine ⟨by simp only [runAssign]; rw [ihm, hm], ?_⟩
    simp only [runAssign, specRead]
    rw [ihr, hm, hr b]

theorem specRead_append (b : Attr) (n : Nat) (hs hs' : List (Descriptor × Val)) (cur : List Nat) :
    specRead b n (hs ++ hs') cur = specRead b n hs' (specRead b n hs cur) := by
  induction hs generalizing cur with
  | nil => rfl
  | cons p hs ih => obtain ⟨d, v⟩ := p; simp only [List.cons_append, specRead]; exact ih _

/-- corollary in the usual form: whatever happened before, reading after an admissible assignment returns it -/
theorem last_write_wins (hs : List (Descriptor × Val)) (d : Descriptor) (v : Val) (w : World) (hnd : w.members.Nodup)
    (hwf : ∀ p ∈ hs ++ [(d, v)], p.1.wfBroadcast = true ∧ Acceptable p.1 p.2)
    (hlen : lenOk d w.members.length v = true) :
    getAttr d (runAssign w (hs ++ [(d, v)])) = .vals (target d w.members.length v) := by
  have hd := (hwf (d, v) (by simp)).1
  rw [wf_read d hd]
  obtain ⟨_, hr⟩ := history_last_write_wins (hs ++ [(d, v)]) w hnd hwf (memberAttr d)
  unfold readEach at hr
  rw [hr, specRead_append]
  simp [specRead, hlen]

/-- **the broadcast laws in one statement** — for every well-formed descriptor, every group with distinct members and
every value the members accept: (1) a non-sequence value reaches every member, (2) a sequence of group length is
assigned element-wise, (3) any other length raises `ValueError` and leaves the world untouched, (4) reading returns
the members' values in member order, (5) repeating the assignment changes nothing. -/
theorem wf_broadcast_laws (d : Descriptor) (hwf : d.wfBroadcast = true) (w : World) (v : Val)
    (hacc : Acceptable d v) (hnd : w.members.Nodup) :
    (¬ IsSeq d v → (setAttr d w v).2 = none ∧
        ∀ u ∈ w.members, ((setAttr d w v).1.heap u).attrs (memberAttr d) = v.obj.stored) ∧
    (IsSeq d v → v.items.length = w.members.length → (setAttr d w v).2 = none ∧
        ∀ i (h1 : i < w.members.length) (h2 : i < v.items.length),
          ((setAttr d w v).1.heap w.members[i]).attrs (memberAttr d) = v.items[i].stored) ∧
    (IsSeq d v → v.items.length ≠ w.members.length → setAttr d w v = (w, some .valueError)) ∧
    getAttr d w = .vals (w.members.map fun u => (w.heap u).attrs (memberAttr d)) ∧
    setAttr d (setAttr d w v).1 v = setAttr d w v :=
  ⟨fun hk => let ⟨a, _, c⟩ := wf_scalar_broadcast d hwf w v hk (hacc.2 hk); ⟨a, c⟩,
   fun hk hlen => let ⟨a, _, c⟩ := wf_elementwise d hwf w v hk hlen (hacc.1 hk) hnd; ⟨a, c⟩,
   fun hk hlen => wf_wrong_length d hwf w v hk hlen,
   wf_read d hwf w,
   wf_idempotent d hwf w v hacc hnd⟩

/-! ## The documented special shapes: `names` (sequence only), `pipelines` (length only), `targets` (list of lists) -/

/-- `names`: element-wise assignment, `ValueError` + unchanged on a wrong length, `TypeError` + unchanged for anything
that is not a list/tuple, reading returns the members' names in order -/
theorem seqonly_laws (d : Descriptor) (hwf : d.wfSeqOnly = true) (w : World) (v : Val) :
    (IsSeq d v → v.items.length = w.members.length → (∀ o ∈ v.items, o.rej = none) → w.members.Nodup →
      (setAttr d w v).2 = none ∧ Wrote (memberAttr d) w (setAttr d w v).1 (v.items.map (·.stored))) ∧
    (IsSeq d v → v.items.length ≠ w.members.length → setAttr d w v = (w, some .valueError)) ∧
    (¬ IsSeq d v → setAttr d w v = (w, some .typeError)) ∧
    getAttr d w = .vals (w.members.map fun u => (w.heap u).attrs (memberAttr d)) ∧
    ((v.obj.kind = some .list ∨ v.obj.kind = some .tuple) → IsSeq d v) := by
  obtain ⟨s, ks, hc, ht, hks, hor⟩ := wfSeqOnly_unpack d hwf
  have hko : kindsOf d = ks := by simp [kindsOf, hc.setter, ht]
  have hrun : setAttr d w v = if kindIn v.obj.kind ks then seqBranch s w v else elseBranch s w v := by
    simp [setAttr, hc.setter, Setter.run, ht]
  refine ⟨?_, ?_, ?_, hc.read w, ?_⟩
  · intro hk hlen hok hnd
    have hk' : kindIn v.obj.kind ks = true := by simpa [IsSeq, hko] using hk
    rw [hrun, hk']; simp only [if_true]
    exact hc.seq_ok w v hlen hok hnd
  · intro hk hlen
    have hk' : kindIn v.obj.kind ks = true := by simpa [IsSeq, hko] using hk
    rw [hrun, hk']; simp only [if_true]
    exact hc.seq_wrong w v hlen
  · intro hk
    have hk' : kindIn v.obj.kind ks = false := by simpa [IsSeq, hko] using hk
    rw [hrun, hk']
    simp [elseBranch, hor]
  · intro hv
    simp only [hasListTuple, Bool.and_eq_true] at hks
    rcases hv with hv | hv
    · simpa [IsSeq, hko, kindIn, hv] using hks.1
    · simpa [IsSeq, hko, kindIn, hv] using hks.2

/-- `pipelines`: any sized value of group length is assigned element-wise, any other length raises `ValueError` and
changes nothing, an unsized value raises `TypeError` and changes nothing, reading returns the members' pipelines -/
theorem lenonly_laws (d : Descriptor) (hwf : d.wfLenOnly = true) (w : World) (v : Val) :
    (v.obj.kind ≠ none → v.items.length = w.members.length → (∀ o ∈ v.items, o.rej = none) → w.members.Nodup →
      (setAttr d w v).2 = none ∧ Wrote (memberAttr d) w (setAttr d w v).1 (v.items.map (·.stored))) ∧
    (v.obj.kind ≠ none → v.items.length ≠ w.members.length → setAttr d w v = (w, some .valueError)) ∧
    (v.obj.kind = none → setAttr d w v = (w, some .typeError)) ∧
    getAttr d w = .vals (w.members.map fun u => (w.heap u).attrs (memberAttr d)) := by
  obtain ⟨s, hc, ht⟩ := wfLenOnly_unpack d hwf
  refine ⟨?_, ?_, ?_, hc.read w⟩
  · intro hk hlen hok hnd
    obtain ⟨k, hk⟩ := Option.ne_none_iff_exists'.mp hk
    have : setAttr d w v = seqBranch s w v := by simp [setAttr, hc.setter, Setter.run, ht, hk]
    rw [this]; exact hc.seq_ok w v hlen hok hnd
  · intro hk hlen
    obtain ⟨k, hk⟩ := Option.ne_none_iff_exists'.mp hk
    have : setAttr d w v = seqBranch s w v := by simp [setAttr, hc.setter, Setter.run, ht, hk]
    rw [this]; exact hc.seq_wrong w v hlen
  · intro hk
    simp [setAttr, hc.setter, Setter.run, ht, hk]

/-- all elements of the value are lists/tuples themselves -/
def AllItemsSeq (d : Descriptor) (v : Val) : Prop := v.items.all (fun o => kindIn o.kind (kindsOf d)) = true

/-- `targets`: a list of lists of group length is assigned element-wise, any other number of lists raises
`ValueError` and changes nothing, a flat list is shared by every pixel, reading returns the pixels' targets -/
theorem allseq_laws (d : Descriptor) (hwf : d.wfAllSeq = true) (w : World) (v : Val) (hv : v.obj.kind ≠ none) :
    (AllItemsSeq d v → v.items.length = w.members.length → (∀ o ∈ v.items, o.rej = none) → w.members.Nodup →
      (setAttr d w v).2 = none ∧ Wrote (memberAttr d) w (setAttr d w v).1 (v.items.map (·.stored))) ∧
    (AllItemsSeq d v → v.items.length ≠ w.members.length → setAttr d w v = (w, some .valueError)) ∧
    (¬ AllItemsSeq d v → v.obj.rej = none →
      (setAttr d w v).2 = none ∧
      Wrote (memberAttr d) w (setAttr d w v).1 (List.replicate w.members.length v.obj.stored)) ∧
    getAttr d w = .vals (w.members.map fun u => (w.heap u).attrs (memberAttr d)) := by
  obtain ⟨s, ks, err, hc, ht, _, hor⟩ := wfAllSeq_unpack d hwf
  obtain ⟨k, hk⟩ := Option.ne_none_iff_exists'.mp hv
  have hko : kindsOf d = ks := by simp [kindsOf, hc.setter, ht]
  have hrun : setAttr d w v =
      if v.items.all (fun o => kindIn o.kind ks) then seqBranch s w v else elseBranch s w v := by
    simp [setAttr, hc.setter, Setter.run, ht, hk]
  refine ⟨?_, ?_, ?_, hc.read w⟩
  · intro ha hlen hok hnd
    have ha' : v.items.all (fun o => kindIn o.kind ks) = true := by simpa [AllItemsSeq, hko] using ha
    rw [hrun, ha']; simp only [if_true]
    exact hc.seq_ok w v hlen hok hnd
  · intro ha hlen
    have ha' : v.items.all (fun o => kindIn o.kind ks) = true := by simpa [AllItemsSeq, hko] using ha
    rw [hrun, ha']; simp only [if_true]
    exact hc.seq_wrong w v hlen
  · intro ha hok
    have ha' : v.items.all (fun o => kindIn o.kind ks) = false := by
      simpa [AllItemsSeq, hko] using ha
    rw [hrun, ha']; simp only [Bool.false_eq_true, if_false]
    exact elseBranch_broadcast_ok s _ false err hor w v ⟨hok, by simp⟩

/-! ## Constructive witnesses for descriptors that are *not* well-formed (what a failing `table_wf` means) -/

/-- a property object without `fset`: every assignment raises `AttributeError` and changes nothing -/
theorem missing_setter_raises (d : Descriptor) (h : d.setter = none) (w : World) (v : Val) :
    setAttr d w v = (w, some .attributeError) := by
  simp [setAttr, h]

/-- a property object whose getter belongs to another attribute returns that attribute's values -/
theorem misbound_getter_reads (d : Descriptor) (a : Attr) (h : d.getter = .each a) (w : World) :
    getAttr d w = .vals (w.members.map fun u => (w.heap u).attrs a) := by
  simp [getAttr, h, readEach]

/-- if moreover the members' values of the two attributes differ, the read is *not* what the property demands -/
theorem misbound_getter_wrong (d : Descriptor) (a : Attr) (h : d.getter = .each a) (w : World)
    (hdiff : (w.members.map fun u => (w.heap u).attrs a) ≠ (w.members.map fun u => (w.heap u).attrs (memberAttr d))) :
    getAttr d w ≠ .vals (w.members.map fun u => (w.heap u).attrs (memberAttr d)) := by
  rw [misbound_getter_reads d a h]
  intro e
  exact hdiff (Out.vals.inj e)

/-! ## Membership (property clauses 5–8) -/

/-- the invariant survives every operation of the group API (and direct changes of member attributes) -/
theorem inv_step (tbl : List Descriptor) (ci : ClassInfo) (w : World) (op : Op) (hi : Inv ci w) :
    Inv ci (step tbl ci w op).1 ∧ (step tbl ci w op).1.gid = w.gid := by
  cases op with
  | add u =>
    simp only [step, addObserver]
    split
    · rename_i ht
      refine ⟨?_, rfl⟩
      intro x hx
      simp only [List.mem_append, List.mem_singleton] at hx
      have tc : typeOk (w.heap.setParent u (some w.gid)) ci.accepted x = typeOk w.heap ci.accepted x :=
        typeOk_congr _ _ (by simp)
      by_cases hxu : x = u
      · subst hxu
        exact ⟨by simp, by rw [tc]; exact ht⟩
      · have hx' : x ∈ w.members := by
          rcases hx with hx | hx
          · exact hx
          · exact absurd hx hxu
        obtain ⟨p, t⟩ := hi x hx'
        exact ⟨by show ((w.heap.setParent u (some w.gid)) x).parent = _; rw [setParent_parent_other _ _ _ _ hxu]; exact p,
               by rw [tc]; exact t⟩
    · exact ⟨hi, rfl⟩
  | assign name v =>
    simp only [step]
    split
    · rename_i d _
      simp only [setAttr]
      split
      · exact ⟨hi, rfl⟩
      · rename_i s _
        obtain ⟨hm, hg, a, f⟩ := Setter.run_frame s w v
        exact ⟨hi.of_frame hm hg f, hg⟩
      · exact ⟨hi, rfl⟩
    · exact ⟨hi, rfl⟩
  | setMembers name k us =>
    simp only [step]
    split
    · rename_i d _
      simp only [setMembers]
      split
      · exact ⟨hi, rfl⟩
      · exact MemberSetter.run_inv _ ci w k us hi
      · split
        · split
          · exact MemberSetter.run_inv _ ci w k us hi
          · exact ⟨hi, rfl⟩
          · exact ⟨hi, rfl⟩
        · exact ⟨hi, rfl⟩
      · exact ⟨hi, rfl⟩
    · exact ⟨hi, rfl⟩
  | poke u a x =>
    refine ⟨?_, rfl⟩
    show Inv ci { w with heap := w.heap.setAttr u a x }
    intro m hm
    obtain ⟨p, t⟩ := hi m hm
    exact ⟨by simpa using p, by rw [typeOk_congr (h := w.heap) _ _ (by simp)]; exact t⟩

/-- **clauses 6–7 for all histories**: after any sequence of add / assign / member-list assignment / rename operations
(accepted or rejected, through *any* descriptor table) every member's parent is the group and every member is of the
group's observer type -/
theorem inv_run (tbl : List Descriptor) (ci : ClassInfo) (ops : List Op) (w : World) (hi : Inv ci w) :
    Inv ci (run tbl ci w ops) ∧ (run tbl ci w ops).gid = w.gid := by
  induction ops generalizing w with
  | nil => exact ⟨hi, rfl⟩
  | cons op ops ih =>
    obtain ⟨h1, h2⟩ := inv_step tbl ci w op hi
    obtain ⟨h3, h4⟩ := ih _ h1
    exact ⟨h3, by simp only [run]; rw [h4, h2]⟩

/-- an empty group satisfies the invariant -/
theorem inv_empty (ci : ClassInfo) (g : Nat) (h : Heap) : Inv ci ⟨g, h, []⟩ := by
  intro u hu; simp at hu

/-- `add_observer`: an observer of the group's type is appended at the end and re-parented; nothing else changes -/
theorem add_accepts (ci : ClassInfo) (w : World) (u : Nat) (ht : typeOk w.heap ci.accepted u = true) :
    (addObserver ci w u).2 = none ∧ (addObserver ci w u).1.members = w.members ++ [u] ∧
    groupLen (addObserver ci w u).1 = groupLen w + 1 ∧
    ((addObserver ci w u).1.heap u).parent = some w.gid ∧
    (∀ x, ((addObserver ci w u).1.heap x).attrs = (w.heap x).attrs) := by
  simp [addObserver, ht, groupLen]

/-- … any other object is rejected and the group is unchanged -/
theorem add_rejects (ci : ClassInfo) (w : World) (u : Nat) (ht : typeOk w.heap ci.accepted u = false) :
    addObserver ci w u = (w, some ci.addErr) := by
  simp [addObserver, ht]

/-- member-list assignment through a descriptor whose setter type-checks first (`observers`): all-or-nothing -/
theorem set_members_atomic (m : MemberSetter) (ci : ClassInfo) (w : World) (k : Option SeqKind) (us : List Nat)
    (hk : kindIn k m.kinds = true) (ha : m.atomic = true) :
    (us.all (typeOk w.heap ci.accepted) = true →
      (m.run ci w k us).2 = none ∧ (m.run ci w k us).1.members = us) ∧
    (us.all (typeOk w.heap ci.accepted) = false → m.run ci w k us = (w, some m.elemErr)) := by
  constructor <;> intro h <;> simp [MemberSetter.run, hk, ha, h]

/-- what a setter that checks inside the loop does instead (BolometerCamera.foil_detectors as it is): the elements in
front of the first wrong-typed one are re-parented to the refusing group although the assignment raises -/
theorem set_members_loop_partial (m : MemberSetter) (ci : ClassInfo) (w : World) (k : Option SeqKind) (u x : Nat)
    (rest : List Nat) (hk : kindIn k m.kinds = true) (ha : m.atomic = false) (hu : typeOk w.heap ci.accepted u = true)
    (hx : typeOk w.heap ci.accepted x = false) :
    (m.run ci w k (u :: x :: rest)).2 = some m.elemErr ∧ (m.run ci w k (u :: x :: rest)).1.members = w.members ∧
    ((m.run ci w k (u :: x :: rest)).1.heap u).parent = some w.gid := by
  have hx' : typeOk (w.heap.setParent u (some w.gid)) ci.accepted x = false := by
    rw [typeOk_congr (h := w.heap) ci.accepted x (by simp)]; exact hx
  simp [MemberSetter.run, hk, ha, reparentChecked, hu, hx']

theorem set_members_wrong_container (m : MemberSetter) (ci : ClassInfo) (w : World) (k : Option SeqKind) (us : List Nat)
    (hk : kindIn k m.kinds = false) : m.run ci w k us = (w, some m.kindErr) := by
  simp [MemberSetter.run, hk]

/-- histories that mix `add` with assignments: a new member contributes its own current value at the end of every read,
and distinctness of members is preserved — so `wf_step` / `history_last_write_wins` apply again after each `add` -/
theorem read_after_add (ci : ClassInfo) (w : World) (u : Nat) (ht : typeOk w.heap ci.accepted u = true) (b : Attr) :
    readEach (addObserver ci w u).1 b = readEach w b ++ [(w.heap u).attrs b] ∧
    (w.members.Nodup → u ∉ w.members → (addObserver ci w u).1.members.Nodup) := by
  constructor
  · simp [addObserver, ht, readEach]
  · intro hnd hu
    simp only [addObserver, ht, if_true]
    exact List.nodup_append.mpr ⟨hnd, List.nodup_singleton u, by
      intro a ha b' hb'
      simp only [List.mem_singleton] at hb'
      subst hb'
      exact fun e => hu (e ▸ ha)⟩

/-! ### retrieval by index, slice and unique name -/

/-- `group[i]`, both families: the i-th member; out of range is an `IndexError` -/
theorem getitem_index (ci : ClassInfo) (w : World) (i : Nat) (hi : i < w.members.length) :
    getItem ci w (.int i) = .objs [w.members[i]] := by
  unfold getItem
  cases ci.family <;> simp [pyIndex_nonneg w.members i hi]

theorem getitem_last (ci : ClassInfo) (w : World) (hn : 0 < w.members.length) :
    getItem ci w (.int (-1)) = .objs [w.members[w.members.length - 1]] := by
  have h := pyIndex_negative w.members 1 (le_refl 1) hn
  have h' : w.members[w.members.length - 1]? = some w.members[w.members.length - 1] :=
    List.getElem?_eq_getElem (by omega)
  unfold getItem
  cases ci.family <;> simp only [Nat.cast_one] at h <;> simp [h, h']

theorem getitem_index_error (ci : ClassInfo) (w : World) (i : Int)
    (h : (w.members.length : Int) ≤ i ∨ i < -(w.members.length : Int)) :
    getItem ci w (.int i) = .err .indexError := by
  unfold getItem
  cases ci.family <;> simp [pyIndex_out_of_range w.members i h]

/-- `group[a:b]`, both families, for every class whose `__getitem__` hands slices to the member container -/
theorem getitem_slice (ci : ClassInfo) (hs : ci.sliceKeys = true) (w : World) (a b : Nat) (hab : a ≤ b)
    (hb : b ≤ w.members.length) :
    getItem ci w (.slice (some (a : Int)) (some (b : Int)) none) = .objs ((w.members.drop a).take (b - a)) := by
  unfold getItem
  cases ci.family <;> simp [hs, pySlice_simple w.members a b hab hb]

theorem getitem_slice_members (ci : ClassInfo) (w : World) (a b c : Option Int) (us : List Nat)
    (h : getItem ci w (.slice a b c) = .objs us) : ∀ u ∈ us, u ∈ w.members := by
  unfold getItem at h
  cases hs : ci.sliceKeys with
  | false => cases hf : ci.family <;> simp [hf, hs] at h
  | true =>
    cases hp : pySlice w.members a b c with
    | none => cases hf : ci.family <;> simp [hf, hs, hp] at h
    | some us' =>
      have e : us' = us := by
        cases hf : ci.family <;> simpa [hf, hs, hp] using h
      subst e
      exact pySlice_members _ _ _ _ _ hp

/-- a class whose `__getitem__` does not accept slices answers every slice with `TypeError` (what a failing
`classes_accept_slices` means) -/
theorem getitem_slice_refused (ci : ClassInfo) (hs : ci.sliceKeys = false) (w : World) (a b c : Option Int) :
    getItem ci w (.slice a b c) = .err .typeError := by
  unfold getItem
  cases ci.family <;> simp [hs]

/-- `group[name]`: a member whose name is unique in the group is returned (both families) -/
theorem getitem_unique_name (ci : ClassInfo) (w : World) (x u : Nat) (hnd : w.members.Nodup) (hu : u ∈ w.members)
    (hname : nameOf w.heap u = x) (huniq : ∀ y ∈ w.members, y ≠ u → nameOf w.heap y ≠ x) :
    getItem ci w (.str x) = .objs [u] := by
  unfold getItem
  cases ci.family with
  | observer0D =>
    have := filter_unique w.members (fun y => nameOf w.heap y == x) u hnd hu (by simp [hname])
      (fun y hy hne => by simpa using huniq y hy hne)
    simp [this]
  | bolometer =>
    have := find_unique w.members (fun y => nameOf w.heap y == x) u hu (by simp [hname])
      (fun y hy hne => by simpa using huniq y hy hne)
    simp [this]

/-- a name nobody carries is a `ValueError` (both families) -/
theorem getitem_unknown_name (ci : ClassInfo) (w : World) (x : Nat) (h : ∀ y ∈ w.members, nameOf w.heap y ≠ x) :
    getItem ci w (.str x) = .err .valueError := by
  unfold getItem
  cases ci.family with
  | observer0D =>
    have : w.members.filter (fun y => nameOf w.heap y == x) = [] :=
      List.filter_eq_nil_iff.mpr (fun y hy => by simpa using h y hy)
    simp [this]
  | bolometer =>
    have : w.members.find? (fun y => nameOf w.heap y == x) = none :=
      List.find?_eq_none.mpr (fun y hy => by simpa using h y hy)
    simp [this]

/-- a key that is neither int, slice nor str is a `TypeError` -/
theorem getitem_bad_key (ci : ClassInfo) (w : World) : getItem ci w .other = .err .typeError := by
  unfold getItem; cases ci.family <;> rfl

/-- an added observer is immediately retrievable at the last position -/
theorem getitem_after_add (ci : ClassInfo) (w : World) (u : Nat) (ht : typeOk w.heap ci.accepted u = true) :
    getItem ci (addObserver ci w u).1 (.int (w.members.length : Nat)) = .objs [u] := by
  obtain ⟨_, hm, _⟩ := add_accepts ci w u ht
  have hl : w.members.length < (addObserver ci w u).1.members.length := by rw [hm]; simp
  rw [getitem_index ci _ _ hl]
  simp [hm]

/-- **clause 8 — observing the group observes every member once**, in member order -/
theorem observe_each_once (w : World) (hnd : w.members.Nodup) :
    observe w = w.members ∧ (∀ u ∈ w.members, (observe w).count u = 1) ∧ (∀ u, u ∉ w.members → (observe w).count u = 0) := by
  refine ⟨rfl, ?_, ?_⟩
  · intro u hu; exact List.count_eq_one_of_mem hnd hu
  · intro u hu; exact List.count_eq_zero_of_not_mem hu

/-- without the distinctness assumption: each object is observed exactly as often as it occurs among the members -/
theorem observe_counts (w : World) (u : Nat) : (observe w).count u = w.members.count u := rfl

/-- summary: for every history from a consistent group, the invariant holds and every member is retrievable by its
index; members added by the history are of the group's type and have the group as parent -/
theorem membership_laws (tbl : List Descriptor) (ci : ClassInfo) (ops : List Op) (w0 : World) (h0 : Inv ci w0) :
    let w := run tbl ci w0 ops
    (∀ u ∈ w.members, (w.heap u).parent = some w0.gid ∧ typeOk w.heap ci.accepted u = true) ∧
    groupLen w = w.members.length ∧
    (∀ i (hi : i < w.members.length), getItem ci w (.int i) = .objs [w.members[i]]) ∧
    observe w = w.members := by
  intro w
  obtain ⟨hi, hg⟩ := inv_run tbl ci ops w0 h0
  refine ⟨?_, rfl, fun i hi' => getitem_index ci w i hi', rfl⟩
  intro u hu
  obtain ⟨p, t⟩ := hi u hu
  exact ⟨by rw [← hg]; exact p, t⟩

/-! ## Proof-deepening pass: a refused operation changes nothing — for every admissible table, every operation -/

/-- the value is handed to the members as a whole (the `else` branch of the setter runs) -/
def takesElse (d : Descriptor) (v : Val) : Bool :=
  match d.setter with
  | some (.broadcast s) =>
    (match s.test with
     | .isinst ks => !kindIn v.obj.kind ks
     | .sized => false
     | .allItems ks => v.obj.kind.isSome && !(v.items.all fun o => kindIn o.kind ks))
  | _ => false

/-- every object the members are offered is accepted by their own (raysect) setters and passes the group's
`RenderEngine` guards: then the only exceptions left are the group's own validations -/
def AcceptableAll (d : Descriptor) (v : Val) : Prop :=
  (∀ o ∈ v.items, Passes (elemChk d) o) ∧ (takesElse d v = true → Passes (scalarChk d) v.obj)

theorem admissible_broadcast_shape (tbl : List Descriptor) (d : Descriptor) (hadm : d.admissible tbl = true) (s : Setter)
    (hs : d.setter = some (.broadcast s)) :
    d.wfBroadcast = true ∨ d.wfSeqOnly = true ∨ d.wfLenOnly = true ∨ d.wfAllSeq = true := by
  unfold Descriptor.admissible at hadm
  split at hadm
  · exact Or.inr (Or.inl hadm)
  · split at hadm
    · exact Or.inr (Or.inr (Or.inl hadm))
    · split at hadm
      · exact Or.inr (Or.inr (Or.inr hadm))
      · split at hadm
        · simp [Descriptor.wfMembers, hs] at hadm
        · exact Or.inl hadm

/-- **group-level assignment, all four shapes**: if the members accept what they are offered and the assignment still
raises (wrong length, scalar where only a sequence is allowed, unsized value …), the whole world is untouched -/
theorem setAttr_rejected_unchanged (tbl : List Descriptor) (d : Descriptor) (hadm : d.admissible tbl = true) (w : World)
    (v : Val) (hacc : AcceptableAll d v) (he : (setAttr d w v).2 ≠ none) : (setAttr d w v).1 = w := by
  cases hs : d.setter with
  | none => simp [setAttr, hs]
  | some sd =>
    cases sd with
    | broadcast s =>
      have hec : elemChk d = s.elemEngineCheck := by simp [elemChk, hs]
      have hitems : ∀ o ∈ v.items, Passes s.elemEngineCheck o := by rw [← hec]; exact hacc.1
      rcases admissible_broadcast_shape tbl d hadm s hs with h | h | h | h
      · obtain ⟨s', ks, chk, err, hw⟩ := wfBroadcast_unpack d h
        have : s' = s := by have := hw.setter; rw [hs] at this; injection this with this; injection this with this; exact this.symm
        subst this
        rw [hw.run] at he ⊢
        by_cases hk : kindIn v.obj.kind ks = true
        · simp only [hk, if_true] at he ⊢
          exact seqBranch_err_unchanged s' w v hw.lenCheck hitems he
        · simp only [hk, Bool.false_eq_true, if_false] at he ⊢
          have hte : takesElse d v = true := by simp [takesElse, hs, hw.test, hk]
          exact absurd (elseBranch_broadcast_ok s' _ chk err hw.orelse w v (by rw [← hw.scalarChk]; exact hacc.2 hte)).1 he
      · obtain ⟨s', ks, hc, ht, _, hor⟩ := wfSeqOnly_unpack d h
        have : s' = s := by have := hc.setter; rw [hs] at this; injection this with this; injection this with this; exact this.symm
        subst this
        have hrun : setAttr d w v = if kindIn v.obj.kind ks then seqBranch s' w v else elseBranch s' w v := by
          simp [setAttr, hs, Setter.run, ht]
        rw [hrun] at he ⊢
        by_cases hk : kindIn v.obj.kind ks = true
        · simp only [hk, if_true] at he ⊢
          exact seqBranch_err_unchanged s' w v hc.lenCheck hitems he
        · simp only [hk, Bool.false_eq_true, if_false]
          simp [elseBranch, hor]
      · obtain ⟨s', hc, ht⟩ := wfLenOnly_unpack d h
        have : s' = s := by have := hc.setter; rw [hs] at this; injection this with this; injection this with this; exact this.symm
        subst this
        cases hk : v.obj.kind with
        | none => simp [setAttr, hs, Setter.run, ht, hk]
        | some k =>
          have hrun : setAttr d w v = seqBranch s' w v := by simp [setAttr, hs, Setter.run, ht, hk]
          rw [hrun] at he ⊢
          exact seqBranch_err_unchanged s' w v hc.lenCheck hitems he
      · obtain ⟨s', ks, err, hc, ht, _, hor⟩ := wfAllSeq_unpack d h
        have : s' = s := by have := hc.setter; rw [hs] at this; injection this with this; injection this with this; exact this.symm
        subst this
        cases hk : v.obj.kind with
        | none => simp [setAttr, hs, Setter.run, ht, hk]
        | some k =>
          have hrun : setAttr d w v =
              if v.items.all (fun o => kindIn o.kind ks) then seqBranch s' w v else elseBranch s' w v := by
            simp [setAttr, hs, Setter.run, ht, hk]
          rw [hrun] at he ⊢
          by_cases ha : v.items.all (fun o => kindIn o.kind ks) = true
          · simp only [ha, if_true] at he ⊢
            exact seqBranch_err_unchanged s' w v hc.lenCheck hitems he
          · simp only [ha, Bool.false_eq_true, if_false] at he ⊢
            have hte : takesElse d v = true := by simp [takesElse, hs, ht, hk, ha]
            exact absurd (elseBranch_broadcast_ok s' _ false err hor w v ⟨(hacc.2 hte).1, by simp⟩).1 he
    | _ => simp [setAttr, hs]

/-- a member-list setter that checks every element before adopting any either succeeds or leaves the world untouched -/
theorem memberSetter_rejected_unchanged (m : MemberSetter) (ha : m.atomic = true) (ci : ClassInfo) (w : World)
    (k : Option SeqKind) (us : List Nat) (he : (m.run ci w k us).2 ≠ none) : (m.run ci w k us).1 = w := by
  unfold MemberSetter.run at he ⊢
  by_cases hk : kindIn k m.kinds = true
  · by_cases hall : us.all (typeOk w.heap ci.accepted) = true
    · simp [hk, ha, hall] at he
    · simp [hk, ha, hall]
  · simp [hk]

theorem admissible_members_atomic (tbl : List Descriptor) (d : Descriptor) (hadm : d.admissible tbl = true) (m : MemberSetter)
    (hs : d.setter = some (.members m)) : m.atomic = true := by
  unfold Descriptor.admissible at hadm
  split at hadm
  · simp [Descriptor.wfSeqOnly, hs] at hadm
  · split at hadm
    · simp [Descriptor.wfLenOnly, hs] at hadm
    · split at hadm
      · simp [Descriptor.wfAllSeq, hs] at hadm
      · split at hadm
        · simp only [Descriptor.wfMembers, hs, Bool.and_eq_true] at hadm
          exact hadm.2.2
        · simp [Descriptor.wfBroadcast, hs] at hadm

/-- **member-list assignment** (`observers`, `sight_lines` through its alias, `foil_detectors`): refused ⇒ untouched —
membership, every parent, every attribute -/
theorem setMembers_rejected_unchanged (tbl : List Descriptor) (hall : ∀ d ∈ tbl, d.admissible tbl = true) (ci : ClassInfo)
    (d : Descriptor) (hd : d ∈ tbl) (w : World) (k : Option SeqKind) (us : List Nat)
    (he : (setMembers tbl ci d w k us).2 ≠ none) : (setMembers tbl ci d w k us).1 = w := by
  unfold setMembers at he ⊢
  cases hs : d.setter with
  | none => rfl
  | some sd =>
    cases sd with
    | members m =>
      simp only [hs] at he ⊢
      exact memberSetter_rejected_unchanged m (admissible_members_atomic tbl d (hall d hd) m hs) ci w k us he
    | «alias» f t target =>
      simp only [hs] at he ⊢
      cases hf : findDesc tbl d.cls target with
      | none => rfl
      | some d' =>
        simp only [hf] at he ⊢
        cases hs' : d'.setter with
        | none => rfl
        | some sd' =>
          cases sd' with
          | members m' =>
            simp only [hs'] at he ⊢
            exact memberSetter_rejected_unchanged m' (admissible_members_atomic tbl d' (hall d' (findDesc_mem hf).1) m' hs') ci w k us he
          | _ => rfl
    | _ => rfl

/-- the values of an operation are acceptable to the members (only assignments carry values) -/
def OpAcceptable (tbl : List Descriptor) (ci : ClassInfo) : Op → Prop
  | .assign name v => ∀ d, findDesc tbl ci.name name = some d → AcceptableAll d v
  | _ => True

/-- **state-machine form**: for every table all of whose descriptors are admissible, every class, every world and every
operation of the group API (add, assignment, member-list assignment, rename): if the operation raises, the world —
membership, every observer's parent, every attribute of every object on the heap — is exactly what it was -/
theorem step_rejected_unchanged (tbl : List Descriptor) (hall : ∀ d ∈ tbl, d.admissible tbl = true) (ci : ClassInfo)
    (w : World) (op : Op) (hacc : OpAcceptable tbl ci op) (he : (step tbl ci w op).2 ≠ none) :
    (step tbl ci w op).1 = w := by
  cases op with
  | add u =>
    simp only [step, addObserver] at he ⊢
    split
    · rename_i ht; simp [ht] at he
    · rfl
  | assign name v =>
    simp only [step] at he ⊢
    cases hf : findDesc tbl ci.name name with
    | none => rfl
    | some d =>
      simp only [hf] at he ⊢
      exact setAttr_rejected_unchanged tbl d (hall d (findDesc_mem hf).1) w v (hacc d hf) he
  | setMembers name k us =>
    simp only [step] at he ⊢
    cases hf : findDesc tbl ci.name name with
    | none => rfl
    | some d =>
      simp only [hf] at he ⊢
      exact setMembers_rejected_unchanged tbl hall ci d (findDesc_mem hf).1 w k us he
  | poke u a x => simp [step] at he

/-- hence a refused operation can be deleted from any history without changing where the history ends -/
theorem run_skip_rejected (tbl : List Descriptor) (hall : ∀ d ∈ tbl, d.admissible tbl = true) (ci : ClassInfo)
    (w : World) (op : Op) (ops : List Op) (hacc : OpAcceptable tbl ci op) (he : (step tbl ci w op).2 ≠ none) :
    run tbl ci w (op :: ops) = run tbl ci w ops := by
  simp only [run]
  rw [step_rejected_unchanged tbl hall ci w op hacc he]

/-- the acceptability hypothesis cannot be dropped: a `RenderEngine` guard that sits *inside* the zip loop (render_engine,
as the source is) lets the elements in front of the offending one through before it raises -/
theorem engine_guard_in_loop_partial (a : Attr) (e : Err) (u u' : Nat) (us : List Nat) (o o' : Obj) (os : List Obj) (h : Heap)
    (ho : o.rej = none) (hoe : o.engine = true) (ho' : o'.engine = false) :
    (assignZip a true e (u :: u' :: us) (o :: o' :: os) h).2 = some e ∧
    (((assignZip a true e (u :: u' :: us) (o :: o' :: os) h).1) u).attrs a = o.stored := by
  rw [assignZip_cons a true e u (u' :: us) o (o' :: os) h ⟨ho, fun _ => hoe⟩]
  simp [assignZip, ho']

/-! ## Proof-deepening pass: several groups over one scene graph -/

/-- several groups over one heap: `focus` is the group being operated on, `others` are (node id, members) of the rest -/
structure Scene where
  focus : World
  others : List (Nat × List Nat)

/-- every member of every group has that group as scene-graph parent (and the focus group's members are of its type) -/
def Scene.Inv (ci : ClassInfo) (s : Scene) : Prop :=
  Cherab.Groups.Inv ci s.focus ∧ ∀ g ∈ s.others, g.1 ≠ s.focus.gid ∧ ∀ u ∈ g.2, (s.focus.heap u).parent = some g.1

def Scene.step (tbl : List Descriptor) (ci : ClassInfo) (s : Scene) (op : Op) : Scene :=
  { s with focus := (Cherab.Groups.step tbl ci s.focus op).1 }

/-- the observers an operation tries to adopt -/
def adoptees : Op → List Nat
  | .add u => [u]
  | .setMembers _ _ us => us
  | _ => []

/-- under the invariant no observer is a member of two groups -/
theorem scene_members_disjoint (ci : ClassInfo) (s : Scene) (hi : s.Inv ci) :
    (∀ g ∈ s.others, ∀ u ∈ g.2, u ∉ s.focus.members) ∧
    (∀ g ∈ s.others, ∀ g' ∈ s.others, g.1 ≠ g'.1 → ∀ u ∈ g.2, u ∉ g'.2) := by
  constructor
  · intro g hg u hu hm
    have h1 := (hi.2 g hg).2 u hu
    have h2 := (hi.1 u hm).1
    rw [h1] at h2
    exact (hi.2 g hg).1 (Option.some.inj h2)
  · intro g hg g' hg' hne u hu hu'
    have h1 := (hi.2 g hg).2 u hu
    have h2 := (hi.2 g' hg').2 u hu'
    rw [h1] at h2
    exact hne (Option.some.inj h2)

theorem memberSetter_parent_frame (m : MemberSetter) (ha : m.atomic = true) (ci : ClassInfo) (w : World)
    (k : Option SeqKind) (us : List Nat) (x : Nat) (hx : x ∉ us) :
    ((m.run ci w k us).1.heap x).parent = (w.heap x).parent := by
  unfold MemberSetter.run
  by_cases hk : kindIn k m.kinds = true
  · by_cases hall : us.all (typeOk w.heap ci.accepted) = true
    · simp only [hk, ha, hall, Bool.not_true, Bool.false_eq_true, if_false, if_true]
      exact (reparentAll_spec w.gid us w.heap).2.1 x hx
    · simp [hk, ha, hall]
  · simp [hk]

/-- through an admissible table, an operation changes the parent of nobody but the observers it adopts -/
theorem step_parent_frame (tbl : List Descriptor) (hall : ∀ d ∈ tbl, d.admissible tbl = true) (ci : ClassInfo) (w : World)
    (op : Op) (x : Nat) (hx : x ∉ adoptees op) :
    ((Cherab.Groups.step tbl ci w op).1.heap x).parent = (w.heap x).parent := by
  cases op with
  | add u =>
    have hxu : x ≠ u := by simpa [adoptees] using hx
    simp only [Cherab.Groups.step, addObserver]
    split
    · exact setParent_parent_other _ _ _ _ hxu
    · rfl
  | assign name v =>
    simp only [Cherab.Groups.step]
    cases hf : findDesc tbl ci.name name with
    | none => rfl
    | some d =>
      simp only [setAttr]
      cases hs : d.setter with
      | none => rfl
      | some sd =>
        cases sd with
        | broadcast s =>
          obtain ⟨_, _, a, f⟩ := Setter.run_frame s w v
          exact (f.2 x).1
        | _ => rfl
  | setMembers name k us =>
    have hxu : x ∉ us := by simpa [adoptees] using hx
    simp only [Cherab.Groups.step]
    cases hf : findDesc tbl ci.name name with
    | none => rfl
    | some d =>
      simp only [setMembers]
      cases hs : d.setter with
      | none => rfl
      | some sd =>
        cases sd with
        | members m =>
          exact memberSetter_parent_frame m (admissible_members_atomic tbl d (hall d (findDesc_mem hf).1) m hs) ci w k us x hxu
        | «alias» f t target =>
          simp only
          cases hf' : findDesc tbl d.cls target with
          | none => rfl
          | some d' =>
            simp only
            cases hs' : d'.setter with
            | none => rfl
            | some sd' =>
              cases sd' with
              | members m' =>
                exact memberSetter_parent_frame m' (admissible_members_atomic tbl d' (hall d' (findDesc_mem hf').1) m' hs') ci w k us x hxu
              | _ => rfl
        | _ => rfl
  | poke u a v => simp [Cherab.Groups.step]

/-- **parent invariant over the whole scene, all histories**: every operation on one group — accepted or refused, through
any admissible table — keeps "every member of every group has that group as parent" (hence no observer in two groups),
provided the observers it adopts are not members of another group -/
theorem scene_inv_step (tbl : List Descriptor) (hall : ∀ d ∈ tbl, d.admissible tbl = true) (ci : ClassInfo) (s : Scene)
    (op : Op) (hi : s.Inv ci) (hforeign : ∀ u ∈ adoptees op, ∀ g ∈ s.others, u ∉ g.2) :
    (s.step tbl ci op).Inv ci := by
  obtain ⟨h1, h2⟩ := inv_step tbl ci s.focus op hi.1
  refine ⟨h1, ?_⟩
  intro g hg
  refine ⟨by show g.1 ≠ (Cherab.Groups.step tbl ci s.focus op).1.gid; rw [h2]; exact (hi.2 g hg).1, ?_⟩
  intro u hu
  show ((Cherab.Groups.step tbl ci s.focus op).1.heap u).parent = some g.1
  rw [step_parent_frame tbl hall ci s.focus op u (fun hm => hforeign u hm g hg hu)]
  exact (hi.2 g hg).2 u hu

theorem scene_inv_run (tbl : List Descriptor) (hall : ∀ d ∈ tbl, d.admissible tbl = true) (ci : ClassInfo) (ops : List Op)
    (s : Scene) (hi : s.Inv ci) (hforeign : ∀ op ∈ ops, ∀ u ∈ adoptees op, ∀ g ∈ s.others, u ∉ g.2) :
    (ops.foldl (fun s op => s.step tbl ci op) s).Inv ci := by
  induction ops generalizing s with
  | nil => exact hi
  | cons op ops ih =>
    simp only [List.foldl_cons]
    exact ih (s.step tbl ci op) (scene_inv_step tbl hall ci s op hi (hforeign op List.mem_cons_self))
      (fun op' h' => hforeign op' (List.mem_cons_of_mem _ h'))

/-- the proviso is necessary — **the code as it is lets one group take a member away from another**: `add_observer` of an
observer that is a member of another group is accepted, re-parents it, and leaves it in the other group's member tuple -/
theorem cross_group_add_steals (tbl : List Descriptor) (ci : ClassInfo) (s : Scene) (g : Nat × List Nat) (hg : g ∈ s.others)
    (u : Nat) (hu : u ∈ g.2) (ht : typeOk s.focus.heap ci.accepted u = true) (hne : g.1 ≠ s.focus.gid) :
    (Cherab.Groups.step tbl ci s.focus (.add u)).2 = none ∧ ¬ (s.step tbl ci (.add u)).Inv ci := by
  constructor
  · simp [Cherab.Groups.step, addObserver, ht]
  · intro hi
    have h := (hi.2 g hg).2 u hu
    simp only [Scene.step, Cherab.Groups.step, addObserver, ht, if_true, setParent_parent_same] at h
    exact hne (Option.some.inj h).symm

/-! ## Non-vacuity: the hypotheses are satisfiable by concrete, non-trivial instances -/

section Examples

/-- the descriptor the translator produces for `Observer0DGroup.spectral_bins` -/
def exBins : Descriptor :=
  { cls := "Observer0DGroup", name := "spectral_bins", definedIn := "Observer0DGroup", getterFn := "spectral_bins",
    getter := .each "spectral_bins",
    setter := some (.broadcast { fnName := "spectral_bins", decTarget := "spectral_bins", test := .isinst [.list, .tuple, .ndarray], lenCheck := true, lenErr := .valueError, seqAttr := "spectral_bins", elemEngineCheck := false, elemErr := .typeError, orelse := .broadcast "spectral_bins" false .typeError }) }

/-- … and for `names` -/
def exNames : Descriptor :=
  { cls := "Observer0DGroup", name := "names", definedIn := "Observer0DGroup", getterFn := "names",
    getter := .each "name",
    setter := some (.broadcast { fnName := "names", decTarget := "names", test := .isinst [.list, .tuple], lenCheck := true, lenErr := .valueError, seqAttr := "name", elemEngineCheck := false, elemErr := .typeError, orelse := .raise .typeError }) }

/-- the two property objects `@sensitivity.setter def names` creates in `SpectroscopicSightLineGroup` -/
def exMisboundNames : Descriptor :=
  { cls := "SpectroscopicSightLineGroup", name := "names", definedIn := "SpectroscopicSightLineGroup", getterFn := "sensitivity",
    getter := .each "sensitivity",
    setter := some (.broadcast { fnName := "names", decTarget := "sensitivity", test := .isinst [.list, .tuple, .ndarray], lenCheck := true, lenErr := .valueError, seqAttr := "sensitivity", elemEngineCheck := false, elemErr := .typeError, orelse := .broadcast "sensitivity" false .typeError }) }

def exNoSetter : Descriptor :=
  { cls := "SpectroscopicSightLineGroup", name := "sensitivity", definedIn := "SpectroscopicSightLineGroup",
    getterFn := "sensitivity", getter := .each "sensitivity", setter := none }

def exClass : ClassInfo := { name := "Observer0DGroup", family := .observer0D, accepted := ["Observer0D"], addErr := .valueError }

/-- a group `100` with three distinct members whose every attribute initially holds the member's own id -/
def exWorld : World :=
  ⟨100, fun u => { attrs := fun _ => u, parent := some 100, types := ["SightLine", "Observer0D"] }, [1, 2, 3]⟩

def exScalar : Val := ⟨{ stored := 7 }, []⟩
def exList : Val := ⟨{ stored := 0, rej := some .typeError, kind := some .list }, [{ stored := 4 }, { stored := 5 }, { stored := 6 }]⟩
def exShort : Val := ⟨{ stored := 0, rej := some .typeError, kind := some .tuple }, [{ stored := 4 }]⟩

example : exBins.wfBroadcast = true := by decide
example : exNames.wfSeqOnly = true ∧ exNames.admissible [] = true := by decide
example : exWorld.members.Nodup := by decide
example : ¬ IsSeq exBins exScalar ∧ Passes (scalarChk exBins) exScalar.obj :=
  ⟨by decide, rfl, by decide⟩
example : IsSeq exBins exList ∧ exList.items.length = exWorld.members.length := by decide
example : getAttr exBins exWorld = .vals [1, 2, 3] := by decide
example : getAttr exBins (setAttr exBins exWorld exScalar).1 = .vals [7, 7, 7] := by decide
example : getAttr exBins (setAttr exBins exWorld exList).1 = .vals [4, 5, 6] := by decide
example : (setAttr exBins exWorld exShort).2 = some .valueError ∧
    getAttr exBins (setAttr exBins exWorld exShort).1 = .vals [1, 2, 3] := by decide
/-- a history: scalar, wrong length, list, other attribute — the list wins for `spectral_bins` -/
example : getAttr exBins (runAssign exWorld [(exBins, exScalar), (exBins, exShort), (exBins, exList), (exNames, exList)]) = .vals [4, 5, 6] := by
  decide
example : (setAttr exNames exWorld exScalar).2 = some .typeError := by decide
/-- the mis-bound descriptors are *not* admissible, assignment to the setter-less one raises, and the other reads `sensitivity` -/
example : exMisboundNames.admissible [] = false ∧ exNoSetter.admissible [] = false := by decide
example : (setAttr exNoSetter exWorld exScalar).2 = some .attributeError := by decide
example : getAttr exMisboundNames ⟨100, fun u => { attrs := fun a => if a = "name" then 50 + u else u }, [1, 2]⟩ = .vals [1, 2] := by decide
/-- membership -/
example : Inv exClass exWorld := by
  intro u hu; exact ⟨rfl, rfl⟩
example : (addObserver exClass exWorld 9).1.members = [1, 2, 3, 9] ∧ getItem exClass (addObserver exClass exWorld 9).1 (.int (-1)) = .objs [9] := by
  decide
example : getItem exClass exWorld (.slice (some 1) (some 3) none) = .objs [2, 3] ∧
    getItem exClass exWorld (.slice none none (some (-1))) = .objs [3, 2, 1] ∧
    getItem exClass exWorld (.str 2) = .objs [2] ∧ getItem exClass exWorld (.int 3) = .err .indexError := by decide
example : getItem { exClass with family := .bolometer } exWorld (.slice (some 0) (some 2) none) = .objs [1, 2] ∧
    getItem { exClass with family := .bolometer, sliceKeys := false } exWorld (.slice (some 0) (some 2) none) = .err .typeError := by
  decide

/-- deepening pass: a refused assignment / member-list assignment / add through an admissible table leaves the world as it was -/
def exTable : List Descriptor :=
  [exBins, exNames,
   { cls := "Observer0DGroup", name := "observers", definedIn := "Observer0DGroup", getterFn := "observers", getter := .memberList,
     setter := some (.members { fnName := "observers", decTarget := "observers", kinds := [.list, .tuple], kindErr := .typeError, elemErr := .valueError, atomic := true }) }]

example : ∀ d ∈ exTable, d.admissible exTable = true := by decide
example : OpAcceptable exTable exClass (.assign "spectral_bins" exShort) := by
  intro d hd
  have : d = exBins := by
    have h : findDesc exTable exClass.name "spectral_bins" = some exBins := by decide
    rw [h] at hd; exact (Option.some.inj hd).symm
  subst this
  refine ⟨?_, ?_⟩
  · intro o ho
    have : o = { stored := 4 } := by simpa [exShort] using ho
    subst this
    exact ⟨rfl, by decide⟩
  · intro h
    exact absurd h (by decide)
example : (step exTable exClass exWorld (.assign "spectral_bins" exShort)).2 = some .valueError := by decide
/-- a wrong-typed object (id 77: types do not contain "Observer0D") in the middle of a member list, and as argument of add -/
def exWorld2 : World :=
  ⟨100, fun u => { attrs := fun _ => u, parent := if u = 77 then none else some 100,
                   types := if u = 77 then ["Sphere"] else ["SightLine", "Observer0D"] }, [1, 2, 3]⟩
example : (step exTable exClass exWorld2 (.setMembers "observers" (some .list) [1, 77, 2])).2 = some .valueError ∧
    (step exTable exClass exWorld2 (.add 77)).2 = some .valueError := by decide
/-- scene: group 200 (empty, focus) next to group 100 = [1, 2, 3]; adopting the free observer 9 keeps the invariant,
adopting observer 1 (a member of group 100) is accepted by the code and breaks it -/
def exScene : Scene :=
  ⟨⟨200, fun u => { attrs := fun _ => u, parent := if u = 9 then none else some 100, types := ["SightLine", "Observer0D"] }, []⟩,
   [(100, [1, 2, 3])]⟩
example : exScene.Inv exClass := by
  refine ⟨fun u hu => by simp [exScene] at hu, ?_⟩
  intro g hg
  simp only [exScene, List.mem_singleton] at hg
  subst hg
  refine ⟨by decide, ?_⟩
  intro u hu
  have : u = 1 ∨ u = 2 ∨ u = 3 := by simpa using hu
  rcases this with rfl | rfl | rfl <;> rfl
example : ∀ u ∈ adoptees (.add 9), ∀ g ∈ exScene.others, u ∉ g.2 := by decide
example : (Cherab.Groups.step exTable exClass exScene.focus (.add 1)).2 = none ∧
    ((exScene.step exTable exClass (.add 1)).focus.heap 1).parent = some 200 := by decide
/-- the `RenderEngine` guard inside the loop: first member already changed when the second element is refused -/
example : (assignZip "render_engine" true .typeError [1, 2] [{ stored := 8, engine := true }, { stored := 9 }] exWorld.heap).2 = some .typeError ∧
    (((assignZip "render_engine" true .typeError [1, 2] [{ stored := 8, engine := true }, { stored := 9 }] exWorld.heap).1) 1).attrs "render_engine" = 8 := by
  decide

end Examples

/-! ### Round 6 — the constructor `Cls(observers=…)` is a second entry point that agrees with `add_observer` -/

section Constructor

/-- the constructor's loop over observers of the group's type is exactly the history `add u₁; …; add uₙ` -/
theorem addLoop_accepts (tbl : List Descriptor) (ci : ClassInfo) (us : List Nat) (w : World)
    (hok : ∀ u ∈ us, typeOk w.heap ci.accepted u = true) :
    addLoop ci w us = (run tbl ci w (us.map .add), none) ∧ (run tbl ci w (us.map .add)).members = w.members ++ us := by
  induction us generalizing w with
  | nil => simp [addLoop, run]
  | cons u us ih =>
    have hu := hok u (by simp)
    obtain ⟨e, hm, -, -, -⟩ := add_accepts ci w u hu
    have hok' : ∀ x ∈ us, typeOk (addObserver ci w u).1.heap ci.accepted x = true := by
      intro x hx; rw [typeOk_addObserver]; exact hok x (by simp [hx])
    obtain ⟨h1, h2⟩ := ih (addObserver ci w u).1 hok'
    constructor
    · simp only [addLoop, List.map, run, step]
      rcases hr : addObserver ci w u with ⟨w', e'⟩
      rw [hr] at e h1
      simp only at e
      subst e
      simpa using h1
    · simp only [List.map, run, step]
      rw [h2, hm]; simp

/-- **two entry points agree**: `Cls(observers=us)` with observers of the group's type is accepted, and the group it
builds *is* the one obtained from an empty group by `add_observer(u)` for every `u` in order — same members (`us`, in
order), same heap; every member's parent is the new group and the invariant of clauses 6–7 holds -/
theorem construct_accepts (tbl : List Descriptor) (ci : ClassInfo) (g : Nat) (h : Heap) (us : List Nat)
    (hok : ∀ u ∈ us, typeOk h ci.accepted u = true) :
    construct ci g h us = (run tbl ci ⟨g, h, []⟩ (us.map .add), none) ∧
    (construct ci g h us).1.members = us ∧ (construct ci g h us).1.gid = g ∧ Inv ci (construct ci g h us).1 := by
  obtain ⟨h1, h2⟩ := addLoop_accepts tbl ci us ⟨g, h, []⟩ hok
  obtain ⟨h3, h4⟩ := inv_run tbl ci (us.map .add) ⟨g, h, []⟩ (inv_empty ci g h)
  unfold construct
  rw [h1]
  exact ⟨rfl, by simpa using h2, h4, h3⟩

/-- **a refused constructor keeps the earlier adoptions** (the constructive content of "the constructor is a loop of
`add_observer`"): with the first object of a wrong type at position `pre.length`, the call raises `add_observer`'s
exception, and the half-built group is the result of the accepted adds — `pre` are its members, each with the
discarded group as parent; nothing behind the wrong object is touched -/
theorem construct_refused_partial (tbl : List Descriptor) (ci : ClassInfo) (g : Nat) (h : Heap) (pre post : List Nat) (x : Nat)
    (hok : ∀ u ∈ pre, typeOk h ci.accepted u = true) (hx : typeOk h ci.accepted x = false) :
    construct ci g h (pre ++ x :: post) = (run tbl ci ⟨g, h, []⟩ (pre.map .add), some ci.addErr) ∧
    (construct ci g h (pre ++ x :: post)).1.members = pre ∧
    (∀ u ∈ pre, (((construct ci g h (pre ++ x :: post)).1.heap u).parent = some g)) := by
  have key : ∀ (pre : List Nat) (w : World), (∀ u ∈ pre, typeOk w.heap ci.accepted u = true) →
      typeOk w.heap ci.accepted x = false →
      addLoop ci w (pre ++ x :: post) = (run tbl ci w (pre.map .add), some ci.addErr) := by
    intro pre
    induction pre with
    | nil =>
      intro w _ hx
      simp [addLoop, run, add_rejects ci w x hx]
    | cons u pre ih =>
      intro w hok hx
      have hu := hok u (by simp)
      obtain ⟨e, -, -, -, -⟩ := add_accepts ci w u hu
      have hok' : ∀ y ∈ pre, typeOk (addObserver ci w u).1.heap ci.accepted y = true := by
        intro y hy; rw [typeOk_addObserver]; exact hok y (by simp [hy])
      have hx' : typeOk (addObserver ci w u).1.heap ci.accepted x = false := by
        rw [typeOk_addObserver]; exact hx
      have h1 := ih (addObserver ci w u).1 hok' hx'
      simp only [List.cons_append, addLoop, List.map, run, step]
      rcases hr : addObserver ci w u with ⟨w', e'⟩
      rw [hr] at e h1
      simp only at e
      subst e
      simpa using h1
  have hk := key pre ⟨g, h, []⟩ hok hx
  obtain ⟨-, h2⟩ := addLoop_accepts tbl ci pre ⟨g, h, []⟩ hok
  obtain ⟨h3, h4⟩ := inv_run tbl ci (pre.map .add) ⟨g, h, []⟩ (inv_empty ci g h)
  unfold construct
  rw [hk]
  refine ⟨rfl, by simpa using h2, ?_⟩
  intro u hu
  have := (h3 u (by rw [h2]; simpa using hu)).1
  rw [h4] at this
  exact this

/-- **for every argument list** (right or wrong types, duplicates, members of other groups): whatever the constructor
leaves behind — accepted or raised — satisfies clauses 6–7 (every member has the new group as parent and is of the group's
type), and its members are a prefix of the argument -/
theorem construct_inv (ci : ClassInfo) (g : Nat) (h : Heap) (us : List Nat) :
    Inv ci (construct ci g h us).1 ∧ (construct ci g h us).1.gid = g ∧ (construct ci g h us).1.members <+: us := by
  have key : ∀ (us : List Nat) (w : World), Inv ci w →
      Inv ci (addLoop ci w us).1 ∧ (addLoop ci w us).1.gid = w.gid ∧
      ∃ pre, pre <+: us ∧ (addLoop ci w us).1.members = w.members ++ pre := by
    intro us
    induction us with
    | nil => intro w hi; exact ⟨hi, rfl, [], by simp, by simp [addLoop]⟩
    | cons u us ih =>
      intro w hi
      obtain ⟨h1, h2⟩ := inv_step [] ci w (.add u) hi
      simp only [step] at h1 h2
      by_cases ht : typeOk w.heap ci.accepted u = true
      · obtain ⟨e, hm, -, -, -⟩ := add_accepts ci w u ht
        obtain ⟨i1, i2, pre, i3, i4⟩ := ih (addObserver ci w u).1 h1
        simp only [addLoop]
        rcases hr : addObserver ci w u with ⟨w', e'⟩
        rw [hr] at e i1 i2 i4 h2 hm
        simp only at e i1 i2 i4 h2 hm
        subst e
        refine ⟨i1, by rw [i2, h2], u :: pre, by simpa using i3, ?_⟩
        rw [i4, hm]; simp
      · have ht' : typeOk w.heap ci.accepted u = false := by simpa using ht
        rw [show addLoop ci w (u :: us) = (w, some ci.addErr) by simp only [addLoop, add_rejects ci w u ht']]
        exact ⟨hi, rfl, [], by simp, by simp⟩
  obtain ⟨h1, h2, pre, h3, h4⟩ := key us ⟨g, h, []⟩ (inv_empty ci g h)
  unfold construct
  exact ⟨h1, h2, by rw [h4]; simpa using h3⟩

/-- the hypothesis of `construct_accepts` is necessary and `construct_refused_partial` is not vacuous: a wrong object
in the middle (uid 77 is a Sphere) -/
example : (construct exClass 500 exWorld2.heap [1, 77, 2]).2 = some .valueError ∧
    (construct exClass 500 exWorld2.heap [1, 77, 2]).1.members = [1] ∧
    ((construct exClass 500 exWorld2.heap [1, 77, 2]).1.heap 1).parent = some 500 ∧
    ((construct exClass 500 exWorld2.heap [1, 77, 2]).1.heap 2).parent ≠ some 500 := by decide

example : (∀ u ∈ [1, 2, 3], typeOk exWorld.heap exClass.accepted u = true) ∧
    (construct exClass 500 exWorld.heap [1, 2, 3]).2 = none ∧
    (construct exClass 500 exWorld.heap [1, 2, 3]).1.members = [1, 2, 3] := by decide

end Constructor

end Cherab.Props.C15
