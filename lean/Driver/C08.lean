import Cherab.Drv.Proto
import Cherab.Model.Adf
import Cherab.Model.AdfText
open Cherab.Drv Cherab.Adf Cherab.Adf.Text

/-!
C08 driver.  One command per generated file: the tables arrive as opaque numeric tokens, the driver renders the file
with the model's writer (abstract lines → text), parses the *text* with the layer-1 views and the abstract lines with
the canonical views, and answers  `text # result-from-text # 1/0 (both parses agree)`.
Text lines are joined with `|`.
-/

def vec (xs : List String) : String := ",".intercalate xs
def mat (xs : List (List String)) : String := "/".intercalate (xs.map vec)
def joinLines (ls : List String) : String := "|".intercalate ls

def takeN (n : Nat) (ts : List String) : List String × List String := (ts.take n, ts.drop n)

def fnOf (xs : List String) : Nat → String := fun i => xs.getD i "?"
/-- flat list stored as `outer*inner` with the *second* index outer: f i j = flat[j*nI + i] -/
def fn2 (nI : Nat) (xs : List String) : Nat → Nat → String := fun i j => xs.getD (j * nI + i) "?"

def show2x : Except Err (Out2x String) → String
  | .error e => "err " ++ e.toString
  | .ok o => "ok e:" ++ vec o.e ++ ";n:" ++ vec o.n ++ ";t:" ++ vec o.t ++ ";sen:" ++ mat o.sen ++ ";st:" ++ vec o.st
      ++ ";eref:" ++ o.eref ++ ";nref:" ++ o.nref ++ ";tref:" ++ o.tref ++ ";sref:" ++ o.sref

def cmd2x (ts : List String) : String :=
  match ts with
  | zt :: spec :: svref :: tref :: eref :: dref :: neb :: ndt :: ntt :: rest =>
    let neb := pN neb; let ndt := pN ndt; let ntt := pN ntt
    let (eb, rest) := takeN neb rest
    let (dt, rest) := takeN ndt rest
    let (tt, rest) := takeN ntt rest
    let (svt, rest) := takeN ntt rest
    let t : Tab2x String := { zt := pN zt, spec := spec, svref := svref, tref := tref, eref := eref, dref := dref,
                              eb := eb, dt := dt, tt := tt, svt := fnOf svt, sv := fn2 neb rest }
    let ks := render2x t
    let text := ks.map text2x
    let a := parse2x lexK2x ks
    let b := parse2x lex2x text
    joinLines text ++ "#" ++ show2x b ++ "#" ++ fB (show2x a == show2x b)
  | _ => "bad-args"

def step (ts : List String) : String :=
  match ts with
  | "adf2x" :: r => cmd2x r
  | _ => "bad-op"

def main : IO UInt32 := do
  loop (stateless step) (← IO.getStdin) (← IO.getStdout) ()
  return 0
