import Cherab.Lemmas.CachingInterp

/-!
Helper lemmas for C14 (round 6): *existence* of a solution of the 2-D (16×16) and 3-D (64×64) constraint systems.
The 1-D Hermite system is surjective (`sur1`, explicit coefficients `hermiteC`); the tensor product of surjective
systems is surjective (`sur2`, `sur3` — solve along x for every row pair of the other axes, then along the others);
the model's rows are tensor rows (`row2_dot`, `row3_dot`), and every (r, s[, t]) combination occurs as a row
(`lrs`/`rs2`, `l3`/`rst3` are mutually inverse on the row range).
-/
namespace Cherab.Caching
set_option linter.unusedSectionVars false
set_option linter.unusedSimpArgs false
set_option linter.unusedVariables false

variable {α : Type} [Field α] [LinearOrder α] [IsStrictOrderedRing α]

/-- the 1-D Hermite system has a solution for every right-hand side -/
theorem sur1 (x0 x1 : α) (hne : x0 ≠ x1) (t : Nat → α) :
    ∃ g : Nat → α, ∀ r, r < 4 → sum4 (fun k => R x0 x1 r k * g k) = t r := by
  have hh : x1 - x0 ≠ 0 := sub_ne_zero.mpr (Ne.symm hne)
  refine ⟨hermiteC x0 x1 (t 0) (t 2) (t 1) (t 3), ?_⟩
  intro r hr
  interval_cases r <;> simp [R, comps, sum4, hermiteC] <;> field_simp <;> ring

/-- tensor product of two surjective 1-D systems is surjective -/
theorem sur2 (x0 x1 y0 y1 : α) (hx : x0 ≠ x1) (hy : y0 ≠ y1) (T : Nat → Nat → α) :
    ∃ e : Nat → α, ∀ r s, r < 4 → s < 4 →
      sum4 (fun a => sum4 (fun b => R x0 x1 r a * R y0 y1 s b * e (4 * a + b))) = T r s := by
  choose G hG using fun s => sur1 x0 x1 hx (fun r => T r s)
  choose F hF using fun a => sur1 y0 y1 hy (fun s => G s a)
  refine ⟨fun n => F (n / 4) (n % 4), ?_⟩
  intro r s hr hs
  have h0 := hF 0 s hs
  have h1 := hF 1 s hs
  have h2 := hF 2 s hs
  have h3 := hF 3 s hs
  have hg := hG s r hr
  simp only [sum4] at h0 h1 h2 h3 hg ⊢
  norm_num
  linear_combination hg + R x0 x1 r 0 * h0 + R x0 x1 r 1 * h1 + R x0 x1 r 2 * h2 + R x0 x1 r 3 * h3

theorem sur3 (x0 x1 y0 y1 z0 z1 : α) (hx : x0 ≠ x1) (hy : y0 ≠ y1) (hz : z0 ≠ z1) (T : Nat → Nat → Nat → α) :
    ∃ e : Nat → α, ∀ r s t, r < 4 → s < 4 → t < 4 →
      sum4 (fun a => sum4 (fun b => sum4 (fun c =>
        R x0 x1 r a * R y0 y1 s b * R z0 z1 t c * e (16 * a + 4 * b + c)))) = T r s t := by
  choose G hG using fun (st : Nat × Nat) => sur1 x0 x1 hx (fun r => T r st.1 st.2)
  choose F hF using fun a => sur2 y0 y1 z0 z1 hy hz (fun s t => G (s, t) a)
  refine ⟨fun n => F (n / 16) (n % 16), ?_⟩
  intro r s t hr hs ht
  have h0 := hF 0 s t hs ht
  have h1 := hF 1 s t hs ht
  have h2 := hF 2 s t hs ht
  have h3 := hF 3 s t hs ht
  have hg := hG (s, t) r hr
  simp only [sum4] at h0 h1 h2 h3 hg ⊢
  norm_num at h0 h1 h2 h3 hg ⊢
  linear_combination hg + R x0 x1 r 0 * h0 + R x0 x1 r 1 * h1 + R x0 x1 r 2 * h2 + R x0 x1 r 3 * h3

/-- the row of the 16-row system that carries the 1-D rows `(r, s)` (inverse of `rs2`) -/
def lrs (r s : Nat) : Nat := 4 * (2 * (r / 2) + s / 2) + (r % 2 + 2 * (s % 2))

/-- **existence, 2-D**: every cell with distinct knots on both axes has a coefficient block satisfying all 16 rows,
whatever the stencil data -/
theorem exists2 (ax ay : Axis α) (cell : Nat × Nat) (D : Nat → Nat → α)
    (hx : ax.xn cell.1 ≠ ax.xn (cell.1 + 1)) (hy : ay.xn cell.2 ≠ ay.xn (cell.2 + 1)) :
    ∃ c, IsSol2 ax ay cell D c := by
  obtain ⟨e, he⟩ := sur2 _ _ _ _ hx hy (fun r s => (row2 ax ay cell D (lrs r s)).2)
  refine ⟨e, ?_⟩
  intro l hl
  rw [row2_dot ax ay cell D e l hl]
  have h1 : (rs2 l).1 < 4 ∧ (rs2 l).2 < 4 ∧ lrs (rs2 l).1 (rs2 l).2 = l := by
    interval_cases l <;> decide
  have := he _ _ h1.1 h1.2.1
  simp only [h1.2.2] at this
  exact this

/-- **existence, 3-D** -/
theorem exists3 (ax ay az : Axis α) (cell : Nat × Nat × Nat) (D : Nat → Nat → Nat → α)
    (hx : ax.xn cell.1 ≠ ax.xn (cell.1 + 1)) (hy : ay.xn cell.2.1 ≠ ay.xn (cell.2.1 + 1))
    (hz : az.xn cell.2.2 ≠ az.xn (cell.2.2 + 1)) :
    ∃ c, IsSol3 ax ay az cell D c := by
  obtain ⟨e, he⟩ := sur3 _ _ _ _ _ _ hx hy hz (fun r s t => (row3 ax ay az cell D (l3 r s t)).2)
  refine ⟨e, ?_⟩
  intro l hl
  rw [row3_dot ax ay az cell D e l hl]
  have h1 : (rst3 l).1 < 4 ∧ (rst3 l).2.1 < 4 ∧ (rst3 l).2.2 < 4 ∧
      l3 (rst3 l).1 (rst3 l).2.1 (rst3 l).2.2 = l := by
    interval_cases l <;> decide
  have := he _ _ _ h1.1 h1.2.1 h1.2.2.1
  simp only [h1.2.2.2] at this
  exact this

end Cherab.Caching
