import Cherab.Props.C18
import Cherab.Gen.LaserEdges
namespace Cherab.Props.C18Table
open Cherab.Laser Cherab.Props.C18 Cherab.Gen.LaserEdges

/-- every setter validates before it writes, and a field that the rebuilt inner function requires to be positive is
only written after a positivity check — so a rejected assignment cannot leave the reported parameter changed while
the energy density still belongs to the old one -/
theorem rejected_assignments_atomic : classes.all atomicB = true := by decide

end Cherab.Props.C18Table
