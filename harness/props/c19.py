"""C19 — element / isotope registry is unambiguous and self-consistent.

T  lean/Cherab/Props/C19.lean over lean/Cherab/Gen/Elements.lean, which the translator (harness/translators/elements.py)
   regenerates from the *text* of cherab/core/atomic/elements.pyx and line.pyx on every run: object table,
   constructors, index key expressions, __richcmp__/__hash__ field lists, search-tree certificates.
K  (a) translator <-> imported module: every exported object, field by field (weights as exact rationals), dir() order;
   (b) the table compiled into the native driver <-> the imported module;
   (c) the model's indices (buildIndex over the generated key expressions) <-> module._element_index/_isotope_index;
   (d) lookup_element / lookup_isotope: every object x identifier x letter-case variant, plus negative and odd queries
       (near misses, ints, objects of the other kind, number = 0/None/wrong) -- driver answer vs real answer;
   (e) ==, !=, hash-equality: all ordered pairs of exported species; constructed near-copies differing in one field;
       Element-vs-Isotope mixes; Line objects;
   (f) the model's string functions lower / str(int) / + on codes vs Python's.
S  direct oracles on the implementation, no model: lookups return the very object (`is`), names / symbols unique,
   (Z, symbol, name) against the hand-written periodic table, isotope consistency, eq/ne/hash on all pairs, dict and
   set membership with fresh equal copies, Line keys.  Exhaustive over the exported objects.
"""
import copy
import itertools
import json
import math
import os
import pickle
import subprocess
import sys

from harness.translators import elements as T
from harness.vlib import lean
from harness.vlib.util import LEAN, call

GEN = os.path.join(LEAN, 'Cherab', 'Gen', 'Elements.lean')
MAX_FAILS = 40


def code(s):
    b = s.encode('utf-8')
    return int.from_bytes(b, 'big') if b else 0


def variants(s, rng=None, extra=0):
    """letter-case variants of an identifier (deduplicated, original first)"""
    alt = ''.join(c.upper() if i % 2 else c.lower() for i, c in enumerate(s))
    alt2 = ''.join(c.lower() if i % 2 else c.upper() for i, c in enumerate(s))
    out = [s, s.lower(), s.upper(), s.title(), s.swapcase(), s.capitalize(), alt, alt2]
    if rng is not None:
        for _ in range(extra):
            out.append(''.join(c.upper() if rng.random() < 0.5 else c.lower() for c in s))
    seen, res = set(), []
    for v in out:
        if v not in seen:
            seen.add(v)
            res.append(v)
    return res


def all_cases(s):
    """every letter-case pattern of s (2^letters)"""
    pools = [(c.lower(), c.upper()) if c.lower() != c.upper() else (c,) for c in s]
    return [''.join(p) for p in itertools.product(*pools)]


class Fails:
    def __init__(self, ctx):
        self.ctx = ctx
        self.n = 0
        self.groups = {}

    def __call__(self, sig, desc, replay):
        self.n += 1
        # systematic classes (one signature per species): the first three species of a class are reported, the rest counted
        if sig.startswith(('C19:near-miss:', 'C19:pickle:', 'C19:copy:', 'C19:lookup:result-changes-after-construction:')):
            g = sig.rsplit(':', 1)[0]
            seen = self.groups.setdefault(g, set())
            if sig not in seen and len(seen) >= 3:
                self.ctx.count('failing-inputs-not-listed:' + g)
                return
            seen.add(sig)
        if len(self.ctx.failing) + len(self.ctx.known_hits) < MAX_FAILS:
            self.ctx.fail(sig, desc, replay)
        else:
            self.ctx.count('failing-inputs-beyond-cap')


def qspec(v):
    """JSON description of a lookup argument"""
    if isinstance(v, str):
        return dict(kind='str', value=v)
    if isinstance(v, bool) or v is None:
        return dict(kind='repr', value=repr(v))
    if isinstance(v, int):
        return dict(kind='int', value=v)
    return dict(kind='obj', type=type(v).__name__, name=getattr(v, 'name', repr(v)))


# -------------------------------------------------------------------------------------------------------------------
def run(ctx):
    ctx.rule = ('EXHAUSTIVE over every Element/Isotope object exported by cherab.core.atomic.elements: each object x each of its '
                'identifiers (symbol, name, str(Z), int Z, object; isotopes: symbol, name, <el symbol><A>, <el name><A>, '
                '(element identifier, number=A), object) x letter-case variants {as written, lower, UPPER, Title, swapcase, '
                'Capitalize, aLtErNaTiNg both phases} (thorough: all 2^k case patterns of identifiers up to 10 letters, random patterns '
                'beyond); all ordered pairs of species for ==, !=, hash; dict/set membership via fresh equal copies; plus negative / '
                'odd queries and constructed near-copies.  A case is distinct by (function, argument spelling, number) or by the '
                '(ordered) pair of objects; non-trivial = the real function was called and its result compared by identity.')
    ctx.trusted += ['hand-written periodic table lean/Cherab/Model/Periodic.lean (Z, symbol, IUPAC name for Z = 1..118)',
                    'translator harness/translators/elements.py (syntactic; validated each run against the imported module, field by field)',
                    'CPython: dir(module) is sorted(module.__dict__), dict assignment overwrites, == / != dispatch with NotImplemented and '
                    'subclass-first reflection, hash(tuple) is a function of the element hashes (modelled, compared on all pairs)',
                    'string codes: identifiers are NUL-free ASCII (translator refuses anything else); str.lower() on ASCII']
    ctx.assumptions += ['lookup arguments are ASCII str, int, or Element/Isotope objects (a non-ASCII str such as the Kelvin sign lower-cases '
                        'to ASCII "k" in Python but not in the model; outside "identifier spellings and letter cases")',
                        'equality/hash consistency is claimed for exported objects; an Isotope constructed with an Element\'s name, symbol and '
                        'weight equals that Element but hashes differently (theorem mixed_eq_hash_witness; not an exported object)']
    fail = Fails(ctx)

    # ---- 1. translator --------------------------------------------------------------------------------------------
    info = None
    try:
        text, info = T.translate()
        changed = lean.write_if_changed(GEN, text)
        ctx.log('translator: %d elements, %d isotopes, builds %s, Gen %s' % (
            len(info['elements']), len(info['isotopes']), info['builds'], 'rewritten' if changed else 'unchanged'))
        ctx.extra['translator'] = dict(elements=len(info['elements']), isotopes=len(info['isotopes']), builds=info['builds'],
                                       cmp=info['cmp'], element_keys=info['element_keys'], isotope_keys=info['isotope_keys'])
    except T.Unsupported as e:
        ctx.broke('translator', 'elements.pyx / line.pyx left the fragment the translator reads', str(e))

    # ---- 2. T -----------------------------------------------------------------------------------------------------
    t_ok = False
    if info is not None:
        t_ok = ctx.lean_check(['Cherab.Props.C19', 'Cherab.Props.C19Int', 'Cherab.Props.C19Hist'], 'Cherab/Audit/C19.lean')
        ctx.log('T: %d/%d obligations discharged' % (sum(1 for o in ctx.obligations if o[1]), len(ctx.obligations)))

    # ---- 3. the implementation ------------------------------------------------------------------------------------
    import cherab.core.atomic.elements as E
    from cherab.core.atomic import Line
    rt = T.runtime_table(E)
    els = [r['obj'] for r in rt['elements']]
    isos = [r['obj'] for r in rt['isotopes']]
    species = els + isos
    ctx.count('exported-elements', len(els))
    ctx.count('exported-isotopes', len(isos))

    drv = None
    if info is not None:
        diffs = T.compare(info, rt)
        ctx.traces += len(info['elements']) + len(info['isotopes'])
        for r in rt['elements'] + rt['isotopes']:
            ctx.case(key=('table', tuple(r['var'])))
        if diffs:
            ctx.disagreements += len(diffs)
            ctx.broke('correspondence', 'translator (source text) vs imported module', diffs[:12])
        else:
            drv = Driver(ctx, info, rt)
    if drv is not None:
        k_table(ctx, drv, E)
        k_strings(ctx, drv)

    # ---- 4. lookups: S on every positive query, K on positive + negative queries ------------------------------------
    queries = lookup_queries(ctx, E, els, isos)
    s_lookups(ctx, fail, E, queries)
    s_history(ctx, fail, E, els, isos)           # round 6: lookups -> construct colliding species -> the same lookups
    if drv is not None:
        k_lookups(ctx, drv, E, queries + negative_queries(ctx, E, els, isos))

    # ---- 5. uniqueness, periodic table, isotope consistency ----------------------------------------------------------
    s_unique(ctx, fail, els, isos)
    s_periodic(ctx, fail, drv, els)
    s_isotopes(ctx, fail, E, els, isos)
    s_isotope_attachment(ctx, fail, drv, E, els, isos)

    # ---- 6. equality / hashing ---------------------------------------------------------------------------------------
    s_eq_hash(ctx, fail, E, species)
    s_lines(ctx, fail, E, Line, species)
    s_near_miss(ctx, fail, E, Line, species)
    s_copies(ctx, fail, E, Line, species)
    s_other_interpreter(ctx, fail, E, Line, species)
    s_final_sweep(ctx, fail, E, queries)         # round 6: after every construction / copy / pickle of this run
    if drv is not None:
        k_eq_rows(ctx, drv, species)
        k_constructed(ctx, drv, E, Line, els, isos)

    if drv is not None:
        try:
            drv.flush()          # one invocation of the native driver for all streams
        except RuntimeError as e:
            ctx.broke('correspondence', 'native driver', str(e)[-1500:])
    ctx.exhaustive = True
    ctx.log('evaluations %d, distinct %d, compared with the model %d, failing inputs %d' % (
        ctx.evaluations, len(ctx.distinct), ctx.traces, fail.n))


# -------------------------------------------------------------------------------------------------------------------
class Driver:
    """object ids: E<i> / I<j> are positions in the translator's (= the generated table's) element / isotope lists"""

    def __init__(self, ctx, info, rt):
        self.ctx = ctx
        byvar = {tuple(r['var']): r['obj'] for r in rt['elements'] + rt['isotopes']}
        self.obj = {}
        self.id = {}
        for pre, kind in (('E', 'elements'), ('I', 'isotopes')):
            for i, r in enumerate(info[kind]):
                o = byvar[tuple(r['var'])]
                self.obj['%s%d' % (pre, i)] = o
                self.id[id(o)] = '%s%d' % (pre, i)
        self.n_el = len(info['elements'])
        self.n_iso = len(info['isotopes'])
        self.jobs = []
        self.add(['count'], self._count)

    def _count(self, out):
        n = out[0].split()
        if [int(n[0]), int(n[1])] != [self.n_el, self.n_iso]:
            raise RuntimeError('driver was built from a different table: %s' % out[0])

    def add(self, lines, handler):
        """queue protocol lines; `handler(outputs)` runs after the single driver invocation in flush()"""
        self.jobs.append((list(lines), handler))

    def flush(self):
        lines = [l for job in self.jobs for l in job[0]]
        outs = self.ctx.driver(lines)
        k = 0
        for ls, h in self.jobs:
            h(outs[k:k + len(ls)])
            k += len(ls)
        self.jobs = []

    def spec(self, o):
        """species token: registry id, or a constructed object"""
        if id(o) in self.id:
            return self.id[id(o)]
        n, d = float(o.atomic_weight).as_integer_ratio()
        if hasattr(o, 'mass_number'):
            return 'i,%d,%d,%d,%d,%d,%s' % (code(o.name), code(o.symbol), o.mass_number, n, d, self.spec(o.element))
        return 'e,%d,%d,%d,%d,%d' % (code(o.name), code(o.symbol), o.atomic_number, n, d)


def k_table(ctx, drv, E):
    """the table and the indices inside the compiled driver vs the imported module"""
    lines = ['el %d' % i for i in range(drv.n_el)] + ['iso %d' % j for j in range(drv.n_iso)] + ['eidx', 'iidx']

    def _done(outs):
        bad = []
        for i in range(drv.n_el):
            o = drv.obj['E%d' % i]
            n, d = float(o.atomic_weight).as_integer_ratio()
            want = '%d %d %d %d %d' % (code(o.name), code(o.symbol), o.atomic_number, n, d)
            ctx.traces += 1
            if outs[i] != want:
                bad.append(('E%d' % i, o.name, outs[i], want))
        for j in range(drv.n_iso):
            o = drv.obj['I%d' % j]
            n, d = float(o.atomic_weight).as_integer_ratio()
            want = '%d %d %d %d %d %d %s %d' % (code(o.name), code(o.symbol), o.atomic_number, n, d, o.mass_number,
                                                drv.id.get(id(o.element), 'E?%d' % code(o.element.name)), code(o.element.name))
            ctx.traces += 1
            if outs[drv.n_el + j] != want:
                bad.append(('I%d' % j, o.name, outs[drv.n_el + j], want))
        for line, real, nm in ((outs[-2], E._element_index, 'element'), (outs[-1], E._isotope_index, 'isotope')):
            model = {}
            for tok in line.split():          # newest first: the first occurrence of a key is its final binding
                k, v = tok.split(':')
                model.setdefault(T.decode(k), v)
            want = {k: drv.id.get(id(v), '?' + getattr(v, 'name', '?')) for k, v in real.items()}
            ctx.traces += len(want)
            ctx.count('index-keys-' + nm, len(want))
            for k in sorted(set(model) | set(want)):
                ctx.case(key=('index', nm, k))
                if model.get(k) != want.get(k):
                    bad.append(('_%s_index[%r]' % (nm, k), '', model.get(k), want.get(k)))
        if bad:
            ctx.disagreements += len(bad)
            ctx.broke('correspondence', 'generated table / modelled index vs imported module', bad[:10])
    drv.add(lines, _done)


def k_strings(ctx, drv):
    rng = ctx.rng
    alphabet = 'abcXYZ019 _-<>:@[`{~AZaz' + 'qwertyuiopQWERTYUIOP'
    strs = [''.join(rng.choice(alphabet) for _ in range(rng.randint(1, 24))) for _ in range(ctx.n(150, 3000))]
    strs += ['<Element: hydrogen>', '<Isotope: deuterium>', 'A', 'Z', '@', '[', 'a', 'z', '`', '{']
    ints = [0, 1, -1, 9, 10, 99, 100, 118, -118, 2 ** 31 - 1, -2 ** 31, 10 ** 20] + [rng.randint(-10 ** 6, 10 ** 6) for _ in range(ctx.n(60, 1000))]
    lines = ['lower %d' % code(s) for s in strs] + ['strint %d' % n for n in ints]
    pairs = [(rng.choice(strs), rng.choice(strs)) for _ in range(ctx.n(60, 1000))]
    lines += ['cat %d %d' % (code(a), code(b)) for a, b in pairs]
    lines += ['enc %s' % s for s in strs if ' ' not in s and s]
    want = [str(code(s.lower())) for s in strs] + [str(code(str(n))) for n in ints] + [str(code(a + b)) for a, b in pairs]
    want += [str(code(s)) for s in strs if ' ' not in s and s]
    # round 6: the model's `lower` applied to an already lower-cased string (theorem `lower_idem` / `lookup_lower_normal_form`)
    # and to numerals (`lower_strInt`) against the real `str.lower`
    lines += ['lower %d' % code(s.lower()) for s in strs] + ['lower %d' % code(str(n)) for n in ints]
    want += [str(code(s.lower().lower())) for s in strs] + [str(code(str(n).lower())) for n in ints]

    def _done(outs):
        bad = [(l, o, w) for l, o, w in zip(lines, outs, want) if o != w]
        ctx.traces += len(lines)
        ctx.count('string-function-cases', len(lines))
        for l in lines:
            ctx.case(key=('str', l))
        if bad:
            ctx.disagreements += len(bad)
            ctx.broke('correspondence', 'string codes: lower / str(int) / + / enc', bad[:8])
    drv.add(lines, _done)


# -------------------------------------------------------------------------------------------------------------------
def lookup_queries(ctx, E, els, isos):
    """positive queries: (function, arg, number, expected object, identifier kind)"""
    thorough = ctx.tier == 'thorough'
    rng = ctx.rng

    def vs(s):
        if thorough:
            letters = sum(1 for c in s if c.lower() != c.upper())
            if letters <= 10:
                return all_cases(s)
            return variants(s, rng, 24)
        return variants(s, rng, 2)
    q = []
    el_idents = {}
    for e in els:
        ids = []
        for v in vs(e.symbol):
            q.append(('lookup_element', v, None, e, 'symbol'))
            ids.append(v)
        for v in vs(e.name):
            q.append(('lookup_element', v, None, e, 'name'))
            ids.append(v)
        q.append(('lookup_element', str(e.atomic_number), None, e, 'atomic-number-str'))
        q.append(('lookup_element', e.atomic_number, None, e, 'atomic-number-int'))
        q.append(('lookup_element', e, None, e, 'object'))
        el_idents[id(e)] = variants(e.symbol)[:4] + variants(e.name)[:4] + [str(e.atomic_number), e.atomic_number, e]
        if thorough:
            el_idents[id(e)] = ids + [str(e.atomic_number), e.atomic_number, e]
    for i in isos:
        for v in vs(i.symbol):
            q.append(('lookup_isotope', v, None, i, 'symbol'))
        for v in vs(i.name):
            q.append(('lookup_isotope', v, None, i, 'name'))
        p = i.element
        for v in vs(p.symbol + str(i.mass_number)):
            q.append(('lookup_isotope', v, None, i, 'element-symbol+A'))
        for v in vs(p.name + str(i.mass_number)):
            q.append(('lookup_isotope', v, None, i, 'element-name+A'))
        q.append(('lookup_isotope', i, None, i, 'object'))
        q.append(('lookup_isotope', i, i.mass_number, i, 'object'))
        idents = el_idents.get(id(p))
        if idents is None:
            idents = variants(p.symbol)[:4] + variants(p.name)[:4] + [str(p.atomic_number), p.atomic_number, p]
        if thorough and len(idents) > 80:
            idents = idents[:40] + rng.sample(idents[40:], 40)
        for v in idents:
            q.append(('lookup_isotope', v, i.mass_number, i, 'element+number'))
    return q


def negative_queries(ctx, E, els, isos):
    """queries that must not resolve (or resolve oddly); expected object is unknown (None) -> K only"""
    rng = ctx.rng
    q = []
    ekeys = sorted(E._element_index)
    ikeys = sorted(E._isotope_index)
    for k in ekeys:
        for v in (k + ' ', ' ' + k, k + 'x', k[:-1], k + '0', '0' + k):
            q.append(('lookup_element', v, None, None, 'near-miss'))
        q.append(('lookup_isotope', k, None, None, 'element-key-in-isotope-lookup'))
    for k in rng.sample(ikeys, min(len(ikeys), ctx.n(150, 600))):
        for v in (k + ' ', k + 'x', k[:-1], k.upper() + '1'):
            q.append(('lookup_isotope', v, None, None, 'near-miss'))
        q.append(('lookup_element', k, None, None, 'isotope-key-in-element-lookup'))
        q.append(('lookup_isotope', k, rng.choice([1, 2, 3, 12, 235]), None, 'isotope-key-with-number'))
    for n in list(range(-3, 125)) + [10 ** 6, -2 ** 31]:
        q.append(('lookup_element', n, None, None, 'int'))
        q.append(('lookup_element', str(n), None, None, 'int-str'))
        q.append(('lookup_element', '0' + str(n), None, None, 'int-str-padded'))
        q.append(('lookup_isotope', n, None, None, 'int'))
    for e in els:
        q.append(('lookup_isotope', e, None, None, 'element-object-without-number'))
        q.append(('lookup_isotope', e, 0, None, 'number-zero'))
        q.append(('lookup_isotope', e.symbol, 0, None, 'number-zero'))
        for n in (-1, 1, 2, 3, 400):
            q.append(('lookup_isotope', e, n, None, 'element+wrong-number'))
            q.append(('lookup_isotope', e.atomic_number, n, None, 'element+wrong-number'))
    for i in isos:
        q.append(('lookup_element', i, None, None, 'isotope-object-in-element-lookup'))
        q.append(('lookup_isotope', i, i.mass_number + 1, None, 'isotope-object+other-number'))
        q.append(('lookup_isotope', i.name, i.mass_number, None, 'isotope-name+number'))
        q.append(('lookup_isotope', i.element.name, i.mass_number + 1, None, 'element+wrong-number'))
        q.append(('lookup_isotope', i.element.symbol, -i.mass_number, None, 'element+negative-number'))
    alphabet = 'abcdehinostuABCDEHINOSTU0123 <>:-'
    for _ in range(ctx.n(300, 5000)):
        s = ''.join(rng.choice(alphabet) for _ in range(rng.randint(1, 9)))
        q.append((rng.choice(['lookup_element', 'lookup_isotope']), s, rng.choice([None, None, 0, 1, 2, 4]), None, 'random'))
    # lookup_element has no number argument
    return [(f, v, (n if f == 'lookup_isotope' else None), o, k) for f, v, n, o, k in q]


def _call_lookup(E, f, v, n):
    if f == 'lookup_element':
        return call(E.lookup_element, v)
    if n is None:
        return call(E.lookup_isotope, v)
    return call(E.lookup_isotope, v, n)


def s_lookups(ctx, fail, E, queries):
    for f, v, n, want, kind in queries:
        st, res = _call_lookup(E, f, v, n)
        ctx.count('S:%s:%s' % (f, kind))
        ctx.case(key=(f, v if isinstance(v, (str, int)) else ('obj', v.name), n),
                 sample=dict(call=f, arg=qspec(v), number=n, returned=getattr(res, 'name', str(res))) if ctx.rng.random() < 0.0004 else None)
        if st != 'ok' or res is not want:
            got = ('%s: %s' % (st, res)) if st != 'ok' else repr(res)
            fail('C19:%s:%s:%s' % (f, kind, want.name),
                 '%s(%r%s) returned %s, expected the %s object %r' % (f, v, '' if n is None else ', number=%r' % n, got, type(want).__name__, want.name),
                 dict(call=f, arg=qspec(v), number=n, expected=want.name, got=got))


def history_idents(E, s):
    """[(function, arg, number)]: every identifier form of the exported species `s` (one spelling each + two letter cases)"""
    out = []
    if type(s) is E.Isotope:
        p = s.element
        for v in (s.symbol, s.symbol.lower(), s.name, s.name.upper(), p.symbol + str(s.mass_number), p.name + str(s.mass_number), s):
            out.append(('lookup_isotope', v, None))
        for v in (p.symbol, p.name, p.atomic_number, str(p.atomic_number), p):
            out.append(('lookup_isotope', v, s.mass_number))
    else:
        for v in (s.symbol, s.symbol.upper(), s.symbol.lower(), s.name, s.name.title(), s.atomic_number, str(s.atomic_number), s):
            out.append(('lookup_element', v, None))
    return out


def history_collaborators(E, s):
    """[(label, thunk)]: public-constructor calls whose name / symbol / number / element+mass-number key collides with `s`.
    Built from the public attributes of the exported object only; none of them may change what any lookup returns."""
    iso = type(s) is E.Isotope
    w = s.atomic_weight
    out = []
    if iso:
        p = s.element
        a = s.mass_number
        out += [('equal-value-isotope', lambda: E.Isotope(s.name, s.symbol, p, a, w)),
                ('same-identifiers-other-weight', lambda: E.Isotope(s.name, s.symbol, p, a, float(round(w)))),
                ('same-name-only', lambda: E.Isotope(s.name, 'Qq%d' % a, p, a + 400, w)),
                ('same-symbol-only', lambda: E.Isotope('userspecies', s.symbol, p, a + 400, w)),
                ('same-element+mass-number-only', lambda: E.Isotope('userspecies', 'Qq', p, a, w)),
                ('same-mass-number-on-element-copy', lambda: E.Isotope('userspecies', 'Qq', E.Element(p.name, p.symbol, p.atomic_number, p.atomic_weight), a, w)),
                ('lower-cased-identifiers', lambda: E.Isotope(s.name.lower(), s.symbol.lower(), p, a, w)),
                ('element-with-isotope-identifiers', lambda: E.Element(s.name, s.symbol, s.atomic_number, w)),
                ('element-named-symbol+A', lambda: E.Element(p.symbol + str(a), p.name + str(a), s.atomic_number, w))]
    else:
        z = s.atomic_number
        out += [('equal-value-element', lambda: E.Element(s.name, s.symbol, z, w)),
                ('same-identifiers-other-weight', lambda: E.Element(s.name, s.symbol, z, float(round(w)))),
                ('same-name-only', lambda: E.Element(s.name, 'Qq', z + 400, w)),
                ('same-symbol-only', lambda: E.Element('userspecies', s.symbol, z + 400, w)),
                ('same-atomic-number-only', lambda: E.Element('userspecies', 'Qq', z, w)),
                ('lower-cased-identifiers', lambda: E.Element(s.name.lower(), s.symbol.lower(), z, w)),
                ('name-is-the-atomic-number', lambda: E.Element(str(z), str(z), z + 400, w)),
                ('isotope-with-element-identifiers', lambda: E.Isotope(s.name, s.symbol, s, max(z, 1), w)),
                ('isotope-on-it', lambda: E.Isotope('userspecies', 'Qq', s, z + 400, w))]
    out += [('copy', lambda: copy.copy(s)), ('deepcopy', lambda: copy.deepcopy(s)),
            ('pickle-roundtrip', lambda: pickle.loads(pickle.dumps(s)))]
    return out


def s_history(ctx, fail, E, els, isos):
    """History stream (round 6): "constructing objects must not change what the lookups return".
    For every exported species X (the module global, never read back from the indices):
        lookups by every identifier of X  ->  one public-constructor call whose keys collide with X  ->  the same lookups,
    repeated for each collaborator kind, the constructed objects kept alive; then they are dropped, gc runs, and the
    lookups are made once more.  Oracle (model-free): each lookup returns the *identical* exported object, every time."""
    import gc
    keep = []
    for x in list(els) + list(isos):
        idents = history_idents(E, x)

        def look(stage, label, made):
            for f, v, n in idents:
                st, res = _call_lookup(E, f, v, n)
                ctx.count('S:history:%s' % stage)
                ctx.case(key=('history', f, v if isinstance(v, (str, int)) else ('obj', v.name), n, label))
                if st != 'ok' or res is not x:
                    got = ('%s: %s' % (st, res)) if st != 'ok' else '%r with atomic_weight %r, which is not the exported object (it is the object just constructed: %s)' % (
                        res, getattr(res, 'atomic_weight', None), res is made)
                    fail('C19:lookup:result-changes-after-construction:%s:%s' % (label, x.name),
                         'history: %s(%r%s) returned the exported %s %r; then %s was constructed (%s); then the same call returned %s'
                         % (f, v, '' if n is None else ', number=%r' % n, type(x).__name__, x.name, made_repr(made), label, got),
                         dict(call=f, arg=qspec(v), number=n, expected=x.name, got=got, history=['lookup', 'construct:' + label, 'lookup'],
                              constructed=made_repr(made)))
                    return False
            return True
        if not look('before', 'before-any-construction', None):
            continue                      # already wrong before the history starts: reported by s_lookups under its own signature
        for label, thunk in history_collaborators(E, x):
            st, made = call(thunk)
            if st != 'ok':
                ctx.count('S:history:constructor-refused:%s' % label)      # e.g. a validation added to the constructor: not a history fault
                continue
            keep.append(made)
            ctx.count('S:history:constructed')
            if not look('after', label, made):
                break
    n = len(keep)
    del keep[:]
    gc.collect()
    for x in list(els) + list(isos):
        for f, v, n_ in history_idents(E, x):
            st, res = _call_lookup(E, f, v, n_)
            ctx.count('S:history:after-gc')
            if st != 'ok' or res is not x:
                got = ('%s: %s' % (st, res)) if st != 'ok' else repr(res)
                fail('C19:lookup:result-changes-after-construction:collaborators-dropped+gc:%s' % x.name,
                     'history: %d colliding species constructed, dropped, gc.collect(); then %s(%r%s) returned %s, expected the exported %s %r'
                     % (n, f, v, '' if n_ is None else ', number=%r' % n_, got, type(x).__name__, x.name),
                     dict(call=f, arg=qspec(v), number=n_, expected=x.name, got=got, history=['construct*', 'del', 'gc', 'lookup']))
                break


def made_repr(o):
    if o is None:
        return 'nothing'
    if hasattr(o, 'mass_number'):
        return 'Isotope(%r, %r, <%s>, %r, %r)' % (o.name, o.symbol, o.element.name, o.mass_number, o.atomic_weight)
    return 'Element(%r, %r, %r, %r)' % (o.name, o.symbol, o.atomic_number, o.atomic_weight)


def s_final_sweep(ctx, fail, E, queries):
    """every positive query of the run once more, after all constructions, copies, pickles and Lines of the other streams"""
    for f, v, n, want, kind in queries:
        st, res = _call_lookup(E, f, v, n)
        ctx.count('S:final-sweep')
        if st != 'ok' or res is not want:
            got = ('%s: %s' % (st, res)) if st != 'ok' else repr(res)
            fail('C19:lookup:result-changes-after-construction:final-sweep:%s' % want.name,
                 'at the end of the run (after the species / Line constructions, copies and pickles of the other streams) %s(%r%s) '
                 'returned %s, expected the exported %s %r (it did at the start of the run)'
                 % (f, v, '' if n is None else ', number=%r' % n, got, type(want).__name__, want.name),
                 dict(call=f, arg=qspec(v), number=n, expected=want.name, got=got, history=['lookup', 'all other streams', 'lookup']))


def k_lookups(ctx, drv, E, queries):
    lines, real = [], []
    for f, v, n, want, kind in queries:
        if isinstance(v, str):
            if not v.isascii() or not v or '\x00' in v:
                continue
            tok = 's %d' % code(v)
        elif isinstance(v, int):
            tok = 'n %d' % v
        else:
            tok = 'o ' + drv.spec(v)
        if f == 'lookup_element':
            lines.append('le ' + tok)
        else:
            lines.append('li %s %s' % (tok, '-' if n is None else str(n)))
        st, res = _call_lookup(E, f, v, n)
        real.append(drv.id.get(id(res), '?' + repr(res)) if st == 'ok' else st)
        ctx.count('K:%s:%s' % (f, kind))
        ctx.count('K:result:' + ('found' if st == 'ok' else st))
        if want is None:
            ctx.case(key=(f, v if isinstance(v, (str, int)) else ('obj', v.name), n))

    def _done(outs):
        ctx.traces += len(lines)
        bad = [(l, o, r) for l, o, r in zip(lines, outs, real) if o != r]
        if bad:
            ctx.disagreements += len(bad)
            ctx.broke('correspondence', 'lookup_element / lookup_isotope: model vs implementation',
                      [dict(line=l, query=_describe(l), model=o, implementation=r) for l, o, r in bad[:10]])
    drv.add(lines, _done)


def _describe(line):
    t = line.split()
    if t[1] == 's':
        return '%s(%r%s)' % (t[0], T.decode(t[2]), '' if len(t) < 4 or t[3] == '-' else ', number=' + t[3])
    return line


# -------------------------------------------------------------------------------------------------------------------
def s_unique(ctx, fail, els, isos):
    seen = {}
    for o in els + isos:
        ctx.case(key=('name', o.name))
        if o.name in seen:
            fail('C19:name-shared:%s' % o.name, 'two species share the name %r: %r and %r' % (o.name, seen[o.name], o),
                 dict(name=o.name, objects=[repr(seen[o.name]), repr(o)]))
        seen[o.name] = o
    for kind, objs in (('element', els), ('isotope', isos)):
        seen = {}
        for o in objs:
            ctx.case(key=('symbol', kind, o.symbol))
            if o.symbol in seen:
                fail('C19:symbol-shared:%s:%s' % (kind, o.symbol), 'two %ss share the symbol %r: %r and %r' % (kind, o.symbol, seen[o.symbol], o),
                     dict(symbol=o.symbol, objects=[repr(seen[o.symbol]), repr(o)]))
            seen[o.symbol] = o


ALT_NAMES = {13: 'aluminum', 16: 'sulphur', 55: 'cesium'}


def s_periodic(ctx, fail, drv, els):
    """reference = the hand-written Lean table (Model/Periodic.lean), served by the driver"""
    lines = ['periodic %d' % z for z in range(0, 121)]

    def _done(outs):
        ref = {}
        for z, o in enumerate(outs):
            if o != 'none':
                s, n = o.split()
                ref[z] = (T.decode(s), T.decode(n))
        if len(ref) != 118 or ref.get(26) != ('Fe', 'iron') or 0 in ref or 119 in ref:
            raise RuntimeError('periodic reference table is damaged')
        for e in els:
            ctx.case(key=('periodic', e.name))
            r = ref.get(e.atomic_number)
            ok = r is not None and r[0] == e.symbol and e.name.lower() in (r[1], ALT_NAMES.get(e.atomic_number))
            if not ok:
                fail('C19:periodic:%s' % e.name, 'element %r has symbol %r and atomic number %d; the periodic table has %r for that number'
                     % (e.name, e.symbol, e.atomic_number, r), dict(element=e.name, symbol=e.symbol, atomic_number=e.atomic_number, reference=r))
    if drv is not None:
        drv.add(lines, _done)
    else:
        # the generated table could not be used; the reference table is independent of it, the last built driver serves it
        try:
            _done(lean.run_driver('C19', lines))
        except Exception as e:  # noqa
            ctx.broke('correspondence', 'periodic table reference unavailable (driver does not build)', str(e)[-500:])


def s_isotopes(ctx, fail, E, els, isos):
    elset = {id(e) for e in els}
    for i in isos:
        ctx.case(key=('isotope', i.name))
        p = i.element
        if type(p) is not E.Element or id(p) not in elset:
            fail('C19:isotope:%s:element-not-exported' % i.name, 'isotope %r: its element %r is not an exported Element object' % (i.name, p),
                 dict(isotope=i.name, element=repr(p)))
        if i.atomic_number != p.atomic_number:
            fail('C19:isotope:%s:atomic-number' % i.name, 'isotope %r has atomic number %d, its element %r has %d'
                 % (i.name, i.atomic_number, p.name, p.atomic_number), dict(isotope=i.name, z=i.atomic_number, element_z=p.atomic_number))
        if not (i.mass_number >= i.atomic_number >= 1):
            fail('C19:isotope:%s:mass-number' % i.name, 'isotope %r: mass number %d smaller than atomic number %d'
                 % (i.name, i.mass_number, i.atomic_number), dict(isotope=i.name, a=i.mass_number, z=i.atomic_number))
        # exact rational arithmetic: |w - A| <= 1/10
        n, d = float(i.atomic_weight).as_integer_ratio()
        if not (math.isfinite(i.atomic_weight) and 10 * abs(n - i.mass_number * d) <= d):
            fail('C19:isotope:%s:weight' % i.name, 'isotope %r: atomic weight %r is not within 0.1 u of mass number %d'
                 % (i.name, i.atomic_weight, i.mass_number), dict(isotope=i.name, weight=i.atomic_weight, a=i.mass_number))


def s_isotope_attachment(ctx, fail, drv, E, els, isos):
    """an isotope hangs on the RIGHT element: independent of `.element`'s self-consistency.  Reference = hand-written
    Periodic.lean (rows and the special hydrogen names), served by the driver.
      * the isotope's name / symbol is <element name><A> / <element symbol><A> (or protium/H, deuterium/D, tritium/T for Z = 1);
      * its element's (Z, symbol, name) is the periodic-table row;
      * lookup_isotope(<own element: name, symbol, Z, object>, number=A) returns it (covered by s_lookups) and
        lookup_isotope(<any other exported element>, number=A) does not."""
    lines = ['hisotopes'] + ['periodic %d' % z for z in range(0, 121)]
    lines += ['named %d %d %d %d %d %d' % (i.element.atomic_number, code(i.element.name), code(i.element.symbol), i.mass_number,
                                          code(i.name), code(i.symbol)) for i in isos]

    def _done(outs):
        special = set()
        for tok in outs[0].split():
            a, sy, nm = tok.split(':')
            special.add((int(a), T.decode(sy), T.decode(nm)))
        ref = {}
        for z, o in enumerate(outs[1:122]):
            if o != 'none':
                sy, nm = o.split()
                ref[z] = (T.decode(sy), T.decode(nm))
        if special != {(1, 'H', 'protium'), (2, 'D', 'deuterium'), (3, 'T', 'tritium')} or len(ref) != 118:
            raise RuntimeError('reference tables are damaged')
        bad = []
        for i, model in zip(isos, outs[122:]):
            p = i.element
            a = i.mass_number
            ctx.case(key=('attached', i.name))
            std = i.name.lower() == (p.name + str(a)).lower() and i.symbol.lower() == (p.symbol + str(a)).lower()
            hyd = p.atomic_number == 1 and (a, i.symbol, i.name.lower()) in special
            ctx.count('S:isotope-naming:' + ('standard' if std else 'hydrogen-special' if hyd else 'MISMATCH'))
            ctx.traces += 1
            if model != ('1' if (std or hyd) else '0'):
                bad.append((i.name, p.name, 'model ' + model, 'python oracle %r' % (std or hyd)))
            if not (std or hyd):
                fail('C19:isotope:%s:not-named-after-its-element' % i.name,
                     'isotope %r (symbol %r, A = %d) is attached to element %r (symbol %r, Z = %d): name/symbol are not <element><A>'
                     % (i.name, i.symbol, a, p.name, p.symbol, p.atomic_number),
                     dict(isotope=i.name, symbol=i.symbol, a=a, element=p.name, element_symbol=p.symbol, z=i.atomic_number))
            r = ref.get(p.atomic_number)
            if r is None or r[0] != p.symbol or p.name.lower() not in (r[1], ALT_NAMES.get(p.atomic_number)):
                fail('C19:isotope:%s:element-not-a-periodic-row' % i.name,
                     'isotope %r: its element (%r, %r, Z = %d) is not a row of the periodic table (%r)' % (i.name, p.name, p.symbol, p.atomic_number, r),
                     dict(isotope=i.name, element=p.name, z=p.atomic_number, reference=r))
        if bad:
            ctx.disagreements += len(bad)
            ctx.broke('correspondence', 'isotopeNamedAfter: model vs python oracle', bad[:10])
    if drv is not None:
        drv.add(lines, _done)
    else:
        try:
            _done(lean.run_driver('C19', lines))
        except Exception as e:  # noqa
            ctx.broke('correspondence', 'reference tables unavailable (driver does not build)', str(e)[-500:])
    # no other element leads to this isotope
    n = 0
    for i in isos:
        for e in els:
            if e is i.element:
                continue
            for v in (e, e.symbol, e.name, e.atomic_number):
                st, res = call(E.lookup_isotope, v, i.mass_number)
                n += 1
                if st == 'ok' and res is i:
                    fail('C19:lookup_isotope:foreign-element+number:%s' % i.name,
                         'lookup_isotope(%r, number=%d) returned %r although its element is %r' % (v, i.mass_number, i, i.element),
                         dict(call='lookup_isotope', arg=qspec(v), number=i.mass_number, got=i.name, element=i.element.name, foreign=e.name))
        ctx.case(key=('foreign', i.name))
    ctx.count('S:lookup_isotope:foreign-element+number', n)
    ctx.evaluations += n


# -------------------------------------------------------------------------------------------------------------------
def fresh_copy(E, o):
    if type(o) is E.Isotope:
        return E.Isotope(o.name, o.symbol, o.element, o.mass_number, o.atomic_weight)
    return E.Element(o.name, o.symbol, o.atomic_number, o.atomic_weight)


def s_eq_hash(ctx, fail, E, species):
    n = len(species)
    hs = [hash(o) for o in species]
    for a in range(n):
        x = species[a]
        for b in range(n):
            y = species[b]
            eq = x == y
            ne = x != y
            same = a == b
            if eq is not same or ne is same:
                fail('C19:eq:%s:%s' % (x.name, y.name), '%r == %r is %r and != is %r for %s objects'
                     % (x, y, eq, ne, 'the same' if same else 'distinct'), dict(a=x.name, b=y.name, eq=eq, ne=ne))
            if eq and hs[a] != hs[b]:
                fail('C19:hash:%s:%s' % (x.name, y.name), '%r == %r but the hashes differ' % (x, y), dict(a=x.name, b=y.name))
        ctx.case(key=('eqrow', x.name))
    ctx.count('S:eq-ne-hash-ordered-pairs', n * n)
    ctx.evaluations += n * n - n
    d = {o: k for k, o in enumerate(species)}
    st = set(species)
    if len(d) != n or len(st) != n:
        fail('C19:dict:size', 'dict/set of the %d species has %d/%d entries' % (n, len(d), len(st)), dict(n=n, dict=len(d), set=len(st)))
    for k, o in enumerate(species):
        c = fresh_copy(E, o)
        ctx.case(key=('dict', o.name))
        ok = (c == o) and (o == c) and not (c != o) and hash(c) == hash(o) and c in d and d.get(c) == k and c in st and d.get(o) == k
        if not ok:
            fail('C19:dict:%s' % o.name, 'a fresh equal copy of %r is not found as dict/set key (== %r, hash equal %r, in dict %r -> %r)'
                 % (o, c == o, hash(c) == hash(o), c in d, d.get(c)), dict(object=o.name))


def s_lines(ctx, fail, E, Line, species):
    """Line objects over every exported species as dict keys; distinct lines unequal"""
    trs = [(3, 2), ('2s1 3p1 3P4.0', '2s1 3s1 3S1.0')]
    thorough = ctx.tier == 'thorough'
    if thorough:
        trs.append((4, 2))
    lines = []
    for o in species:
        for c in sorted({0, o.atomic_number - 1}):
            for t in trs:
                lines.append((o, c, t, Line(o, c, t)))
    d = {l[3]: k for k, l in enumerate(lines)}
    if len(d) != len(lines):
        fail('C19:line:dict-size', '%d distinct lines give a dict of %d entries' % (len(lines), len(d)), dict(n=len(lines), dict=len(d)))
    for k, (o, c, t, l) in enumerate(lines):
        ctx.case(key=('line', o.name, c, str(t)))
        l2 = Line(fresh_copy(E, o), c, tuple(t))
        ok = l2 == l and not (l2 != l) and hash(l2) == hash(l) and d.get(l2) == k
        if not ok:
            fail('C19:line:key:%s' % o.name, 'an equal Line(%r, %d, %r) built from a fresh copy is not found as dict key (== %r, hash equal %r, lookup %r)'
                 % (o, c, t, l2 == l, hash(l2) == hash(l), d.get(l2)), dict(element=o.name, charge=c, transition=list(t)))
    # distinct lines compare unequal.  thorough: all ordered pairs; quick: all ordered pairs of lines of the same species
    # (charge / transition differ) and all ordered pairs of species at fixed charge and transition (element differs)
    hs = [hash(l[3]) for l in lines]
    if thorough:
        idx_pairs = ((a, b) for a in range(len(lines)) for b in range(len(lines)))
    else:
        by_sp = {}
        for k, l in enumerate(lines):
            by_sp.setdefault(id(l[0]), []).append(k)
        first = [ks[0] for ks in by_sp.values()]
        idx_pairs = itertools.chain((p for ks in by_sp.values() for p in itertools.product(ks, ks)), itertools.product(first, first))
    npairs = 0
    for a, b in idx_pairs:
        la, lb = lines[a], lines[b]
        x, y = la[3], lb[3]
        npairs += 1
        eq = x == y
        if eq is not (a == b) or (x != y) is (a == b) or (eq and hs[a] != hs[b]):
            what = 'element' if la[0] is not lb[0] else 'charge' if la[1] != lb[1] else 'transition' if la[2] != lb[2] else 'same'
            fail('C19:line:eq:differ-in-%s:%s:%s' % (what, la[0].name, lb[0].name), '%r == %r is %r, != is %r (distinct lines: %r)' % (x, y, eq, x != y, a != b),
                 dict(a=[la[0].name, la[1], list(la[2])], b=[lb[0].name, lb[1], list(lb[2])]))
    ctx.count('S:line-ordered-pairs', npairs)
    ctx.evaluations += npairs


def k_eq_rows(ctx, drv, species):
    n = len(species)
    ids = [drv.id[id(o)] for o in species]
    order = ['E%d' % i for i in range(drv.n_el)] + ['I%d' % j for j in range(drv.n_iso)]   # the driver's allSpecies order
    objs = [drv.obj[t] for t in order]
    lines = ['row %d' % k for k in range(len(order))]

    def _done(outs):
        hs = [hash(o) for o in objs]
        bad = []
        for k, x in enumerate(objs):
            eq = ''.join('1' if x == y else '0' for y in objs)
            ne = ''.join('1' if x != y else '0' for y in objs)
            he = ''.join('1' if hs[k] == h else '0' for h in hs)
            if outs[k] != '%s %s %s' % (eq, ne, he):
                m = outs[k].split()
                for nm, a, b in (('==', m[0], eq), ('!=', m[1], ne), ('hash==', m[2], he)):
                    for j, (ca, cb) in enumerate(zip(a, b)):
                        if ca != cb:
                            bad.append((x.name, nm, objs[j].name, 'model ' + ca, 'implementation ' + cb))
        ctx.traces += 3 * n * n
        ctx.count('K:eq-ne-hash-ordered-pairs', n * n)
        if bad:
            ctx.disagreements += len(bad)
            ctx.broke('correspondence', '== / != / hash on exported species: model vs implementation', bad[:10])
    drv.add(lines, _done)


def k_constructed(ctx, drv, E, Line, els, isos):
    """near-copies of exported objects differing in exactly one field, mixed Element/Isotope pairs, lines"""
    rng = ctx.rng
    pool = els + isos
    sample = pool if ctx.tier == 'thorough' else rng.sample(pool, 70) + [E.hydrogen, E.protium, E.deuterium, E.carbon12]
    pairs = []
    for o in sample:
        iso = type(o) is E.Isotope
        w = o.atomic_weight
        other_el = rng.choice([e for e in els if e is not (o.element if iso else o)])
        muts = [fresh_copy(E, o)]
        if iso:
            muts += [E.Isotope(o.name + 'x', o.symbol, o.element, o.mass_number, w),
                     E.Isotope(o.name, o.symbol.lower(), o.element, o.mass_number, w),
                     E.Isotope(o.name, o.symbol, o.element, o.mass_number + 1, w),
                     E.Isotope(o.name, o.symbol, o.element, o.mass_number, math.nextafter(w, 1e9)),
                     E.Isotope(o.name, o.symbol, other_el, o.mass_number, w),
                     # same atomic number, different parent object content
                     E.Isotope(o.name, o.symbol, E.Element(o.element.name + 'q', o.element.symbol, o.element.atomic_number, o.element.atomic_weight), o.mass_number, w),
                     E.Isotope(o.name, o.symbol, fresh_copy(E, o.element), o.mass_number, w),
                     # an Element with the isotope's inherited fields (mixed comparison)
                     E.Element(o.name, o.symbol, o.atomic_number, w)]
        else:
            muts += [E.Element(o.name + 'x', o.symbol, o.atomic_number, w),
                     E.Element(o.name, o.symbol + 'x', o.atomic_number, w),
                     E.Element(o.name.upper(), o.symbol, o.atomic_number, w),
                     E.Element(o.name, o.symbol, o.atomic_number + 1, w),
                     E.Element(o.name, o.symbol, o.atomic_number, math.nextafter(w, 0.0)),
                     # an Isotope carrying the element's own name / symbol / weight (mixed comparison, hash differs)
                     E.Isotope(o.name, o.symbol, o, o.atomic_number, w),
                     E.Isotope(o.name, o.symbol, o, o.atomic_number + 1, w)]
        for m in muts:
            pairs += [(o, m), (m, o), (m, fresh_copy(E, m) if type(m) in (E.Element, E.Isotope) else m)]
        for a, b in itertools.combinations(muts, 2):
            if rng.random() < 0.25:
                pairs.append((a, b))
    lines = ['cmp %s %s' % (drv.spec(a), drv.spec(b)) for a, b in pairs]
    real = ['%d%d%d' % (a == b, a != b, hash(a) == hash(b)) for a, b in pairs]
    # lines
    lpairs = []
    trs = [(3, 2), (4, 2), ('2s1 3p1 3P4.0', '2s1 3s1 3S1.0'), ('a', 'b')]
    for _ in range(ctx.n(400, 6000)):
        a = rng.choice(pool)
        b = rng.choice([a, a, fresh_copy(E, a), rng.choice(pool), E.Element(a.name, a.symbol, a.atomic_number, a.atomic_weight)])
        ca = rng.randint(0, max(0, a.atomic_number - 1))
        cb = rng.choice([ca, ca, rng.randint(0, max(0, b.atomic_number - 1))])
        cb = min(cb, b.atomic_number - 1)
        ta = rng.randrange(len(trs))
        tb = rng.choice([ta, ta, rng.randrange(len(trs))])
        lpairs.append((a, ca, ta, b, cb, tb))
    for a, ca, ta, b, cb, tb in lpairs:
        la, lb = Line(a, ca, trs[ta]), Line(b, cb, tuple(trs[tb]))
        lines.append('lcmp %s %d %d %s %d %d' % (drv.spec(a), ca, ta, drv.spec(b), cb, tb))
        real.append('%d%d%d' % (la == lb, la != lb, hash(la) == hash(lb)))
    # Line constructor guards (line.pyx:51-55)
    for _ in range(ctx.n(100, 1500)):
        a = rng.choice(pool)
        c = rng.choice([-1, 0, a.atomic_number - 1, a.atomic_number, a.atomic_number + 1, rng.randint(-3, 100)])
        st, _ = call(Line, a, c, (3, 2))
        lines.append('linector %s %d' % (drv.spec(a), c))
        real.append('1' if st == 'ok' else '0')

    def _done(outs):
        ctx.traces += len(lines)
        ctx.count('K:constructed-species-pairs', len(pairs))
        ctx.count('K:line-pairs', len(lpairs))
        for l in lines:
            ctx.case(key=('cmp', l))
        bad = [(l, 'model ' + o, 'implementation ' + r) for l, o, r in zip(lines, outs, real) if o != r]
        for l, o, r in zip(lines, outs, real):
            ctx.count('K:cmp-outcome:' + r)
        if bad:
            ctx.disagreements += len(bad)
            ctx.broke('correspondence', '== / != / hash on constructed species and lines (eq ne hash-eq bits): model vs implementation', bad[:10])
    drv.add(lines, _done)


# -------------------------------------------------------------------------------------------------------------------
# round 5: near-miss constructed species against the registry; copies and pickles, also across interpreters
# -------------------------------------------------------------------------------------------------------------------
def coherence(a, b):
    """why `a` and `b` do not behave coherently as dictionary keys, or None.  Nothing is assumed about whether they
    *should* be equal: only that ==, != and hash tell one story (property: "equality and hashing agree")."""
    eq1, eq2, ne1, ne2 = (a == b), (b == a), (a != b), (b != a)
    if eq1 is not eq2:
        return 'a == b is %r but b == a is %r' % (eq1, eq2)
    if ne1 is eq1 or ne2 is eq2:
        return '== is %r but != is %r / %r' % (eq1, ne1, ne2)
    if eq1:
        if hash(a) != hash(b):
            return 'a == b but hash(a) != hash(b); b in {a: 1} is %r' % (b in {a: 1})
        if b not in {a: 1} or a not in {b: 1} or len({a, b}) != 1:
            return 'a == b, hashes equal, but dict/set membership fails'
    return None


def near_misses(E, s):
    """[(label, perturbed attribute, twin)]: `s` with exactly one attribute minimally perturbed (+ the exact copy)"""
    iso = type(s) is E.Isotope
    w = s.atomic_weight

    def mk(name=s.name, symbol=s.symbol, z=s.atomic_number, weight=w, a=None, element=None):
        if iso:
            return E.Isotope(name, symbol, element if element is not None else s.element, s.mass_number if a is None else a, weight)
        return E.Element(name, symbol, z, weight)
    out = [('exact-copy', 'none', mk())]
    for lab, w2 in (('weight+1ulp', math.nextafter(w, math.inf)), ('weight-1ulp', math.nextafter(w, 0.0)),
                    ('weight+4ulp', w * (1 + 2 ** -51)), ('weight-round9', float(repr(round(w, 9)))), ('weight-10g', float('%.10g' % w)),
                    ('weight-12g', float('%.12g' % w))):
        if w2 != w:
            out.append((lab, 'weight', mk(weight=w2)))
    for lab, n2 in (('name-upper', s.name.upper()), ('name-title', s.name.title())):
        if n2 != s.name:
            out.append((lab, 'name', mk(name=n2)))
    for lab, y2 in (('symbol-lower', s.symbol.lower()), ('symbol-upper', s.symbol.upper()), ('symbol-swapcase', s.symbol.swapcase())):
        if y2 != s.symbol:
            out.append((lab, 'symbol', mk(symbol=y2)))
    if iso:
        out.append(('A+1', 'mass-number', mk(a=s.mass_number + 1)))
        out.append(('A-1', 'mass-number', mk(a=s.mass_number - 1)))
        p = s.element
        out.append(('element-weight+1ulp', 'element', mk(element=E.Element(p.name, p.symbol, p.atomic_number, math.nextafter(p.atomic_weight, math.inf)))))
        out.append(('element-copy', 'none', mk(element=E.Element(p.name, p.symbol, p.atomic_number, p.atomic_weight))))
    else:
        out.append(('Z+1', 'atomic-number', mk(z=s.atomic_number + 1)))
        out.append(('Z-1', 'atomic-number', mk(z=s.atomic_number - 1)))
    return out


def s_near_miss(ctx, fail, E, Line, species):
    """every exported species against constructed near misses of itself, and the Lines built on both"""
    head_mixed = []
    for s in species:
        kind = type(s).__name__
        for lab, attr, twin in near_misses(E, s):
            ctx.count('S:near-miss:' + lab)
            ctx.case(key=('near-miss', s.name, lab))
            why = coherence(s, twin)
            if why is None and lab in ('exact-copy', 'element-copy') and not (s == twin):
                why = 'a constructed object with identical attributes compares unequal (equality is not value based)'
            if why:
                fail('C19:near-miss:%s:%s:%s' % (kind, attr, s.name),
                     '%s %r vs the same species with %s (%r / weight %r): %s' % (kind, s.name, lab, twin, twin.atomic_weight, why),
                     dict(species=s.name, kind=kind, perturbation=lab, twin_weight=twin.atomic_weight, registry_weight=s.atomic_weight))
            st1, la = call(Line, s, 0, (2, 1))
            st2, lb = call(Line, twin, 0, (2, 1))
            if st1 == 'ok' and st2 == 'ok':
                why = coherence(la, lb)
                if why:
                    fail('C19:near-miss:Line:%s:%s' % (attr, s.name),
                         'Line on %s %r vs Line on the same species with %s: %s' % (kind, s.name, lab, why),
                         dict(species=s.name, kind=kind, perturbation=lab, twin_weight=twin.atomic_weight, line=[0, [2, 1]]))
        # the exact type changed, attributes kept (an Isotope carrying an Element's name/symbol/weight and vice versa)
        if type(s) is E.Element:
            other = E.Isotope(s.name, s.symbol, s, max(s.atomic_number, 1), s.atomic_weight)
        else:
            other = E.Element(s.name, s.symbol, s.atomic_number, s.atomic_weight)
        ctx.count('S:near-miss:other-kind')
        why = coherence(s, other)
        if why:
            head_mixed.append((s.name, kind, why))
    if head_mixed:
        # present on /repo HEAD (notes/C19.md "Observations" 1, theorem mixed_eq_hash_witness, notes/fixes/C19-optional-1.diff):
        # reported as a failing input only once the main author lists the signature; never silently dropped.
        sig = 'C19:near-miss:other-kind:eq-but-hash-differs'
        desc = ('%d exported species compare equal to a constructed object of the other exact type carrying the same name, symbol, Z and '
                'weight, yet hash differently (e.g. %s %r: %s)' % (len(head_mixed), head_mixed[0][1], head_mixed[0][0], head_mixed[0][2]))
        ctx.count('HEAD-observation:other-kind-eq-but-hash-differs', len(head_mixed))
        ctx.extra['head_observations'] = [dict(signature=sig, description=desc, patch='notes/fixes/C19-optional-1.diff')]
        if sig in ctx.known:
            ctx.fail(sig, desc, dict(species=head_mixed[0][0], kind=head_mixed[0][1]))


def s_copies(ctx, fail, E, Line, species):
    """copy / deepcopy / pickle round trip inside this interpreter"""
    ways = (('copy', copy.copy), ('deepcopy', copy.deepcopy), ('pickle', lambda o: pickle.loads(pickle.dumps(o))),
            ('pickle-protocol-2', lambda o: pickle.loads(pickle.dumps(o, protocol=2))))
    for s in species:
        objs = [(type(s).__name__, s)]
        st, l = call(Line, s, 0, (3, 2))
        if st == 'ok':
            objs.append(('Line', l))
        for kind, o in objs:
            for lab, f in ways:
                ctx.count('S:copies:' + lab)
                ctx.case(key=('copy', lab, kind, s.name))
                st, c = call(f, o)
                if st != 'ok':
                    fail('C19:copy:%s:%s:%s' % (lab, kind, s.name), '%s of %r raised %s: %s' % (lab, o, st, c), dict(species=s.name, kind=kind, how=lab))
                    continue
                why = coherence(o, c) or (None if o == c else 'the %s compares unequal to the original' % lab)
                if why:
                    fail('C19:copy:%s:%s:%s' % (lab, kind, s.name), '%s of %r: %s' % (lab, o, why), dict(species=s.name, kind=kind, how=lab))


_CHILD = r"""
import json, pickle, sys
import cherab.core.atomic.elements as E
from cherab.core.atomic import Line

def registry():
    out = {}
    for var in dir(E):
        o = getattr(E, var)
        if type(o) in (E.Element, E.Isotope):
            out[var] = o
    return out

def payload():
    reg = registry()
    d = {}
    for var, o in reg.items():
        d['species:' + var] = o
        try:
            d['line:' + var] = Line(o, 0, (3, 2))
        except Exception:
            pass
    return d

def coherence(a, b):
    eq1, eq2, ne1, ne2 = (a == b), (b == a), (a != b), (b != a)
    if not (eq1 and eq2):
        return 'the unpickled object is not == to the object of this interpreter (%r / %r)' % (eq1, eq2)
    if ne1 or ne2:
        return '== is True but != is %r / %r' % (ne1, ne2)
    if hash(a) != hash(b):
        return '== but the hashes differ; found as dict key: %r' % (b in {a: 1})
    if b not in {a: 1} or a not in {b: 1} or len({a, b}) != 1:
        return '== and equal hashes but dict/set membership fails'
    return None

def check(loaded):
    mine = payload()
    problems = []
    for k in sorted(set(mine) | set(loaded)):
        if k not in mine or k not in loaded:
            problems.append([k, 'present in one interpreter only'])
            continue
        why = coherence(mine[k], loaded[k])
        if why:
            problems.append([k, type(loaded[k]).__name__ + ': ' + why])
    return problems

if sys.argv[1] == 'dump':
    sys.stdout.buffer.write(pickle.dumps(payload()))
else:
    print('RESULT ' + json.dumps(check(pickle.loads(sys.stdin.buffer.read()))))
"""


def s_other_interpreter(ctx, fail, E, Line, species):
    """species and Lines pickled by an interpreter with another string-hash seed, checked against this interpreter's
    registry; and the reverse direction (pickled here, checked there)"""
    env_a = dict(os.environ, PYTHONHASHSEED='4242')
    env_b = dict(os.environ, PYTHONHASHSEED='777')
    ns = {}
    exec(compile(_CHILD.replace("if sys.argv[1] == 'dump':", "if False:").replace("else:\n    print('RESULT '", "if False:\n    print('RESULT '"), '<c19-child>', 'exec'), ns)

    def report(direction, problems):
        ctx.count('S:other-interpreter:%s:objects' % direction, len(ns['payload']()))
        for key, why in problems:
            what, var = key.split(':', 1)
            fail('C19:pickle:other-interpreter:%s:%s' % (what, var),
                 '%s %r pickled in one interpreter and loaded in another (different PYTHONHASHSEED), %s: %s' % (what, var, direction, why),
                 dict(object=key, direction=direction, hashseeds=['0 (this run)', '4242', '777']))
    try:
        a = subprocess.run([sys.executable, '-c', _CHILD, 'dump'], env=env_a, stdout=subprocess.PIPE, stderr=subprocess.PIPE, timeout=300)
        if a.returncode != 0:
            ctx.broke('correspondence', 'pickling the registry in a second interpreter failed', a.stderr.decode()[-800:])
        else:
            st, loaded = call(pickle.loads, a.stdout)
            if st != 'ok':
                fail('C19:pickle:other-interpreter:load', 'a pickle of the registry written by another interpreter cannot be loaded: %s %s' % (st, loaded),
                     dict(direction='there->here'))
            else:
                for k in loaded:
                    ctx.case(key=('other-interpreter', 'there->here', k))
                report('written there, loaded here', ns['check'](loaded))
        st, data = call(lambda: pickle.dumps(ns['payload']()))
        if st != 'ok':
            fail('C19:pickle:dump', 'the registry cannot be pickled: %s %s' % (st, data), {})
            return
        b = subprocess.run([sys.executable, '-c', _CHILD, 'check'], env=env_b, input=data, stdout=subprocess.PIPE, stderr=subprocess.PIPE, timeout=300)
        res = [l for l in b.stdout.decode().splitlines() if l.startswith('RESULT ')]
        if b.returncode != 0 or not res:
            ctx.broke('correspondence', 'checking the pickled registry in a second interpreter failed', b.stderr.decode()[-800:])
        else:
            for k in ns['payload']():
                ctx.case(key=('other-interpreter', 'here->there', k))
            report('written here, loaded there', json.loads(res[0][7:]))
    except subprocess.TimeoutExpired:
        ctx.broke('correspondence', 'second interpreter timed out', '')


# -------------------------------------------------------------------------------------------------------------------
def replay(ctx, path):
    r = json.load(open(path))
    print(json.dumps(r, indent=1)[:3000])
    rp = r.get('replay') or {}
    if isinstance(rp, dict) and rp.get('call') in ('lookup_element', 'lookup_isotope'):
        import cherab.core.atomic.elements as E
        a = rp['arg']
        if a['kind'] == 'obj':
            v = next(getattr(E, n) for n in dir(E) if type(getattr(E, n)).__name__ == a['type'] and getattr(E, n).name == a['name'])
        else:
            v = a['value']
        st, res = _call_lookup(E, rp['call'], v, rp.get('number'))
        print('REPLAY %s(%r, number=%r) -> %s %r ; expected object %r' % (rp['call'], v, rp.get('number'), st, res, rp.get('expected')))
    run(ctx)
    return ctx.finish()
