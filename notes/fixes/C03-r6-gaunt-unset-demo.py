import subprocess, sys, textwrap
code = textwrap.dedent('''
from raysect.core import Point3D, Vector3D
from raysect.optical import Spectrum
from cherab.core.model import Bremsstrahlung
from cherab.core.atomic import AtomicData, deuterium
from cherab.core.atomic.gaunt import MaxwellianFreeFreeGauntFactor
from cherab.tools.plasmas.slab import build_constant_slab_plasma
class AD(AtomicData):
    def free_free_gaunt_factor(self):
        return MaxwellianFreeFreeGauntFactor()
plasma = build_constant_slab_plasma(length=1, width=1, height=1, electron_density=1e19, electron_temperature=1000., plasma_species=[(deuterium, 1, 1e19, 1000., Vector3D(0,0,0))])
m = Bremsstrahlung(plasma=plasma, atomic_data=AD())
s = lambda: Spectrum(400., 700., 16)
a = m.emission(Point3D(0.5,0,0), Vector3D(1,0,0), s()).samples.copy()
m.gaunt_factor = MaxwellianFreeFreeGauntFactor()
b = m.emission(Point3D(0.5,0,0), Vector3D(1,0,0), s()).samples.copy()
m.gaunt_factor = None
c = m.emission(Point3D(0.5,0,0), Vector3D(1,0,0), s()).samples.copy()
import numpy as np
assert np.allclose(a, c) and a.sum() > 0, (a, c)
print("ok")
''')
r = subprocess.run(['/venv/bin/python', '-c', code], capture_output=True, text=True)
print(r.returncode, r.stdout[-200:], r.stderr[-400:])
sys.exit(0 if r.returncode == 0 else 1)
