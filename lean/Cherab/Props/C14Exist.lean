import Cherab.Props.C14
import Cherab.Lemmas.CachingExist

/-!
# C14, round 6 — existence of the 2-D / 3-D cubic, unconditional end-to-end statements, fresh and paired objects

* `system_solvable_2d/3d`: the 16×16 / 64×64 constraint systems have a solution for every stencil data
  (tensor-product construction from the 1-D Hermite solution) — with `system_nonsingular_2d/3d` the constraint matrix is
  invertible.
* `ideal_solve_total_2d/3d`, `inside_returns_value_2d/3d`: no `LinAlgError` in exact arithmetic — with a solver that
  returns whenever a solution exists, Caching2D / Caching3D return a *value* at every located point.
* `node_value_returned_1d/2d/3d`: the end-to-end node clause without the "if a value is returned" premise.
* `first_evaluation_fresh`, `two_instances_independent`: the round-5 classes (first call on a fresh object; two objects
  used alternately) as statements about the machine.
-/
namespace Cherab.Props.C14
set_option linter.unusedSectionVars false
set_option linter.unusedVariables false
open Cherab.Caching

section Exist
variable {α : Type} [Field α] [LinearOrder α] [IsStrictOrderedRing α]

/-- 2-D: a solution of the 16×16 system exists for every stencil data (tensor product of the 1-D Hermite solution) -/
theorem system_solvable_2d (ax ay : Axis α) (cell : Nat × Nat) (D : Nat → Nat → α)
    (hx : ax.xn cell.1 ≠ ax.xn (cell.1 + 1)) (hy : ay.xn cell.2 ≠ ay.xn (cell.2 + 1)) :
    ∃ c, IsSol2 ax ay cell D c := exists2 ax ay cell D hx hy

/-- 3-D: likewise for the 64×64 system -/
theorem system_solvable_3d (ax ay az : Axis α) (cell : Nat × Nat × Nat) (D : Nat → Nat → Nat → α)
    (hx : ax.xn cell.1 ≠ ax.xn (cell.1 + 1)) (hy : ay.xn cell.2.1 ≠ ay.xn (cell.2.1 + 1))
    (hz : az.xn cell.2.2 ≠ az.xn (cell.2.2 + 1)) :
    ∃ c, IsSol3 ax ay az cell D c := exists3 ax ay az cell D hx hy hz

/-- non-vacuity: a concrete rational 2-D / 3-D cell -/
example (D : Nat → Nat → ℚ) : ∃ c, IsSol2 (mkAxis (fun _ : ℚ => 3) 0 1 (1 / 3)) (mkAxis (fun _ : ℚ => 3) 0 1 (1 / 3)) (1, 2) D c :=
  system_solvable_2d _ _ _ D
    (((mkAxis_ok (fun _ : ℚ => 3) 0 1 (1 / 3) (by norm_num) (by unfold EPS; norm_num)).xn_ne 1 2 (by norm_num)
      (by simp [mkAxis, nNodes])).symm)
    (((mkAxis_ok (fun _ : ℚ => 3) 0 1 (1 / 3) (by norm_num) (by unfold EPS; norm_num)).xn_ne 2 3 (by norm_num)
      (by simp [mkAxis, nNodes])).symm)

/-- the ideal solver returns on every 2-D cell with distinct knots -/
theorem ideal_solve_total_2d (ax ay : Axis α) (cell : Nat × Nat) (D : Nat → Nat → α)
    (hx : ax.xn cell.1 ≠ ax.xn (cell.1 + 1)) (hy : ay.xn cell.2 ≠ ay.xn (cell.2 + 1)) :
    ((idealExt α).solve (system2 ax ay cell D).1 (system2 ax ay cell D).2).isSome := by
  obtain ⟨c, hc⟩ := exists2 ax ay cell D hx hy
  have hex : ∃ c, Solves (system2 ax ay cell D).1 (system2 ax ay cell D).2 c :=
    ⟨c, (solves_system2 ax ay cell D c).mpr hc⟩
  simp [idealExt, hex]

/-- … and on every 3-D cell -/
theorem ideal_solve_total_3d (ax ay az : Axis α) (cell : Nat × Nat × Nat) (D : Nat → Nat → Nat → α)
    (hx : ax.xn cell.1 ≠ ax.xn (cell.1 + 1)) (hy : ay.xn cell.2.1 ≠ ay.xn (cell.2.1 + 1))
    (hz : az.xn cell.2.2 ≠ az.xn (cell.2.2 + 1)) :
    ((idealExt α).solve (system3 ax ay az cell D).1 (system3 ax ay az cell D).2).isSome := by
  obtain ⟨c, hc⟩ := exists3 ax ay az cell D hx hy hz
  have hex : ∃ c, Solves (system3 ax ay az cell D).1 (system3 ax ay az cell D).2 c :=
    ⟨c, (solves_system3 ax ay az cell D c).mpr hc⟩
  simp [idealExt, hex]

/-- **no LinAlgError in exact arithmetic (2-D).**  With a solver that returns whenever the system it is given has a
solution, every evaluation of Caching2D at a located point returns a value. -/
theorem inside_returns_value_2d (E : Ext α) (hT : ∀ A b, (∃ c, Solves A b c) → (E.solve A b).isSome)
    (ax ay : Axis α) (hax : AxisOK ax) (hay : AxisOK ay) (nm : Norm α) (f : α × α → α) (nbe : Bool) (p : α × α)
    (cell : Nat × Nat) (hc : cellOf2 ax ay p = some cell) :
    ∃ v, evalPure (spec2 E ax ay nm) (envOf f nm) nbe p = .val v := by
  obtain ⟨hcx, hcy⟩ := cellOf2_some ax ay p cell hc
  obtain ⟨h1, h2, _, _⟩ := cellOf_some ax p.1 cell.1 hcx
  obtain ⟨h3, h4, _, _⟩ := cellOf_some ay p.2 cell.2 hcy
  have hx : ax.xn cell.1 ≠ ax.xn (cell.1 + 1) := (hax.xn_ne cell.1 (cell.1 + 1) (by omega) (by omega)).symm
  have hy : ay.xn cell.2 ≠ ay.xn (cell.2 + 1) := (hay.xn_ne cell.2 (cell.2 + 1) (by omega) (by omega)).symm
  unfold evalPure
  rw [show (spec2 E ax ay nm).locate p = some cell from hc]
  dsimp only
  rw [envOf_all, if_pos rfl]
  simp only [spec2, build2]
  obtain ⟨c0, hc0⟩ := exists2 ax ay cell (fun a b =>
    ((stencil2 cell).map (nodeVal (spec2 E ax ay nm) (envOf f nm))).getD (4 * a + b) 0) hx hy
  have hex := hT _ _ ⟨c0, (solves_system2 ax ay cell _ c0).mpr hc0⟩
  obtain ⟨c, hcs⟩ := Option.isSome_iff_exists.mp hex
  simp only [spec2] at hcs
  rw [hcs]
  exact ⟨_, rfl⟩

/-- **no LinAlgError in exact arithmetic (3-D).** -/
theorem inside_returns_value_3d (E : Ext α) (hT : ∀ A b, (∃ c, Solves A b c) → (E.solve A b).isSome)
    (ax ay az : Axis α) (hax : AxisOK ax) (hay : AxisOK ay) (haz : AxisOK az) (nm : Norm α) (f : α × α × α → α)
    (nbe : Bool) (p : α × α × α) (cell : Nat × Nat × Nat) (hc : cellOf3 ax ay az p = some cell) :
    ∃ v, evalPure (spec3 E ax ay az nm) (envOf f nm) nbe p = .val v := by
  obtain ⟨hcx, hcy, hcz⟩ := cellOf3_some ax ay az p cell hc
  obtain ⟨h1, h2, _, _⟩ := cellOf_some ax p.1 cell.1 hcx
  obtain ⟨h3, h4, _, _⟩ := cellOf_some ay p.2.1 cell.2.1 hcy
  obtain ⟨h5, h6, _, _⟩ := cellOf_some az p.2.2 cell.2.2 hcz
  have hx : ax.xn cell.1 ≠ ax.xn (cell.1 + 1) := (hax.xn_ne cell.1 (cell.1 + 1) (by omega) (by omega)).symm
  have hy : ay.xn cell.2.1 ≠ ay.xn (cell.2.1 + 1) := (hay.xn_ne cell.2.1 (cell.2.1 + 1) (by omega) (by omega)).symm
  have hz : az.xn cell.2.2 ≠ az.xn (cell.2.2 + 1) := (haz.xn_ne cell.2.2 (cell.2.2 + 1) (by omega) (by omega)).symm
  unfold evalPure
  rw [show (spec3 E ax ay az nm).locate p = some cell from hc]
  dsimp only
  rw [envOf_all, if_pos rfl]
  simp only [spec3, build3]
  obtain ⟨c0, hc0⟩ := exists3 ax ay az cell (fun a b k =>
    ((stencil3 cell).map (nodeVal (spec3 E ax ay az nm) (envOf f nm))).getD (16 * a + 4 * b + k) 0) hx hy hz
  have hex := hT _ _ ⟨c0, (solves_system3 ax ay az cell _ c0).mpr hc0⟩
  obtain ⟨c, hcs⟩ := Option.isSome_iff_exists.mp hex
  simp only [spec3] at hcs
  rw [hcs]
  exact ⟨_, rfl⟩

/-- non-vacuity: the ideal solver on a concrete rational 2-D grid at a point of the area -/
example (f : ℚ × ℚ → ℚ) :
    ∃ v, evalPure (spec2 (idealExt ℚ) (mkAxis (fun _ : ℚ => 3) 0 1 (1 / 3)) (mkAxis (fun _ : ℚ => 3) 0 1 (1 / 3))
      (mkNorm none)) (envOf f (mkNorm none)) false (1 / 2, 1 / 2) = .val v := by
  obtain ⟨c, hc⟩ := inside_area_is_cached_2d (fun _ : ℚ => 3) (fun _ : ℚ => 3) 0 1 (1 / 3) 0 1 (1 / 3)
    (by norm_num) (by unfold EPS; norm_num) (by norm_num) (by unfold EPS; norm_num) (1 / 2, 1 / 2)
    (by norm_num) (by norm_num) (by norm_num) (by norm_num)
  exact inside_returns_value_2d (idealExt ℚ) (fun A b h => by simp [idealExt, h]) _ _
    (mkAxis_ok _ _ _ _ (by norm_num) (by unfold EPS; norm_num))
    (mkAxis_ok _ _ _ _ (by norm_num) (by unfold EPS; norm_num)) _ f false _ c hc

example (f : ℚ × ℚ × ℚ → ℚ) :
    ∃ v, evalPure (spec3 (idealExt ℚ) (mkAxis (fun _ : ℚ => 3) 0 1 (1 / 3)) (mkAxis (fun _ : ℚ => 3) 0 1 (1 / 3))
      (mkAxis (fun _ : ℚ => 3) 0 1 (1 / 3)) (mkNorm none)) (envOf f (mkNorm none)) false (1 / 2, 1 / 2, 1) = .val v := by
  obtain ⟨c, hc⟩ := inside_area_is_cached_3d (fun _ : ℚ => 3) (fun _ : ℚ => 3) (fun _ : ℚ => 3)
    0 1 (1 / 3) 0 1 (1 / 3) 0 1 (1 / 3)
    (by norm_num) (by unfold EPS; norm_num) (by norm_num) (by unfold EPS; norm_num) (by norm_num)
    (by unfold EPS; norm_num) (1 / 2, 1 / 2, 1)
    (by norm_num) (by norm_num) (by norm_num) (by norm_num) (by norm_num) (by norm_num)
  exact inside_returns_value_3d (idealExt ℚ) (fun A b h => by simp [idealExt, h]) _ _ _
    (mkAxis_ok _ _ _ _ (by norm_num) (by unfold EPS; norm_num))
    (mkAxis_ok _ _ _ _ (by norm_num) (by unfold EPS; norm_num))
    (mkAxis_ok _ _ _ _ (by norm_num) (by unfold EPS; norm_num)) _ f false _ c hc

/-! ### the node clause without "if a value is returned" -/

/-- Caching1D returns exactly `f(node)` at every inner node (trusting only that `solve` returns a solution when one
exists and that what it returns is one) -/
theorem node_value_returned_1d (E : Ext α) (hE : ExtOK E) (hT : ∀ A b, (∃ c, Solves A b c) → (E.solve A b).isSome)
    (ax : Axis α) (hax : AxisOK ax) (nm : Norm α) (hnm : NormOK nm) (f : α → α) (nbe : Bool) (i : Nat)
    (h1 : 1 ≤ i) (h2 : i + 2 ≤ ax.top) :
    evalPure (spec1 E ax nm) (envOf f nm) nbe (ax.dom i) = .val (f (ax.dom i)) := by
  have hc : cellOf ax (ax.dom i) = some i :=
    cellOf_of_bracket ax hax.sorted _ i h1 h2 le_rfl (hax.sorted i (i + 1) (by omega) (by omega))
  obtain ⟨v, hv⟩ := inside_returns_value_1d E hT ax hax nm f nbe _ i hc
  rw [hv, interpolates_nodes_1d E hE ax hax nm hnm f nbe i h1 h2 v hv]

theorem node_value_returned_2d (E : Ext α) (hE : ExtOK E) (hT : ∀ A b, (∃ c, Solves A b c) → (E.solve A b).isSome)
    (ax ay : Axis α) (hax : AxisOK ax) (hay : AxisOK ay) (nm : Norm α) (hnm : NormOK nm) (f : α × α → α)
    (nbe : Bool) (i j : Nat) (hi1 : 1 ≤ i) (hi2 : i + 2 ≤ ax.top) (hj1 : 1 ≤ j) (hj2 : j + 2 ≤ ay.top) :
    evalPure (spec2 E ax ay nm) (envOf f nm) nbe (ax.dom i, ay.dom j) = .val (f (ax.dom i, ay.dom j)) := by
  have hcx : cellOf ax (ax.dom i) = some i :=
    cellOf_of_bracket ax hax.sorted _ i hi1 hi2 le_rfl (hax.sorted i (i + 1) (by omega) (by omega))
  have hcy : cellOf ay (ay.dom j) = some j :=
    cellOf_of_bracket ay hay.sorted _ j hj1 hj2 le_rfl (hay.sorted j (j + 1) (by omega) (by omega))
  have hc : cellOf2 ax ay (ax.dom i, ay.dom j) = some (i, j) := by simp [cellOf2, hcx, hcy]
  obtain ⟨v, hv⟩ := inside_returns_value_2d E hT ax ay hax hay nm f nbe _ _ hc
  rw [hv, interpolates_nodes_2d E hE ax ay hax hay nm hnm f nbe i j hi1 hi2 hj1 hj2 v hv]

theorem node_value_returned_3d (E : Ext α) (hE : ExtOK E) (hT : ∀ A b, (∃ c, Solves A b c) → (E.solve A b).isSome)
    (ax ay az : Axis α) (hax : AxisOK ax) (hay : AxisOK ay) (haz : AxisOK az) (nm : Norm α) (hnm : NormOK nm)
    (f : α × α × α → α) (nbe : Bool) (i j k : Nat)
    (hi1 : 1 ≤ i) (hi2 : i + 2 ≤ ax.top) (hj1 : 1 ≤ j) (hj2 : j + 2 ≤ ay.top) (hk1 : 1 ≤ k) (hk2 : k + 2 ≤ az.top) :
    evalPure (spec3 E ax ay az nm) (envOf f nm) nbe (ax.dom i, ay.dom j, az.dom k)
      = .val (f (ax.dom i, ay.dom j, az.dom k)) := by
  have hcx : cellOf ax (ax.dom i) = some i :=
    cellOf_of_bracket ax hax.sorted _ i hi1 hi2 le_rfl (hax.sorted i (i + 1) (by omega) (by omega))
  have hcy : cellOf ay (ay.dom j) = some j :=
    cellOf_of_bracket ay hay.sorted _ j hj1 hj2 le_rfl (hay.sorted j (j + 1) (by omega) (by omega))
  have hcz : cellOf az (az.dom k) = some k :=
    cellOf_of_bracket az haz.sorted _ k hk1 hk2 le_rfl (haz.sorted k (k + 1) (by omega) (by omega))
  have hc : cellOf3 ax ay az (ax.dom i, ay.dom j, az.dom k) = some (i, j, k) := by simp [cellOf3, hcx, hcy, hcz]
  obtain ⟨v, hv⟩ := inside_returns_value_3d E hT ax ay az hax hay haz nm f nbe _ _ hc
  rw [hv, interpolates_nodes_3d E hE ax ay az hax hay haz nm hnm f nbe i j k hi1 hi2 hj1 hj2 hk1 hk2 v hv]

/-- non-vacuity: the hypotheses on the solver are jointly satisfiable (the ideal solver), on a concrete grid -/
example (f : ℚ × ℚ → ℚ) :
    evalPure (spec2 (idealExt ℚ) (mkAxis (fun _ : ℚ => 3) 0 1 (1 / 3)) (mkAxis (fun _ : ℚ => 3) 0 1 (1 / 3))
      (mkNorm none)) (envOf f (mkNorm none)) false
      ((mkAxis (fun _ : ℚ => 3) 0 1 (1 / 3)).dom 1, (mkAxis (fun _ : ℚ => 3) 0 1 (1 / 3)).dom 2)
    = .val (f ((mkAxis (fun _ : ℚ => 3) 0 1 (1 / 3)).dom 1, (mkAxis (fun _ : ℚ => 3) 0 1 (1 / 3)).dom 2)) :=
  node_value_returned_2d (idealExt ℚ) ideal_solve_ok (fun A b h => by simp [idealExt, h]) _ _
    (mkAxis_ok _ _ _ _ (by norm_num) (by unfold EPS; norm_num))
    (mkAxis_ok _ _ _ _ (by norm_num) (by unfold EPS; norm_num)) _ (mkNorm_ok _) f false 1 2
    (by norm_num) (by simp [mkAxis, nNodes]) (by norm_num) (by simp [mkAxis, nNodes])

end Exist

/-! ## fresh objects and pairs of objects (round-5 classes as statements about the machine) -/
section Fresh
variable {α P ν κ C : Type} [DecidableEq ν] [DecidableEq κ]

/-- **first evaluation on a fresh object**: the very first call already returns the history-free value (no
"last call" shortcut, no uninitialised memo) and, inside a cell with a wrapped function that returns everywhere,
asks the wrapped function for exactly the 4^d stencil nodes in stencil order; outside nothing or the point itself. -/
theorem first_evaluation_fresh (S : Spec α P ν κ C) (E : Env α P) (nbe : Bool) (p : P)
    (hnd : ∀ c, (S.stencil c).Nodup) (htot : ∀ q, (E.f q).isSome) :
    (evalStep S E nbe St.init p).2.1 = evalPure S E nbe p ∧
    (evalStep S E nbe St.init p).2.2 =
      (match S.locate p with
       | none => if nbe then [p] else []
       | some c => (S.stencil c).map S.coord) := by
  refine ⟨(evalStep_spec S E nbe _ (inv_init S E) p).2, ?_⟩
  rw [calls_exact S E nbe St.init p hnd htot]
  cases S.locate p with
  | none => rfl
  | some c => simp [St.init]

/-- two caching objects used alternately: `(true, p)` evaluates the first at `p`, `(false, p)` the second; each has its
own state and nothing else (no class- or module-level state) -/
def pairOuts (SA SB : Spec α P ν κ C) (EA EB : Env α P) (na nb : Bool) :
    St α ν κ C → St α ν κ C → List (Bool × P) → List (Out α)
  | _, _, [] => []
  | sa, sb, (true, p) :: h =>
    (evalStep SA EA na sa p).2.1 :: pairOuts SA SB EA EB na nb (evalStep SA EA na sa p).1 sb h
  | sa, sb, (false, p) :: h =>
    (evalStep SB EB nb sb p).2.1 :: pairOuts SA SB EA EB na nb sa (evalStep SB EB nb sb p).1 h

/-- **two instances are independent**: under any interleaving of evaluations on two fresh objects (different wrapped
functions, areas, policies) every output is what that object's own history-free evaluation gives — the other object's
activity never shows. -/
theorem two_instances_independent (SA SB : Spec α P ν κ C) (EA EB : Env α P) (na nb : Bool) (h : List (Bool × P)) :
    pairOuts SA SB EA EB na nb St.init St.init h =
      h.map (fun bp => if bp.1 then evalPure SA EA na bp.2 else evalPure SB EB nb bp.2) := by
  have key : ∀ (h : List (Bool × P)) (sa sb : St α ν κ C), Inv SA EA sa → Inv SB EB sb →
      pairOuts SA SB EA EB na nb sa sb h =
        h.map (fun bp => if bp.1 then evalPure SA EA na bp.2 else evalPure SB EB nb bp.2) := by
    intro h
    induction h with
    | nil => intro sa sb _ _; rfl
    | cons bp h ih =>
      intro sa sb ha hb
      obtain ⟨b, p⟩ := bp
      cases b with
      | true =>
        obtain ⟨h1, h2⟩ := evalStep_spec SA EA na sa ha p
        simp only [pairOuts, List.map_cons, h2, ih _ _ h1 hb, if_true]
      | false =>
        obtain ⟨h1, h2⟩ := evalStep_spec SB EB nb sb hb p
        simp only [pairOuts, List.map_cons, h2, ih _ _ ha h1]
        simp
  exact key h _ _ (inv_init SA EA) (inv_init SB EB)

/-- the interleaved run restricted to one object is that object's own run (`outs`) on its own sub-history -/
theorem two_instances_projection (SA SB : Spec α P ν κ C) (EA EB : Env α P) (na nb : Bool) (ps qs : List P) :
    pairOuts SA SB EA EB na nb St.init St.init (ps.map (fun p => (true, p)) ++ qs.map (fun q => (false, q))) =
      outs SA EA na St.init ps ++ outs SB EB nb St.init qs ∧
    pairOuts SA SB EA EB na nb St.init St.init (qs.map (fun q => (false, q)) ++ ps.map (fun p => (true, p))) =
      outs SB EB nb St.init qs ++ outs SA EA na St.init ps := by
  rw [two_instances_independent, two_instances_independent, trace_refines_pure, trace_refines_pure]
  simp [List.map_append, List.map_map, Function.comp_def]

example : pairOuts (spec1 (⟨fun _ _ => none, fun x n => x ^ n⟩ : Ext ℚ) (mkAxis (fun _ => 3) 0 1 1) (mkNorm none))
    (spec1 (⟨fun _ _ => none, fun x n => x ^ n⟩ : Ext ℚ) (mkAxis (fun _ => 3) 0 1 1) (mkNorm none))
    (envOf (fun x => x) (mkNorm none)) (envOf (fun x => x + 1) (mkNorm none)) true true St.init St.init
    [(true, 5), (false, 5)] = [.val 5, .val 6] := by
  rw [two_instances_independent]
  have hc : ∀ E : Ext ℚ, (spec1 E (mkAxis (fun _ => 3) 0 1 1) (mkNorm none)).locate 5 = none := fun E =>
    outside_area_no_cell (fun _ : ℚ => 3) 0 1 1 (by norm_num) (by unfold EPS; norm_num) 5
      (Or.inr (by unfold EPS; norm_num))
  simp only [List.map_cons, List.map_nil, if_true, evalPure, hc]
  simp [envOf]
  norm_num

end Fresh

end Cherab.Props.C14
