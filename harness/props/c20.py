"""C20 — grid derivative and ADMT operators (cherab/tools/inversions/admt_utils.py).

T  lean/Cherab/Props/C20.lean over lean/Cherab/Model/{AdmtCore,Admt}.lean and the *generated* lean/Cherab/Gen/Admt.lean
K  (a) translator harness/translators/admt.py re-reads admt_utils.py on every run (assignment program of the cell loop,
       scalings, the arithmetic of calculate_admt) -> Gen/Admt.lean, over which the theorems are re-checked;
   (b) correspondence: generate_derivative_operators / calculate_admt vs the model's matrices, entry-wise, on full
       grids 2..7 x 2..7 (column-major and other cell orders), masked grids (IndexError behaviour), random dx, dy,
       origins, psi fields, anisotropies; plus the per-cell coefficient function on random inputs.
S  direct oracles on the implementation (no model): polynomial exactness of every operator in every cell class,
   zero row sums, origin/step invariance, finiteness, aniso = 1 => Laplacian + (1/R) d/dx, general anisotropy =>
   coefficient identity from an independent Python jet expansion of div(D grad f), grid-refinement consistency.
"""
import json
import math

import numpy as np

from harness.vlib.util import f2b, b2f, fs, close, call

OPS = ('Dx', 'Dy', 'Dxx', 'Dxy', 'Dyy')
SIG_DNORM = 'C20:calculate_admt:dnorm_term_cx-uses-dpsidyy'


# ----------------------------------------------------------------------------------------------------- grids
def make_grid(cells, dx, dy, x0, y0):
    """cells: list of (ix, iy) in 1-D order.  Voxel (ix, iy) is centred at (x0 + ix*dx, y0 - iy*dy)."""
    verts = []
    for ix, iy in cells:
        h, k = x0 + ix * dx, y0 - iy * dy
        verts.append([(h + dx / 2, k + dy / 2), (h + dx / 2, k - dy / 2), (h - dx / 2, k - dy / 2), (h - dx / 2, k + dy / 2)])
    m12 = {i: c for i, c in enumerate(cells)}
    m21 = {c: i for i, c in enumerate(cells)}
    return np.array(verts, dtype=float).reshape(len(cells), 4, 2), m12, m21


def full_cells(nx, ny, order='col'):
    if order == 'col':
        return [(ix, iy) for ix in range(nx) for iy in range(ny)]
    return [(ix, iy) for iy in range(ny) for ix in range(nx)]


def cell_class(nx, ny, ix, iy):
    return ('L' if ix == 0 else 'R' if ix == nx - 1 else '-') + ('T' if iy == 0 else 'B' if iy == ny - 1 else '-')


def rnd_step(rng):
    k = rng.random()
    if k < 0.3:
        return rng.choice([1.0, 0.5, 2.0, 0.25, 0.125, 4.0])     # dyadic: exact arithmetic
    if k < 0.8:
        return rng.uniform(0.01, 3.0)
    return 10 ** rng.uniform(-3, 2)


def rnd_origin(rng, d):
    k = rng.random()
    if k < 0.3:
        return float(rng.randint(-8, 8)) * d
    return rng.uniform(-20, 20) * max(d, 0.1)


def ops_line(cells, verts):
    n = len(cells)
    return 'ops %d %s 4 %s' % (n, ' '.join('%d %d' % c for c in cells), fs(verts.reshape(-1)))


def admt_line(n, aniso, dx, dy, radii, psi, ops):
    return 'admt %d %s %s %s %s %s %s' % (n, f2b(aniso), f2b(dx), f2b(dy), fs(radii), fs(psi),
                                          ' '.join(fs(np.asarray(ops[k], dtype=float).reshape(-1)) for k in OPS))


# ------------------------------------------------------------------------------------- independent jet oracle (S)
class J:
    """first-order jet (value, d/dx, d/dy) — independent Python re-implementation used only by the S oracle"""
    __slots__ = ('v', 'x', 'y')

    def __init__(self, v, x=0.0, y=0.0):
        self.v, self.x, self.y = v, x, y

    @staticmethod
    def lift(o):
        return o if isinstance(o, J) else J(o)

    def __add__(s, o):
        o = J.lift(o); return J(s.v + o.v, s.x + o.x, s.y + o.y)
    __radd__ = __add__

    def __sub__(s, o):
        o = J.lift(o); return J(s.v - o.v, s.x - o.x, s.y - o.y)

    def __rsub__(s, o):
        return J.lift(o) - s

    def __mul__(s, o):
        o = J.lift(o); return J(s.v * o.v, s.x * o.v + s.v * o.x, s.y * o.v + s.v * o.y)
    __rmul__ = __mul__

    def __truediv__(s, o):
        o = J.lift(o); return J(s.v / o.v, (s.x * o.v - s.v * o.x) / (o.v * o.v), (s.y * o.v - s.v * o.y) / (o.v * o.v))


def jet_coefficients(px, py, pxx, pxy, pyy, dperp, dpar, R):
    """coefficients (cx, cy, cxx, cxy, cyy) of  div(D grad f) = (1/R) d_x(R F_x) + d_y F_y,  F = D grad f,
    D = dpar (I - n n^T) + dperp n n^T,  n = grad psi / |grad psi|, for constant dperp, dpar; arrays per cell."""
    jx, jy = J(px, pxx, pxy), J(py, pxy, pyy)
    N = jx * jx + jy * jy
    nxx, nxy, nyy = jx * jx / N, jx * jy / N, jy * jy / N
    Txx = dpar * (1.0 - nxx) + dperp * nxx
    Txy = dperp * nxy - dpar * nxy
    Tyy = dpar * (1.0 - nyy) + dperp * nyy
    Rj = J(R, 1.0, 0.0)
    # F_x = Txx f_x + Txy f_y ; (1/R) d_x (R F_x) + d_y F_y, collect the coefficient of each derivative of f
    cx = (Rj * Txx).x / R + Txy.y
    cy = (Rj * Txy).x / R + Tyy.y
    return cx, cy, Txx.v, Txy.v, Tyy.v


def reference_admt(ops, psi, radii, dx, dy, aniso):
    px, py = ops['Dx'] @ psi, ops['Dy'] @ psi
    pxx, pxy, pyy = ops['Dxx'] @ psi, ops['Dxy'] @ psi, ops['Dyy'] @ psi
    cx, cy, cxx, cxy, cyy = jet_coefficients(px, py, pxx, pxy, pyy, 1.0 / aniso, 1.0, radii)
    L = (cx[:, None] * ops['Dx'] + cy[:, None] * ops['Dy'] + cxx[:, None] * ops['Dxx']
         + 2 * cxy[:, None] * ops['Dxy'] + cyy[:, None] * ops['Dyy'])
    return L * math.sqrt(dx * dy), px * px + py * py


# ------------------------------------------------------------------------------------------------------ psi fields
def curved_psi(rng, x, y):
    """smooth flux map with non-vanishing gradient on the grid: elliptic bowl centred outside the grid + tilt"""
    xs, ys = x.max() - x.min() + 1e-9, y.max() - y.min() + 1e-9
    cx = x.min() - xs * rng.uniform(0.4, 1.5)
    cy = y.min() - ys * rng.uniform(0.4, 1.5)
    a, b, c = rng.uniform(0.5, 2), rng.uniform(0.5, 2), rng.uniform(-0.5, 0.5)
    u, v = (x - cx) / xs, (y - cy) / ys
    return a * u * u + b * v * v + c * u * v + rng.uniform(-0.3, 0.3) * u * u * v


# ================================================================================================== run
def run(ctx):
    from harness.translators import admt as tr
    ctx.rule = ('full rectangular grids n_x, n_y in 2..7 (thorough: ..9) with random/dyadic dx, dy and origins, column-major '
                '(documented), row-major and shuffled cell orders, masked grids; every cell of every grid is one case keyed by '
                '(stream, n_x, n_y, boundary class, operator); psi fields: random, polynomial, curved with |grad psi| bounded '
                'away from 0; anisotropies 1..1e3; non-trivial = the row has at least two non-zero entries / the '
                'coefficient inputs are generic (no zero derivative)')
    ctx.trusted += ['translator harness/translators/admt.py (syntactic; its output is interpreted by the model and compared '
                    'entry-wise with the running code on every run)',
                    'numpy: mean, diff, min, abs, dense @, diag; sqrt is a parameter of the model',
                    'jet algebra (value, d/dx, d/dy; Leibniz and quotient rule) as the definition of div(D grad f) '
                    'in Props/C20.lean; an independent Python copy is the S oracle']
    ctx.assumptions += ['voxel grid is a full n_x x n_y rectangle of equal axis-aligned voxels, injective index maps',
                        'discrete |grad psi|^2 and R non-zero in every cell (generators keep them away from 0)',
                        'consistency is proved as coefficient identity + stencil exactness on polynomials; the limit '
                        'statement (truncation error -> 0) is monitored by S on refining grids, not formalised']

    # ---- K(a): translator -------------------------------------------------------------------------------------
    try:
        info = tr.run()
        ctx.extra['translator'] = info
        slot = info['slot']
    except tr.Unrecognised as e:
        ctx.broke('translator', 'admt_utils.py no longer has the recognised shape', str(e))
        info, slot = None, None

    # ---- T ---------------------------------------------------------------------------------------------------
    if info is not None:
        ctx.lean_check(['Cherab.Props.C20', 'Cherab.Props.C20Dense'], 'Cherab/Audit/C20.lean')

    import cherab.tools.inversions.admt_utils as A
    st = State(ctx, A)

    # ---- corpus first ---------------------------------------------------------------------------------------------
    import glob
    import os
    from harness.vlib.util import VERIF
    for path in sorted(glob.glob(os.path.join(VERIF, 'corpus', 'C20', '*.json'))):
        replay_case(st, json.load(open(path)))
        ctx.count('corpus')

    # ---- K(b) + S ---------------------------------------------------------------------------------------------
    jobs = extreme_jobs(ctx)
    if info is not None:
        k_ops(st)
        k_extreme(st, jobs)
        k_admt(st)
        k_coef(st)
    s_ops(st)
    s_extreme(st, jobs)
    s_representation(st)
    s_scale(st)
    s_descriptions(st)
    s_flux_values(st)
    s_range(st)
    s_admt(st)
    s_refine(st)

    # verdict of the generated slot vs. the theorem `admt_coefficients_jet_verdict`
    if slot is not None and slot != 'dpsidxdy':
        ctx.extra['admt_coefficients_jet_verdict'] = ('NEGATION proved for the current source (dnorm_term_cx multiplies dpsidy by %s): '
                                                      'the code coefficients differ from the jet expansion of div(D grad f)' % slot)
        hit = [f for f in ctx.failing if f['signature'] == SIG_DNORM] or [k for k in ctx.known_hits if k['signature'] == SIG_DNORM]
        if not hit:
            ctx.broke('theorem', 'admt_coefficients_match_jet', 'the model of the current source refutes the clause (Lean witness) '
                      'but the search found no failing input on the implementation')
    elif slot == 'dpsidxdy':
        ctx.extra['admt_coefficients_jet_verdict'] = 'IDENTITY proved for the current source'


class State:
    def __init__(self, ctx, A):
        self.ctx, self.A = ctx, A


def gen(st, cells, dx, dy, x0, y0):
    v, m12, m21 = make_grid(cells, dx, dy, x0, y0)
    return v, m12, m21, call(st.A.generate_derivative_operators, v, m12, m21)


# ---------------------------------------------------------------------------------------------- K: operators
def k_ops(st):
    ctx, rng = st.ctx, st.ctx.rng
    nmax = 7 if ctx.tier == 'quick' else 9
    jobs = []
    sizes = [(nx, ny) for nx in range(2, nmax + 1) for ny in range(2, nmax + 1)]
    for nx, ny in sizes:
        for rep in range(ctx.n(2, 4)):
            dx, dy = rnd_step(rng), rnd_step(rng)
            x0, y0 = rnd_origin(rng, dx), rnd_origin(rng, dy)
            order = 'col' if rep == 0 else ('row', 'shuffle', 'col')[(nx + ny + rep) % 3]
            cells = full_cells(nx, ny, 'col' if order == 'shuffle' else order)
            if order == 'shuffle':
                rng.shuffle(cells)
            jobs.append(('full-' + order, nx, ny, cells, dx, dy, x0, y0))
    # masked grids: rectangles with cells removed (lookups fail inside the rectangle; some rows index with nan)
    for _ in range(ctx.n(40, 400)):
        nx, ny = rng.randint(2, 6), rng.randint(2, 6)
        cells = full_cells(nx, ny)
        k = rng.random()
        if k < 0.4 and nx >= 3 and ny >= 3:        # notched corners: the neighbours become corners themselves
            for c in rng.sample([(0, 0), (0, ny - 1), (nx - 1, 0), (nx - 1, ny - 1)], rng.randint(1, 4)):
                cells.remove(c)
        elif k < 0.6 and nx >= 5 and ny >= 5:      # a hole two cells away from every edge: its neighbours become edges
            cells.remove((rng.randint(2, nx - 3), rng.randint(2, ny - 3)))
        else:                                      # anything: mostly rows that index with nan
            for _ in range(rng.randint(1, 2)):
                if len(cells) > 2:
                    cells.pop(rng.randrange(len(cells)))
        dx, dy = rnd_step(rng), rnd_step(rng)
        jobs.append(('masked', nx, ny, cells, dx, dy, rnd_origin(rng, dx), rnd_origin(rng, dy)))
    # degenerate: single row / column / cell (outside the property's quantifier; the tie must still hold)
    for nx, ny in ((1, 1), (1, 3), (3, 1), (1, 2), (2, 1)):
        jobs.append(('degenerate', nx, ny, full_cells(nx, ny), 1.0, 0.5, 0.0, 0.0))

    lines, obs = [], []
    for kind, nx, ny, cells, dx, dy, x0, y0 in jobs:
        v, m12, m21, (status, ops) = gen(st, cells, dx, dy, x0, y0)
        lines.append(ops_line(cells, v))
        obs.append((kind, nx, ny, cells, dx, dy, x0, y0, status, ops))
    outs = ctx.driver(lines)
    # round 6: the same grids through the driver op `dense` (Model/AdmtDense.lean: column-keyed rows, every assignment
    # stored where the code stores it, last write wins) -- the form `dense_assembly_last_write_wins` ties to `ops`
    douts = ctx.driver(['dense' + l[3:] for l in lines])
    both = [('ops', r, o) for r, o in zip(obs, outs)] + [('dense', r, o) for r, o in zip(obs, douts)]
    for stream, (kind, nx, ny, cells, dx, dy, x0, y0, status, ops), o in both:
        ctx.traces += 1
        ctx.count('K-%s:%s' % (stream, kind))
        desc = dict(stream=stream, kind=kind, nx=nx, ny=ny, cells=cells, dx=dx, dy=dy, x0=x0, y0=y0)
        t = o.split()
        if status != 'ok':
            agree = (t[0] == status)
            ctx.count('K-%s:error:%s' % (stream, status))
            ctx.case(key=('K-' + stream, kind, len(cells), status))
        else:
            agree = t[0] == 'ok'
            if agree:
                vals = [b2f(s) for s in t[1:]]
                n = len(cells)
                agree = len(vals) == 2 + 5 * n * n
            if agree:
                mdx, mdy = vals[0], vals[1]
                for k, name in enumerate(OPS):
                    M = np.array(vals[2 + k * n * n: 2 + (k + 1) * n * n]).reshape(n, n)
                    R = np.asarray(ops[name])
                    scale = np.abs(R).max()
                    if not np.all(np.abs(M - R) <= 1e-12 * scale):
                        agree = False
                        i, j = np.unravel_index(np.argmax(np.abs(M - R)), M.shape)
                        desc['first_difference'] = dict(op=name, i=int(i), j=int(j), model=float(M[i, j]), impl=float(R[i, j]))
                        break
                    # pattern of structural zeros must be identical
                    if not np.array_equal(M == 0, R == 0):
                        agree = False
                        desc['first_difference'] = dict(op=name, what='zero pattern')
                        break
                for (ix, iy) in cells:
                    for name in OPS:
                        ctx.case(key=('K-' + stream, kind, nx, ny, cell_class(nx, ny, ix, iy) if kind.startswith('full') else 'm', name),
                                 sample=desc if rng.random() < 0.002 else None)
        if not agree:
            ctx.disagreements += 1
            desc['model'] = o[:200]
            desc['implementation'] = status
            ctx.broke('correspondence', 'C20 stream %s/%s' % (stream, kind), desc)
            # seed the search with the disagreeing case (only layouts inside the property: the documented column-major
            # order, and row-major which the extraction of dx, dy handles as well; never masked/degenerate/shuffled)
            if kind in ('full-col', 'full-row'):
                check_ops_case(st, cells, dx, dy, x0, y0, nx, ny, 'K-seed')
            elif kind == 'full-shuffle':
                check_ops_case(st, full_cells(nx, ny), dx, dy, x0, y0, nx, ny, 'K-seed')


# ---------------------------------------------------------------------------------------------- K: calculate_admt
def k_admt(st):
    ctx, rng = st.ctx, st.ctx.rng
    lines, obs = [], []
    nmax = 6 if ctx.tier == 'quick' else 8
    for it in range(ctx.n(30, 300)):
        nx, ny = rng.randint(2, nmax), rng.randint(2, nmax)
        dx, dy = rnd_step(rng), rnd_step(rng)
        x0 = rng.uniform(0.5, 5.0) + dx
        y0 = rnd_origin(rng, dy)
        cells = full_cells(nx, ny)
        v, m12, m21, (status, ops) = gen(st, cells, dx, dy, x0, y0)
        if status != 'ok':
            continue
        c = v.mean(axis=1)
        x, y = c[:, 0], c[:, 1]
        kind = rng.choice(['random', 'curved', 'poly'])
        if kind == 'random':
            psi = np.array([rng.uniform(-1, 1) for _ in x])
        elif kind == 'curved':
            psi = curved_psi(rng, x, y)
        else:
            a = [rng.uniform(-1, 1) for _ in range(6)]
            psi = a[0] + a[1] * x + a[2] * y + a[3] * x * x + a[4] * x * y + a[5] * y * y
        aniso = rng.choice([1.0, 10.0, 2.0, rng.uniform(1, 1000)])
        mats = ops
        if it % 5 == 4:          # calculate_admt accepts any operators: random dense ones exercise every column
            mats = {k: np.array([[rng.uniform(-1, 1) for _ in x] for _ in x]) for k in OPS}
            kind += '+random-operators'
        adx, ady = (dx, dy) if rng.random() < 0.7 else (rnd_step(rng), rnd_step(rng))
        N = (mats['Dx'] @ psi) ** 2 + (mats['Dy'] @ psi) ** 2
        scaleN = np.abs(mats['Dx']).max() ** 2 * np.abs(psi).max() ** 2 + 1e-300
        if N.min() < 1e-6 * scaleN:
            ctx.count('K-admt:skipped-small-gradient')
            continue
        status, L = call(st.A.calculate_admt, x, mats, psi, adx, ady, aniso)
        lines.append(admt_line(len(x), aniso, adx, ady, x, psi, mats))
        obs.append((kind, nx, ny, dx, dy, x0, y0, aniso, psi, status, L))
    outs = ctx.driver(lines)
    for (kind, nx, ny, dx, dy, x0, y0, aniso, psi, status, L), o in zip(obs, outs):
        ctx.traces += 1
        ctx.count('K-admt:' + kind)
        desc = dict(stream='admt', kind=kind, nx=nx, ny=ny, dx=dx, dy=dy, x0=x0, y0=y0, anisotropy=aniso, psi=[float(p) for p in psi])
        agree = status == 'ok'
        if agree:
            vals = np.array([b2f(s) for s in o.split()])
            n = nx * ny
            agree = vals.size == n * n
        if agree:
            M = vals.reshape(n, n)
            rowscale = np.abs(L).max(axis=1, keepdims=True)
            err = np.abs(M - L) / (rowscale + 1e-300)
            agree = bool(np.all(err <= 1e-7)) and np.array_equal(np.isfinite(M), np.isfinite(L))
            desc['max_rel_row_error'] = float(err.max())
            ctx.extra['K_admt_max_rel_row_error'] = max(ctx.extra.get('K_admt_max_rel_row_error', 0.0), float(err.max()))
        ctx.case(key=('K-admt', kind, nx, ny, f2b(aniso)), sample=dict(desc, psi=desc['psi'][:4]) if rng.random() < 0.05 else None)
        if not agree:
            ctx.disagreements += 1
            ctx.broke('correspondence', 'C20 stream admt/' + kind, desc)
            check_admt_case(st, nx, ny, dx, dy, x0, y0, aniso, psi, 'K-seed')


def k_coef(st):
    """the per-cell coefficient function `Gen.coeffs` against calculate_admt on a 1-cell 'grid' with 1x1 operators:
    every matrix-vector product is then the product of two scalars, so each of the 11 inputs is set independently"""
    ctx, rng = st.ctx, st.ctx.rng
    lines, obs = [], []
    for it in range(ctx.n(300, 5000)):
        aniso = rng.choice([1.0, 2.0, 10.0, rng.uniform(1, 1e3)])
        R = rng.uniform(0.2, 10)
        d = {k: rng.uniform(-2, 2) for k in OPS}
        psi = rng.choice([1.0, rng.uniform(0.5, 2)])
        ops = {k: np.array([[d[k]]]) for k in OPS}
        status, L = call(st.A.calculate_admt, np.array([R]), ops, np.array([psi]), 1.0, 1.0, aniso)
        # admt[0,0] = cx*Dx + cy*Dy + cxx*Dxx + 2 cxy*Dxy + cyy*Dyy with (Op @ psi) = d*psi, (Op @ Dpar) = d, (Op @ Dperp) = d/aniso
        a = [d[k] * psi for k in OPS] + [d['Dx'] * 1, d['Dy'] * 1, d['Dx'] * (1 / aniso), d['Dy'] * (1 / aniso)]
        lines.append('coef %s %s %s' % (f2b(aniso), f2b(R), fs(a)))
        obs.append((aniso, R, d, psi, status, L))
    outs = ctx.driver(lines)
    for (aniso, R, d, psi, status, L), o in zip(obs, outs):
        ctx.traces += 1
        ctx.count('K-coef')
        cx, cy, cxx, cxy, cyy = [b2f(s) for s in o.split()]
        val = cx * d['Dx'] + cy * d['Dy'] + cxx * d['Dxx'] + 2 * cxy * d['Dxy'] + cyy * d['Dyy']
        terms = abs(cx * d['Dx']) + abs(cy * d['Dy']) + abs(cxx * d['Dxx']) + abs(2 * cxy * d['Dxy']) + abs(cyy * d['Dyy'])
        ok = status == 'ok' and abs(val - float(L[0, 0])) <= 1e-9 * terms
        ctx.case(key=('K-coef', f2b(aniso), f2b(R), f2b(d['Dx'])))
        if not ok:
            ctx.disagreements += 1
            ctx.broke('correspondence', 'C20 stream coef', dict(anisotropy=aniso, R=R, d=d, psi=psi, model=val,
                                                               implementation=float(L[0, 0]) if status == 'ok' else status))


# ------------------------------------------------------------------------------ size / scale extreme grids (K and S)
def extreme_jobs(ctx):
    """tall and wide grids (the y differences of a column-major grid are -dy inside a column and +(n_y-1)dy between
    columns: anything that compares differences with each other only shows on long columns), very different dx/dy,
    huge origin with tiny cells.  Returns (kind, nx, ny, order, dx, dy, x0, y0)."""
    rng = ctx.rng
    jobs = []
    longs = (64, 101, 128, 257)
    for n_long in longs:
        for n_short in (2, 3):
            for transposed in (False, True):
                nx, ny = (n_long, n_short) if transposed else (n_short, n_long)
                orders = ['col']
                if ctx.tier == 'thorough' or (n_long + n_short + transposed) % 2 == 0:
                    orders += ['row']
                if ctx.tier == 'thorough' or (n_long + n_short + transposed) % 4 in (1, 3):
                    orders += ['shuffle']
                for order in orders:
                    k = rng.random()
                    if k < 0.35:
                        dx, dy = rng.choice([1.0, 0.5, 0.25, 2.0]), rng.choice([1.0, 0.5, 0.125, 4.0])
                        x0, y0 = float(rng.randint(-4, 4)), float(rng.randint(-4, 4))
                    else:
                        dx, dy = rnd_step(rng), rnd_step(rng)
                        x0, y0 = rnd_origin(rng, dx), rnd_origin(rng, dy)
                    jobs.append(('tall' if not transposed else 'wide', nx, ny, order, dx, dy, x0, y0))
    # step ratios 1e-3 .. 1e3 on small and on long grids
    for ratio in (1e-3, 1e-2, 1e2, 1e3, 2.0 ** -10, 2.0 ** 10):
        for nx, ny in ((3, 4), (2, 101), (101, 2), (5, 5)):
            dy = rng.choice([1.0, 0.5, rng.uniform(0.1, 2)])
            jobs.append(('ratio', nx, ny, 'col', dy * ratio, dy, rnd_origin(rng, dy * ratio), rnd_origin(rng, dy)))
    # large coordinates with tiny cells: dyadic (exact double arithmetic) and decimal (centres carry rounding noise of
    # ~1e-4 of a cell: the extracted steps are then only that accurate, which the oracle's tolerance accounts for)
    for nx, ny in ((3, 3), (4, 7), (2, 130), (130, 3)):
        jobs.append(('far-dyadic', nx, ny, 'col', 2.0 ** -20, 2.0 ** -19, 2.0 ** 20, -2.0 ** 20))
        jobs.append(('far-decimal', nx, ny, 'col', 1e-6, 3e-6, 1e6, -1e6))
        jobs.append(('tiny', nx, ny, 'col', 1e-6 * rng.uniform(1, 2), 1e-6, 0.0, 0.0))
        jobs.append(('huge', nx, ny, 'col', 1e6, 1e6 * rng.uniform(1, 2), 1e6, 1e6))
    return jobs


def ordered_cells(rng, nx, ny, order):
    cells = full_cells(nx, ny, 'row' if order == 'row' else 'col')
    if order == 'shuffle':
        rng.shuffle(cells)
    return cells


def sample_rows(rng, cells, nx, ny, k=24):
    """indices of one cell per boundary class plus random ones"""
    want = {}
    for i, (ix, iy) in enumerate(cells):
        want.setdefault(cell_class(nx, ny, ix, iy), i)
    rows = list(want.values()) + [rng.randrange(len(cells)) for _ in range(k)]
    return sorted(set(rows))


def k_extreme(st, jobs):
    """model vs implementation on the extreme grids: extracted dx, dy (tight) and sampled operator rows (sparse)"""
    ctx, rng = st.ctx, st.ctx.rng
    lines, obs = [], []
    for kind, nx, ny, order, dx, dy, x0, y0 in jobs:
        cells = ordered_cells(rng, nx, ny, order)
        v, m12, m21, (status, ops) = gen(st, cells, dx, dy, x0, y0)
        rows = sample_rows(rng, cells, nx, ny)
        lines.append('rows %d %s 4 %s %d %s' % (len(cells), ' '.join('%d %d' % c for c in cells), fs(v.reshape(-1)),
                                               len(rows), ' '.join(str(i) for i in rows)))
        impl = None
        if status == 'ok':
            # the implementation's extracted steps are not returned: recover them from the interior-independent entries
            impl = {name: np.asarray(ops[name])[rows] for name in OPS}
        obs.append((kind, nx, ny, order, dx, dy, x0, y0, cells, rows, status, impl))
        del ops
    outs = ctx.driver(lines)
    for (kind, nx, ny, order, dx, dy, x0, y0, cells, rows, status, impl), o in zip(obs, outs):
        ctx.traces += 1
        ctx.count('K-extreme:%s:%s' % (kind, order))
        desc = dict(stream='extreme', kind=kind, nx=nx, ny=ny, order=order, dx=dx, dy=dy, x0=x0, y0=y0)
        t = o.split()
        agree = True
        if status != 'ok':
            agree = t[0] == status
        elif t[0] != 'ok':
            agree = False
        else:
            mdx, mdy = b2f(t[1]), b2f(t[2])
            desc['model_steps'] = [mdx, mdy]
            body = t[3:]
            n = len(cells)
            agree = len(body) == len(rows) * 5 * 9 * 2
            pos = 0
            for r, i in enumerate(rows):
                if not agree:
                    break
                for name in OPS:
                    ref = impl[name][r]
                    row = np.zeros(n)
                    for _ in range(9):
                        col, val = int(body[pos]), b2f(body[pos + 1])
                        pos += 2
                        if col >= 0:
                            row[col] += val
                        elif val != 0.0:
                            agree = False
                    scale = np.abs(ref).max()
                    if not (np.all(np.abs(row - ref) <= 1e-12 * scale) and np.array_equal(row == 0, ref == 0)):
                        agree = False
                        j = int(np.argmax(np.abs(row - ref)))
                        desc['first_difference'] = dict(op=name, row=int(i), cell=list(cells[i]), col=j,
                                                        model=float(row[j]), impl=float(ref[j]))
                        break
                    ctx.case(key=('K-extreme', kind, nx, ny, order, cell_class(nx, ny, *cells[i]), name))
            # extracted steps: the off-diagonal entry of Dx / Dy in a row fixes the implementation's dx, dy
            if agree:
                for name, m in (('Dx', mdx), ('Dy', mdy)):
                    nz = np.abs(impl[name][0][impl[name][0] != 0])
                    c = 1.0 if cell_class(nx, ny, *cells[rows[0]])[0 if name == 'Dx' else 1] != '-' else 0.5
                    if nz.size == 0 or not close(c / nz.max(), m, 1e-12):
                        agree = False
                        desc['first_difference'] = dict(what='extracted ' + name[1:], model=m,
                                                        impl=(c / nz.max()) if nz.size else None)
        if not agree:
            ctx.disagreements += 1
            desc['model'] = o[:120]
            desc['implementation'] = status
            ctx.broke('correspondence', 'C20 stream extreme/%s/%s' % (kind, order), desc)
            check_extreme_case(st, kind, nx, ny, 'col' if order == 'shuffle' else order, dx, dy, x0, y0, 'K-seed')


def check_extreme_case(st, kind, nx, ny, order, dx, dy, x0, y0, stream):
    """direct oracles on one large / badly scaled grid.  The test polynomial is written in the local coordinates
    (u, v) = (ix dx, -iy dy) of the grid (a polynomial of the same degree in (x, y), whatever the origin), so no
    cancellation enters through the field; what remains is how well doubles represent the grid itself:
    rel. accuracy of a step ~ ulp(|coordinate|) / step."""
    ctx, rng = st.ctx, st.ctx.rng
    cells = full_cells(nx, ny, 'row' if order == 'row' else 'col')
    v, m12, m21, (status, ops) = gen(st, cells, dx, dy, x0, y0)
    rep = dict(stream=stream, extreme=kind, nx=nx, ny=ny, order=order, dx=dx, dy=dy, x0=x0, y0=y0)
    if status != 'ok':
        ctx.fail('C20:generate_derivative_operators:raises:' + status, 'full %dx%d grid (%s) raised %s' % (nx, ny, kind, status), rep)
        return
    ix = np.array([c[0] for c in cells], dtype=float)
    iy = np.array([c[1] for c in cells], dtype=float)
    u, w = ix * dx, -iy * dy
    a = [rng.uniform(0.5, 2) * rng.choice([-1, 1]) for _ in range(6)]
    a = [a[0], a[1] / (nx * dx), a[2] / (ny * dy), a[3] / (nx * dx) ** 2, a[4] / (nx * dx * ny * dy), a[5] / (ny * dy) ** 2]
    lin = a[0] + a[1] * u + a[2] * w
    bil = lin + a[4] * u * w
    quad = bil + a[3] * u * u + a[5] * w * w
    xmax = max(abs(x0), abs(x0 + nx * dx))
    ymax = max(abs(y0), abs(y0 - ny * dy))
    grid_rel = 8 * 2.3e-16 * max(xmax / dx, ymax / dy, 1.0)       # representation of the grid in doubles
    den = dict(Dx=dx, Dy=dy, Dxx=dx * dx, Dxy=dx * dy, Dyy=dy * dy)
    size = dict(Dx=nx, Dy=ny, Dxx=nx * nx, Dxy=nx * ny, Dyy=ny * ny)
    for name in OPS:
        M = np.asarray(ops[name])
        # natural magnitude of this derivative for the scaled polynomial, and the rounding floor of a difference quotient
        nat = 4.0 / den[name] / size[name]
        floor = 64 * 2.3e-16 * 8.0 / den[name] + grid_rel * 8.0 * nat * size[name] ** 0.5 + 1e-300
        rs = M @ np.ones(len(cells))
        gl, gb, gq = M @ lin, M @ bil, M @ quad
        exp_lin = dict(Dx=a[1], Dy=a[2], Dxx=0.0, Dxy=0.0, Dyy=0.0)[name]
        exp_bil = dict(Dx=a[1] + a[4] * w, Dy=a[2] + a[4] * u, Dxx=0 * u, Dxy=a[4] + 0 * u, Dyy=0 * u)[name]
        exp_quad = dict(Dx=a[1] + 2 * a[3] * u + a[4] * w, Dy=a[2] + a[4] * u + 2 * a[5] * w,
                        Dxx=2 * a[3] + 0 * u, Dxy=a[4] + 0 * u, Dyy=2 * a[5] + 0 * u)[name]
        cls = np.array([cell_class(nx, ny, c[0], c[1]) for c in cells])
        interior = cls == '--'
        rowabs = np.abs(M).sum(axis=1)
        bad = np.abs(rs) > 64 * 2.3e-16 * rowabs + 1e-300
        checks = [('constant-not-annihilated', bad, rs, 0 * u)]
        if name in ('Dx', 'Dy'):
            checks.append(('linear-not-exact', np.abs(gl - exp_lin) > floor + grid_rel * abs(exp_lin), gl, exp_lin + 0 * u))
        if name == 'Dxy':
            checks.append(('bilinear-not-exact', np.abs(gb - exp_bil) > floor + grid_rel * np.abs(exp_bil), gb, exp_bil))
        checks.append(('quadratic-not-exact', interior & (np.abs(gq - exp_quad) > floor + grid_rel * np.abs(exp_quad)), gq, exp_quad))
        for what, mask, got, want in checks:
            ctx.case(key=('S-extreme', kind, nx, ny, order, name, what))
            if mask.any():
                i = int(np.argmax(mask))
                tag = 'interior' if what.startswith('quadratic') else cls[i]
                ctx.fail('C20:%s:%s:%s' % (name, what, tag),
                         '%s on a %dx%d %s grid (%s order, dx=%g dy=%g origin (%g,%g)): cell %r gives %r, exact %r'
                         % (name, nx, ny, kind, order, dx, dy, x0, y0, cells[i], float(got[i]), float(want[i])),
                         dict(rep, cell=list(cells[i]), cls=str(cls[i]), op=name, coefficients=a))
    ctx.count('S-extreme:%s:%s' % (kind, order))


def s_extreme(st, jobs):
    for kind, nx, ny, order, dx, dy, x0, y0 in jobs:
        if order == 'shuffle':
            continue                    # a shuffled order is outside the documented layouts (K only)
        check_extreme_case(st, kind, nx, ny, order, dx, dy, x0, y0, 'S-extreme')


# ------------------------------------------------------------------- input representations, caller's data, repeatability
REPS = ('float64', 'int64', 'int32', 'float32', 'list-int', 'list-float', 'tuple-int', 'tuple-float', 'fortran', 'noncontig',
        'readonly')


def rep_family(r):
    return {'int64': 'int-vertices', 'int32': 'int-vertices', 'list-int': 'int-vertices', 'tuple-int': 'int-vertices',
            'float32': 'float32-vertices'}.get(r, r + '-vertices')


def make_rep(v, r):
    """the N x 4 x 2 float64 vertex array `v` (whole-number coordinates) in another representation"""
    if r == 'float64':
        return v.copy()
    if r in ('int64', 'int32', 'float32'):
        return v.astype(r)
    if r == 'list-int':
        return [[[int(c) for c in p] for p in vox] for vox in v]
    if r == 'list-float':
        return v.tolist()
    if r == 'tuple-int':
        return tuple(tuple((int(p[0]), int(p[1])) for p in vox) for vox in v)
    if r == 'tuple-float':
        return tuple(tuple((float(p[0]), float(p[1])) for p in vox) for vox in v)
    if r == 'fortran':
        return np.asfortranarray(v)
    if r == 'noncontig':
        big = np.full((v.shape[0], 4, 4), 7.0)
        big[:, :, ::2] = v
        return big[:, :, ::2]
    if r == 'readonly':
        w = v.copy()
        w.setflags(write=False)
        return w
    raise ValueError(r)


def snapshot(o):
    """deep, comparable copy of an argument (arrays keep dtype, shape and bytes)"""
    if isinstance(o, np.ndarray):
        return ('nd', o.dtype.str, o.shape, o.tobytes())
    if isinstance(o, dict):
        return ('dict', tuple((k, snapshot(o[k])) for k in o))
    if isinstance(o, (list, tuple)):
        return (type(o).__name__, tuple(snapshot(x) for x in o))
    return ('v', repr(o))


def s_representation(st):
    """(1) the same whole-number grid handed over as int / float32 / float64 arrays, nested lists and tuples, Fortran
    order, a strided view, a read-only array must give operators with the same exactness properties; (2) neither
    function may modify what the caller passed (vertex container, maps, operator dict and its matrices, psi, radii) and
    two consecutive calls with the same inputs must return the same result — otherwise the operators 'built from them'
    on the next use are no longer the ones the property talks about."""
    ctx, rng = st.ctx, st.ctx.rng
    A = st.A
    grids = [(2, 2), (3, 3), (3, 4), (4, 2)] + [(rng.randint(2, 6), rng.randint(2, 6)) for _ in range(ctx.n(1, 6))]
    for nx, ny in grids:
        dx, dy = float(rng.choice([2, 4, 6])), float(rng.choice([2, 4, 8]))
        x0, y0 = float(rng.randint(3, 9)), float(rng.randint(-6, 6))
        cells = full_cells(nx, ny)
        v, m12, m21 = make_grid(cells, dx, dy, x0, y0)
        st0, base = call(A.generate_derivative_operators, v.copy(), m12, m21)
        for r in REPS:
            ctx.count('S-rep:vertices:' + r)
            check_ops_case(st, cells, dx, dy, x0, y0, nx, ny, 'S-rep', representation=r)
            # caller's data and repeatability
            arg = make_rep(v, r)
            a12, a21 = dict(m12), dict(m21)
            before = (snapshot(arg), snapshot(a12), snapshot(a21))
            s1, o1 = call(A.generate_derivative_operators, arg, a12, a21)
            after = (snapshot(arg), snapshot(a12), snapshot(a21))
            s2, o2 = call(A.generate_derivative_operators, arg, a12, a21)
            where = dict(stream='S-rep', nx=nx, ny=ny, cells=cells, dx=dx, dy=dy, x0=x0, y0=y0, representation=r)
            ctx.case(key=('S-rep', 'generate', nx, ny, r))
            if before != after:
                what = [n for n, x, y in zip(('voxel_vertices', 'grid_index_1d_to_2d_map', 'grid_index_2d_to_1d_map'), before, after) if x != y]
                ctx.fail('C20:generate_derivative_operators:modifies-argument:' + '+'.join(what),
                         'the call changed the caller\'s %s (vertices given as %s)' % (', '.join(what), r), where)
            if s1 == 'ok' and s2 == 'ok':
                if any(not np.array_equal(np.asarray(o1[k]), np.asarray(o2[k])) for k in OPS):
                    ctx.fail('C20:generate_derivative_operators:not-repeatable', 'two consecutive calls with the same arguments differ', where)
                if st0 == 'ok' and any(not np.array_equal(np.asarray(o1[k]), np.asarray(base[k])) for k in OPS):
                    # exactness oracles above decide whether this is a violation; as a tie it is a disagreement with
                    # the model, which has no notion of representation
                    if not any(f['signature'].endswith(rep_family(r)) for f in ctx.failing):
                        ctx.broke('correspondence', 'C20 representation ' + r, dict(where, note='operators differ from the float64 call'))
        if st0 != 'ok':
            continue
        # ---- calculate_admt: representations of radii / psi / operators; caller's data; repeatability
        c = v.mean(axis=1)
        x = c[:, 0]
        psi = np.array([float((ix + 1) ** 2 + 2 * (iy + 2) ** 2 + (ix + 1) * (iy + 2)) for ix, iy in cells])   # whole numbers, curved
        aniso = float(rng.choice([1, 2, 10]))
        sref, ref = call(A.calculate_admt, x.copy(), {k: np.array(base[k], dtype=float) for k in OPS}, psi.copy(), dx, dy, aniso)
        jet, N = reference_admt({k: np.asarray(base[k], dtype=float) for k in OPS}, psi, x, dx, dy, aniso)
        if sref != 'ok' or N.min() <= 0:
            continue
        variants = [('float64', 'float64', 'c'), ('int64', 'int64', 'c'), ('int32', 'float64', 'c'), ('float32', 'float32', 'c'),
                    ('list', 'float64', 'c'), ('float64', 'noncontig', 'c'), ('readonly', 'readonly', 'readonly'),
                    ('float64', 'int32', 'fortran'), ('tuple', 'int64', 'c')]
        for rr, pr, orr in variants:
            ctx.count('S-rep:admt:%s/%s/%s' % (rr, pr, orr))
            radii = {'float64': x.copy(), 'int64': x.astype('int64'), 'int32': x.astype('int32'), 'float32': x.astype('float32'),
                     'list': [float(t) for t in x], 'tuple': tuple(int(t) for t in x), 'readonly': x.copy()}[rr]
            if pr == 'noncontig':
                big = np.full(2 * len(psi), -3.0)
                big[::2] = psi
                p = big[::2]
            else:
                p = {'float64': psi.copy(), 'int64': psi.astype('int64'), 'int32': psi.astype('int32'),
                     'float32': psi.astype('float32'), 'readonly': psi.copy()}[pr]
            ops = {k: (np.asfortranarray(np.array(base[k], dtype=float)) if orr == 'fortran' else np.array(base[k], dtype=float)) for k in OPS}
            if orr == 'readonly':
                for k in OPS:
                    ops[k].setflags(write=False)
                radii.setflags(write=False)
                p.setflags(write=False)
            where = dict(stream='S-rep', nx=nx, ny=ny, dx=dx, dy=dy, x0=x0, y0=y0, anisotropy=aniso, psi=[float(t) for t in psi],
                         radii_as=rr, psi_as=pr, operators_as=orr)
            before = (snapshot(radii), snapshot(ops), snapshot(p))
            s1, L1 = call(A.calculate_admt, radii, ops, p, dx, dy, aniso)
            after = (snapshot(radii), snapshot(ops), snapshot(p))
            s2, L2 = call(A.calculate_admt, radii, ops, p, dx, dy, aniso)
            ctx.case(key=('S-rep', 'admt', nx, ny, rr, pr, orr))
            if s1 != 'ok':
                ctx.fail('C20:calculate_admt:raises:%s:radii=%s,psi=%s,operators=%s' % (s1, rr, pr, orr),
                         'calculate_admt raised %s: %s' % (s1, L1), where)
                continue
            if before != after:
                what = [n for n, a_, b_ in zip(('voxel_radii', 'derivative_operators', 'psi_at_voxels'), before, after) if a_ != b_]
                ctx.fail('C20:calculate_admt:modifies-argument:' + '+'.join(what),
                         'the call changed the caller\'s %s; operators built from them afterwards are different ones' % ', '.join(what), where)
            if s2 != 'ok' or not np.array_equal(L1, L2):
                ctx.fail('C20:calculate_admt:not-repeatable', 'two consecutive calls with the same arguments differ (max %g)'
                         % (np.abs(np.asarray(L1) - np.asarray(L2)).max() if s2 == 'ok' else float('nan')), where)
            rowscale = np.abs(jet).max(axis=1)
            err = (np.abs(np.asarray(L1) - jet).max(axis=1) / rowscale).max()
            tol = 1e-6 if 'float32' in (rr, pr) else 1e-10
            if not np.all(np.isfinite(L1)) or err > tol:
                ctx.fail('C20:calculate_admt:coefficients-differ-from-jet:radii=%s,psi=%s' % (rr, pr),
                         'with radii as %s, psi as %s, operators %s the result differs from the discretised div(D grad f) '
                         '(relative row error %.3g)' % (rr, pr, orr, err), where)


# ---------------------------------------------------------------------------------------------- S: operators
def poly(a, x, y):
    return a[0] + a[1] * x + a[2] * y + a[3] * x * x + a[4] * x * y + a[5] * y * y


def check_ops_case(st, cells, dx, dy, x0, y0, nx, ny, stream, representation=None, description=None):
    """direct oracles for the derivative operators on one full grid"""
    ctx, rng = st.ctx, st.ctx.rng
    rep = dict(stream=stream, nx=nx, ny=ny, cells=cells, dx=dx, dy=dy, x0=x0, y0=y0)
    sfx, rdesc = '', ''
    if description is not None:
        # same grid, described differently (vertex order per voxel, insertion order / type of the two index maps)
        v, m12, m21 = make_grid(cells, dx, dy, x0, y0)
        varg, a12, a21 = describe(v, m12, m21, description)
        status, ops = call(st.A.generate_derivative_operators, varg, a12, a21)
        rep['description'] = description
        sfx, rdesc = ':' + description['kind'], ' [grid described with %s, seed %d]' % (description['kind'], description['seed'])
    elif representation is None:
        v, m12, m21, (status, ops) = gen(st, cells, dx, dy, x0, y0)
    else:
        # same grid, vertices handed over in another representation (dtype / container / memory layout)
        v, m12, m21 = make_grid(cells, dx, dy, x0, y0)
        status, ops = call(st.A.generate_derivative_operators, make_rep(v, representation), m12, m21)
        rep['representation'] = representation
        sfx, rdesc = ':' + rep_family(representation), ' [vertices given as %s]' % representation

    def fail(sig, d, r):
        ctx.fail(sig + sfx, d + rdesc, r)
    if status != 'ok':
        fail('C20:generate_derivative_operators:raises:' + status, 'full %dx%d grid raised %s' % (nx, ny, status), rep)
        return
    c = v.mean(axis=1)
    x, y = c[:, 0], c[:, 1]
    n = len(cells)
    a = [rng.uniform(-2, 2) for _ in range(6)]
    sx, sy = max(abs(x).max(), dx), max(abs(y).max(), dy)
    one = np.ones(n)
    lin = a[0] + a[1] * x + a[2] * y
    bil = lin + a[4] * x * y
    quad = poly(a, x, y)
    # magnitude of the terms entering each row (for the rounding floor)
    mag = abs(a[0]) + abs(a[1]) * sx + abs(a[2]) * sy + abs(a[3]) * sx * sx + abs(a[4]) * sx * sy + abs(a[5]) * sy * sy
    den = dict(Dx=dx, Dy=dy, Dxx=dx * dx, Dxy=dx * dy, Dyy=dy * dy)
    for name in OPS:
        M = np.asarray(ops[name])
        if not np.all(np.isfinite(M)):
            fail('C20:%s:not-finite' % name, 'non-finite entry', rep)
            continue
        floor = 64 * 2.3e-16 * mag / den[name] + 1e-300
        exp_lin = dict(Dx=a[1], Dy=a[2], Dxx=0.0, Dxy=0.0, Dyy=0.0)[name]
        exp_bil = dict(Dx=a[1] + a[4] * y, Dy=a[2] + a[4] * x, Dxx=0.0, Dxy=a[4], Dyy=0.0)[name]
        exp_quad = dict(Dx=a[1] + 2 * a[3] * x + a[4] * y, Dy=a[2] + a[4] * x + 2 * a[5] * y,
                        Dxx=2 * a[3], Dxy=a[4], Dyy=2 * a[5])[name]
        rs = M @ one
        for i, (ix, iy) in enumerate(cells):
            cl = cell_class(nx, ny, ix, iy)
            ctx.case(key=('S-ops', stream, nx, ny, cl, name))
            ctx.count('S-ops:class:' + cl)
            where = dict(rep, cell=[ix, iy], cls=cl, op=name, coefficients=a)
            tiny = 64 * 2.3e-16 * np.abs(M[i]).sum() + 1e-300
            if abs(rs[i]) > tiny:
                fail('C20:%s:constant-not-annihilated:%s' % (name, cl), 'row sum %g in cell %r of a %dx%d grid' % (rs[i], (ix, iy), nx, ny), where)
            if name in ('Dx', 'Dy'):
                got = (M @ lin)[i]
                if abs(got - exp_lin) > floor:
                    fail('C20:%s:linear-not-exact:%s' % (name, cl), '%s of a linear field = %r, exact %r' % (name, got, exp_lin), where)
            if name == 'Dxy':
                got = (M @ bil)[i]
                if abs(got - exp_bil) > floor:
                    fail('C20:Dxy:bilinear-not-exact:%s' % cl, 'Dxy of a bilinear field = %r, exact %r' % (got, exp_bil), where)
            if cl == '--':
                got = (M @ quad)[i]
                e = exp_quad if np.isscalar(exp_quad) else exp_quad[i]
                if abs(got - e) > floor:
                    fail('C20:%s:quadratic-not-exact:interior' % name, '%s of a quadratic = %r, exact %r' % (name, got, e), where)
    return ops, x, y


def s_ops(st):
    ctx, rng = st.ctx, st.ctx.rng
    nmax = 7 if ctx.tier == 'quick' else 10
    for nx in range(2, nmax + 1):
        for ny in range(2, nmax + 1):
            dx, dy = rnd_step(rng), rnd_step(rng)
            x0, y0 = rnd_origin(rng, dx), rnd_origin(rng, dy)
            cells = full_cells(nx, ny)
            r = check_ops_case(st, cells, dx, dy, x0, y0, nx, ny, 'S')
            if r is None:
                continue
            ops = r[0]
            # independence of the origin: same grid elsewhere (dyadic shift keeps the arithmetic exact for dyadic steps)
            x1, y1 = x0 + rng.choice([1.0, -3.0, 16.0]) * dx * 4, y0 + rng.choice([2.0, -5.0]) * dy * 4
            _, _, _, (s2, ops2) = gen(st, cells, dx, dy, x1, y1)
            for name in OPS:
                if s2 != 'ok' or not np.allclose(ops[name], ops2[name], rtol=1e-9, atol=1e-9 * np.abs(ops[name]).max()):
                    ctx.fail('C20:%s:origin-dependent' % name, 'operator changes when the grid is translated',
                             dict(nx=nx, ny=ny, dx=dx, dy=dy, origins=[[x0, y0], [x1, y1]]))
            # independence of dx, dy: D(dx', dy') * dx'^a dy'^b = D(dx, dy) * dx^a dy^b
            dx2, dy2 = rnd_step(rng), rnd_step(rng)
            _, _, _, (s3, ops3) = gen(st, cells, dx2, dy2, x0, y0)
            pw = dict(Dx=(1, 0), Dy=(0, 1), Dxx=(2, 0), Dxy=(1, 1), Dyy=(0, 2))
            for name in OPS:
                p, q = pw[name]
                if s3 != 'ok' or not np.allclose(np.asarray(ops[name]) * dx ** p * dy ** q, np.asarray(ops3[name]) * dx2 ** p * dy2 ** q, rtol=1e-9, atol=1e-12):
                    ctx.fail('C20:%s:step-dependent-stencil' % name, 'unscaled stencil depends on dx, dy',
                             dict(nx=nx, ny=ny, steps=[[dx, dy], [dx2, dy2]]))
    ctx.exhaustive = False


# ---------------------------------------------------------------------------------------------- S: ADMT
def check_admt_case(st, nx, ny, dx, dy, x0, y0, aniso, psi, stream, psi_kind='given'):
    ctx = st.ctx
    cells = full_cells(nx, ny)
    v, m12, m21, (status, ops) = gen(st, cells, dx, dy, x0, y0)
    if status != 'ok':
        return
    c = v.mean(axis=1)
    x = c[:, 0]
    psi = np.asarray(psi, dtype=float)
    rep = dict(stream=stream, nx=nx, ny=ny, dx=dx, dy=dy, x0=x0, y0=y0, anisotropy=aniso, psi_kind=psi_kind, psi=[float(p) for p in psi])
    status, L = call(st.A.calculate_admt, x, ops, psi, dx, dy, aniso)
    if status != 'ok':
        ctx.fail('C20:calculate_admt:raises:' + status, 'calculate_admt raised: %s' % L, rep)
        return
    ref, N = reference_admt(ops, psi, x, dx, dy, aniso)
    scaleN = (np.abs(psi).max() / min(dx, dy)) ** 2
    if N.min() < 1e-4 * scaleN:
        ctx.count('S-admt:skipped-small-gradient')
        return
    ctx.case(key=('S-admt', stream, nx, ny, f2b(aniso), psi_kind))
    ctx.count('S-admt:' + psi_kind)
    if not np.all(np.isfinite(L)):
        ctx.fail('C20:calculate_admt:not-finite', 'non-finite entries although |grad psi|^2 >= %g and R >= %g' % (N.min(), x.min()), rep)
        return
    rowscale = np.abs(ref).max(axis=1)
    cond = (scaleN / N.min()) ** 2
    tol = 1e-10 * max(1.0, cond)
    rs = np.abs(L.sum(axis=1)) / rowscale
    if rs.max() > tol:
        i = int(np.argmax(rs))
        ctx.fail('C20:calculate_admt:constant-not-annihilated', 'row %d sums to %g (row scale %g)' % (i, L.sum(axis=1)[i], rowscale[i]), rep)
    err = np.abs(L - ref).max(axis=1) / rowscale
    if err.max() > tol:
        i = int(np.argmax(err))
        # which coefficient is off?  project the row difference on the operator rows
        lap = (ops['Dxx'] + ops['Dyy'] + np.diag(1 / x) @ ops['Dx']) * math.sqrt(dx * dy)
        rep2 = dict(rep, cell=list(cells[i]), cls=cell_class(nx, ny, *cells[i]), row=i, rel_error=float(err.max()),
                    max_abs_diff_from_reference=float(np.abs(L - ref).max()))
        if aniso == 1.0:
            rep2['max_abs_diff_from_laplacian'] = float(np.abs(L - lap).max())
        sig, why = classify_admt_defect(st, ops, x, psi, dx, dy, aniso, L, float(err.max()), tol)
        ctx.fail(sig, ('calculate_admt(anisotropy=%g) differs from the discretised div(D grad f): row %d relative error %.3g; %s'
                       % (aniso, i, err.max(), why)), rep2)
    elif aniso == 1.0:
        lap = (ops['Dxx'] + ops['Dyy'] + np.diag(1 / x) @ ops['Dx']) * math.sqrt(dx * dy)
        e2 = np.abs(L - lap).max(axis=1) / np.abs(lap).max(axis=1)
        if e2.max() > tol:
            ctx.fail('C20:calculate_admt:isotropic-not-laplacian', 'anisotropy 1 differs from Dxx + Dyy + Dx/R by %g' % e2.max(), rep)


def classify_admt_defect(st, ops, x, psi, dx, dy, aniso, L, err_ref, tol):
    """is the deviation exactly the documented slip (dpsidyy in place of dpsidxdy in dnorm_term_cx)?  Evaluate the
    reference with that single substitution; if it reproduces the implementation the signature is the known one,
    otherwise a different violation is reported under its own signature."""
    px, py = ops['Dx'] @ psi, ops['Dy'] @ psi
    pxx, pxy, pyy = ops['Dxx'] @ psi, ops['Dxy'] @ psi, ops['Dyy'] @ psi
    dperp, dpar = 1.0 / aniso, 1.0
    cx, cy, cxx, cxy, cyy = jet_coefficients(px, py, pxx, pxy, pyy, dperp, dpar, x)
    N = px * px + py * py
    A_ = dperp * px * px + dpar * py * py
    # d_x(A/N) contains -A N_x / N^2 with N_x = 2 (px pxx + py pxy); the slip replaces pxy by pyy there
    cx_slip = cx - (-2 * A_ * (py * pxy) / N ** 2) + (-2 * A_ * (py * pyy) / N ** 2)
    Ls = (cx_slip[:, None] * ops['Dx'] + cy[:, None] * ops['Dy'] + cxx[:, None] * ops['Dxx']
          + 2 * cxy[:, None] * ops['Dxy'] + cyy[:, None] * ops['Dyy']) * math.sqrt(dx * dy)
    scale = np.abs(Ls).max(axis=1)
    err_slip = float((np.abs(L - Ls).max(axis=1) / scale).max())
    # the slip explains the implementation: agreement to rounding, and orders of magnitude better than with the reference
    if err_slip <= tol and err_slip <= 1e-4 * err_ref:
        return SIG_DNORM, ('the deviation is reproduced exactly by substituting dpsidyy for dpsidxdy in the x-derivative of '
                           '|grad psi|^2 (admt_utils.py dnorm_term_cx)')
    return 'C20:calculate_admt:coefficients-differ-from-jet:aniso=%s' % ('1' if aniso == 1.0 else 'general'), 'not the dnorm_term_cx slip'


def s_admt(st):
    ctx, rng = st.ctx, st.ctx.rng
    nmax = 6 if ctx.tier == 'quick' else 9
    for it in range(ctx.n(40, 500)):
        nx, ny = rng.randint(2, nmax), rng.randint(2, nmax)
        dx, dy = rnd_step(rng), rnd_step(rng)
        x0, y0 = rng.uniform(0.5, 5.0) + dx, rnd_origin(rng, dy)
        v, _, _ = make_grid(full_cells(nx, ny), dx, dy, x0, y0)
        c = v.mean(axis=1)
        x, y = c[:, 0], c[:, 1]
        kind = ('curved', 'linear', 'quadratic', 'random')[it % 4]
        if kind == 'curved':
            psi = curved_psi(rng, x, y)
        elif kind == 'linear':
            psi = rng.uniform(-1, 1) + rng.uniform(0.2, 1) * x + rng.uniform(0.2, 1) * y
        elif kind == 'quadratic':
            a = [rng.uniform(-1, 1) for _ in range(6)]
            psi = poly(a, x, y)
        else:
            psi = np.array([rng.uniform(-1, 1) for _ in x])
        aniso = 1.0 if it % 3 == 0 else rng.choice([10.0, 2.0, rng.uniform(1, 1000)])
        check_admt_case(st, nx, ny, dx, dy, x0, y0, aniso, psi, 'S', kind)


def s_refine(st):
    """consistency with the continuous operator: interior truncation error of L f / sqrt(dx dy) against the analytic
    div(D grad f) for a smooth curved psi must decrease on refinement (second order: factor ~4 per halving)."""
    ctx, rng = st.ctx, st.ctx.rng
    sizes = (6, 12, 24) if ctx.tier == 'quick' else (8, 16, 32)
    for aniso in ((1.0, 10.0) if ctx.tier == 'quick' else (1.0, 3.0, 10.0, 100.0)):
        errs = []
        for n in sizes:
            Lx, Ly, x0, ytop = 1.0, 1.2, 1.5, 0.6
            dx, dy = Lx / n, Ly / n
            cells = full_cells(n, n)
            v, m12, m21, (status, ops) = gen(st, cells, dx, dy, x0 + dx / 2, ytop - dy / 2)
            c = v.mean(axis=1)
            x, y = c[:, 0], c[:, 1]
            # psi = (x-0.7)^2 + 2 (y+1.1)^2 + 0.5 x y ;  f = sin(1.3 x) cos(0.7 y) + 0.2 x y
            psi = (x - 0.7) ** 2 + 2 * (y + 1.1) ** 2 + 0.5 * x * y
            px, py = 2 * (x - 0.7) + 0.5 * y, 4 * (y + 1.1) + 0.5 * x
            pxx, pxy, pyy = 2.0 + 0 * x, 0.5 + 0 * x, 4.0 + 0 * x
            f = np.sin(1.3 * x) * np.cos(0.7 * y) + 0.2 * x * y
            fx = 1.3 * np.cos(1.3 * x) * np.cos(0.7 * y) + 0.2 * y
            fy = -0.7 * np.sin(1.3 * x) * np.sin(0.7 * y) + 0.2 * x
            fxx = -1.69 * np.sin(1.3 * x) * np.cos(0.7 * y)
            fxy = -0.91 * np.cos(1.3 * x) * np.sin(0.7 * y) + 0.2
            fyy = -0.49 * np.sin(1.3 * x) * np.cos(0.7 * y)
            cx, cy, cxx, cxy, cyy = jet_coefficients(px, py, pxx, pxy, pyy, 1.0 / aniso, 1.0, x)
            exact = cx * fx + cy * fy + cxx * fxx + 2 * cxy * fxy + cyy * fyy
            status, L = call(st.A.calculate_admt, x, ops, psi, dx, dy, aniso)
            if status != 'ok':
                ctx.fail('C20:calculate_admt:raises:' + status, 'refinement study', dict(n=n, anisotropy=aniso))
                break
            got = (L @ f) / math.sqrt(dx * dy)
            interior = np.array([0 < ix < n - 1 and 0 < iy < n - 1 for ix, iy in cells])
            errs.append(float(np.abs(got - exact)[interior].max() / np.abs(exact)[interior].max()))
            ctx.case(key=('S-refine', n, f2b(aniso)))
        ctx.extra.setdefault('refinement_errors', {})[str(aniso)] = errs
        if len(errs) == len(sizes):
            converges = errs[-1] < 0.45 * errs[-2] < 0.45 * 0.45 * errs[0] * 1.0001 and errs[-1] < 0.05
            ctx.count('S-refine:' + ('converges' if converges else 'does-not-converge'))
            if not converges:
                # attribute: is the non-convergence the known slip?  re-run the finest grid through the per-row classifier
                n = sizes[0]
                dx, dy = 1.0 / n, 1.2 / n
                cells = full_cells(n, n)
                v, _, _ = make_grid(cells, dx, dy, 1.5 + dx / 2, 0.6 - dy / 2)
                c = v.mean(axis=1)
                psi = (c[:, 0] - 0.7) ** 2 + 2 * (c[:, 1] + 1.1) ** 2 + 0.5 * c[:, 0] * c[:, 1]
                before = len(ctx.failing) + len(ctx.known_hits)
                check_admt_case(st, n, n, dx, dy, 1.5 + dx / 2, 0.6 - dy / 2, aniso, psi, 'S-refine', 'curved')
                if len(ctx.failing) + len(ctx.known_hits) == before and not any(
                        s == SIG_DNORM for s in [f['signature'] for f in ctx.failing] + [k['signature'] for k in ctx.known_hits]):
                    ctx.fail('C20:calculate_admt:inconsistent-discretisation:aniso=%g' % aniso,
                             'interior truncation error does not decrease on refinement: %r for n = %r' % (errs, sizes),
                             dict(stream='S-refine', sizes=sizes, anisotropy=aniso, errors=errs))


# ------------------------------------------------------------------------ every legal description of the same grid
import collections
import collections.abc
import random as _random
import types as _types


class PlainMapping(collections.abc.Mapping):
    """a Mapping that is not a dict (the functions only promise `Mapping`)"""

    def __init__(self, d):
        self._d = dict(d)

    def __getitem__(self, k):
        return self._d[k]

    def __iter__(self):
        return iter(self._d)

    def __len__(self):
        return len(self._d)


CYCLIC = [(0, 1, 2, 3), (1, 2, 3, 0), (2, 3, 0, 1), (3, 0, 1, 2)]
ANTICYCLIC = [(0, 3, 2, 1), (3, 2, 1, 0), (2, 1, 0, 3), (1, 0, 3, 2)]
NONCYCLIC = [p for p in __import__('itertools').permutations(range(4)) if p not in CYCLIC and p not in ANTICYCLIC]
DESCRIPTIONS = ('vertex-order:cyclic', 'vertex-order:anticyclic', 'vertex-order:noncyclic', 'vertex-order:mixed',
                'map-order:descending', 'map-order:shuffled', 'map-order:inverted-rowwise',
                'map-type:OrderedDict', 'map-type:MappingProxyType', 'map-type:ChainMap', 'map-type:plain-Mapping',
                'map-values:list', 'map-values:numpy-int', 'everything')


def _reorder(d, keys):
    return {k: d[k] for k in keys}


def describe(v, m12, m21, description):
    """(vertices, 1d->2d map, 2d->1d map) describing the same voxels and the same 1-D numbering as the canonical
    (v, m12, m21); deterministic in description['seed']"""
    kind = description['kind']
    r = _random.Random(description['seed'])
    varg, a12, a21 = v.copy(), dict(m12), dict(m21)
    parts = kind.split(':')
    every = kind == 'everything'
    if parts[0] == 'vertex-order' or every:
        pool = {'cyclic': CYCLIC, 'anticyclic': ANTICYCLIC, 'noncyclic': NONCYCLIC,
                'mixed': CYCLIC + ANTICYCLIC + NONCYCLIC}['mixed' if every else parts[1]]
        for i in range(v.shape[0]):
            varg[i] = v[i][list(r.choice(pool))]
    if parts[0] == 'map-order' or every:
        how = r.choice(['descending', 'shuffled', 'inverted-rowwise']) if every else parts[1]
        if how == 'descending':
            a12 = _reorder(m12, sorted(m12, reverse=True))
            a21 = _reorder(m21, sorted(m21, reverse=True))
        elif how == 'shuffled':
            k1, k2 = list(m12), list(m21)
            r.shuffle(k1)
            r.shuffle(k2)
            a12, a21 = _reorder(m12, k1), _reorder(m21, k2)
        else:     # the 2d->1d dict filled row by row, the 1d->2d dict obtained by inverting it
            a21 = _reorder(m21, sorted(m21, key=lambda c: (c[1], c[0])))
            a12 = {i: c for c, i in a21.items()}
    if parts[0] == 'map-values' or every:
        how = r.choice(['list', 'numpy-int']) if every else parts[1]
        if how == 'list':
            a12 = {i: list(c) for i, c in a12.items()}
        else:
            a12 = {i: (np.int64(c[0]), np.int32(c[1])) for i, c in a12.items()}
    if parts[0] == 'map-type' or every:
        how = r.choice(['OrderedDict', 'MappingProxyType', 'ChainMap', 'plain-Mapping']) if every else parts[1]
        wrap = {'OrderedDict': collections.OrderedDict, 'MappingProxyType': _types.MappingProxyType,
                'ChainMap': lambda d: collections.ChainMap({}, d), 'plain-Mapping': PlainMapping}[how]
        a12, a21 = wrap(a12), wrap(a21)
    return varg, a12, a21


def s_descriptions(st):
    """a voxel is a set of four corners and the two maps are mappings: the order in which a voxel lists its corners,
    the insertion order and the concrete type of the maps, and the container of a 2-D index carry no information.
    Every description goes through the full exactness oracle (independent of the implementation); dyadic grids, so
    that even the summation order of the four corners cannot change a bit."""
    ctx, rng = st.ctx, st.ctx.rng
    grids = [(2, 2), (3, 3), (2, 4), (4, 3)] + [(rng.randint(2, 6), rng.randint(2, 6)) for _ in range(ctx.n(2, 10))]
    for nx, ny in grids:
        dx, dy = rng.choice([0.5, 1.0, 2.0, 0.25]), rng.choice([0.5, 1.0, 4.0, 0.125])
        x0, y0 = float(rng.randint(1, 8)), float(rng.randint(-4, 4))
        cells = full_cells(nx, ny)
        v, m12, m21 = make_grid(cells, dx, dy, x0, y0)
        st0, base = call(st.A.generate_derivative_operators, v.copy(), dict(m12), dict(m21))
        for kind in DESCRIPTIONS:
            d = dict(kind=kind, seed=rng.randrange(10 ** 6))
            ctx.count('S-desc:' + kind)
            before = len(ctx.failing) + len(ctx.known_hits)
            check_ops_case(st, cells, dx, dy, x0, y0, nx, ny, 'S-desc', description=d)
            if st0 == 'ok' and len(ctx.failing) + len(ctx.known_hits) == before:
                varg, a12, a21 = describe(v, m12, m21, d)
                s1, o1 = call(st.A.generate_derivative_operators, varg, a12, a21)
                if s1 == 'ok' and any(not np.array_equal(np.asarray(o1[k]), np.asarray(base[k])) for k in OPS):
                    ctx.broke('correspondence', 'C20 description ' + kind,
                              dict(nx=nx, ny=ny, dx=dx, dy=dy, x0=x0, y0=y0, description=d,
                                   note='operators differ from those of the canonical description although every oracle passes'))


# ------------------------------------------------------------------------------- flux maps with special values
def check_flux_case(st, nx, ny, dx, dy, x0, y0, aniso, variant, offset, stream):
    """psi -> psi + offset describes the same flux surfaces with the same gradient: the operator must not change, must be
    finite and must be the discretised div(D grad f) (Laplacian at anisotropy 1) — in particular when the shifted map
    has maximum / minimum exactly 0, is negative everywhere or contains exact zeros.  psi is integer-valued and the
    offsets are integers, so psi + offset is exact and the derivatives are bit-identical."""
    ctx = st.ctx
    cells = full_cells(nx, ny)
    v, m12, m21, (status, ops) = gen(st, cells, dx, dy, x0, y0)
    if status != 'ok':
        return
    x = v.mean(axis=1)[:, 0]
    base = np.array([float((ix + 1) ** 2 + 2 * (iy + 2) ** 2 + (ix + 1) * (iy + 2)) for ix, iy in cells])
    shift = {'max-zero': -base.max(), 'min-zero': -base.min(), 'all-negative': -base.max() - 7.0,
             'zero-at-voxel': -base[len(base) // 2], 'offset': offset, 'negated': 0.0}[variant]
    sign = -1.0 if variant == 'negated' else 1.0
    psi = sign * base + shift
    rep = dict(stream=stream, flux_study=True, nx=nx, ny=ny, dx=dx, dy=dy, x0=x0, y0=y0, anisotropy=aniso, variant=variant,
               offset=offset, psi=[float(t) for t in psi])
    ctx.case(key=('S-flux', nx, ny, f2b(aniso), variant, f2b(offset)))
    ctx.count('S-flux:' + variant)
    jet, N = reference_admt(ops, base, x, dx, dy, aniso)
    if N.min() <= 0:
        return
    status, L = call(st.A.calculate_admt, x, ops, psi, dx, dy, aniso)
    what = {'max-zero': 'maximum exactly 0', 'min-zero': 'minimum exactly 0', 'all-negative': 'negative everywhere',
            'zero-at-voxel': 'exactly 0 at one voxel', 'offset': 'offset %g' % offset, 'negated': 'sign reversed'}[variant]
    if status != 'ok':
        ctx.fail('C20:calculate_admt:raises:%s:psi-%s' % (status, variant), 'flux map with %s: %s' % (what, L), rep)
        return
    if not np.all(np.isfinite(L)):
        ctx.fail('C20:calculate_admt:not-finite:psi-' + variant,
                 'flux map with %s (|grad psi|^2 >= %g in every voxel): %d non-finite entries'
                 % (what, N.min(), int((~np.isfinite(L)).sum())), rep)
        return
    rowscale = np.abs(jet).max(axis=1)
    err = float((np.abs(L - jet).max(axis=1) / rowscale).max())
    if err > 1e-10:
        ctx.fail('C20:calculate_admt:depends-on-offset-of-psi' if variant != 'negated' else 'C20:calculate_admt:depends-on-scale-of-psi',
                 'flux map with %s: the operator differs from the one of the unshifted map / the discretised div(D grad f) '
                 '(relative row error %.3g)' % (what, err), dict(rep, rel_error=err))


def s_flux_values(st):
    ctx, rng = st.ctx, st.ctx.rng
    for it in range(ctx.n(4, 20)):
        nx, ny = rng.randint(2, 6), rng.randint(2, 6)
        dx, dy = rng.choice([0.5, 1.0, 2.0]), rng.choice([0.25, 1.0, 2.0])
        x0, y0 = float(rng.randint(1, 6)), float(rng.randint(-3, 3))
        aniso = 1.0 if it % 2 == 0 else rng.choice([2.0, 10.0, 100.0])
        for variant in ('max-zero', 'min-zero', 'all-negative', 'zero-at-voxel', 'negated'):
            check_flux_case(st, nx, ny, dx, dy, x0, y0, aniso, variant, 0.0, 'S-flux')
        for off in (1.0, -1.0, 1000.0, -1000.0, 2.0 ** 20, -2.0 ** 20):
            check_flux_case(st, nx, ny, dx, dy, x0, y0, aniso, 'offset', off, 'S-flux')


# ------------------------------------------------------------------------------------ S: scale of the flux map
# The operator depends on psi only through the direction of grad psi (Props: admt_coefficients_scale_invariant).
# Range of scales: the highest power of psi formed while evaluating the coefficients is 4 (dnorm_term_c*: (D psi_x^2 + ..)
# * (psi_x psi_xx + ..) before the division by |grad psi|^2), so with |c| <= 2^200 ~ 1.6e60 the intermediates stay within
# 2^+-800 * (grid factors <= 2^+-100), inside the double range 2^+-1022: neither |grad psi|^2 nor any product underflows or
# overflows, and for c a power of two every operation scales exactly, so the result must agree to rounding (we ask 1e-11).
# Decimal factors 1e-12 .. 1e12 re-round psi; there the tolerance is scaled by the conditioning of the second differences.
SCALES_POW2 = [s * 2.0 ** k for k in (-200, -100, -40, -30, -20, -10, 10, 20, 30, 40, 100, 200) for s in (1, -1)] + [-1.0]
SCALES_DEC = [s * 10.0 ** k for k in (-12, -9, -6, -3, 3, 6, 9, 12) for s in (1, -1)]


def check_scale_case(st, nx, ny, dx, dy, x0, y0, aniso, shape_coef, stream, scales=None):
    """calculate_admt(c * psi) against calculate_admt(psi) and against the Laplacian (anisotropy 1) for many c"""
    ctx = st.ctx
    cells = full_cells(nx, ny)
    v, m12, m21, (status, ops) = gen(st, cells, dx, dy, x0, y0)
    if status != 'ok':
        return
    c_ = v.mean(axis=1)
    x, y = c_[:, 0], c_[:, 1]
    a = shape_coef
    # curved flux map with |grad| = O(1) in cell units, centre outside the grid
    u, w = (x - x.min()) / dx + a[0], (y.max() - y) / dy + a[1]
    shape = a[2] * u * u + a[3] * w * w + a[4] * u * w
    status, ref = call(st.A.calculate_admt, x, ops, shape, dx, dy, aniso)
    rep0 = dict(stream=stream, scale_study=True, nx=nx, ny=ny, dx=dx, dy=dy, x0=x0, y0=y0, anisotropy=aniso, shape=list(a))
    if status != 'ok':
        ctx.fail('C20:calculate_admt:raises:' + status, 'scale study, c = 1: %s' % ref, rep0)
        return
    jet, N = reference_admt(ops, shape, x, dx, dy, aniso)
    g2 = (1.0 / dx) ** 2 + (1.0 / dy) ** 2
    if not np.all(np.isfinite(ref)) or N.min() < 1e-3 * g2:
        ctx.count('S-scale:skipped-small-gradient')
        return
    rowscale = np.abs(jet).max(axis=1)
    lap = (ops['Dxx'] + ops['Dyy'] + np.diag(1 / x) @ ops['Dx']) * math.sqrt(dx * dy)
    # conditioning of the discrete second derivatives w.r.t. rounding of the psi values
    cond = max(1.0, np.abs(shape).max() * (1 / dx ** 2 + 1 / dy ** 2) / math.sqrt(N.min()) / min(1 / dx, 1 / dy))
    # mildest scales first, so that the reported failing input is the least exotic one
    for c in sorted(scales if scales is not None else SCALES_POW2 + SCALES_DEC, key=lambda t: (abs(math.log2(abs(t))), t)):
        exact = math.frexp(abs(c))[0] == 0.5
        tol = 1e-11 if exact else min(1e-3, 1e-13 * cond * cond)
        ctx.case(key=('S-scale', stream, nx, ny, f2b(aniso), f2b(c)))
        ctx.count('S-scale:' + ('pow2' if exact else 'decimal'))
        rep = dict(rep0, scale=c)
        status, L = call(st.A.calculate_admt, x, ops, c * shape, dx, dy, aniso)
        if status != 'ok':
            ctx.fail('C20:calculate_admt:raises:' + status, 'psi scaled by %g: %s' % (c, L), rep)
            continue
        if not np.all(np.isfinite(L)):
            ctx.fail('C20:calculate_admt:not-finite:scaled-psi', 'psi scaled by %g (|grad psi|^2 >= %g): non-finite entries' % (c, c * c * N.min()), rep)
            continue
        err = float((np.abs(L - ref).max(axis=1) / rowscale).max())
        if err > tol:
            i = int(np.argmax(np.abs(L - ref).max(axis=1) / rowscale))
            ctx.fail('C20:calculate_admt:depends-on-scale-of-psi',
                     'calculate_admt(%g * psi) differs from calculate_admt(psi) (same flux surfaces): relative row error %.3g in row %d, '
                     '|grad psi|^2 there %.3g' % (c, err, i, c * c * N[i]), dict(rep, row=i, rel_error=err))
        if aniso == 1.0:
            e2 = float((np.abs(L - lap).max(axis=1) / np.abs(lap).max(axis=1)).max())
            if e2 > max(tol, 1e-10 * cond):
                ctx.fail('C20:calculate_admt:isotropic-not-laplacian:scaled-psi',
                         'anisotropy 1 with psi scaled by %g: differs from (Dxx + Dyy + Dx/R) sqrt(dx dy) by %.3g (relative)' % (c, e2),
                         dict(rep, rel_error=e2))


def s_scale(st):
    ctx, rng = st.ctx, st.ctx.rng
    jobs = []
    for it in range(ctx.n(6, 40)):
        nx, ny = rng.randint(2, 7), rng.randint(2, 7)
        dx, dy = rnd_step(rng), rnd_step(rng)
        jobs.append((nx, ny, dx, dy, rng.uniform(0.5, 5.0) + dx, rnd_origin(rng, dy), None))
    # extreme spacings: tiny / huge / very anisotropic cells (dyadic, so that the grid itself is exact)
    for dx, dy, x0 in ((2.0 ** -20, 2.0 ** -19, 2.0), (2.0 ** 20, 2.0 ** 21, 2.0 ** 22), (2.0 ** -10, 1.0, 1.0), (1.0, 2.0 ** -10, 4.0)):
        jobs.append((rng.randint(3, 5), rng.randint(3, 5), dx, dy, x0, 0.0, [s * 2.0 ** k for k in (-100, -40, -30, -10, 10, 30, 100) for s in (1, -1)]))
    for j, (nx, ny, dx, dy, x0, y0, scales) in enumerate(jobs):
        aniso = 1.0 if j % 2 == 0 else rng.choice([2.0, 10.0, rng.uniform(1, 1000)])
        shape = [rng.uniform(1.5, 4), rng.uniform(1.5, 4), rng.uniform(0.5, 2), rng.uniform(0.5, 2), rng.uniform(-0.5, 0.5)]
        check_scale_case(st, nx, ny, dx, dy, x0, y0, aniso, shape, 'S-scale', scales)


# ------------------------------------------------------------- S: flux maps with a wide dynamic range of |grad psi|
# The coefficients at a voxel depend only on the direction of grad psi and the curvature of psi *at that voxel*; what
# |grad psi| is elsewhere on the grid is irrelevant.  S-admt / S-scale skip grids whose smallest discrete |grad psi|^2 is
# far below the typical one (conditioning of a *global* tolerance), so a legal map whose gradient is small but non-zero in
# some voxels relative to others (magnetic axis close to -- not on -- a voxel centre, exponential or power-law profiles)
# was never judged.  Here every row is judged on its own: the reference is formed from the same discrete derivatives of
# psi the implementation forms (Dx @ psi, ... -- bit-identical inputs), so the two differ by the rounding of a different
# order of arithmetic only, per voxel, whatever the gradient is elsewhere.
RANGE_FAMILIES = ('near-axis', 'exponential', 'power-law')


def range_psi(family, par, x, y, dx, dy):
    u, w = (x - x.min()) / dx, (y.max() - y) / dy            # cell units, u = ix, w = iy
    if family == 'near-axis':
        # nested elliptical surfaces; axis displaced by par[2] (<< 1) cells from the centre of voxel (par[0], par[1])
        return (u - par[0] - par[2]) ** 2 + par[3] * (w - par[1] - par[2] * par[4]) ** 2
    if family == 'exponential':
        # exp(k u)(1 + 0.1 w'): |grad psi| grows by exp(k (nx - 1)) across the grid
        return np.exp(par[0] * u) * (1.0 + par[1] * w)
    # power law around a point par[1] cells left of the grid: |grad psi| ~ r^(p-1)
    return (u + par[1]) ** par[0] * (1.0 + par[2] * w)


def check_range_case(st, nx, ny, dx, dy, x0, y0, aniso, family, par, stream):
    ctx = st.ctx
    cells = full_cells(nx, ny)
    v, m12, m21, (status, ops) = gen(st, cells, dx, dy, x0, y0)
    if status != 'ok':
        return
    c = v.mean(axis=1)
    x, y = c[:, 0], c[:, 1]
    psi = range_psi(family, par, x, y, dx, dy)
    rep = dict(stream=stream, range_study=True, nx=nx, ny=ny, dx=dx, dy=dy, x0=x0, y0=y0, anisotropy=aniso, family=family,
               par=[float(t) for t in par])
    status, L = call(st.A.calculate_admt, x, ops, psi, dx, dy, aniso)
    if status != 'ok':
        ctx.fail('C20:calculate_admt:raises:' + status, 'calculate_admt raised on a %s flux map: %s' % (family, L), rep)
        return
    ref, N = reference_admt(ops, psi, x, dx, dy, aniso)
    if not (N.min() > 0) or not np.all(np.isfinite(ref)):
        ctx.count('S-range:skipped-zero-gradient')
        return
    span = float(N.max() / N.min())
    ctx.case(key=('S-range', stream, family, nx, ny, f2b(aniso), f2b(float(par[0]))))
    ctx.count('S-range:' + family)
    ctx.count('S-range:decades-of-|grad psi|:%d' % int(0.5 * math.log10(span)))
    rep['grad_psi_sq_max_over_min'] = span
    if not np.all(np.isfinite(L)):
        ctx.fail('C20:calculate_admt:not-finite:wide-gradient-range',
                 'non-finite entries although |grad psi|^2 >= %g in every voxel (max %g)' % (N.min(), N.max()), rep)
        return
    # per-row tolerance: rounding of the coefficient arithmetic, amplified by the cancellation in the first-derivative
    # coefficients (terms of size |psi''| / |grad psi| each)
    curv = np.abs(ops['Dxx'] @ psi) + np.abs(ops['Dxy'] @ psi) + np.abs(ops['Dyy'] @ psi)
    tol = 1e-9 + 1e-13 * curv / np.sqrt(N) * max(dx, dy)
    tol = np.minimum(tol, 1e-4)
    rowscale = np.abs(ref).max(axis=1)
    err = np.abs(L - ref).max(axis=1) / rowscale
    bad = np.nonzero(err > tol)[0]
    if len(bad):
        i = int(bad[np.argmax(err[bad])])
        ctx.fail('C20:calculate_admt:coefficients-differ-from-jet:wide-gradient-range',
                 'calculate_admt(anisotropy=%g) on a %s flux map (|grad psi|^2 spans %.3g over the grid, non-zero everywhere): row %d '
                 '(voxel %s, |grad psi|^2 = %.3g = %.3g of the grid maximum) differs from the discretised div(D grad f) formed from the '
                 'same local derivatives of psi by %.3g (relative); %d of %d rows affected'
                 % (aniso, family, span, i, list(cells[i]), N[i], N[i] / N.max(), err[i], len(bad), len(err)),
                 dict(rep, row=i, cell=list(cells[i]), rel_error=float(err[i]), rows_affected=[int(b) for b in bad[:20]]))
    if aniso == 1.0:
        lap = (ops['Dxx'] + ops['Dyy'] + np.diag(1 / x) @ ops['Dx']) * math.sqrt(dx * dy)
        e2 = np.abs(L - lap).max(axis=1) / np.abs(lap).max(axis=1)
        bad2 = np.nonzero(e2 > tol)[0]
        if len(bad2):
            i = int(bad2[np.argmax(e2[bad2])])
            ctx.fail('C20:calculate_admt:isotropic-not-laplacian:wide-gradient-range',
                     'anisotropy 1, %s flux map: row %d (|grad psi|^2 = %.3g of the grid maximum) differs from (Dxx + Dyy + Dx/R) sqrt(dx dy) '
                     'by %.3g (relative)' % (family, i, N[i] / N.max(), e2[i]), dict(rep, row=i, rel_error=float(e2[i])))


def s_range(st):
    ctx, rng = st.ctx, st.ctx.rng
    for it in range(ctx.n(12, 90)):
        family = RANGE_FAMILIES[it % 3]
        nx, ny = rng.randint(3 if family == 'near-axis' else 4, 7), rng.randint(3, 7)
        dx, dy = rnd_step(rng), rnd_step(rng)
        x0, y0 = rng.uniform(0.5, 5.0) + dx, rnd_origin(rng, dy)
        aniso = 1.0 if (it // 3) % 2 == 0 else rng.choice([2.0, 10.0, 100.0, rng.uniform(1, 1000)])
        target = 10.0 ** rng.uniform(4.0, 5.5)          # wanted ratio of the largest to the smallest |grad psi|
        if family == 'near-axis':
            # the axis voxel is an interior one (central differences: the discrete gradient there is 2 * displacement)
            par = [rng.randint(1, nx - 2), rng.randint(1, ny - 2), rng.choice([1, -1]) * 2.0 * nx / target,
                   rng.uniform(0.5, 2.0), rng.uniform(0.5, 1.5)]
        elif family == 'exponential':
            # one-sided differences at the two edges: the ratio of the edge gradients is about exp(k (nx - 2))
            par = [math.log(target) / (nx - 2), rng.uniform(0.02, 0.1)]
        else:
            r0, pw = rng.choice([0.25, 0.5, 1.0]), 3.0
            while pw * (nx - 1 + r0) ** (pw - 1) / (1 + r0) ** pw < target:
                pw += 1.0
            par = [pw, r0, rng.uniform(0.02, 0.1)]
        check_range_case(st, nx, ny, dx, dy, x0, y0, aniso, family, par, 'S-range')


# ------------------------------------------------------------------------------------------------- replay
def replay_case(st, r):
    r = r.get('replay', r)
    if 'extreme' not in r and 'cells' in r and 'psi' not in r:
        check_ops_case(st, [tuple(c) for c in r['cells']], r['dx'], r['dy'], r['x0'], r['y0'], r['nx'], r['ny'], 'replay',
                       representation=r.get('representation'), description=r.get('description'))
    elif r.get('flux_study'):
        check_flux_case(st, r['nx'], r['ny'], r['dx'], r['dy'], r['x0'], r['y0'], r['anisotropy'], r['variant'], r.get('offset', 0.0), 'replay')
    elif r.get('range_study'):
        check_range_case(st, r['nx'], r['ny'], r['dx'], r['dy'], r['x0'], r['y0'], r['anisotropy'], r['family'], r['par'], 'replay')
    elif r.get('scale_study'):
        check_scale_case(st, r['nx'], r['ny'], r['dx'], r['dy'], r['x0'], r['y0'], r['anisotropy'], r['shape'], 'replay',
                         [r['scale']] if 'scale' in r else None)
    elif 'extreme' in r:
        check_extreme_case(st, r['extreme'], r['nx'], r['ny'], r.get('order', 'col'), r['dx'], r['dy'], r['x0'], r['y0'], 'replay')
    elif 'psi' in r and 'anisotropy' in r and 'nx' in r:
        check_admt_case(st, r['nx'], r['ny'], r['dx'], r['dy'], r['x0'], r['y0'], r['anisotropy'], r['psi'], 'replay', r.get('psi_kind', 'given'))


def replay(ctx, path):
    import cherab.tools.inversions.admt_utils as A
    r = json.load(open(path))
    print(json.dumps(r, indent=1)[:1500])
    st = State(ctx, A)
    replay_case(st, r)
    for f in ctx.failing:
        print('REPRODUCED', f['signature'])
    if not ctx.failing and not ctx.known_hits:
        print('not reproduced on the current tree')
    return ctx.finish()
