import Cherab.Model.Laser
import Cherab.Model.Invalidation
import Mathlib.Tactic.Ring
import Mathlib.Tactic.Linarith
import Mathlib.Tactic.FieldSimp
import Mathlib.Tactic.NormNum
import Mathlib.Tactic.NormNum.OfScientific
import Mathlib.Tactic.Push
import Mathlib.Tactic.Positivity
import Mathlib.Algebra.Order.Field.Basic
import Mathlib.Algebra.Order.Floor.Ring
import Mathlib.Algebra.Order.Archimedean.Basic
import Mathlib.Algebra.Order.Ring.Rat
import Mathlib.Data.Rat.Floor
import Mathlib.Data.Rat.Cast.Lemmas
import Mathlib.Data.Rat.Cast.Order

/-!
# C18 — laser profiles and spectra (table-independent theorems)

Property theorems about `Cherab/Model/Laser.lean` for all inputs / histories, over an arbitrary ordered field
(`erf`, `exp`, `sqrt`, `π`, `c` are parameters).  The real-analysis statements (cross-section / volume integrals,
bin power = ∫ density) are in `Props/C18Real.lean`; the statements about the *generated* class tables are in
`Props/C18Table.lean`.
-/
namespace Cherab.Props.C18
set_option linter.unusedSectionVars false
set_option linter.unusedVariables false
set_option linter.unusedSimpArgs false
open Cherab.Laser

section Field
variable {α : Type} [Field α] [LinearOrder α] [IsStrictOrderedRing α]

theorem two_eq : (two : α) = 2 := by simp [two]

/-! ## generate_segmented_cylinder: the segments tile `[0, L]` exactly once -/

/-- closed form of the segment list for any `n ≥ 0`: `max 1 n` cylinders, the i-th at `i·(L/len)` of height `L/len` -/
theorem segments_closed_form (n : Int) (hn : 0 ≤ n) (r L : α) :
    ∃ segs, segments n r L = some segs ∧ segs.length = max 1 n.toNat ∧
      ∀ i (h : i < segs.length), segs[i].z0 = (i : α) * (L / (segs.length : α)) ∧
        segs[i].height = L / (segs.length : α) ∧ segs[i].radius = r := by
  unfold segments
  by_cases h1 : n > 1
  · simp only [h1, if_true]
    refine ⟨_, rfl, ?_, ?_⟩
    · simp; omega
    · intro i h
      simp at h ⊢
  · simp only [h1, if_false, hn, if_true]
    refine ⟨_, rfl, ?_, ?_⟩
    · simp; omega
    · intro i h
      simp at h
      subst h
      simp

variable [FloorRing α]

/-- **segments_tile**: for all `r, L > 0` (including `L < 2r`) the generated segments start at 0, are pairwise
adjacent, end at `L`, have equal positive height and radius `r`. -/
theorem segments_tile (r L : α) (hr : 0 < r) (hL : 0 < L) :
    ∃ segs, segments ⌊L / (two * r)⌋ r L = some segs ∧ 0 < segs.length ∧
      (∀ h : 0 < segs.length, segs[0].z0 = 0) ∧
      (∀ i (h : i + 1 < segs.length), segs[i + 1].z0 = segs[i].z0 + segs[i].height) ∧
      (∀ h : segs.length - 1 < segs.length, segs[segs.length - 1].z0 + segs[segs.length - 1].height = L) ∧
      (∀ i (h : i < segs.length), segs[i].height = L / (segs.length : α) ∧ 0 < segs[i].height ∧ segs[i].radius = r) := by
  have hn : 0 ≤ ⌊L / (two * r)⌋ := by
    apply Int.floor_nonneg.mpr
    rw [two_eq]; positivity
  obtain ⟨segs, hs, hlen, hform⟩ := segments_closed_form ⌊L / (two * r)⌋ hn r L
  have hpos : 0 < segs.length := by rw [hlen]; omega
  have hposα : (0 : α) < (segs.length : α) := by exact_mod_cast hpos
  refine ⟨segs, hs, hpos, ?_, ?_, ?_, ?_⟩
  · intro h; rw [(hform 0 h).1]; simp
  · intro i h
    rw [(hform (i + 1) h).1, (hform i (by omega)).1, (hform i (by omega)).2.1]
    push_cast; ring
  · intro h
    rw [(hform _ h).1, (hform _ h).2.1]
    have : ((segs.length - 1 : Nat) : α) = (segs.length : α) - 1 := by
      rw [Nat.cast_sub (by omega)]; simp
    rw [this]; field_simp; ring
  · intro i h
    refine ⟨(hform i h).2.1, ?_, (hform i h).2.2⟩
    rw [(hform i h).2.1]; positivity

/-- "exactly once": every axial position of `[0, L)` lies in exactly one segment `[z0, z0 + height)`. -/
theorem segments_cover_unique (r L : α) (hr : 0 < r) (hL : 0 < L) :
    ∃ segs, segments ⌊L / (two * r)⌋ r L = some segs ∧
      ∀ z, 0 ≤ z → z < L → ∃ i, ∃ h : i < segs.length, (segs[i].z0 ≤ z ∧ z < segs[i].z0 + segs[i].height) ∧
        ∀ j (hj : j < segs.length), (segs[j].z0 ≤ z ∧ z < segs[j].z0 + segs[j].height) → j = i := by
  have hn : 0 ≤ ⌊L / (two * r)⌋ := by
    apply Int.floor_nonneg.mpr
    rw [two_eq]; positivity
  obtain ⟨segs, hs, hlen, hform⟩ := segments_closed_form ⌊L / (two * r)⌋ hn r L
  have hpos : 0 < segs.length := by rw [hlen]; omega
  have hposα : (0 : α) < (segs.length : α) := by exact_mod_cast hpos
  set h := L / (segs.length : α) with hh
  have hhpos : 0 < h := by positivity
  refine ⟨segs, hs, ?_⟩
  intro z hz0 hzL
  -- the index is ⌊z / h⌋
  have hq0 : 0 ≤ z / h := by positivity
  have hfl : 0 ≤ ⌊z / h⌋ := Int.floor_nonneg.mpr hq0
  have hqlt : z / h < (segs.length : α) := by
    rw [div_lt_iff₀ hhpos, hh]; field_simp; exact hzL
  have hilt : ⌊z / h⌋.toNat < segs.length := by
    have : ⌊z / h⌋ < (segs.length : Int) := by
      rw [Int.floor_lt]; exact_mod_cast hqlt
    omega
  have hcast : ((⌊z / h⌋.toNat : Nat) : α) = ((⌊z / h⌋ : Int) : α) := by
    have : ((⌊z / h⌋.toNat : Nat) : Int) = ⌊z / h⌋ := Int.toNat_of_nonneg hfl
    exact_mod_cast congrArg (fun k : Int => (k : α)) this
  refine ⟨⌊z / h⌋.toNat, hilt, ⟨?_, ?_⟩, ?_⟩
  · rw [(hform _ hilt).1, hcast]
    have := Int.floor_le (z / h)
    calc (⌊z / h⌋ : α) * h ≤ z / h * h := by gcongr
      _ = z := by field_simp
  · rw [(hform _ hilt).1, (hform _ hilt).2.1, hcast]
    have := Int.lt_floor_add_one (z / h)
    calc z = z / h * h := by field_simp
      _ < ((⌊z / h⌋ : α) + 1) * h := by gcongr
      _ = (⌊z / h⌋ : α) * h + h := by ring
  · intro j hj ⟨hj1, hj2⟩
    rw [(hform j hj).1] at hj1 hj2
    rw [(hform j hj).2.1] at hj2
    -- j ≤ z/h < j+1  ⇒  ⌊z/h⌋ = j
    have h1 : (j : α) ≤ z / h := by rw [le_div_iff₀ hhpos]; exact hj1
    have h2 : z / h < (j : α) + 1 := by rw [div_lt_iff₀ hhpos]; linarith
    have : ⌊z / h⌋ = (j : Int) := by
      rw [Int.floor_eq_iff]; exact ⟨by exact_mod_cast h1, by exact_mod_cast h2⟩
    omega

/-- for `n > 1` the segment height is "roughly 2r": `2r ≤ h < 3r` -/
theorem segments_height_bounds (r L : α) (hr : 0 < r) (hL : 0 < L) (hn : 1 < ⌊L / (two * r)⌋) :
    two * r ≤ L / ((⌊L / (two * r)⌋.toNat : Nat) : α) ∧ L / ((⌊L / (two * r)⌋.toNat : Nat) : α) < 3 * r := by
  rw [two_eq] at *
  set n := ⌊L / (2 * r)⌋ with hndef
  have h2r : (0 : α) < 2 * r := by positivity
  have hcast : ((n.toNat : Nat) : α) = (n : α) := by
    have : ((n.toNat : Nat) : Int) = n := Int.toNat_of_nonneg (by omega)
    exact_mod_cast congrArg (fun k : Int => (k : α)) this
  have hnα : (2 : α) ≤ (n : α) := by exact_mod_cast (show (2 : Int) ≤ n by omega)
  have hnpos : (0 : α) < (n : α) := by linarith
  have hle : (n : α) ≤ L / (2 * r) := Int.floor_le _
  have hlt : L / (2 * r) < (n : α) + 1 := Int.lt_floor_add_one _
  rw [hcast]
  constructor
  · rw [le_div_iff₀ hnpos]
    have := (le_div_iff₀ h2r).mp hle
    linarith
  · rw [div_lt_iff₀ hnpos]
    have := (div_lt_iff₀ h2r).mp hlt
    nlinarith

end Field

section Spectrum
variable {α : Type} [Field α] [LinearOrder α] [IsStrictOrderedRing α]

/-! ## LaserSpectrum._update_cache -/

theorem firstLower_eq (lo d : α) : firstLower lo d = lo := by
  unfold firstLower wavelength
  norm_num
  ring

theorem binEdges_length (d s : α) (n : Nat) : (binEdges d s n).length = n := by
  induction n generalizing s with
  | zero => rfl
  | succ n ih => simp [binEdges, ih]

theorem binEdges_get (d s : α) (n i : Nat) (h : i < (binEdges d s n).length) :
    (binEdges d s n)[i] = (s + (i : α) * d, s + ((i : α) + 1) * d) := by
  induction n generalizing s i with
  | zero => simp [binEdges] at h
  | succ n ih =>
    cases i with
    | zero => simp [binEdges]
    | succ i =>
      simp only [binEdges, List.getElem_cons_succ]
      rw [ih]
      push_cast
      congr 1 <;> ring

theorem delta_mul (lo hi : α) (n : Nat) (hn : 0 < n) : (n : α) * delta lo hi n = hi - lo := by
  unfold delta
  have : (0 : α) < (n : α) := by exact_mod_cast hn
  field_simp

/-- the bins are `[lo + i·Δ, lo + (i+1)·Δ]`, `i < n` -/
theorem bins_closed_form (lo hi : α) (n i : Nat) (h : i < (bins lo hi n).length) :
    (bins lo hi n)[i] = (lo + (i : α) * delta lo hi n, lo + ((i : α) + 1) * delta lo hi n) := by
  unfold bins at h ⊢
  rw [binEdges_get, firstLower_eq]

theorem bins_length (lo hi : α) (n : Nat) : (bins lo hi n).length = n := binEdges_length _ _ _

/-- bin centres reported by `wavelengths` are the mid-points of the bins used for the densities -/
theorem wavelengths_are_bin_centres (lo hi : α) (n i : Nat) (h : i < (bins lo hi n).length)
    (h' : i < (wavelengths lo hi n).length) :
    (wavelengths lo hi n)[i] = ((bins lo hi n)[i].1 + (bins lo hi n)[i].2) / 2 := by
  rw [bins_closed_form]
  simp only [wavelengths, List.getElem_map, List.getElem_range, wavelength]
  norm_num
  ring

/-- telescoping over consecutive bins -/
theorem sum_binEdges_telescope (F : α → α) (d s : α) (n : Nat) :
    sumList ((binEdges d s n).map fun e => F e.2 - F e.1) = F (s + (n : α) * d) - F s := by
  induction n generalizing s with
  | zero => simp [binEdges, sumList]
  | succ n ih =>
    simp only [binEdges, List.map_cons, sumList, List.foldr_cons] at ih ⊢
    rw [ih]
    push_cast
    have : s + d + (n : α) * d = s + ((n : α) + 1) * d := by ring
    rw [this]; ring

theorem sumList_map_mul (xs : List α) (c : α) : sumList (xs.map fun x => x * c) = sumList xs * c := by
  induction xs with
  | nil => simp [sumList]
  | cons x xs ih =>
    simp only [List.map_cons, sumList, List.foldr_cons] at ih ⊢
    rw [ih]; ring

/-- **spectrum_bins_telescope** (GaussianSpectrum): Σ power = ½ (erf((max − μ)k) − erf((min − μ)k)), for any `erf` -/
theorem spectrum_bins_telescope (erf : α → α) (mean k lo hi : α) (n : Nat) (hn : 0 < n) (hlt : lo < hi) :
    sumList (powerList (gaussBinPsd erf mean k (delta lo hi n)) lo hi n)
      = 0.5 * (erf ((hi - mean) * k) - erf ((lo - mean) * k)) := by
  have hnα : (0 : α) < (n : α) := by exact_mod_cast hn
  have hd : delta lo hi n ≠ 0 := by
    unfold delta
    have : 0 < hi - lo := by linarith
    positivity
  unfold powerList psdList bins
  rw [List.map_map, firstLower_eq]
  have hfun : ((fun p => p * delta lo hi n) ∘ fun e : α × α => gaussBinPsd erf mean k (delta lo hi n) e.1 e.2)
      = fun e => (fun x => 0.5 * erf ((x - mean) * k)) e.2 - (fun x => 0.5 * erf ((x - mean) * k)) e.1 := by
    funext e
    simp only [Function.comp, gaussBinPsd]
    field_simp
  rw [hfun]
  have ht := sum_binEdges_telescope (fun x => 0.5 * erf ((x - mean) * k)) (delta lo hi n) lo n
  beta_reduce at ht ⊢
  rw [ht, delta_mul lo hi n hn]
  ring_nf

/-- **bin_power_is_integral** (GaussianSpectrum, algebraic half): the power of bin i is the increment of the
cumulative distribution `Φ(x) = ½(1 + erf((x − μ)k))` over the bin.  (`Props/C18Real.lean` shows that this
increment is `∫ density` over the bin, with `erf` the real error function.) -/
theorem gauss_bin_power_is_cdf_increment (erf : α → α) (mean k lo hi : α) (n i : Nat) (hn : 0 < n) (hlt : lo < hi)
    (h : i < (powerList (gaussBinPsd erf mean k (delta lo hi n)) lo hi n).length) (h' : i < (bins lo hi n).length) :
    (powerList (gaussBinPsd erf mean k (delta lo hi n)) lo hi n)[i]
      = 0.5 * (1 + erf (((bins lo hi n)[i].2 - mean) * k)) - 0.5 * (1 + erf (((bins lo hi n)[i].1 - mean) * k)) := by
  have hnα : (0 : α) < (n : α) := by exact_mod_cast hn
  have hd : delta lo hi n ≠ 0 := by
    unfold delta
    have : 0 < hi - lo := by linarith
    positivity
  simp only [powerList, psdList, List.getElem_map, gaussBinPsd]
  field_simp
  ring

/-- ConstantSpectrum: every bin lies inside the support, so the trapezoid sees the density at both ends -/
theorem const_bins_inside (lo hi : α) (n i : Nat) (hn : 0 < n) (hlt : lo < hi) (h : i < (bins lo hi n).length) :
    lo ≤ (bins lo hi n)[i].1 ∧ (bins lo hi n)[i].1 ≤ hi ∧ lo ≤ (bins lo hi n)[i].2 ∧ (bins lo hi n)[i].2 ≤ hi := by
  have hi' : i < n := by rwa [bins_length] at h
  have hnα : (0 : α) < (n : α) := by exact_mod_cast hn
  have hdpos : 0 < delta lo hi n := by
    unfold delta
    have : 0 < hi - lo := by linarith
    positivity
  have hiα : ((i : α) + 1) ≤ (n : α) := by exact_mod_cast hi'
  have hi0 : (0 : α) ≤ (i : α) := by positivity
  have hmul := delta_mul lo hi n hn
  rw [bins_closed_form]
  simp only
  refine ⟨?_, ?_, ?_, ?_⟩ <;> nlinarith

/-- **bin_power_is_integral** (ConstantSpectrum): psd of every bin is the density `1/(max − min)`, and the power is
(bin width) × density, i.e. the integral of the constant density over the bin. -/
theorem const_bin_power_is_integral (lo hi : α) (n i : Nat) (hn : 0 < n) (hlt : lo < hi)
    (h : i < (powerList (trapezoidPsd (constEval lo hi)) lo hi n).length) (h' : i < (bins lo hi n).length) :
    (psdList (trapezoidPsd (constEval lo hi)) lo hi n)[i]'(by simpa [powerList] using h) = 1 / (hi - lo) ∧
    (powerList (trapezoidPsd (constEval lo hi)) lo hi n)[i]
      = ((bins lo hi n)[i].2 - (bins lo hi n)[i].1) * (1 / (hi - lo)) := by
  obtain ⟨a1, a2, b1, b2⟩ := const_bins_inside lo hi n i hn hlt h'
  have hp : (psdList (trapezoidPsd (constEval lo hi)) lo hi n)[i]'(by simpa [powerList] using h) = 1 / (hi - lo) := by
    simp only [psdList, List.getElem_map, trapezoidPsd, constEval, a1, a2, b1, b2, and_self, if_true]
    norm_num
    ring
  refine ⟨hp, ?_⟩
  simp only [powerList, List.getElem_map]
  rw [hp, bins_closed_form]
  ring

/-- ConstantSpectrum: the range is the support of the line, and the bin powers sum to one -/
theorem const_total_power_one (lo hi : α) (n : Nat) (hn : 0 < n) (hlt : lo < hi) :
    sumList (powerList (trapezoidPsd (constEval lo hi)) lo hi n) = 1 := by
  have hne : hi - lo ≠ 0 := by linarith [sub_pos.mpr hlt]
  -- every psd entry equals 1/(hi-lo): rewrite the list as a telescoping sum of F(x) = x/(hi-lo)
  have hmap : powerList (trapezoidPsd (constEval lo hi)) lo hi n
      = (bins lo hi n).map fun e => (fun x => x / (hi - lo)) e.2 - (fun x => x / (hi - lo)) e.1 := by
    apply List.ext_getElem
    · simp [powerList, psdList]
    · intro i h1 h2
      have hb : i < (bins lo hi n).length := by simpa using h2
      rw [(const_bin_power_is_integral lo hi n i hn hlt h1 hb).2]
      simp only [List.getElem_map]
      field_simp
  rw [hmap]
  unfold bins
  have ht := sum_binEdges_telescope (fun x => x / (hi - lo)) (delta lo hi n) (firstLower lo (delta lo hi n)) n
  beta_reduce at ht ⊢
  rw [ht, firstLower_eq, delta_mul lo hi n hn]
  field_simp
  ring

/-- the same for a class whose `_get_bin_power_spectral_density` returns the density `1/(max − min)` directly
(`BinPsd.constDensity`, the form proposed in notes/fixes/C18-5.diff): every bin power is width × density, total one -/
theorem const_density_total_power_one (lo hi : α) (n : Nat) (hn : 0 < n) (hlt : lo < hi) :
    sumList (powerList (fun _ _ => 1.0 / (hi - lo)) lo hi n) = 1 := by
  have hne : hi - lo ≠ 0 := by linarith [sub_pos.mpr hlt]
  have hmap : powerList (fun _ _ => 1.0 / (hi - lo)) lo hi n
      = (bins lo hi n).map fun e => (fun x => x / (hi - lo)) e.2 - (fun x => x / (hi - lo)) e.1 := by
    apply List.ext_getElem
    · simp [powerList, psdList]
    · intro i h1 h2
      have hb : i < (bins lo hi n).length := by simpa using h2
      simp only [powerList, psdList, List.getElem_map]
      rw [bins_closed_form lo hi n i hb]
      norm_num
      field_simp
      ring
  rw [hmap]
  unfold bins
  have ht := sum_binEdges_telescope (fun x => x / (hi - lo)) (delta lo hi n) (firstLower lo (delta lo hi n)) n
  beta_reduce at ht ⊢
  rw [ht, firstLower_eq, delta_mul lo hi n hn]
  field_simp
  ring

end Spectrum

section Beam
variable {α : Type} [Field α] [LinearOrder α] [IsStrictOrderedRing α]

/-! ## Gaussian-beam width σ(z) and the normalisation constant -/

/-- `z_R = 2π σ0² / (λ · 1e-9)` (wavelength in nm) -/
theorem rayleigh_formula (pi sw wl : α) (hwl : wl ≠ 0) :
    rayleigh pi sw wl = 2 * pi * sw ^ 2 / (wl * (1 / 1000000000)) := by
  unfold rayleigh Laser.sq
  rw [two_eq]
  norm_num
  field_simp

/-- σ(z)² = σ0² (1 + ((z − z0)/zR)²) -/
theorem gbm_sigma_formula (pi sw wl wz z : α) :
    gbmSigma2 pi sw wl wz z = sw ^ 2 * (1 + ((z - wz) / rayleigh pi sw wl) ^ 2) := by
  unfold gbmSigma2 Laser.sq; ring

/-- at the waist the width is σ0 -/
theorem gbm_sigma_waist (pi sw wl wz : α) : gbmSigma2 pi sw wl wz wz = sw ^ 2 := by
  rw [gbm_sigma_formula]; simp

/-- the waist is the narrowest point and the width is positive everywhere -/
theorem gbm_sigma_ge_waist (pi sw wl wz z : α) (hsw : sw ≠ 0) :
    sw ^ 2 ≤ gbmSigma2 pi sw wl wz z ∧ 0 < gbmSigma2 pi sw wl wz z := by
  rw [gbm_sigma_formula]
  have h1 : 0 < sw ^ 2 := by positivity
  have h2 : 0 ≤ ((z - wz) / rayleigh pi sw wl) ^ 2 := by positivity
  constructor <;> nlinarith

/-- symmetric about the waist -/
theorem gbm_sigma_symm (pi sw wl wz d : α) : gbmSigma2 pi sw wl wz (wz + d) = gbmSigma2 pi sw wl wz (wz - d) := by
  rw [gbm_sigma_formula, gbm_sigma_formula]; ring

/-- `normalisation = E_p / (c τ)`; multiplied by the spatial pulse length it gives back the pulse energy -/
theorem normalisation_spec (c ep tau : α) (hc : 0 < c) (ht : 0 < tau) :
    normalisation c ep tau = ep / (c * tau) ∧ normalisation c ep tau * (c * tau) = ep := by
  unfold normalisation
  refine ⟨rfl, ?_⟩
  field_simp

/-- the energy densities factor as (normalisation) × (unit transverse shape) -/
theorem cbg_factor (E : Ext α) (ep tau sx sy x y : α) :
    cbgDensity E ep tau sx sy x y = ep / (E.c * tau) * bivEval E.exp (bivCache E.pi sx sy) x y := rfl

theorem gba_factor (E : Ext α) (ep tau wl wz sw x y z : α) :
    gbaDensity E ep tau wl wz sw x y z = ep / (E.c * tau) * gbmEval E.pi E.exp wl wz sw x y z := rfl

theorem tri_factor (E : Ext α) (ep mean sx sy sz x y z : α) :
    triDensity E ep mean sx sy sz x y z = ep * triEval E.exp (triCache E.pi E.sqrt mean sx sy sz) x y z := rfl

/-- closed forms of the three unit shapes (documented formulas) -/
theorem bivEval_formula (exp : α → α) (pi sx sy x y : α) (hx : sx ≠ 0) (hy : sy ≠ 0) :
    bivEval exp (bivCache pi sx sy) x y
      = 1 / (2 * pi * sx * sy) * exp (-(x ^ 2 / (2 * sx ^ 2)) - y ^ 2 / (2 * sy ^ 2)) := by
  unfold bivEval bivCache Laser.sq
  rw [two_eq]
  congr 2
  field_simp
  ring

theorem gbmEval_formula (exp : α → α) (pi wl wz sw x y z : α) (hsw : sw ≠ 0) :
    gbmEval pi exp wl wz sw x y z
      = 1 / (2 * pi * gbmSigma2 pi sw wl wz z) * exp (-((x ^ 2 + y ^ 2) / (2 * gbmSigma2 pi sw wl wz z))) := by
  have hpos := (gbm_sigma_ge_waist pi sw wl wz z hsw).2
  unfold gbmEval Laser.sq
  rw [two_eq]
  simp only
  congr 2
  field_simp

end Beam

section History
variable {α : Type} [Field α] [LinearOrder α] [IsStrictOrderedRing α]

/-! ## histories of assignments: the interpreter of the generated tables

Decidable conditions on a class table (checked on the *generated* tables in `Props/C18Table.lean`): -/

/-- does setter `s` write a field the rebuild code reads? -/
def writesRead (t : Cls) (s : Setter) : Bool := s.writes.any fun w => decide (w.1 ∈ t.rebuildReads)
def hasRebuild (s : Setter) : Bool := s.refresh.any isRebuild
/-- every setter that writes a field read by `_function_changed` / `_update_cache` performs that rebuild -/
def coveredB (t : Cls) : Bool := t.setters.all fun s => !writesRead t s || hasRebuild s
/-- a setter validates before writing, and a field that the rebuilt function insists on being positive is only
written by a setter that has checked positivity (so a rejected assignment cannot be half-applied) -/
def atomicSetter (t : Cls) (s : Setter) : Bool :=
  s.guardFirst && s.writes.all fun w =>
    !decide (w.1 ∈ t.rebuildPositive) || (s.guard == .positive && (w.2 == .value || w.2 == .timesC))
def atomicB (t : Cls) : Bool := t.setters.all (atomicSetter t)

/-- the cached function / binned spectrum reflects the current fields -/
def Clean (t : Cls) (o : Obj α) : Prop := ∀ f ∈ t.rebuildReads, o.snap f = o.fields f
/-- what the inner function constructors require -/
def Pos (t : Cls) (o : Obj α) : Prop := ∀ f ∈ t.rebuildPositive, 0 < o.fields f

theorem rebuildOk_iff (t : Cls) (fs : String → α) : rebuildOk t fs = true ↔ ∀ f ∈ t.rebuildPositive, 0 < fs f := by
  simp [rebuildOk, List.all_eq_true]

theorem rebuild_clean (t : Cls) (o o' : Obj α) (h : rebuild t o = some o') :
    Clean t o' ∧ o'.fields = o.fields ∧ o'.built = true := by
  unfold rebuild at h
  split at h
  · cases h
    refine ⟨?_, rfl, rfl⟩
    intro f hf
    simp [hf]
  · cases h

theorem runRefresh_fields (t : Cls) (rs : List Refresh) (o : Obj α) : (runRefresh t o rs).1.fields = o.fields := by
  induction rs generalizing o with
  | nil => rfl
  | cons r rs ih =>
    unfold runRefresh
    split
    · split
      · rename_i o' ho'
        rw [ih, (rebuild_clean t o o' ho').2.1]
      · rfl
    · rw [ih]

theorem runRefresh_keeps_clean (t : Cls) (rs : List Refresh) (o : Obj α) (h : Clean t o) :
    Clean t (runRefresh t o rs).1 := by
  induction rs generalizing o with
  | nil => exact h
  | cons r rs ih =>
    unfold runRefresh
    split
    · split
      · rename_i o' ho'
        exact ih o' (rebuild_clean t o o' ho').1
      · exact h
    · exact ih _ h

theorem runRefresh_makes_clean (t : Cls) (rs : List Refresh) (o : Obj α) (hok : (runRefresh t o rs).2 = .ok)
    (hr : rs.any isRebuild = true) : Clean t (runRefresh t o rs).1 := by
  induction rs generalizing o with
  | nil => simp at hr
  | cons r rs ih =>
    unfold runRefresh at hok ⊢
    by_cases hrb : isRebuild r = true
    · simp only [hrb, if_true] at hok ⊢
      split
      · rename_i o' ho'
        exact runRefresh_keeps_clean t rs o' (rebuild_clean t o o' ho').1
      · rename_i hnone
        simp [hnone] at hok
    · simp only [hrb] at hok ⊢
      have hrb' : isRebuild r = false := by simpa using hrb
      simp only [List.any_cons, hrb', Bool.false_or] at hr
      exact ih _ hok hr

theorem runRefresh_pos_ok (t : Cls) (rs : List Refresh) (o : Obj α) (hp : Pos t o) : (runRefresh t o rs).2 = .ok := by
  induction rs generalizing o with
  | nil => rfl
  | cons r rs ih =>
    unfold runRefresh
    split
    · have hro : rebuildOk t o.fields = true := (rebuildOk_iff t o.fields).mpr hp
      simp only [rebuild, hro, if_true]
      apply ih
      exact hp
    · exact ih _ hp

theorem applyWrites_notin (E : Ext α) (ws : List (String × Rhs)) (fs : String → α) (v : α) (f : String)
    (h : ∀ w ∈ ws, w.1 ≠ f) : applyWrites E ws fs v f = fs f := by
  unfold applyWrites
  induction ws generalizing fs with
  | nil => rfl
  | cons w ws ih =>
    simp only [List.foldl_cons]
    rw [ih]
    · simp only [write]
      have := h w (by simp)
      simp [Ne.symm this]
    · intro w' hw'; exact h w' (by simp [hw'])

theorem applyWrites_pos (E : Ext α) (P : List String) (ws : List (String × Rhs)) (fs : String → α) (v : α)
    (hw : ∀ w ∈ ws, w.1 ∈ P → 0 < evalRhs E w.2 v) (hfs : ∀ f ∈ P, 0 < fs f) :
    ∀ f ∈ P, 0 < applyWrites E ws fs v f := by
  unfold applyWrites
  induction ws generalizing fs with
  | nil => exact hfs
  | cons w ws ih =>
    simp only [List.foldl_cons]
    apply ih
    · intro w' hw'; exact hw w' (by simp [hw'])
    · intro f hf
      simp only [write]
      split
      · rename_i heq; subst heq; exact hw w (by simp) hf
      · exact hfs f hf

theorem evalRhs_pos (E : Ext α) (hc : 0 < E.c) (r : Rhs) (v : α) (hv : 0 < v) (hr : r = .value ∨ r = .timesC) :
    0 < evalRhs E r v := by
  rcases hr with h | h <;> subst h <;> simp only [evalRhs]
  · exact hv
  · positivity

/-- one assignment through setter `s`: an accepted assignment of a covered setter leaves the object clean; under
atomicity a rejected assignment leaves the object untouched, and positivity of the guarded fields is invariant. -/
theorem setWith_inv (E : Ext α) (hc : 0 < E.c) (t : Cls) (s : Setter)
    (hcov : (!writesRead t s || hasRebuild s) = true) (hat : atomicSetter t s = true)
    (o : Obj α) (v : α) (hcl : Clean t o) (hp : Pos t o) :
    Clean t (setWith E t s o v).1 ∧ Pos t (setWith E t s o v).1 ∧
      ((setWith E t s o v).2 = .ok ∨ (setWith E t s o v).1 = o) := by
  simp only [atomicSetter, Bool.and_eq_true, List.all_eq_true, Bool.or_eq_true, Bool.not_eq_true',
    decide_eq_false_iff_not, beq_iff_eq] at hat
  obtain ⟨hgf, hws⟩ := hat
  unfold setWith
  simp only [hgf, Bool.true_and, Bool.not_true, Bool.false_and]
  by_cases hg : guardOk s.guard o.fields v = true
  · simp only [hg, Bool.not_true]
    simp only [Bool.false_eq_true, if_false]
    -- the written object
    have hpos1 : Pos t { o with fields := applyWrites E s.writes o.fields v } := by
      apply applyWrites_pos E t.rebuildPositive s.writes o.fields v _ hp
      intro w hw hwp
      rcases hws w hw with hn | ⟨hgp, hrv⟩
      · exact absurd hwp hn
      · have hv : 0 < v := by
          rw [hgp] at hg
          simpa [guardOk] using hg
        exact evalRhs_pos E hc w.2 v hv hrv
    have hok := runRefresh_pos_ok t s.refresh _ hpos1
    refine ⟨?_, ?_, Or.inl hok⟩
    · by_cases hrb : hasRebuild s = true
      · exact runRefresh_makes_clean t s.refresh _ hok hrb
      · have hnw : writesRead t s = false := by
          rcases Bool.or_eq_true _ _ ▸ hcov with h | h
          · simpa using h
          · exact absurd h hrb
        apply runRefresh_keeps_clean
        intro f hf
        have hnot : ∀ w ∈ s.writes, w.1 ≠ f := by
          intro w hw heq
          simp only [writesRead, List.any_eq_false, decide_eq_true_eq] at hnw
          exact hnw w hw (heq ▸ hf)
        simp only
        rw [applyWrites_notin E s.writes o.fields v f hnot]
        exact hcl f hf
    · intro f hf
      rw [runRefresh_fields]
      exact hpos1 f hf
  · simp only [hg]
    simp only [Bool.not_false, if_true]
    exact ⟨hcl, hp, Or.inr trivial⟩

theorem findSetter_mem (t : Cls) (p : String) (s : Setter) (h : findSetter t p = some s) :
    s ∈ t.setters ∧ s.prop = p := by
  unfold findSetter at h
  exact ⟨List.mem_of_find?_eq_some h, by simpa using List.find?_some h⟩

theorem setProp_inv (E : Ext α) (hc : 0 < E.c) (t : Cls) (hcov : coveredB t = true) (hat : atomicB t = true)
    (o : Obj α) (p : String) (v : α) (hcl : Clean t o) (hp : Pos t o) :
    Clean t (setProp E t o p v).1 ∧ Pos t (setProp E t o p v).1 := by
  unfold setProp
  split
  · exact ⟨hcl, hp⟩
  · rename_i s hs
    have hmem := (findSetter_mem t p s hs).1
    have h1 := List.all_eq_true.mp hcov s hmem
    have h2 := List.all_eq_true.mp hat s hmem
    have := setWith_inv E hc t s h1 h2 o v hcl hp
    exact ⟨this.1, this.2.1⟩

/-- **no stale state after any history** (value level): starting from a clean object, after *any* sequence of
assignments — accepted or rejected, any values — the cached energy-density function / binned spectrum is the one a
rebuild from the current fields would produce. -/
theorem history_clean (E : Ext α) (hc : 0 < E.c) (t : Cls) (hcov : coveredB t = true) (hat : atomicB t = true)
    (ops : List (String × α)) (o : Obj α) (hcl : Clean t o) (hp : Pos t o) :
    Clean t (runOps E t o ops) ∧ Pos t (runOps E t o ops) := by
  induction ops generalizing o with
  | nil => exact ⟨hcl, hp⟩
  | cons op ops ih =>
    obtain ⟨p, v⟩ := op
    unfold runOps
    have := setProp_inv E hc t hcov hat o p v hcl hp
    exact ih _ this.1 this.2

/-- a rejected assignment changes nothing (atomicity) -/
theorem rejected_assignment_unchanged (E : Ext α) (hc : 0 < E.c) (t : Cls) (hcov : coveredB t = true)
    (hat : atomicB t = true) (o : Obj α) (p : String) (v : α) (hcl : Clean t o) (hp : Pos t o)
    (hrej : (setProp E t o p v).2 ≠ .ok) : (setProp E t o p v).1 = o := by
  unfold setProp at hrej ⊢
  split
  · rfl
  · rename_i s hs
    have hmem := (findSetter_mem t p s hs).1
    have h1 := List.all_eq_true.mp hcov s hmem
    have h2 := List.all_eq_true.mp hat s hmem
    rcases (setWith_inv E hc t s h1 h2 o v hcl hp).2.2 with h | h
    · simp [hs] at hrej; exact absurd h hrej
    · exact h

end History

section Fresh
variable {α : Type} [Field α] [LinearOrder α] [IsStrictOrderedRing α]

/-! ## … and equals a freshly constructed object -/

def propsUniqueB (t : Cls) : Bool :=
  t.setters.all fun s1 => t.setters.all fun s2 => s1.prop != s2.prop || s1 == s2

/-- every field is written by one setter only, once -/
def singleWriterB (t : Cls) : Bool :=
  t.setters.all fun s1 => t.setters.all fun s2 => s1.writes.all fun w1 => s2.writes.all fun w2 =>
    w1.1 != w2.1 || (s1 == s2 && w1 == w2)

theorem propsUnique_spec {t : Cls} (h : propsUniqueB t = true) {s1 s2 : Setter} (h1 : s1 ∈ t.setters)
    (h2 : s2 ∈ t.setters) (hp : s1.prop = s2.prop) : s1 = s2 := by
  have := List.all_eq_true.mp (List.all_eq_true.mp h s1 h1) s2 h2
  simpa [hp] using this

theorem singleWriter_spec {t : Cls} (h : singleWriterB t = true) {s1 s2 : Setter} {w1 w2 : String × Rhs}
    (h1 : s1 ∈ t.setters) (h2 : s2 ∈ t.setters) (hw1 : w1 ∈ s1.writes) (hw2 : w2 ∈ s2.writes)
    (hf : w1.1 = w2.1) : s1 = s2 ∧ w1 = w2 := by
  have := List.all_eq_true.mp (List.all_eq_true.mp (List.all_eq_true.mp (List.all_eq_true.mp h s1 h1) s2 h2) w1 hw1) w2 hw2
  simpa [hf] using this

theorem applyWrites_mem (E : Ext α) (ws : List (String × Rhs)) (fs : String → α) (v : α) (w : String × Rhs)
    (hw : w ∈ ws) (huniq : ∀ w1 ∈ ws, ∀ w2 ∈ ws, w1.1 = w2.1 → w1 = w2) :
    applyWrites E ws fs v w.1 = evalRhs E w.2 v := by
  induction ws generalizing fs with
  | nil => simp at hw
  | cons w0 ws ih =>
    by_cases hin : w ∈ ws
    · have := ih (write fs w0.1 (evalRhs E w0.2 v)) hin
        (fun a ha b hb => huniq a (by simp [ha]) b (by simp [hb]))
      simpa [applyWrites] using this
    · have hw0 : w = w0 := by
        rcases List.mem_cons.mp hw with h | h
        · exact h
        · exact absurd h hin
      subst hw0
      have hne : ∀ w' ∈ ws, w'.1 ≠ w.1 := by
        intro w' hw' heq
        have := huniq w' (by simp [hw']) w (by simp) heq
        exact hin (this ▸ hw')
      have := applyWrites_notin E ws (write fs w.1 (evalRhs E w.2 v)) v w.1 hne
      simp only [applyWrites, List.foldl_cons] at this ⊢
      rw [this]; simp [write]

/-- ghost: the last accepted value of every property -/
def upd (params : String → α) (p : String) (v : α) : String → α := fun q => if q = p then v else params q

/-- the fields written by the setters in `C` hold what those setters compute from `params` -/
def AgreesOn (E : Ext α) (t : Cls) (C : List String) (params : String → α) (o : Obj α) : Prop :=
  ∀ s ∈ t.setters, s.prop ∈ C → ∀ w ∈ s.writes, o.fields w.1 = evalRhs E w.2 (params s.prop)

def PosOn (t : Cls) (C : List String) (o : Obj α) : Prop :=
  ∀ s ∈ t.setters, s.prop ∈ C → ∀ w ∈ s.writes, w.1 ∈ t.rebuildPositive → 0 < o.fields w.1

theorem setWith_ok_fields (E : Ext α) (t : Cls) (s : Setter) (o : Obj α) (v : α)
    (hgf : s.guardFirst = true) (hok : (setWith E t s o v).2 = .ok) :
    guardOk s.guard o.fields v = true ∧ (setWith E t s o v).1.fields = applyWrites E s.writes o.fields v := by
  unfold setWith at hok ⊢
  simp only [hgf, Bool.true_and, Bool.not_true, Bool.false_and] at hok ⊢
  by_cases hg : guardOk s.guard o.fields v = true
  · simp only [hg, Bool.not_true, Bool.false_eq_true, if_false] at hok ⊢
    exact ⟨trivial, by rw [runRefresh_fields]⟩
  · simp [hg] at hok

/-- an accepted assignment through `s` records `v` for `s.prop` and leaves every other setter's fields alone -/
theorem setWith_agrees (E : Ext α) (t : Cls) (hu : propsUniqueB t = true) (hsw : singleWriterB t = true)
    (s : Setter) (hs : s ∈ t.setters) (hgf : s.guardFirst = true) (o : Obj α) (v : α)
    (hok : (setWith E t s o v).2 = .ok) (C : List String) (params : String → α) (h : AgreesOn E t C params o) :
    AgreesOn E t (s.prop :: C) (upd params s.prop v) (setWith E t s o v).1 := by
  obtain ⟨_, hf⟩ := setWith_ok_fields E t s o v hgf hok
  intro s' hs' hC w' hw'
  rw [hf]
  by_cases hp : s'.prop = s.prop
  · have := propsUnique_spec hu hs' hs hp
    subst this
    rw [applyWrites_mem E s'.writes o.fields v w' hw'
      (fun a ha b hb hab => (singleWriter_spec hsw hs' hs' ha hb hab).2)]
    simp [upd]
  · have hC' : s'.prop ∈ C := by
      rcases List.mem_cons.mp hC with h' | h'
      · exact absurd h' hp
      · exact h'
    rw [applyWrites_notin E s.writes o.fields v w'.1]
    · simp only [upd, hp, if_false]; exact h s' hs' hC' w' hw'
    · intro w hw heq
      have := (singleWriter_spec hsw hs hs' hw hw' heq).1
      exact hp (this ▸ rfl)

theorem setWith_posOn (E : Ext α) (hc : 0 < E.c) (t : Cls) (hu : propsUniqueB t = true) (hsw : singleWriterB t = true)
    (s : Setter) (hs : s ∈ t.setters) (hat : atomicSetter t s = true) (o : Obj α) (v : α)
    (hok : (setWith E t s o v).2 = .ok) (C : List String) (h : PosOn t C o) :
    PosOn t (s.prop :: C) (setWith E t s o v).1 := by
  have hat' := hat
  simp only [atomicSetter, Bool.and_eq_true, List.all_eq_true, Bool.or_eq_true, Bool.not_eq_true',
    decide_eq_false_iff_not, beq_iff_eq] at hat'
  obtain ⟨hgf, hws⟩ := hat'
  obtain ⟨hg, hf⟩ := setWith_ok_fields E t s o v hgf hok
  intro s' hs' hC w' hw' hpos
  rw [hf]
  by_cases hin : ∃ w ∈ s.writes, w.1 = w'.1
  · obtain ⟨w, hw, heq⟩ := hin
    obtain ⟨hss, hww⟩ := singleWriter_spec hsw hs hs' hw hw' heq
    subst hss; subst hww
    rw [applyWrites_mem E s.writes o.fields v w hw (fun a ha b hb hab => (singleWriter_spec hsw hs hs ha hb hab).2)]
    rcases hws w hw with hn | ⟨hgp, hrv⟩
    · exact absurd hpos hn
    · have hv : 0 < v := by
        rw [hgp] at hg
        simpa [guardOk] using hg
      exact evalRhs_pos E hc w.2 v hv hrv
  · have hne : ∀ w ∈ s.writes, w.1 ≠ w'.1 := fun w hw heq => hin ⟨w, hw, heq⟩
    rw [applyWrites_notin E s.writes o.fields v w'.1 hne]
    have hC' : s'.prop ∈ C := by
      rcases List.mem_cons.mp hC with h' | h'
      · have hss := propsUnique_spec hu hs' hs h'
        subst hss
        exact absurd ⟨w', hw', rfl⟩ hin
      · exact h'
    exact h s' hs' hC' w' hw' hpos



/-! ### the constructor, checked abstractly on the table -/

def writtenBy (t : Cls) (called : List String) (f : String) : Bool :=
  t.setters.any fun s => decide (s.prop ∈ called) && s.writes.any fun w => w.1 == f

/-- `self._f = arg` in a constructor stands for the setter of the property `arg` when that setter only stores its
value in `_f` (no derived field, no positivity requirement of an inner constructor) -/
def initArgSetter (t : Cls) (f a : String) : Bool :=
  match findSetter t a with
  | some s => s.writes == [(f, Rhs.value)] && !decide (f ∈ t.rebuildPositive)
  | none => false

/-- abstract run of the constructor: a direct field initialisation must not clobber a field already written by a
setter, nor (once the function has been built) a field the rebuild reads; every `self.p = arg` passes the argument
of the same name; at the end every setter has run (or been bypassed by an equivalent `self._f = arg`) and at least
one of them rebuilt. -/
def ctorCheck (t : Cls) : List CtorOp → List String → Bool → Bool
  | [], called, built => built && t.setters.all fun s => decide (s.prop ∈ called)
  | .init f _ _ :: rest, called, built =>
    !writtenBy t called f && (!built || !decide (f ∈ t.rebuildReads)) && ctorCheck t rest called built
  | .initArg f a :: rest, called, built =>
    !writtenBy t called f && (!built || !decide (f ∈ t.rebuildReads)) &&
      ctorCheck t rest (if initArgSetter t f a then a :: called else called) built
  | .set p a :: rest, called, built =>
    p == a && (match findSetter t p with
      | some s => ctorCheck t rest (p :: called) (built || hasRebuild s)
      | none => false)
  | .checkRange _ _ :: rest, called, built => ctorCheck t rest called built
  | .other _ :: rest, called, built => ctorCheck t rest called built
  | .unknown _ :: _, _, _ => false

def ctorOkB (t : Cls) : Bool := ctorCheck t t.ctor [] false

/-- every field the inner constructors insist on is under the control of some setter -/
def positiveWrittenB (t : Cls) : Bool :=
  t.rebuildPositive.all fun f => t.setters.any fun s => s.writes.any fun w => w.1 == f

structure CInv (E : Ext α) (t : Cls) (args : String → α) (called : List String) (built : Bool) (o : Obj α) : Prop where
  agrees : AgreesOn E t called args o
  clean : built = true → Clean t o
  pos : PosOn t called o

theorem upd_self (args : String → α) (p : String) : upd args p (args p) = args := by
  funext q; simp only [upd]; split
  · rename_i h; rw [h]
  · rfl

theorem write_inv (E : Ext α) (t : Cls) (args : String → α) (called : List String) (built : Bool) (o : Obj α)
    (f : String) (x : α) (hw : writtenBy t called f = false) (hb : (!built || !decide (f ∈ t.rebuildReads)) = true)
    (h : CInv E t args called built o) : CInv E t args called built { o with fields := write o.fields f x } := by
  have hne : ∀ s ∈ t.setters, s.prop ∈ called → ∀ w ∈ s.writes, w.1 ≠ f := by
    intro s hs hc w hw' heq
    simp only [writtenBy, List.any_eq_false, Bool.and_eq_true, decide_eq_true_eq, List.any_eq_true, beq_iff_eq,
      not_and, not_exists] at hw
    exact hw s hs hc w hw' heq
  constructor
  · intro s hs hc w hw'
    simp only [write, hne s hs hc w hw', if_false]
    exact h.agrees s hs hc w hw'
  · intro hbt g hg
    have hgf : g ≠ f := by
      intro heq; subst heq
      simp [hbt, hg] at hb
    simp only [write, hgf, if_false]
    exact h.clean hbt g hg
  · intro s hs hc w hw' hp
    simp only [write, hne s hs hc w hw', if_false]
    exact h.pos s hs hc w hw' hp

theorem setWith_ok_clean (E : Ext α) (t : Cls) (s : Setter) (hcov : (!writesRead t s || hasRebuild s) = true)
    (hgf : s.guardFirst = true) (o : Obj α) (v : α) (hok : (setWith E t s o v).2 = .ok) (built : Bool)
    (hcl : built = true → Clean t o) : (built || hasRebuild s) = true → Clean t (setWith E t s o v).1 := by
  intro hb
  unfold setWith at hok ⊢
  simp only [hgf, Bool.true_and, Bool.not_true, Bool.false_and] at hok ⊢
  by_cases hg : guardOk s.guard o.fields v = true
  · simp only [hg, Bool.not_true, Bool.false_eq_true, if_false] at hok ⊢
    by_cases hrb : hasRebuild s = true
    · exact runRefresh_makes_clean t s.refresh _ hok hrb
    · have hbt : built = true := by
        rcases Bool.or_eq_true _ _ ▸ hb with h | h
        · exact h
        · exact absurd h hrb
      have hnw : writesRead t s = false := by
        rcases Bool.or_eq_true _ _ ▸ hcov with h | h
        · simpa using h
        · exact absurd h hrb
      apply runRefresh_keeps_clean
      intro f hf
      have hnot : ∀ w ∈ s.writes, w.1 ≠ f := by
        intro w hw heq
        simp only [writesRead, List.any_eq_false, decide_eq_true_eq] at hnw
        exact hnw w hw (heq ▸ hf)
      simp only
      rw [applyWrites_notin E s.writes o.fields v f hnot]
      exact hcl hbt f hf
  · simp [hg] at hok

theorem runCtorFrom_cons_ok (E : Ext α) (t : Cls) (args : String → α) (o : Obj α) (op : CtorOp) (rest : List CtorOp)
    (hrun : (runCtorFrom E t args o (op :: rest)).2 = .ok) :
    (ctorStep E t args o op).2 = .ok ∧
      runCtorFrom E t args o (op :: rest) = runCtorFrom E t args (ctorStep E t args o op).1 rest := by
  rcases hstep : ctorStep E t args o op with ⟨o', r⟩
  cases r <;> simp_all [runCtorFrom]

/-- soundness of the abstract constructor check -/
theorem ctor_sound (E : Ext α) (hc : 0 < E.c) (t : Cls) (hcov : coveredB t = true) (hat : atomicB t = true)
    (hu : propsUniqueB t = true) (hsw : singleWriterB t = true) (args : String → α)
    (ops : List CtorOp) (called : List String) (built : Bool) (o : Obj α)
    (hchk : ctorCheck t ops called built = true) (hinv : CInv E t args called built o)
    (hrun : (runCtorFrom E t args o ops).2 = .ok) :
    ∃ called', (∀ s ∈ t.setters, s.prop ∈ called') ∧ CInv E t args called' true (runCtorFrom E t args o ops).1 := by
  induction ops generalizing called built o with
  | nil =>
    simp only [ctorCheck, Bool.and_eq_true, List.all_eq_true, decide_eq_true_eq] at hchk
    obtain ⟨hb, hall⟩ := hchk
    subst hb
    exact ⟨called, hall, hinv⟩
  | cons op rest ih =>
    obtain ⟨hstep, heq⟩ := runCtorFrom_cons_ok E t args o op rest hrun
    rw [heq] at hrun ⊢
    cases op with
    | init f m e =>
      simp only [ctorCheck, Bool.and_eq_true, Bool.not_eq_true'] at hchk
      obtain ⟨⟨hw, hb⟩, hrest⟩ := hchk
      exact ih called built _ hrest (write_inv E t args called built o f _ hw (by simpa using hb) hinv) hrun
    | initArg f a =>
      simp only [ctorCheck, Bool.and_eq_true, Bool.not_eq_true'] at hchk
      obtain ⟨⟨hw, hb⟩, hrest⟩ := hchk
      have hbase := write_inv E t args called built o f (args a) hw (by simpa using hb) hinv
      by_cases hia : initArgSetter t f a = true
      · simp only [hia, if_true] at hrest
        apply ih (a :: called) built _ hrest _ hrun
        -- the bypassed setter
        unfold initArgSetter at hia
        cases hfs : findSetter t a with
        | none => simp [hfs] at hia
        | some s =>
          simp only [hfs, Bool.and_eq_true, beq_iff_eq, Bool.not_eq_true', decide_eq_false_iff_not] at hia
          obtain ⟨hws, hnp⟩ := hia
          obtain ⟨hs, hsp⟩ := findSetter_mem t a s hfs
          constructor
          · intro s' hs' hc' w' hw'
            by_cases hp : s'.prop = a
            · have hss : s' = s := propsUnique_spec hu hs' hs (hp.trans hsp.symm)
              subst hss
              rw [hws] at hw'
              simp only [List.mem_singleton] at hw'
              subst hw'
              simp [ctorStep, write, evalRhs, hp]
            · have hc'' : s'.prop ∈ called := by
                rcases List.mem_cons.mp hc' with h' | h'
                · exact absurd h' hp
                · exact h'
              exact hbase.agrees s' hs' hc'' w' hw'
          · exact hbase.clean
          · intro s' hs' hc' w' hw' hpos
            by_cases hp : s'.prop = a
            · have hss : s' = s := propsUnique_spec hu hs' hs (hp.trans hsp.symm)
              subst hss
              rw [hws] at hw'
              simp only [List.mem_singleton] at hw'
              subst hw'
              exact absurd hpos hnp
            · have hc'' : s'.prop ∈ called := by
                rcases List.mem_cons.mp hc' with h' | h'
                · exact absurd h' hp
                · exact h'
              exact hbase.pos s' hs' hc'' w' hw' hpos
      · simp only [hia, if_false] at hrest
        exact ih called built _ hrest hbase hrun
    | set p a =>
      simp only [ctorCheck, Bool.and_eq_true, beq_iff_eq] at hchk
      obtain ⟨hpa, hm⟩ := hchk
      subst hpa
      cases hfs : findSetter t p with
      | none => simp [hfs] at hm
      | some s =>
        simp only [hfs] at hm
        obtain ⟨hs, hsp⟩ := findSetter_mem t p s hfs
        have hcs := List.all_eq_true.mp hcov s hs
        have has := List.all_eq_true.mp hat s hs
        have hgf : s.guardFirst = true := by
          simp only [atomicSetter, Bool.and_eq_true] at has; exact has.1
        have hstep' : (setWith E t s o (args p)).2 = .ok := by
          simpa [ctorStep, setProp, hfs] using hstep
        have hobj : (ctorStep E t args o (.set p p)).1 = (setWith E t s o (args p)).1 := by
          simp [ctorStep, setProp, hfs]
        rw [hobj] at hrun ⊢
        apply ih (p :: called) (built || hasRebuild s) _ hm _ hrun
        subst hsp
        constructor
        · have := setWith_agrees E t hu hsw s hs hgf o (args s.prop) hstep' called args hinv.agrees
          rwa [upd_self] at this
        · exact setWith_ok_clean E t s hcs hgf o (args s.prop) hstep' built hinv.clean
        · exact setWith_posOn E hc t hu hsw s hs has o (args s.prop) hstep' called hinv.pos
    | checkRange a b =>
      simp only [ctorCheck] at hchk
      exact ih called built _ hchk (by simpa [ctorStep] using hinv) hrun
    | other txt =>
      simp only [ctorCheck] at hchk
      exact ih called built _ hchk (by simpa [ctorStep] using hinv) hrun
    | unknown txt => simp [ctorCheck] at hchk

/-- all setter-written fields hold what the setters compute from `params` -/
def Agrees (E : Ext α) (t : Cls) (params : String → α) (o : Obj α) : Prop :=
  ∀ s ∈ t.setters, ∀ w ∈ s.writes, o.fields w.1 = evalRhs E w.2 (params s.prop)

/-- a successfully constructed object is clean, satisfies the inner constructors' requirements, and its fields are
what the setters compute from the constructor arguments -/
theorem ctor_establishes (E : Ext α) (hc : 0 < E.c) (t : Cls) (hcov : coveredB t = true) (hat : atomicB t = true)
    (hu : propsUniqueB t = true) (hsw : singleWriterB t = true) (hctor : ctorOkB t = true)
    (hpw : positiveWrittenB t = true) (args : String → α) (hrun : (runCtor E t args).2 = .ok) :
    Clean t (runCtor E t args).1 ∧ Pos t (runCtor E t args).1 ∧ Agrees E t args (runCtor E t args).1 := by
  have hinv0 : CInv E t args [] false (blank : Obj α) :=
    ⟨fun s _ hc' => absurd hc' (by simp), fun h => absurd h (by simp), fun s _ hc' => absurd hc' (by simp)⟩
  obtain ⟨called', hall, hinv⟩ := ctor_sound E hc t hcov hat hu hsw args t.ctor [] false blank hctor hinv0 hrun
  refine ⟨hinv.clean rfl, ?_, fun s hs w hw => hinv.agrees s hs (hall s hs) w hw⟩
  intro f hf
  have := List.all_eq_true.mp hpw f hf
  simp only [List.any_eq_true, beq_iff_eq] at this
  obtain ⟨s, hs, w, hw, hwf⟩ := this
  subst hwf
  exact hinv.pos s hs (hall s hs) w hw hf



/-! ### histories keep the ghost parameters; reported parameters; observations -/

theorem agrees_iff (E : Ext α) (t : Cls) (params : String → α) (o : Obj α) :
    Agrees E t params o ↔ AgreesOn E t (t.setters.map (·.prop)) params o := by
  constructor
  · intro h s hs _ w hw; exact h s hs w hw
  · intro h s hs w hw; exact h s hs (List.mem_map.mpr ⟨s, hs, rfl⟩) w hw

theorem setProp_agrees (E : Ext α) (hc : 0 < E.c) (t : Cls) (hcov : coveredB t = true) (hat : atomicB t = true)
    (hu : propsUniqueB t = true) (hsw : singleWriterB t = true) (o : Obj α) (p : String) (v : α)
    (hcl : Clean t o) (hp : Pos t o) (params : String → α) (ha : Agrees E t params o) :
    ∃ params', Agrees E t params' (setProp E t o p v).1 := by
  unfold setProp
  split
  · exact ⟨params, ha⟩
  · rename_i s hs
    obtain ⟨hmem, _⟩ := findSetter_mem t p s hs
    have h1 := List.all_eq_true.mp hcov s hmem
    have h2 := List.all_eq_true.mp hat s hmem
    have hgf : s.guardFirst = true := by
      simp only [atomicSetter, Bool.and_eq_true] at h2; exact h2.1
    rcases (setWith_inv E hc t s h1 h2 o v hcl hp).2.2 with hok | hun
    · refine ⟨upd params s.prop v, ?_⟩
      have := setWith_agrees E t hu hsw s hmem hgf o v hok _ params ((agrees_iff E t params o).mp ha)
      intro s' hs' w hw
      exact this s' hs' (by simp [List.mem_map]; exact Or.inr ⟨s', hs', rfl⟩) w hw
    · rw [hun]; exact ⟨params, ha⟩

theorem history_agrees (E : Ext α) (hc : 0 < E.c) (t : Cls) (hcov : coveredB t = true) (hat : atomicB t = true)
    (hu : propsUniqueB t = true) (hsw : singleWriterB t = true) (ops : List (String × α)) (o : Obj α)
    (hcl : Clean t o) (hp : Pos t o) (params : String → α) (ha : Agrees E t params o) :
    ∃ params', Agrees E t params' (runOps E t o ops) := by
  induction ops generalizing o params with
  | nil => exact ⟨params, ha⟩
  | cons op ops ih =>
    obtain ⟨p, v⟩ := op
    unfold runOps
    obtain ⟨params', ha'⟩ := setProp_agrees E hc t hcov hat hu hsw o p v hcl hp params ha
    have := setProp_inv E hc t hcov hat o p v hcl hp
    exact ih _ this.1 this.2 params' ha'

/-- what the object reports for the parameter (= constructor argument) `a`: the field its getter `a` returns -/
def reported (t : Cls) (o : Obj α) : String → α := fun a =>
  match t.getters.find? fun g => g.name == a with
  | some g => o.fields g.field
  | none => 0

/-- the getter named like a setter returns the field that setter stores the raw value in -/
def gettersOwnB (t : Cls) : Bool :=
  t.setters.all fun s =>
    match s.writes, t.getters.find? fun g => g.name == s.prop with
    | (f, .value) :: _, some g => g.field == f
    | _, _ => false

theorem reported_eq (E : Ext α) (t : Cls) (hg : gettersOwnB t = true) (params : String → α) (o : Obj α)
    (ha : Agrees E t params o) : ∀ s ∈ t.setters, reported t o s.prop = params s.prop := by
  intro s hs
  have := List.all_eq_true.mp hg s hs
  unfold reported
  split at this
  · rename_i f _ g hw hfind
    have this : g.field = f := by simpa using this
    have h2 := ha s hs (f, .value) (by rw [hw]; simp)
    rw [hfind]
    show o.fields g.field = params s.prop
    rw [this, h2]; rfl
  · cases this

/-- fields `evaluate` reads -/
def evalFields (k : EvalKind) : List String :=
  match k with
  | .gauss => ["_normalisation", "_mean", "_recip_stddev"]
  | .constStep => ["_min_wavelength", "_max_wavelength"]
  | _ => []

/-- fields of the class formula that the energy density / binned spectrum reads from the captured state -/
def snapFields (t : Cls) : List String :=
  if t.isSpectrum then
    ["_min_wavelength", "_max_wavelength", "_bins"] ++
      (match t.binPsd with
       | .gaussErf => ["_mean", "_norm_cdf"]
       | .trapezoid => evalFields t.evaluate
       | _ => [])
  else if t.name = "UniformEnergyDensity" then ["_energy_density"]
  else if t.name = "ConstantBivariateGaussian" then ["_pulse_energy", "_pulse_length", "_stddev_x", "_stddev_y"]
  else if t.name = "TrivariateGaussian" then ["_pulse_energy", "_mean_z", "_stddev_x", "_stddev_y", "_stddev_z"]
  else if t.name = "GaussianBeamAxisymmetric" then
    ["_pulse_energy", "_pulse_length", "_laser_wavelength", "_waist_z", "_stddev_waist"]
  else []

/-- fields `spectrum(x)` reads live -/
def liveFields (t : Cls) : List String := evalFields t.evaluate

def writtenBySome (t : Cls) (f : String) : Bool := t.setters.any fun s => s.writes.any fun w => w.1 == f

def cacheOutputs : List String := ["_delta_wavelength", "_wavelengths", "_power_spectral_density"]

def profileNames : List String :=
  ["UniformEnergyDensity", "ConstantBivariateGaussian", "TrivariateGaussian", "GaussianBeamAxisymmetric"]

/-- the class formulas only look at fields the rebuild captures, and everything observable is setter-controlled -/
def observedOkB (t : Cls) : Bool :=
  (t.isSpectrum || decide (t.name ∈ profileNames)) &&
  ((snapFields t).all fun f => decide (f ∈ t.rebuildReads) && writtenBySome t f) &&
  ((liveFields t).all fun f => writtenBySome t f) &&
  (t.geometryReads.all fun f => writtenBySome t f) &&
  (t.getters.all fun g =>
    if t.isSpectrum then writtenBySome t g.field || decide (g.field ∈ cacheOutputs)
    else writtenBySome t g.field && !decide (g.field ∈ cacheOutputs))

/-- all observations of the property's `observe_at` list -/
structure ObsEq (E : Ext α) (t : Cls) (o1 o2 : Obj α) : Prop where
  density : t.isSpectrum = false → ∀ x y z, energyDensity E t o1 x y z = energyDensity E t o2 x y z
  geometry : geometry E t o1 = geometry E t o2
  getter : ∀ g, getter E t o1 g = getter E t o2 g
  getterList : t.isSpectrum = true → ∀ g, getterList E t o1 g = getterList E t o2 g
  evaluate : t.isSpectrum = true → ∀ x, specEvaluate E t o1 x = specEvaluate E t o2 x

theorem evalFn_congr (E : Ext α) (t : Cls) (f1 f2 : String → α) (h : ∀ f ∈ evalFields t.evaluate, f1 f = f2 f) :
    evalFn E t f1 = evalFn E t f2 := by
  unfold evalFn
  cases hk : t.evaluate <;> simp only [hk, evalFields] at h ⊢
  · rw [h "_min_wavelength" (by simp), h "_max_wavelength" (by simp)]
  · rw [h "_normalisation" (by simp), h "_mean" (by simp), h "_recip_stddev" (by simp)]

theorem obs_congr (E : Ext α) (t : Cls) (hobs : observedOkB t = true) (o1 o2 : Obj α)
    (hsnap : ∀ f ∈ snapFields t, o1.snap f = o2.snap f)
    (hfld : ∀ f, writtenBySome t f = true → o1.fields f = o2.fields f) : ObsEq E t o1 o2 := by
  simp only [observedOkB, Bool.and_eq_true, List.all_eq_true, Bool.or_eq_true, decide_eq_true_eq,
    Bool.not_eq_true', beq_iff_eq] at hobs
  obtain ⟨⟨⟨⟨h0, h1⟩, h2⟩, h3⟩, h4⟩ := hobs
  have hrange : t.isSpectrum = true → o1.snap "_min_wavelength" = o2.snap "_min_wavelength" ∧
      o1.snap "_max_wavelength" = o2.snap "_max_wavelength" ∧ o1.snap "_bins" = o2.snap "_bins" := by
    intro hs
    exact ⟨hsnap _ (by simp [snapFields, hs]), hsnap _ (by simp [snapFields, hs]), hsnap _ (by simp [snapFields, hs])⟩
  have hbinpsd : t.isSpectrum = true → specBinPsd E t o1.snap = specBinPsd E t o2.snap := by
    intro hs
    obtain ⟨e1, e2, e3⟩ := hrange hs
    unfold specBinPsd
    cases hk : t.binPsd
    · -- trapezoid
      simp only
      rw [evalFn_congr E t o1.snap o2.snap (fun f hf => hsnap f (by simp [snapFields, hs, hk, hf]))]
    · simp only
      rw [hsnap "_mean" (by simp [snapFields, hs, hk]), hsnap "_norm_cdf" (by simp [snapFields, hs, hk]), e1, e2, e3]
    · simp only [e1, e2]
    · rfl
    · rfl
  constructor
  · intro hs x y z
    simp only [energyDensity]
    split_ifs with n1 n2 n3 n4
    · exact hsnap _ (by simp [snapFields, hs, n1])
    · rw [hsnap "_pulse_energy" (by simp [snapFields, hs, n2]), hsnap "_pulse_length" (by simp [snapFields, hs, n2]),
        hsnap "_stddev_x" (by simp [snapFields, hs, n2]), hsnap "_stddev_y" (by simp [snapFields, hs, n2])]
    · rw [hsnap "_pulse_energy" (by simp [snapFields, hs, n3]), hsnap "_mean_z" (by simp [snapFields, hs, n3]),
        hsnap "_stddev_x" (by simp [snapFields, hs, n3]), hsnap "_stddev_y" (by simp [snapFields, hs, n3]),
        hsnap "_stddev_z" (by simp [snapFields, hs, n3])]
    · rw [hsnap "_pulse_energy" (by simp [snapFields, hs, n4]), hsnap "_pulse_length" (by simp [snapFields, hs, n4]),
        hsnap "_laser_wavelength" (by simp [snapFields, hs, n4]), hsnap "_waist_z" (by simp [snapFields, hs, n4]),
        hsnap "_stddev_waist" (by simp [snapFields, hs, n4])]
    · rfl
  · unfold Cherab.Laser.geometry
    split
    · rename_i r l hgeo
      rw [hfld r (h3 r (by rw [hgeo]; simp)), hfld l (h3 l (by rw [hgeo]; simp))]
    · rfl
  · intro g
    unfold Cherab.Laser.getter
    cases hfind : t.getters.find? (fun g' => g'.name == g) with
    | none => rfl
    | some gt =>
      have hmem := List.mem_of_find?_eq_some hfind
      have h4g := h4 gt hmem
      simp only [Option.bind]
      by_cases hs : t.isSpectrum = true
      · simp only [hs, if_true, Bool.or_eq_true, decide_eq_true_eq] at h4g
        obtain ⟨e1, e2, e3⟩ := hrange hs
        split_ifs with c1 c2
        · simp only [specDelta, e1, e2, e3]
        · rfl
        · rcases h4g with hw | hc
          · rw [hfld _ hw]
          · simp only [cacheOutputs, List.mem_cons, List.not_mem_nil, or_false] at hc
            rcases hc with hc | hc | hc
            · exact absurd hc c1
            · exact absurd (Or.inl hc) c2
            · exact absurd (Or.inr hc) c2
      · have hs' : t.isSpectrum = false := by simpa using hs
        simp only [hs', Bool.false_eq_true, if_false, Bool.and_eq_true, Bool.not_eq_true', decide_eq_false_iff_not,
          cacheOutputs, List.mem_cons, List.not_mem_nil, or_false, not_or] at h4g
        obtain ⟨hw, c1, c2, c3⟩ := h4g
        simp only [c1, c2, c3, or_self, if_false]
        rw [hfld _ hw]
  · intro hs g
    obtain ⟨e1, e2, e3⟩ := hrange hs
    unfold Cherab.Laser.getterList
    cases hfind : t.getters.find? (fun g' => g'.name == g) with
    | none => rfl
    | some gt =>
      simp only [Option.bind, specWavelengths, specPsd, e1, e2, e3, hbinpsd hs]
  · intro hs x
    unfold specEvaluate
    rw [evalFn_congr E t o1.fields o2.fields (fun f hf => hfld f (h2 f hf))]

/-- **history_eq_fresh** — the clause "after any sequence of parameter changes the energy density, geometry, binned
spectrum and reported parameters equal those of a freshly constructed object", for every class table that passes
the decidable checks: construct with any arguments, apply any sequence of assignments (accepted or rejected);
construct a second object from the parameters the first one *reports*; if that construction is accepted then every
observation of the two objects coincides. -/
theorem history_eq_fresh (E : Ext α) (hc : 0 < E.c) (t : Cls) (hcov : coveredB t = true) (hat : atomicB t = true)
    (hu : propsUniqueB t = true) (hsw : singleWriterB t = true) (hctor : ctorOkB t = true)
    (hpw : positiveWrittenB t = true) (hgo : gettersOwnB t = true) (hobs : observedOkB t = true)
    (args : String → α) (ops : List (String × α)) (hrun : (runCtor E t args).2 = .ok)
    (hfresh : (runCtor E t (reported t (runOps E t (runCtor E t args).1 ops))).2 = .ok) :
    ObsEq E t (runOps E t (runCtor E t args).1 ops)
      (runCtor E t (reported t (runOps E t (runCtor E t args).1 ops))).1 := by
  obtain ⟨hcl0, hp0, ha0⟩ := ctor_establishes E hc t hcov hat hu hsw hctor hpw args hrun
  obtain ⟨hcl, hp⟩ := history_clean E hc t hcov hat ops _ hcl0 hp0
  obtain ⟨params, ha⟩ := history_agrees E hc t hcov hat hu hsw ops _ hcl0 hp0 args ha0
  set o := runOps E t (runCtor E t args).1 ops with ho
  obtain ⟨hcl', hp', ha'⟩ := ctor_establishes E hc t hcov hat hu hsw hctor hpw (reported t o) hfresh
  set o' := (runCtor E t (reported t o)).1 with ho'
  have hrep := reported_eq E t hgo params o ha
  -- fields written by setters agree
  have hfld : ∀ f, writtenBySome t f = true → o.fields f = o'.fields f := by
    intro f hf
    simp only [writtenBySome, List.any_eq_true, beq_iff_eq] at hf
    obtain ⟨s, hs, w, hw, hwf⟩ := hf
    subst hwf
    rw [ha s hs w hw, ha' s hs w hw, hrep s hs]
  apply obs_congr E t hobs o o' _ hfld
  intro f hf
  have hobs' := hobs
  simp only [observedOkB, Bool.and_eq_true, List.all_eq_true, decide_eq_true_eq] at hobs'
  obtain ⟨hr, hw⟩ := hobs'.1.1.1.2 f hf
  rw [hcl f hr, hcl' f hr]
  exact hfld f hw

end Fresh



section Abstract

/-! ## the same statement at the level of the generic invalidation theory (`Model/Invalidation.lean`)

parameters = property names, caches = {the rebuilt energy function / binned spectrum, the geometry held by whoever
listens to `notifier`} -/

inductive Cache where
  | rebuilt | geometry
  deriving DecidableEq, Repr

def writesGeometry (t : Cls) (s : Setter) : Bool := s.writes.any fun w => decide (w.1 ∈ t.geometryReads)
def hasNotify (s : Setter) : Bool := s.refresh.any fun r => r == .notify
/-- every setter that changes the radius / length used by `generate_geometry` notifies the listeners -/
def geometryCoveredB (t : Cls) : Bool := t.setters.all fun s => !writesGeometry t s || hasNotify s

def protoOf (t : Cls) : Inval.Proto String Cache where
  deps := fun c => match c with
    | .rebuilt => (t.setters.filter (writesRead t)).map (·.prop)
    | .geometry => (t.setters.filter (writesGeometry t)).map (·.prop)
  clears := fun p => match findSetter t p with
    | none => []
    | some s => (if hasRebuild s then [Cache.rebuilt] else []) ++ (if hasNotify s then [Cache.geometry] else [])

theorem findSetter_of_mem (t : Cls) (hu : propsUniqueB t = true) (s : Setter) (hs : s ∈ t.setters) :
    findSetter t s.prop = some s := by
  unfold findSetter
  cases h : t.setters.find? (fun s' => s'.prop == s.prop) with
  | none =>
    have := List.find?_eq_none.mp h s hs
    simp at this
  | some s' =>
    have hm := List.mem_of_find?_eq_some h
    have hp : s'.prop = s.prop := by simpa using List.find?_some h
    rw [propsUnique_spec hu hm hs hp]

/-- the table conditions are exactly `Covered` of the induced protocol -/
theorem covered_of_table (t : Cls) (hu : propsUniqueB t = true) (hcov : coveredB t = true)
    (hgeo : geometryCoveredB t = true) : Inval.Covered (protoOf t) := by
  intro c p hp
  cases c with
  | rebuilt =>
    simp only [protoOf, List.mem_map, List.mem_filter] at hp
    obtain ⟨s, ⟨hs, hw⟩, rfl⟩ := hp
    have := List.all_eq_true.mp hcov s hs
    simp only [hw, Bool.not_true, Bool.false_or] at this
    simp [protoOf, findSetter_of_mem t hu s hs, this]
  | geometry =>
    simp only [protoOf, List.mem_map, List.mem_filter] at hp
    obtain ⟨s, ⟨hs, hw⟩, rfl⟩ := hp
    have := List.all_eq_true.mp hgeo s hs
    simp only [hw, Bool.not_true, Bool.false_or] at this
    simp [protoOf, findSetter_of_mem t hu s hs, this]

/-- after any interleaving of assignments and observations, an observation of either cache equals the from-scratch
observation of the final configuration (version-counter abstraction of `history_clean`) -/
theorem no_stale_histories (t : Cls) (hu : propsUniqueB t = true) (hcov : coveredB t = true)
    (hgeo : geometryCoveredB t = true) (ops : List (Inval.Op String Cache)) (c : Cache) :
    let s := Inval.run (protoOf t) Inval.init ops
    (Inval.step (protoOf t) s (.obs c)).2 = some (((protoOf t).deps c).map s.ver) :=
  Inval.no_stale (protoOf t) (covered_of_table t hu hcov hgeo) ops c

/-- conversely, a setter that writes a field the rebuild reads but does not rebuild yields a two-step history
(observe, assign) after which the observation is stale -/
theorem stale_of_uncovered (t : Cls) (hu : propsUniqueB t = true) (s : Setter) (hs : s ∈ t.setters)
    (hw : writesRead t s = true) (hn : hasRebuild s = false) :
    let st := Inval.run (protoOf t) Inval.init [.obs Cache.rebuilt, .set s.prop]
    (Inval.step (protoOf t) st (.obs Cache.rebuilt)).2 ≠ some (((protoOf t).deps Cache.rebuilt).map st.ver) := by
  apply Inval.stale_witness
  · simp only [protoOf, List.mem_map, List.mem_filter]
    exact ⟨s, ⟨hs, hw⟩, rfl⟩
  · simp [protoOf, findSetter_of_mem t hu s hs, hn]

end Abstract

section Witness
variable {α : Type} [Field α] [LinearOrder α] [IsStrictOrderedRing α]

/-! ## the converse at value level: an uncovered setter *does* leave stale state -/

theorem runRefresh_no_rebuild_snap (t : Cls) (rs : List Refresh) (o : Obj α) (h : rs.any isRebuild = false) :
    (runRefresh t o rs).1.snap = o.snap ∧ (runRefresh t o rs).2 = .ok := by
  induction rs generalizing o with
  | nil => exact ⟨rfl, rfl⟩
  | cons r rs ih =>
    simp only [List.any_cons, Bool.or_eq_false_iff] at h
    unfold runRefresh
    simp only [h.1, Bool.false_eq_true, if_false]
    exact ih _ h.2

/-- if a setter stores its value in a field the rebuild reads and performs no rebuild, then assigning any accepted
value different from the current one makes the cached function disagree with the fields: the counter-example
behind a failing `covered_*` obligation, replayed on the real class by the harness -/
theorem uncovered_setter_goes_stale (E : Ext α) (t : Cls) (s : Setter) (hfs : findSetter t s.prop = some s)
    (hgf : s.guardFirst = true) (hn : hasRebuild s = false) (f : String) (hw : s.writes = [(f, Rhs.value)])
    (hf : f ∈ t.rebuildReads) (o : Obj α) (hcl : Clean t o) (v : α) (hg : guardOk s.guard o.fields v = true)
    (hv : v ≠ o.fields f) :
    (setProp E t o s.prop v).2 = .ok ∧ ¬ Clean t (setProp E t o s.prop v).1 := by
  unfold setProp
  simp only [hfs, setWith, hgf, hg, Bool.not_true, Bool.and_false, Bool.false_eq_true, if_false, Bool.not_true,
    Bool.false_and]
  obtain ⟨hsnap, hok⟩ := runRefresh_no_rebuild_snap t s.refresh
    ({ o with fields := applyWrites E s.writes o.fields v } : Obj α) hn
  refine ⟨hok, ?_⟩
  intro hcl'
  have h1 := hcl' f hf
  rw [hsnap, runRefresh_fields] at h1
  simp only [hw, applyWrites, List.foldl_cons, List.foldl_nil, write, if_true, evalRhs] at h1
  exact hv (h1.symm.trans (hcl f hf))

end Witness

section Constructible
variable {α : Type} [Field α] [LinearOrder α] [IsStrictOrderedRing α]

theorem lit_pos (m e : Nat) (hm : 0 < m) : (0 : α) < lit m e := by
  unfold lit
  rw [← Rat.cast_ofScientific (K := α), Rat.cast_pos]
  show (0 : ℚ) < Rat.ofScientific m true e
  rw [Rat.ofScientific_true_def, Rat.mkRat_eq_div]
  have : (0 : ℚ) < (m : ℚ) := by exact_mod_cast hm
  positivity



/-! ### the fresh construction from the reported parameters is always accepted -/

def isRangeGuard : Guard → Bool
  | .rangeMin | .rangeMax => true
  | _ => false
def isCheckRange : CtorOp → Bool
  | .checkRange _ _ => true
  | _ => false
def usesRange (t : Cls) : Bool := t.ctor.any isCheckRange || t.setters.any fun s => isRangeGuard s.guard

/-- the wavelength range is handled by the two setters `min_wavelength` / `max_wavelength` (which store the raw value
in `_min_wavelength` / `_max_wavelength`) and by `_check_wavelength_validity(min_wavelength, max_wavelength)` in the
constructor, and by nothing else -/
def rangeShapeB (t : Cls) : Bool :=
  (t.setters.all fun s =>
     (s.guard != .rangeMin || (s.prop == "min_wavelength" && s.writes == [("_min_wavelength", Rhs.value)])) &&
     (s.guard != .rangeMax || (s.prop == "max_wavelength" && s.writes == [("_max_wavelength", Rhs.value)])) &&
     (s.prop != "min_wavelength" || !usesRange t || s.guard == .rangeMin) &&
     (s.prop != "max_wavelength" || !usesRange t || s.guard == .rangeMax)) &&
  (!usesRange t ||
     ((findSetter t "min_wavelength").isSome && (findSetter t "max_wavelength").isSome &&
      t.ctor.contains (CtorOp.checkRange "min_wavelength" "max_wavelength"))) &&
  (t.ctor.all fun op => match op with
    | .checkRange a b => a == "min_wavelength" && b == "max_wavelength"
    | _ => true)

/-- every positivity-guarded setter is run by the constructor with the argument of its own name -/
def ctorSetsPositiveB (t : Cls) : Bool :=
  t.setters.all fun s => s.guard != .positive || t.ctor.contains (CtorOp.set s.prop s.prop)

/-- abstract run of the constructor tracking which fields are known to be positive: at every rebuild all fields the
inner constructor insists on must already be positive (literal initialisation or a guarded setter) -/
def ctorPosCheck (t : Cls) : List CtorOp → List String → Bool
  | [], _ => true
  | .init f m _ :: rest, known => ctorPosCheck t rest (if 0 < m then f :: known else known.filter (· != f))
  | .initArg f _ :: rest, known => ctorPosCheck t rest (known.filter (· != f))
  | .set p a :: rest, known =>
    match findSetter t p with
    | some s =>
      (s.guard == .none || s.guard == .positive) && p == a &&
        (!hasRebuild s || t.rebuildPositive.all fun f => decide (f ∈ s.writes.map (·.1) ++ known)) &&
        ctorPosCheck t rest (s.writes.map (·.1) ++ known)
    | none => false
  | .checkRange _ _ :: rest, known => ctorPosCheck t rest known
  | .other _ :: rest, known => ctorPosCheck t rest known
  | .unknown _ :: _, _ => false

/-- what the guards demand of a parameter valuation -/
def ParamsOk (t : Cls) (params : String → α) : Prop :=
  (∀ s ∈ t.setters, s.guard = .positive → 0 < params s.prop) ∧
  (usesRange t = true → rangeOk (params "min_wavelength") (params "max_wavelength") = true)

theorem ctor_ok_step (E : Ext α) (t : Cls) (args : String → α) (ops : List CtorOp) (o : Obj α)
    (hrun : (runCtorFrom E t args o ops).2 = .ok) (op : CtorOp) (hop : op ∈ ops) :
    ∃ o', (ctorStep E t args o' op).2 = .ok := by
  induction ops generalizing o with
  | nil => simp at hop
  | cons op' rest ih =>
    obtain ⟨hstep, heq⟩ := runCtorFrom_cons_ok E t args o op' rest hrun
    rcases List.mem_cons.mp hop with h | h
    · subst h; exact ⟨o, hstep⟩
    · rw [heq] at hrun; exact ih _ hrun h

theorem guard_positive_ok (fs : String → α) (v : α) : guardOk Guard.positive fs v = true ↔ 0 < v := by
  simp [guardOk]

/-- an accepted construction shows that the arguments satisfy the guards -/
theorem ctor_params_ok (E : Ext α) (t : Cls) (hat : atomicB t = true) (hu : propsUniqueB t = true)
    (hcp : ctorSetsPositiveB t = true) (hrs : rangeShapeB t = true) (args : String → α)
    (hrun : (runCtor E t args).2 = .ok) : ParamsOk t args := by
  constructor
  · intro s hs hg
    have h1 := List.all_eq_true.mp hcp s hs
    simp only [hg, bne_self_eq_false, Bool.false_or, List.contains_iff_mem] at h1
    obtain ⟨o', hstep⟩ := ctor_ok_step E t args t.ctor blank hrun _ h1
    have hfs := findSetter_of_mem t hu s hs
    have has := List.all_eq_true.mp hat s hs
    have hgf : s.guardFirst = true := by
      simp only [atomicSetter, Bool.and_eq_true] at has; exact has.1
    have hok : (setWith E t s o' (args s.prop)).2 = .ok := by
      simpa [ctorStep, setProp, hfs] using hstep
    have := (setWith_ok_fields E t s o' (args s.prop) hgf hok).1
    rw [hg] at this
    exact (guard_positive_ok _ _).mp this
  · intro hur
    simp only [rangeShapeB, Bool.and_eq_true, hur, Bool.not_true, Bool.false_or, List.contains_iff_mem] at hrs
    obtain ⟨⟨_, ⟨_, hmem⟩⟩, _⟩ := hrs
    obtain ⟨o', hstep⟩ := ctor_ok_step E t args t.ctor blank hrun _ hmem
    simp only [ctorStep] at hstep
    by_contra hne
    simp [hne] at hstep

theorem range_setters (t : Cls) (hrs : rangeShapeB t = true) (hur : usesRange t = true) :
    (∃ s ∈ t.setters, s.prop = "min_wavelength" ∧ s.guard = .rangeMin ∧ s.writes = [("_min_wavelength", Rhs.value)]) ∧
    (∃ s ∈ t.setters, s.prop = "max_wavelength" ∧ s.guard = .rangeMax ∧ s.writes = [("_max_wavelength", Rhs.value)]) := by
  simp only [rangeShapeB, Bool.and_eq_true, hur, Bool.not_true, Bool.false_or, List.all_eq_true, Bool.or_eq_true,
    bne_iff_ne, ne_eq, beq_iff_eq, Bool.not_eq_true', Bool.false_eq_true, false_or] at hrs
  obtain ⟨⟨hall, ⟨⟨hmin, hmax⟩, _⟩⟩, _⟩ := hrs
  constructor
  · obtain ⟨s, hs⟩ := Option.isSome_iff_exists.mp hmin
    obtain ⟨hmem, hp⟩ := findSetter_mem t _ s hs
    obtain ⟨⟨⟨h1, _⟩, h3⟩, _⟩ := hall s hmem
    have hg : s.guard = .rangeMin := by
      rcases h3 with (h | h) | h
      · exact absurd hp h
      · exact absurd h (by simp)
      · exact h
    rcases h1 with h | h
    · exact absurd hg h
    · exact ⟨s, hmem, hp, hg, h.2⟩
  · obtain ⟨s, hs⟩ := Option.isSome_iff_exists.mp hmax
    obtain ⟨hmem, hp⟩ := findSetter_mem t _ s hs
    obtain ⟨⟨⟨_, h2⟩, _⟩, h4⟩ := hall s hmem
    have hg : s.guard = .rangeMax := by
      rcases h4 with (h | h) | h
      · exact absurd hp h
      · exact absurd h (by simp)
      · exact h
    rcases h2 with h | h
    · exact absurd hg h
    · exact ⟨s, hmem, hp, hg, h.2⟩



/-- one assignment keeps "the fields are what the setters compute from parameters that satisfy the guards" -/
theorem setProp_agrees_ok (E : Ext α) (hc : 0 < E.c) (t : Cls) (hcov : coveredB t = true) (hat : atomicB t = true)
    (hu : propsUniqueB t = true) (hsw : singleWriterB t = true) (hrs : rangeShapeB t = true)
    (o : Obj α) (p : String) (v : α) (hcl : Clean t o) (hp : Pos t o) (params : String → α)
    (ha : Agrees E t params o) (hpo : ParamsOk t params) :
    ∃ params', Agrees E t params' (setProp E t o p v).1 ∧ ParamsOk t params' := by
  unfold setProp
  split
  · exact ⟨params, ha, hpo⟩
  · rename_i s hs
    obtain ⟨hmem, _⟩ := findSetter_mem t p s hs
    have h1 := List.all_eq_true.mp hcov s hmem
    have h2 := List.all_eq_true.mp hat s hmem
    have hgf : s.guardFirst = true := by
      simp only [atomicSetter, Bool.and_eq_true] at h2; exact h2.1
    rcases (setWith_inv E hc t s h1 h2 o v hcl hp).2.2 with hok | hun
    · refine ⟨upd params s.prop v, ?_, ?_⟩
      · have := setWith_agrees E t hu hsw s hmem hgf o v hok _ params ((agrees_iff E t params o).mp ha)
        intro s' hs' w hw
        exact this s' hs' (by simp [List.mem_map]; exact Or.inr ⟨s', hs', rfl⟩) w hw
      · have hg := (setWith_ok_fields E t s o v hgf hok).1
        constructor
        · intro s' hs' hg'
          by_cases hpp : s'.prop = s.prop
          · have := propsUnique_spec hu hs' hmem hpp
            subst this
            rw [hg'] at hg
            simp only [upd, if_true]
            exact (guard_positive_ok _ _).mp hg
          · simp only [upd, hpp, if_false]
            exact hpo.1 s' hs' hg'
        · intro hur
          obtain ⟨⟨smin, hsmin, pmin, gmin, wmin⟩, ⟨smax, hsmax, pmax, gmax, wmax⟩⟩ := range_setters t hrs hur
          have fmin : o.fields "_min_wavelength" = params "min_wavelength" := by
            have := ha smin hsmin ("_min_wavelength", Rhs.value) (by rw [wmin]; simp)
            simpa [evalRhs, pmin] using this
          have fmax : o.fields "_max_wavelength" = params "max_wavelength" := by
            have := ha smax hsmax ("_max_wavelength", Rhs.value) (by rw [wmax]; simp)
            simpa [evalRhs, pmax] using this
          have hold := hpo.2 hur
          by_cases hmin : s.prop = "min_wavelength"
          · have : s = smin := propsUnique_spec hu hmem hsmin (hmin.trans pmin.symm)
            subst this
            rw [gmin] at hg
            simp only [guardOk, fmax] at hg
            simpa [upd, hmin] using hg
          · by_cases hmax : s.prop = "max_wavelength"
            · have : s = smax := propsUnique_spec hu hmem hsmax (hmax.trans pmax.symm)
              subst this
              rw [gmax] at hg
              simp only [guardOk, fmin] at hg
              simpa [upd, hmax] using hg
            · have e1 : upd params s.prop v "min_wavelength" = params "min_wavelength" := by
                simp [upd, Ne.symm hmin]
              have e2 : upd params s.prop v "max_wavelength" = params "max_wavelength" := by
                simp [upd, Ne.symm hmax]
              rw [e1, e2]; exact hold
    · rw [hun]; exact ⟨params, ha, hpo⟩

theorem history_agrees_ok (E : Ext α) (hc : 0 < E.c) (t : Cls) (hcov : coveredB t = true) (hat : atomicB t = true)
    (hu : propsUniqueB t = true) (hsw : singleWriterB t = true) (hrs : rangeShapeB t = true)
    (ops : List (String × α)) (o : Obj α) (hcl : Clean t o) (hp : Pos t o) (params : String → α)
    (ha : Agrees E t params o) (hpo : ParamsOk t params) :
    ∃ params', Agrees E t params' (runOps E t o ops) ∧ ParamsOk t params' := by
  induction ops generalizing o params with
  | nil => exact ⟨params, ha, hpo⟩
  | cons op ops ih =>
    obtain ⟨p, v⟩ := op
    unfold runOps
    obtain ⟨params', ha', hpo'⟩ := setProp_agrees_ok E hc t hcov hat hu hsw hrs o p v hcl hp params ha hpo
    have := setProp_inv E hc t hcov hat o p v hcl hp
    exact ih _ this.1 this.2 params' ha' hpo'

def KnownPos (t : Cls) (known : List String) (o : Obj α) : Prop :=
  ∀ f ∈ known, f ∈ t.rebuildPositive → 0 < o.fields f

theorem applyWrites_pos' (E : Ext α) (P : String → Prop) (ws : List (String × Rhs)) (fs : String → α) (v : α)
    (hw : ∀ w ∈ ws, P w.1 → 0 < evalRhs E w.2 v) (f : String) (hP : P f)
    (hf : 0 < fs f ∨ ∃ w ∈ ws, w.1 = f) : 0 < applyWrites E ws fs v f := by
  unfold applyWrites
  induction ws generalizing fs with
  | nil =>
    rcases hf with h | ⟨w, hw', _⟩
    · exact h
    · simp at hw'
  | cons w ws ih =>
    simp only [List.foldl_cons]
    apply ih
    · intro w' hw'; exact hw w' (by simp [hw'])
    · by_cases hin : ∃ w' ∈ ws, w'.1 = f
      · exact Or.inr hin
      · left
        simp only [write]
        split
        · rename_i heq; rw [heq] at hP; exact hw w (by simp) hP
        · rename_i hne
          rcases hf with h | ⟨w', hw', hw'f⟩
          · exact h
          · rcases List.mem_cons.mp hw' with h | h
            · subst h; exact absurd hw'f.symm hne
            · exact absurd ⟨w', h, hw'f⟩ hin

/-- a valuation that satisfies the guards is accepted by the constructor -/
theorem ctor_succeeds (E : Ext α) (hc : 0 < E.c) (t : Cls) (hat : atomicB t = true) (hrs : rangeShapeB t = true)
    (args : String → α) (hpo : ParamsOk t args) (ops : List CtorOp) (hsub : ∀ op ∈ ops, op ∈ t.ctor)
    (known : List String) (o : Obj α) (hchk : ctorPosCheck t ops known = true) (hk : KnownPos t known o) :
    (runCtorFrom E t args o ops).2 = .ok := by
  induction ops generalizing known o with
  | nil => rfl
  | cons op rest ih =>
    have hsub' : ∀ op' ∈ rest, op' ∈ t.ctor := fun op' h => hsub op' (by simp [h])
    cases op with
    | init f m e =>
      simp only [ctorPosCheck] at hchk
      simp only [runCtorFrom, ctorStep]
      apply ih hsub' _ _ hchk
      intro g hg hgp
      simp only [write]
      by_cases hgf : g = f
      · subst hgf
        simp only [if_true]
        by_cases hm : 0 < m
        · exact lit_pos m e hm
        · simp [hm] at hg
      · simp only [hgf, if_false]
        by_cases hm : 0 < m
        · simp only [hm, if_true] at hg
          rcases List.mem_cons.mp hg with h | h
          · exact absurd h hgf
          · exact hk g h hgp
        · simp only [hm, if_false, List.mem_filter] at hg
          exact hk g hg.1 hgp
    | initArg f a =>
      simp only [ctorPosCheck] at hchk
      simp only [runCtorFrom, ctorStep]
      apply ih hsub' _ _ hchk
      intro g hg hgp
      simp only [List.mem_filter, bne_iff_ne, ne_eq] at hg
      simp only [write, hg.2, if_false]
      exact hk g hg.1 hgp
    | set p a =>
      simp only [ctorPosCheck] at hchk
      cases hfs : findSetter t p with
      | none => simp [hfs] at hchk
      | some s =>
        simp only [hfs, Bool.and_eq_true, Bool.or_eq_true, beq_iff_eq, Bool.not_eq_true', List.all_eq_true,
          decide_eq_true_eq] at hchk
        obtain ⟨⟨⟨hguard, hpa⟩, hreb⟩, hrest⟩ := hchk
        subst hpa
        obtain ⟨hs, hsp⟩ := findSetter_mem t p s hfs
        have has := List.all_eq_true.mp hat s hs
        have has' := has
        simp only [atomicSetter, Bool.and_eq_true, List.all_eq_true, Bool.or_eq_true, Bool.not_eq_true',
          decide_eq_false_iff_not, beq_iff_eq] at has'
        obtain ⟨hgf, hws⟩ := has'
        -- the guard passes
        have hg : guardOk s.guard o.fields (args p) = true := by
          rcases hguard with h | h
          · rw [h]; rfl
          · rw [h, guard_positive_ok]; rw [← hsp]; exact hpo.1 s hs h
        -- positivity of what is written
        have hwpos : ∀ w ∈ s.writes, w.1 ∈ t.rebuildPositive → 0 < evalRhs E w.2 (args p) := by
          intro w hw hwp
          rcases hws w hw with hn | ⟨hgp, hrv⟩
          · exact absurd hwp hn
          · have hv : 0 < args p := by rw [hgp] at hg; exact (guard_positive_ok _ _).mp hg
            exact evalRhs_pos E hc w.2 (args p) hv hrv
        have hk1 : KnownPos t (s.writes.map (·.1) ++ known)
            ({ o with fields := applyWrites E s.writes o.fields (args p) } : Obj α) := by
          intro g hg' hgp
          apply applyWrites_pos' E (fun f => f ∈ t.rebuildPositive) s.writes o.fields (args p) hwpos g hgp
          rcases List.mem_append.mp hg' with h | h
          · right
            obtain ⟨w, hw, hwg⟩ := List.mem_map.mp h
            exact ⟨w, hw, hwg⟩
          · by_cases hin : ∃ w ∈ s.writes, w.1 = g
            · exact Or.inr hin
            · exact Or.inl (hk g h hgp)
        have hstepobj : ctorStep E t args o (.set p p)
            = runRefresh t ({ o with fields := applyWrites E s.writes o.fields (args p) } : Obj α) s.refresh := by
          simp [ctorStep, setProp, hfs, setWith, hgf, hg]
        have hrok : (runRefresh t ({ o with fields := applyWrites E s.writes o.fields (args p) } : Obj α) s.refresh).2 = .ok := by
          by_cases hrb : hasRebuild s = true
          · apply runRefresh_pos_ok
            intro f hf
            rcases hreb with h | h
            · rw [hrb] at h; cases h
            · exact hk1 f (h f hf) hf
          · have : s.refresh.any isRebuild = false := by simpa [hasRebuild] using hrb
            exact (runRefresh_no_rebuild_snap t s.refresh _ this).2
        have hstep2 : (ctorStep E t args o (.set p p)).2 = .ok := by rw [hstepobj]; exact hrok
        have : runCtorFrom E t args o (.set p p :: rest)
            = runCtorFrom E t args (ctorStep E t args o (.set p p)).1 rest := by
          rcases hst : ctorStep E t args o (.set p p) with ⟨o', r⟩
          rw [hst] at hstep2
          simp only at hstep2
          subst hstep2
          simp [runCtorFrom, hst]
        rw [this]
        apply ih hsub' _ _ hrest
        rw [hstepobj]
        intro g hg' hgp
        rw [runRefresh_fields]
        exact hk1 g hg' hgp
    | checkRange a b =>
      simp only [ctorPosCheck] at hchk
      have hmem := hsub (.checkRange a b) (by simp)
      have hur : usesRange t = true := by
        simp only [usesRange, Bool.or_eq_true, List.any_eq_true]
        exact Or.inl ⟨_, hmem, rfl⟩
      have hnames : a = "min_wavelength" ∧ b = "max_wavelength" := by
        simp only [rangeShapeB, Bool.and_eq_true, List.all_eq_true] at hrs
        have := hrs.2 _ hmem
        simpa using this
      have hr := hpo.2 hur
      simp only [runCtorFrom, ctorStep, hnames.1, hnames.2, hr, if_true]
      exact ih hsub' _ _ hchk hk
    | other txt =>
      simp only [ctorPosCheck] at hchk
      simp only [runCtorFrom, ctorStep]
      exact ih hsub' _ _ hchk hk
    | unknown txt => simp [ctorPosCheck] at hchk

/-- **fresh_constructible**: whatever history an accepted object went through, the parameters it reports are
accepted by the constructor -/
theorem fresh_constructible (E : Ext α) (hc : 0 < E.c) (t : Cls) (hcov : coveredB t = true) (hat : atomicB t = true)
    (hu : propsUniqueB t = true) (hsw : singleWriterB t = true) (hctor : ctorOkB t = true)
    (hpw : positiveWrittenB t = true) (hgo : gettersOwnB t = true) (hrs : rangeShapeB t = true)
    (hcp : ctorSetsPositiveB t = true) (hpc : ctorPosCheck t t.ctor [] = true)
    (args : String → α) (ops : List (String × α)) (hrun : (runCtor E t args).2 = .ok) :
    (runCtor E t (reported t (runOps E t (runCtor E t args).1 ops))).2 = .ok := by
  obtain ⟨hcl0, hp0, ha0⟩ := ctor_establishes E hc t hcov hat hu hsw hctor hpw args hrun
  have hpo0 := ctor_params_ok E t hat hu hcp hrs args hrun
  obtain ⟨params, ha, hpo⟩ := history_agrees_ok E hc t hcov hat hu hsw hrs ops _ hcl0 hp0 args ha0 hpo0
  have hrep := reported_eq E t hgo params _ ha
  have hpo' : ParamsOk t (reported t (runOps E t (runCtor E t args).1 ops)) := by
    constructor
    · intro s hs hg; rw [hrep s hs]; exact hpo.1 s hs hg
    · intro hur
      obtain ⟨⟨smin, hsmin, pmin, _, _⟩, ⟨smax, hsmax, pmax, _, _⟩⟩ := range_setters t hrs hur
      have e1 := hrep smin hsmin
      have e2 := hrep smax hsmax
      rw [pmin] at e1; rw [pmax] at e2
      rw [e1, e2]; exact hpo.2 hur
  exact ctor_succeeds E hc t hat hrs _ hpo' t.ctor (fun _ h => h) [] blank hpc
    (fun f hf _ => absurd hf (by simp))

/-- the decidable conditions on a class table under which the history clause holds -/
def tableOkB (t : Cls) : Bool :=
  coveredB t && atomicB t && propsUniqueB t && singleWriterB t && ctorOkB t && positiveWrittenB t && gettersOwnB t &&
    observedOkB t && rangeShapeB t && ctorSetsPositiveB t && ctorPosCheck t t.ctor []

/-- **history_eq_fresh_total** — the history clause at full strength for any class table passing the decidable
checks: construct with any accepted arguments, apply any sequence of assignments (accepted or rejected, any values);
the object constructed from the parameters the first one reports *is accepted* and every observation of the two
coincides. -/
theorem history_eq_fresh_total (E : Ext α) (hc : 0 < E.c) (t : Cls) (hok : tableOkB t = true)
    (args : String → α) (ops : List (String × α)) (hrun : (runCtor E t args).2 = .ok) :
    (runCtor E t (reported t (runOps E t (runCtor E t args).1 ops))).2 = .ok ∧
    ObsEq E t (runOps E t (runCtor E t args).1 ops)
      (runCtor E t (reported t (runOps E t (runCtor E t args).1 ops))).1 := by
  simp only [tableOkB, Bool.and_eq_true] at hok
  obtain ⟨⟨⟨⟨⟨⟨⟨⟨⟨⟨hcov, hat⟩, hu⟩, hsw⟩, hctor⟩, hpw⟩, hgo⟩, hobs⟩, hrs⟩, hcp⟩, hpc⟩ := hok
  have hfresh := fresh_constructible E hc t hcov hat hu hsw hctor hpw hgo hrs hcp hpc args ops hrun
  exact ⟨hfresh, history_eq_fresh E hc t hcov hat hu hsw hctor hpw hgo hobs args ops hrun hfresh⟩

end Constructible

section Deepen
variable {α : Type} [Field α] [LinearOrder α] [IsStrictOrderedRing α]

/-! ## proof-deepening pass -/

/-- the tiling does not depend on how the segment count was obtained: for ANY count `n ≥ 0` and any `L > 0` the
segments start at 0, are adjacent, end at `L`, have equal positive height and radius `r` -/
theorem segments_tile_any_count (n : Int) (hn : 0 ≤ n) (r L : α) (hL : 0 < L) :
    ∃ segs, segments n r L = some segs ∧ segs.length = max 1 n.toNat ∧
      (∀ h : 0 < segs.length, segs[0].z0 = 0) ∧
      (∀ i (h : i + 1 < segs.length), segs[i + 1].z0 = segs[i].z0 + segs[i].height) ∧
      (∀ h : segs.length - 1 < segs.length, segs[segs.length - 1].z0 + segs[segs.length - 1].height = L) ∧
      (∀ i (h : i < segs.length), segs[i].height = L / (segs.length : α) ∧ 0 < segs[i].height ∧ segs[i].radius = r) := by
  obtain ⟨segs, hs, hlen, hform⟩ := segments_closed_form n hn r L
  have hpos : 0 < segs.length := by rw [hlen]; omega
  have hposα : (0 : α) < (segs.length : α) := by exact_mod_cast hpos
  refine ⟨segs, hs, hlen, ?_, ?_, ?_, ?_⟩
  · intro h; rw [(hform 0 h).1]; simp
  · intro i h
    rw [(hform (i + 1) h).1, (hform i (by omega)).1, (hform i (by omega)).2.1]
    push_cast; ring
  · intro h
    rw [(hform _ h).1, (hform _ h).2.1]
    have : ((segs.length - 1 : Nat) : α) = (segs.length : α) - 1 := by
      rw [Nat.cast_sub (by omega)]; simp
    rw [this]; field_simp; ring
  · intro i h
    refine ⟨(hform i h).2.1, ?_, (hform i h).2.2⟩
    rw [(hform i h).2.1]; positivity

example : ∃ segs, segments 7 (1 : ℚ) 3 = some segs ∧ segs.length = 7 := by
  obtain ⟨segs, h, hl, _⟩ := segments_tile_any_count (7 : Int) (by decide) (1 : ℚ) 3 (by norm_num)
  exact ⟨segs, h, by simpa using hl⟩

/-! ### what the scattering model reads: `power_mv[i] = psd[i]·Δλ`, one entry per bin -/

theorem powerList_length (f : α → α → α) (lo hi : α) (n : Nat) : (powerList f lo hi n).length = n := by
  simp [powerList, psdList, bins_length]

/-- **per-bin power = power spectral density × bin width**, for every bin density function and every bin -/
theorem power_is_psd_times_delta (f : α → α → α) (lo hi : α) (n i : Nat) (h : i < (powerList f lo hi n).length)
    (h' : i < (psdList f lo hi n).length) :
    (powerList f lo hi n)[i] = (psdList f lo hi n)[i] * delta lo hi n := by
  simp [powerList]

/-- the scattered signal the model accumulates, `Σ_bins c(λ_bin)·power_bin` (c = any per-wavelength response) -/
def scattered (c : α → α) (wl pw : List α) : α := sumList ((wl.zip pw).map fun x => c x.1 * x.2)

theorem sumList_map_const_mul (c0 : α) (xs : List α) : sumList (xs.map fun x => c0 * x) = c0 * sumList xs := by
  induction xs with
  | nil => simp [sumList]
  | cons x xs ih =>
    simp only [List.map_cons, sumList, List.foldr_cons] at ih ⊢
    rw [ih]; ring

/-- when every bin scatters alike the model sees exactly the total power (the round-4 "degenerate range" oracle) -/
theorem scattered_flat_response (c0 : α) (wl pw : List α) (hlen : wl.length = pw.length) :
    scattered (fun _ => c0) wl pw = c0 * sumList pw := by
  unfold scattered
  have : (wl.zip pw).map (fun x => c0 * x.2) = pw.map fun x => c0 * x := by
    apply List.ext_getElem
    · simp [hlen]
    · intro i h1 h2; simp
  rw [this, sumList_map_const_mul]

/-- … hence a constant spectrum on its support, and a Gaussian line with `erf` of the two range ends ±1, hand the
scattering model total power one through any flat response -/
theorem scattered_constant_total (c0 lo hi : α) (n : Nat) (hn : 0 < n) (hlt : lo < hi) :
    scattered (fun _ => c0) (wavelengths lo hi n) (powerList (trapezoidPsd (constEval lo hi)) lo hi n) = c0 := by
  rw [scattered_flat_response _ _ _ (by simp [wavelengths, powerList_length]), const_total_power_one lo hi n hn hlt, mul_one]

theorem scattered_gauss_total (erf : α → α) (c0 mean k lo hi : α) (n : Nat) (hn : 0 < n) (hlt : lo < hi)
    (hhi : erf ((hi - mean) * k) = 1) (hlo : erf ((lo - mean) * k) = -1) :
    scattered (fun _ => c0) (wavelengths lo hi n) (powerList (gaussBinPsd erf mean k (delta lo hi n)) lo hi n) = c0 := by
  rw [scattered_flat_response _ _ _ (by simp [wavelengths, powerList_length]),
    spectrum_bins_telescope erf mean k lo hi n hn hlt, hhi, hlo]
  norm_num

/-- Gaussian bin powers are non-negative and sum to at most one, for any monotone `erf` bounded by 1 -/
theorem gauss_bin_power_nonneg (erf : α → α) (hmono : Monotone erf) (mean k lo hi : α) (hk : 0 ≤ k) (n i : Nat)
    (hn : 0 < n) (hlt : lo < hi) (h : i < (powerList (gaussBinPsd erf mean k (delta lo hi n)) lo hi n).length)
    (h' : i < (bins lo hi n).length) :
    0 ≤ (powerList (gaussBinPsd erf mean k (delta lo hi n)) lo hi n)[i] := by
  rw [gauss_bin_power_is_cdf_increment erf mean k lo hi n i hn hlt h h', bins_closed_form lo hi n i h']
  have hnα : (0 : α) < (n : α) := by exact_mod_cast hn
  have hd : 0 < delta lo hi n := by
    unfold delta
    have : 0 < hi - lo := by linarith
    positivity
  have : erf ((lo + (i : α) * delta lo hi n - mean) * k) ≤ erf ((lo + ((i : α) + 1) * delta lo hi n - mean) * k) := by
    apply hmono
    apply mul_le_mul_of_nonneg_right _ hk
    nlinarith
  simp only
  norm_num
  linarith

theorem gauss_total_power_le_one (erf : α → α) (hb : ∀ x, |erf x| ≤ 1) (mean k lo hi : α) (n : Nat) (hn : 0 < n)
    (hlt : lo < hi) : sumList (powerList (gaussBinPsd erf mean k (delta lo hi n)) lo hi n) ≤ 1 := by
  rw [spectrum_bins_telescope erf mean k lo hi n hn hlt]
  have h1 := abs_le.mp (hb ((hi - mean) * k))
  have h2 := abs_le.mp (hb ((lo - mean) * k))
  norm_num
  linarith

-- non-vacuity: erf := clamp to [-1, 1] is monotone and bounded
example : sumList (powerList (gaussBinPsd (fun x : ℚ => max (-1) (min 1 x)) 2 1 (delta 1 3 4)) 1 3 4) ≤ 1 :=
  gauss_total_power_le_one _ (fun x => by
    rw [abs_le]; constructor
    · exact le_max_left _ _
    · exact max_le (by norm_num) (min_le_left _ _)) 2 1 1 3 4 (by norm_num) (by norm_num)

/-! ### path independence of histories -/

theorem ObsEq.symm' {E : Ext α} {t : Cls} {o1 o2 : Obj α} (h : ObsEq E t o1 o2) : ObsEq E t o2 o1 :=
  ⟨fun hs x y z => (h.density hs x y z).symm, h.geometry.symm, fun g => (h.getter g).symm,
   fun hs g => (h.getterList hs g).symm, fun hs x => (h.evaluate hs x).symm⟩

theorem ObsEq.trans' {E : Ext α} {t : Cls} {o1 o2 o3 : Obj α} (h : ObsEq E t o1 o2) (h' : ObsEq E t o2 o3) :
    ObsEq E t o1 o3 :=
  ⟨fun hs x y z => (h.density hs x y z).trans (h'.density hs x y z), h.geometry.trans h'.geometry,
   fun g => (h.getter g).trans (h'.getter g), fun hs g => (h.getterList hs g).trans (h'.getterList hs g),
   fun hs x => (h.evaluate hs x).trans (h'.evaluate hs x)⟩

/-- **path independence**: two objects of a class whose table passes the checks, reached by ANY two accepted
constructions followed by ANY two assignment histories (constructor arguments equal to defaults / pre-seeded literals,
repeated values, rejected values all included), are observationally equal as soon as they report the same parameters —
in particular "constructed with v" ≡ "constructed with w, then set to v". -/
theorem history_path_independent (E : Ext α) (hc : 0 < E.c) (t : Cls) (hok : tableOkB t = true)
    (args1 args2 : String → α) (ops1 ops2 : List (String × α))
    (h1 : (runCtor E t args1).2 = .ok) (h2 : (runCtor E t args2).2 = .ok)
    (hrep : reported t (runOps E t (runCtor E t args1).1 ops1) = reported t (runOps E t (runCtor E t args2).1 ops2)) :
    ObsEq E t (runOps E t (runCtor E t args1).1 ops1) (runOps E t (runCtor E t args2).1 ops2) := by
  have e1 := (history_eq_fresh_total E hc t hok args1 ops1 h1).2
  have e2 := (history_eq_fresh_total E hc t hok args2 ops2 h2).2
  rw [hrep] at e1
  exact e1.trans' e2.symm'

end Deepen

/-! ### subscriptions: exactly one, on the profile currently held -/
section Subscriptions

/-- laser `l` is registered on profile `p` exactly once if it holds `p`, and not at all otherwise -/
def SubInv (s : Scene) : Prop := ∀ l p, (s.subs p).count l = if s.cur l = some p then 1 else 0

theorem subInv_empty : SubInv emptyScene := by
  intro l p; simp [emptyScene]

theorem count_notifierAdd (subs : List Nat) (l k : Nat) (h : subs.count l ≤ 1) :
    (notifierAdd subs l).count k = if k = l then 1 else subs.count k := by
  unfold notifierAdd
  by_cases hm : l ∈ subs
  · simp only [hm, if_true]
    split
    · rename_i hk; subst hk
      have := List.count_pos_iff.mpr hm
      omega
    · rfl
  · simp only [hm, if_false, List.count_append]
    split
    · rename_i hk; subst hk
      simp [List.count_eq_zero_of_not_mem hm]
    · rename_i hk
      simp [List.count_cons, Ne.symm hk]

theorem count_notifierRemove (subs : List Nat) (l k : Nat) :
    (notifierRemove subs l).count k = if k = l then subs.count l - 1 else subs.count k := by
  unfold notifierRemove
  split
  · rename_i hk; subst hk; simp [List.count_erase_self]
  · rename_i hk; exact List.count_erase_of_ne hk

/-- the subscriptions after the unsubscribe step of the setter -/
def afterRemove (s : Scene) (l : Nat) : Nat → List Nat :=
  match s.cur l with
  | some q => fun x => if x = q then notifierRemove (s.subs q) l else s.subs x
  | none => s.subs

theorem count_afterRemove (s : Scene) (h : SubInv s) (l x k : Nat) :
    (afterRemove s l x).count k = if k = l then 0 else (s.subs x).count k := by
  unfold afterRemove
  cases hc : s.cur l with
  | none =>
    simp only
    split
    · rename_i hk; subst hk; rw [h k x, hc]; simp
    · rfl
  | some q0 =>
    simp only
    by_cases hx : x = q0
    · subst hx
      simp only [if_true]
      rw [count_notifierRemove]
      split
      · rw [h l x, hc]; simp
      · rfl
    · simp only [hx, if_false]
      split
      · rename_i hk; subst hk; rw [h k x, hc]
        have : ¬ (some q0 = some x) := fun e => hx (Option.some.inj e).symm
        simp [this]
      · rfl

theorem attach_eq (s : Scene) (l p : Nat) :
    attach s l p = { subs := fun x => if x = p then notifierAdd (afterRemove s l p) l else afterRemove s l x,
                     cur := fun k => if k = l then some p else s.cur k } := by
  unfold attach afterRemove
  cases s.cur l <;> rfl

/-- one (re)assignment keeps the invariant — also when the same profile object is assigned again -/
theorem attach_inv (s : Scene) (h : SubInv s) (l p : Nat) : SubInv (attach s l p) := by
  intro k q
  rw [attach_eq]
  simp only
  by_cases hq : q = p
  · subst hq
    simp only [if_true]
    rw [count_notifierAdd _ _ _ (by rw [count_afterRemove s h]; simp)]
    by_cases hkl : k = l
    · simp [hkl]
    · simp only [hkl, if_false]
      rw [count_afterRemove s h]
      simp only [hkl, if_false]
      exact h k q
  · simp only [hq, if_false]
    rw [count_afterRemove s h]
    by_cases hkl : k = l
    · have : ¬ (some p = some q) := fun e => hq (Option.some.inj e).symm
      simp [hkl, this]
    · simp only [hkl, if_false]
      exact h k q

/-- **exactly one subscription after any history of (re)assignments**, on any number of lasers and profiles,
shared profiles and re-assignment of the same profile included -/
theorem attach_history_inv (ops : List (Nat × Nat)) (s : Scene) (h : SubInv s) : SubInv (attachAll s ops) := by
  induction ops generalizing s with
  | nil => exact h
  | cons op rest ih => obtain ⟨l, p⟩ := op; exact ih _ (attach_inv s h l p)

/-- so a change of the held profile always reaches the laser (and no other profile's notifier does) -/
theorem notified_iff_holds (ops : List (Nat × Nat)) (l p : Nat) :
    l ∈ (attachAll emptyScene ops).subs p ↔ (attachAll emptyScene ops).cur l = some p := by
  have := attach_history_inv ops emptyScene subInv_empty l p
  rw [← List.count_pos_iff, this]
  split <;> simp_all

-- non-vacuity, and the seeded ordering as a counter-example: re-assigning the same profile loses the subscription
example : (attachAll emptyScene [(0, 5), (0, 5), (1, 5), (0, 7)]).subs 5 = [1] := by decide
example : (attachSwapped (attach emptyScene 0 5) 0 5).subs 5 = [] := by decide
example : (attach (attach emptyScene 0 5) 0 5).subs 5 = [0] := by decide

/-- a notification reaches every live observer exactly as often as it is registered, whatever dead (collected)
observers are registered before or after it, and afterwards only the live registrations remain -/
theorem notify_reaches_every_live_observer (alive : Nat → Bool) (subs : List Nat) (l : Nat) (hl : alive l = true) :
    (notifyRun alive subs).1.count l = subs.count l ∧ (notifyRun alive subs).2 = subs.filter alive := by
  refine ⟨?_, rfl⟩
  simp only [notifyRun]
  rw [List.count_filter hl]

/-- with the subscription invariant: after any (re)assignment history, whichever lasers have since been discarded, a
change of profile `p` is delivered exactly once to every surviving laser that holds `p` -/
theorem surviving_holder_is_notified_once (ops : List (Nat × Nat)) (alive : Nat → Bool) (l p : Nat)
    (hl : alive l = true) (hh : (attachAll emptyScene ops).cur l = some p) :
    (notifyRun alive ((attachAll emptyScene ops).subs p)).1.count l = 1 := by
  rw [(notify_reaches_every_live_observer alive _ l hl).1,
    attach_history_inv ops emptyScene subInv_empty l p, hh]
  simp

-- non-vacuity: laser 0 (registered first) is dead, laser 1 alive; and the seeded purge-in-loop misses laser 1
example : (notifyRun (fun l => l == 1) ((attachAll emptyScene [(0, 5), (1, 5)]).subs 5)).1 = [1] := by decide
example : notifyPurgeInLoop (fun l => l == 1) ((attachAll emptyScene [(0, 5), (1, 5)]).subs 5) = [] := by decide

end Subscriptions

/-! ## non-vacuity: concrete instances over ℚ -/
section Examples

def qExt : Ext ℚ := { c := 299792458, pi := 3, sqrt := fun x => x, exp := fun _ => 1, erf := fun x => x,
                      floorDiv := fun a b => ⌊a / b⌋, toNat := fun x => ⌊x⌋.toNat }

-- L = 5, r = 1: two segments of height 5/2 ; L = 1 < 2r: a single segment of height 1
example : (generateSegmentedCylinder qExt 1 5).map (·.map fun s => (s.z0, s.height, s.radius))
    = some [(0, 5/2, 1), (5/2, 5/2, 1)] := by decide +kernel
example : (generateSegmentedCylinder qExt 1 1).map (·.map fun s => (s.z0, s.height, s.radius))
    = some [(0, 1, 1)] := by decide +kernel
-- constant spectrum on [1,3] with 4 bins: psd 1/2 in every bin, total power 1
example : psdList (trapezoidPsd (constEval (1 : ℚ) 3)) 1 3 4 = [1/2, 1/2, 1/2, 1/2] := by decide +kernel
example : sumList (powerList (trapezoidPsd (constEval (1 : ℚ) 3)) 1 3 4) = 1 := by decide +kernel
-- telescoping with erf := id, mean 2, k = 1: ½((3−2) − (1−2)) = 1
example : sumList (powerList (gaussBinPsd (fun x : ℚ => x) 2 1 (delta 1 3 4)) 1 3 4) = 1 := by decide +kernel
example : bins (1 : ℚ) 3 4 = [(1, 3/2), (3/2, 2), (2, 5/2), (5/2, 3)] := by decide +kernel
example : wavelengths (1 : ℚ) 3 4 = [5/4, 7/4, 9/4, 11/4] := by decide +kernel

end Examples

end Cherab.Props.C18
