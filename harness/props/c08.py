"""C08 — ADF parsers return the file's numbers under the documented conventions.

T  lean/Cherab/Props/C08.lean over lean/Cherab/Model/Adf.lean (layer 2: structure of the parsers over abstract lines and
   tokens; writers render11/12/15/2x beside them) — round trips for all grid sizes / block counts, axis order, charge
   convention, rejection theorems.
K  translator harness/translators/adf_lex.py re-reads every regular expression, column slice and conversion constant of
   the anchored sources into Gen/AdfLex.lean (the text layer is a transcription of exactly those literals; a theorem
   pins them).  Correspondence: Python generates tables as opaque Fortran-formatted tokens, the Lean driver renders the
   file *text* with the model's writers and parses it back (text views and canonical views must agree); the same text
   is parsed by the real parse_adf*, installed with install_adf* into a temporary repository and read back with get_*.
S  direct oracle, no model: what the real parser / repository returns must equal the generated tables after the
   documented conversions; wrong element header / absent block must raise.
"""
import json
import math
import os
import shutil
import sys
import tempfile

# the code under test computes DEFAULT_REPOSITORY_PATH from ~ at import: redirect HOME first
_HOME = tempfile.mkdtemp(prefix='c08home_')
os.environ['HOME'] = _HOME

import numpy as np  # noqa: E402

from harness.vlib.util import call  # noqa: E402

REL_POW = 1e-13      # 10**x through numpy vs Python's pow
CONV = {
    'id': lambda x: x,
    'pcm3': lambda x: x * 1e6,
    'cm3': lambda x: x * 1e-6,
    'p10': lambda x: 10 ** x,
    'p10pcm3': lambda x: (10 ** x) * 1e6,
    'p10cm3': lambda x: (10 ** x) * 1e-6,
    'ang': lambda x: x / 10,
}


def tokf(t):
    return float(t.replace('D', 'E'))


def same(a, b, tag):
    a = float(a); b = float(b)
    if tag.startswith('p10'):
        return abs(a - b) <= REL_POW * max(abs(a), abs(b))
    return a == b


def cmp_field(real, tag, toks):
    """real: scalar / 1-D / 2-D array-like from the implementation; toks: same nesting of token strings.
    returns None if equal else a short description"""
    f = CONV[tag]
    if isinstance(toks, str):
        try:
            r = float(real)
        except Exception:
            return 'not a scalar: %r' % (real,)
        return None if same(r, f(tokf(toks)), tag) else 'got %r want %r' % (r, f(tokf(toks)))
    arr = np.asarray(real, dtype=float)
    if toks and isinstance(toks[0], list):
        shape = (len(toks), len(toks[0]))
        if arr.shape != shape:
            return 'shape %r want %r' % (arr.shape, shape)
        for i, row in enumerate(toks):
            for j, t in enumerate(row):
                if not same(arr[i, j], f(tokf(t)), tag):
                    return '[%d][%d] got %r want %r' % (i, j, float(arr[i, j]), f(tokf(t)))
        return None
    if arr.shape != (len(toks),):
        return 'shape %r want %r' % (arr.shape, (len(toks),))
    for i, t in enumerate(toks):
        if not same(arr[i], f(tokf(t)), tag):
            return '[%d] got %r want %r' % (i, float(arr[i]), f(tokf(t)))
    return None


def cmp_struct(real, struct, fields=None):
    """struct: {name: (tag, toks)}; real: mapping name -> value.  First difference or None."""
    for name, (tag, toks) in struct.items():
        if fields is not None and name not in fields:
            continue
        if name not in real:
            return '%s: missing' % name
        d = cmp_field(real[name], tag, toks)
        if d:
            return '%s: %s' % (name, d)
    return None


def parse_model_struct(s, tags):
    """'name:a,b;name2:a,b/c,d;…' -> {name: (tag, toks)} with the tag table of the format"""
    out = {}
    for part in s.split(';'):
        name, _, body = part.partition(':')
        if '/' in body or name in tags.get('_matrix', ()):
            val = [row.split(',') if row else [] for row in body.split('/')] if body else []
        elif name in tags.get('_scalar', ()):
            val = body
        else:
            val = body.split(',') if body else []
        out[name] = (tags[name], val)
    return out


def struct_eq(a, b):
    return a == b


# ------------------------------------------------------------------------------------------------ number formats
def e3(x):
    """1PE9.3-style token, 9 characters for positive numbers"""
    return '%.3E' % x


def rnd_pos(rng, lo, hi):
    return 10 ** rng.uniform(lo, hi)


def grid_size(rng, ctx, big=30):
    """sizes 1..big with the residues mod 8 (and mod 6) spread deliberately"""
    k = rng.random()
    if k < 0.15:
        return rng.choice([1, 2, 7, 8, 9, 15, 16, 17, 23, 24, 25, 30])
    return rng.randint(1, big)


def increasing(rng, n, lo, hi):
    xs = sorted(rng.uniform(lo, hi) for _ in range(n))
    return xs


class World:
    """temporary ADAS tree + repository"""

    def __init__(self):
        self.root = tempfile.mkdtemp(prefix='c08_')
        self.adas = os.path.join(self.root, 'adas')
        self.repo = os.path.join(self.root, 'repo')
        os.makedirs(self.adas)
        os.makedirs(self.repo)
        self.n = 0

    def write(self, text, name=None):
        self.n += 1
        rel = name or ('f%05d.dat' % self.n)
        p = os.path.join(self.adas, rel)
        os.makedirs(os.path.dirname(p), exist_ok=True)
        with open(p, 'w') as f:
            f.write(text)
        return rel, p

    def fresh_repo(self):
        shutil.rmtree(self.repo, ignore_errors=True)
        os.makedirs(self.repo)

    def close(self):
        shutil.rmtree(self.root, ignore_errors=True)


def quiet(f, *a, **k):
    """install_* print progress lines; keep the check's output readable"""
    old = sys.stdout
    sys.stdout = open(os.devnull, 'w')
    try:
        return call(f, *a, **k)
    finally:
        sys.stdout.close()
        sys.stdout = old


# ------------------------------------------------------------------------------------------------ ADF21 / ADF22
TAGS2X = {k: {'e': 'id', 'n': 'pcm3', 't': 'id', 'sen': nrm, 'st': nrm, 'eref': 'id', 'nref': 'pcm3', 'tref': 'id', 'sref': nrm,
              '_scalar': ('eref', 'nref', 'tref', 'sref'), '_matrix': ('sen',)}
          for k, nrm in (('adf21', 'cm3'), ('bmp', 'id'), ('bme', 'cm3'))}


def gen_2x(ctx, rng):
    from cherab.core.atomic import hydrogen, deuterium, helium, carbon, neon, beryllium
    kind = rng.choice(['adf21', 'bmp', 'bme'])
    neb, ndt, ntt = grid_size(rng, ctx), grid_size(rng, ctx), grid_size(rng, ctx)
    eb = [e3(x) for x in increasing(rng, neb, 5e3, 2e5)]
    dt = [e3(10 ** x) for x in increasing(rng, ndt, 10, 15)]
    tt = [e3(10 ** x) for x in increasing(rng, ntt, 0, 4)]
    scale = 1e-7 if kind != 'bmp' else 1e-2
    sv = [[e3(scale * rng.uniform(0.1, 9)) for _ in range(ndt)] for _ in range(neb)]      # sv[i_e][i_n]
    svt = [e3(scale * rng.uniform(0.1, 9)) for _ in range(ntt)]
    target, zt = rng.choice([(hydrogen, 1), (helium, 2), (carbon, 6), (neon, 10), (beryllium, 4), (deuterium, 1)])
    beam = rng.choice([hydrogen, deuterium])
    hdr = dict(zt=zt, spec=target.symbol.upper(), svref=e3(scale * rng.uniform(0.1, 9)), tref=e3(rnd_pos(rng, 1, 4)),
               eref=e3(rnd_pos(rng, 4, 5)), dref=e3(rnd_pos(rng, 12, 14)))
    flat = [sv[i][j] for j in range(ndt) for i in range(neb)]
    line = ' '.join(['adf2x', str(zt), hdr['spec'], hdr['svref'], hdr['tref'], hdr['eref'], hdr['dref'],
                     str(neb), str(ndt), str(ntt)] + eb + dt + tt + svt + flat)
    t = TAGS2X[kind]
    struct = {'e': (t['e'], eb), 'n': (t['n'], dt), 't': (t['t'], tt), 'sen': (t['sen'], sv), 'st': (t['st'], svt),
              'eref': (t['eref'], hdr['eref']), 'nref': (t['nref'], hdr['dref']), 'tref': (t['tref'], hdr['tref']),
              'sref': (t['sref'], hdr['svref'])}
    return dict(fmt='2x', kind=kind, line=line, struct=struct, sizes=(neb, ndt, ntt), beam=beam, target=target, zt=zt,
                meta=rng.choice([1, 2, 3]), transition=rng.choice([(3, 2), (4, 2), (2, 1)]),
                desc=dict(format=kind, neb=neb, ndt=ndt, ntt=ntt, target=target.symbol, charge=zt))


def run_2x(ctx, w, c, text, model):
    from cherab.openadas import parse as P, install as I, repository as R
    kind = c['kind']
    rel, path = w.write(text)
    beam, target, zt = c['beam'], c['target'], c['zt']
    sig = 'C08:%s' % kind
    # ---- parse
    if kind == 'adf21':
        st, r = call(P.parse_adf21, beam, target, zt, path)
        got = r[beam][target][zt] if st == 'ok' else None
    elif kind == 'bmp':
        st, r = call(P.parse_adf22bmp, beam, c['meta'], target, zt, path)
        got = r[beam][c['meta']][target][zt] if st == 'ok' else None
    else:
        st, r = call(P.parse_adf22bme, beam, target, zt, c['transition'], path)
        got = r[beam][target][zt][c['transition']] if st == 'ok' else None
    res = dict(parse_status=st)
    if st != 'ok':
        res['oracle'] = (False, sig + ':parse-raised', 'parse raised %s: %s' % (st, r))
        res['impl_vs_model'] = 'impl raised %s, model %s' % (st, model[:40])
        return res
    d = cmp_struct(got, c['struct'])
    res['oracle'] = (d is None, sig + ':parse:' + (d or '').split(':')[0], 'parse_%s: %s' % (kind, d))
    if model.startswith('ok '):
        ms = parse_model_struct(model[3:], TAGS2X[kind])
        res['impl_vs_model'] = cmp_struct(got, ms)
        res['model_vs_tables'] = None if ms == c['struct'] else 'model parse differs from the generated tables'
    else:
        res['impl_vs_model'] = 'model says %s, implementation parsed the file' % model
    # ---- install + read back
    if kind == 'adf21':
        st2, e = quiet(I.install_adf21, beam, target, zt, rel, repository_path=w.repo, adas_path=w.adas)
        st3, back = call(R.get_beam_stopping_rate, beam, target, zt, w.repo)
    elif kind == 'bmp':
        st2, e = quiet(I.install_adf22bmp, beam, c['meta'], target, zt, rel, repository_path=w.repo, adas_path=w.adas)
        st3, back = call(R.get_beam_population_rate, beam, c['meta'], target, zt, w.repo)
    else:
        st2, e = quiet(I.install_adf22bme, beam, target, zt, c['transition'], rel, repository_path=w.repo, adas_path=w.adas)
        st3, back = call(R.get_beam_emission_rate, beam, target, zt, c['transition'], w.repo)
    if st2 != 'ok' or st3 != 'ok':
        res['install'] = (False, sig + ':install-raised', 'install %s / get %s: %s %s' % (st2, st3, e, back if st3 != 'ok' else ''))
    else:
        d2 = cmp_struct(back, c['struct'])
        res['install'] = (d2 is None, sig + ':install:' + (d2 or '').split(':')[0], 'install_%s -> get: %s' % (kind, d2))
    return res


GENS = {'2x': (gen_2x, run_2x)}


# ------------------------------------------------------------------------------------------------ driver
def run(ctx):
    ctx.rule = ('generated ADF files: tables of random Fortran-formatted tokens, grid sizes 1..30 (residues mod 8 / mod 6 spread), '
                '1..12 blocks, ADF11 resolved/unresolved, ADF15 hydrogen / hydrogen-like / full dialects, EXCIT/RECOM/CHEXC; '
                'a case is distinct by (format, variant, grid sizes, block count); non-trivial = the real parser returned tables '
                'that were compared entry by entry')
    ctx.trusted += ['text layer of the model (column slices, regular-expression recognisers, Fortran layout) is transcribed, not proved; '
                    'tied by the correspondence run and by the generated literal table Gen/AdfLex.lean',
                    'numeric tokens are opaque in the model; Python float() and numpy parse the same token text',
                    'unit conversions are symbolic tags in the model; the arithmetic (x*1e6, x*1e-6, 10**x, x/10) is done by the harness',
                    'JSON float round trip of the repository (shortest repr, exact)']
    ctx.assumptions += ['"well-formed file" = produced by the writers render11/12/15/2x of Model/Adf.lean rendered by Model/AdfText.lean '
                        '(real ADAS files are not available offline)',
                        'tokens fit their Fortran fields (positive numbers in 9 columns for ADF12/21/22, log10 values > -100 for ADF11)']
    ctx.lean_check(['Cherab.Props.C08'], 'Cherab/Audit/C08.lean')
    os.environ['HOME'] = _HOME
    w = World()
    try:
        _streams(ctx, w)
    finally:
        w.close()
        shutil.rmtree(_HOME, ignore_errors=True)


def _streams(ctx, w):
    rng = ctx.rng
    cases = []
    for _ in range(ctx.n(60, 900)):
        cases.append(gen_2x(ctx, rng))
    outs = ctx.driver([c['line'] for c in cases])
    ctx.traces = 0
    for c, o in zip(cases, outs):
        parts = o.split('#')
        if len(parts) != 3:
            ctx.broke('correspondence', 'C08 driver protocol', dict(case=c['desc'], answer=o[:200]))
            continue
        text = parts[0].replace('|', '\n') + '\n'
        model, agree = parts[1], parts[2]
        gen, runner = GENS[c['fmt']]
        res = runner(ctx, w, c, text, model)
        key = (c['fmt'], c.get('kind'), c['sizes'])
        ctx.count('%s:%s' % (c['fmt'], c.get('kind')))
        ctx.case(key=key if res.get('parse_status') == 'ok' else None,
                 sample=dict(case=c['desc'], file_head=text.split('\n')[:6]) if rng.random() < 0.02 else None)
        ctx.traces += 1
        if agree != '1':
            ctx.disagreements += 1
            ctx.broke('correspondence', 'C08 text views vs canonical views (%s)' % c['fmt'], dict(case=c['desc'], model=model[:300]))
        for k in ('impl_vs_model', 'model_vs_tables'):
            if res.get(k):
                ctx.disagreements += 1
                ctx.count('disagreement:' + c['fmt'])
                ctx.broke('correspondence', 'C08 stream %s %s' % (c['fmt'], k), dict(case=c['desc'], detail=res[k], file=text[:1500]))
        for k in ('oracle', 'install'):
            if k in res:
                ok, sig, why = res[k]
                if not ok:
                    ctx.fail(sig, why, dict(case=c['desc'], file=text, line=c['line']))


def replay(ctx, path):
    r = json.load(open(path))
    print(json.dumps(r, indent=1)[:3000])
    run(ctx)
    return ctx.finish()
