/- helper lemmas for C16 (Python min/max folds, validated edge arrays) -/
import Cherab.Model.Instruments
import Mathlib.Tactic.Ring
import Mathlib.Tactic.Linarith
import Mathlib.Tactic.FieldSimp
import Mathlib.Tactic.Positivity
import Mathlib.Algebra.Order.Field.Basic
import Mathlib.Algebra.Order.Floor.Ring
import Mathlib.Algebra.Order.Ring.Rat

namespace Cherab.Lemmas.Instruments
set_option linter.unusedSectionVars false
open Cherab.Instruments

variable {α : Type} [Field α] [LinearOrder α] [IsStrictOrderedRing α]

theorem pmin_eq (a b : α) : pmin a b = min a b := by
  unfold pmin; split_ifs with h
  · exact (min_eq_right h.le).symm
  · exact (min_eq_left (not_lt.mp h)).symm

theorem pmax_eq (a b : α) : pmax a b = max a b := by
  unfold pmax; split_ifs with h
  · exact (max_eq_right h.le).symm
  · exact (max_eq_left (not_lt.mp h)).symm

theorem pmin_le_left (a b : α) : pmin a b ≤ a := by rw [pmin_eq]; exact min_le_left _ _
theorem pmin_le_right (a b : α) : pmin a b ≤ b := by rw [pmin_eq]; exact min_le_right _ _
theorem le_pmax_left (a b : α) : a ≤ pmax a b := by rw [pmax_eq]; exact le_max_left _ _
theorem le_pmax_right (a b : α) : b ≤ pmax a b := by rw [pmax_eq]; exact le_max_right _ _

theorem foldl_pmin_le (l : List α) (x : α) : l.foldl pmin x ≤ x ∧ ∀ y ∈ l, l.foldl pmin x ≤ y := by
  induction l generalizing x with
  | nil => simp
  | cons a t ih =>
    simp only [List.foldl, List.mem_cons, forall_eq_or_imp]
    obtain ⟨h1, h2⟩ := ih (pmin x a)
    have ha : pmin x a ≤ x := by rw [pmin_eq]; exact min_le_left _ _
    have hb : pmin x a ≤ a := by rw [pmin_eq]; exact min_le_right _ _
    exact ⟨h1.trans ha, h1.trans hb, h2⟩

theorem foldl_pmin_mem (l : List α) (x : α) : l.foldl pmin x = x ∨ l.foldl pmin x ∈ l := by
  induction l generalizing x with
  | nil => simp
  | cons a t ih =>
    simp only [List.foldl, List.mem_cons]
    rcases ih (pmin x a) with h | h
    · rw [h]; unfold pmin; split_ifs <;> simp
    · right; right; exact h

theorem foldl_pmax_ge (l : List α) (x : α) : x ≤ l.foldl pmax x ∧ ∀ y ∈ l, y ≤ l.foldl pmax x := by
  induction l generalizing x with
  | nil => simp
  | cons a t ih =>
    simp only [List.foldl, List.mem_cons, forall_eq_or_imp]
    obtain ⟨h1, h2⟩ := ih (pmax x a)
    have ha : x ≤ pmax x a := by rw [pmax_eq]; exact le_max_left _ _
    have hb : a ≤ pmax x a := by rw [pmax_eq]; exact le_max_right _ _
    exact ⟨ha.trans h1, hb.trans h1, h2⟩

theorem foldl_pmax_mem (l : List α) (x : α) : l.foldl pmax x = x ∨ l.foldl pmax x ∈ l := by
  induction l generalizing x with
  | nil => simp
  | cons a t ih =>
    simp only [List.foldl, List.mem_cons]
    rcases ih (pmax x a) with h | h
    · rw [h]; unfold pmax; split_ifs <;> simp
    · right; right; exact h

theorem minL_le {l : List α} {m : α} (h : minL l = some m) : ∀ y ∈ l, m ≤ y := by
  cases l with
  | nil => simp [minL] at h
  | cons x xs =>
    simp only [minL, Option.some.injEq] at h
    subst h
    intro y hy
    rcases List.mem_cons.mp hy with rfl | hy
    · exact (foldl_pmin_le xs _).1
    · exact (foldl_pmin_le xs x).2 y hy

theorem minL_mem {l : List α} {m : α} (h : minL l = some m) : m ∈ l := by
  cases l with
  | nil => simp [minL] at h
  | cons x xs =>
    simp only [minL, Option.some.injEq] at h
    subst h
    rcases foldl_pmin_mem xs x with h | h
    · rw [h]; simp
    · exact List.mem_cons_of_mem _ h

theorem maxL_ge {l : List α} {m : α} (h : maxL l = some m) : ∀ y ∈ l, y ≤ m := by
  cases l with
  | nil => simp [maxL] at h
  | cons x xs =>
    simp only [maxL, Option.some.injEq] at h
    subst h
    intro y hy
    rcases List.mem_cons.mp hy with rfl | hy
    · exact (foldl_pmax_ge xs _).1
    · exact (foldl_pmax_ge xs x).2 y hy

theorem maxL_mem {l : List α} {m : α} (h : maxL l = some m) : m ∈ l := by
  cases l with
  | nil => simp [maxL] at h
  | cons x xs =>
    simp only [maxL, Option.some.injEq] at h
    subst h
    rcases foldl_pmax_mem xs x with h | h
    · rw [h]; simp
    · exact List.mem_cons_of_mem _ h

theorem optAll_some {β : Type} {l : List (Option β)} {r : List β} (h : optAll l = some r) : l = r.map some := by
  induction l generalizing r with
  | nil => simp [optAll] at h; subst h; rfl
  | cons a t ih =>
    cases a with
    | none => simp [optAll] at h
    | some x =>
      simp only [optAll, Option.map_eq_some_iff] at h
      obtain ⟨r', hr', rfl⟩ := h
      rw [ih hr']; rfl

theorem optAll_map_mem {β γ : Type} {f : γ → Option β} {l : List γ} {r : List β} (h : optAll (l.map f) = some r) :
    (∀ x ∈ l, ∃ y ∈ r, f x = some y) ∧ (∀ y ∈ r, ∃ x ∈ l, f x = some y) := by
  have := optAll_some h
  constructor
  · intro x hx
    have : f x ∈ r.map some := by rw [← this]; exact List.mem_map_of_mem hx
    obtain ⟨y, hy, e⟩ := List.mem_map.mp this
    exact ⟨y, hy, e.symm⟩
  · intro y hy
    have : some y ∈ l.map f := by rw [this]; exact List.mem_map_of_mem hy
    obtain ⟨x, hx, e⟩ := List.mem_map.mp this
    exact ⟨x, hx, e⟩

/-- strictly increasing edge arrays: what `validEdges` establishes -/
theorem validEdges_cons {a b : α} {rest : List α} (h : validEdges (a :: b :: rest) = true) :
    a < b ∧ (rest = [] ∨ validEdges (b :: rest) = true) := by
  cases rest with
  | nil => simpa [validEdges] using h
  | cons c r => simp only [validEdges, Bool.and_eq_true, decide_eq_true_eq] at h; exact ⟨h.1, Or.inr h.2⟩

/-- head ≤ every element ≤ last, for a valid array -/
theorem validEdges_bounds : ∀ (l : List α), validEdges l = true →
    ∀ f la, l.head? = some f → l.getLast? = some la → f < la ∧ ∀ e ∈ l, f ≤ e ∧ e ≤ la
  | [], h => by simp [validEdges] at h
  | [_], h => by simp [validEdges] at h
  | a :: b :: rest, h => by
    intro f la hf hl
    obtain ⟨hab, hr⟩ := validEdges_cons h
    simp only [List.head?_cons, Option.some.injEq] at hf
    subst hf
    rcases hr with rfl | hr
    · simp at hl; subst hl
      refine ⟨hab, ?_⟩
      intro e he; simp at he; rcases he with rfl | rfl
      · exact ⟨le_refl _, hab.le⟩
      · exact ⟨hab.le, le_refl _⟩
    · have hl' : (b :: rest).getLast? = some la := by
        rw [List.getLast?_cons_cons] at hl; exact hl
      obtain ⟨hbl, hall⟩ := validEdges_bounds (b :: rest) hr b la rfl hl'
      refine ⟨hab.trans hbl, ?_⟩
      intro e he
      rcases List.mem_cons.mp he with rfl | he
      · exact ⟨le_refl _, (hab.trans hbl).le⟩
      · obtain ⟨h1, h2⟩ := hall e he
        exact ⟨hab.le.trans h1, h2⟩

/-- every pixel of a valid array has positive width, and widths are the `diffs` -/
theorem validEdges_diffs_pos : ∀ (l : List α), validEdges l = true → ∀ d ∈ diffs l, 0 < d
  | [], h => by simp [validEdges] at h
  | [_], h => by simp [validEdges] at h
  | a :: b :: rest, h => by
    obtain ⟨hab, hr⟩ := validEdges_cons h
    intro d hd
    simp only [diffs, List.mem_cons] at hd
    rcases hd with rfl | hd
    · linarith
    · rcases hr with rfl | hr
      · simp [diffs] at hd
      · exact validEdges_diffs_pos (b :: rest) hr d hd

theorem diffs_ne_nil_of_valid : ∀ (l : List α), validEdges l = true → diffs l ≠ []
  | [], h => by simp [validEdges] at h
  | [_], h => by simp [validEdges] at h
  | a :: b :: rest, _ => by simp [diffs]

/-- a pixel width never exceeds the array's extent -/
theorem diffs_le_extent : ∀ (l : List α), validEdges l = true →
    ∀ f la, l.head? = some f → l.getLast? = some la → ∀ d ∈ diffs l, d ≤ la - f
  | [], h => by simp [validEdges] at h
  | [_], h => by simp [validEdges] at h
  | a :: b :: rest, h => by
    intro f la hf hl d hd
    obtain ⟨hab, hr⟩ := validEdges_cons h
    simp only [List.head?_cons, Option.some.injEq] at hf
    subst hf
    simp only [diffs, List.mem_cons] at hd
    rcases hr with rfl | hr
    · simp at hl; subst hl
      rcases hd with rfl | hd
      · exact le_refl _
      · simp [diffs] at hd
    · have hl' : (b :: rest).getLast? = some la := by
        rw [List.getLast?_cons_cons] at hl; exact hl
      obtain ⟨hbl, _⟩ := validEdges_bounds (b :: rest) hr b la rfl hl'
      rcases hd with rfl | hd
      · linarith
      · have := diffs_le_extent (b :: rest) hr b la rfl hl' d hd
        linarith

theorem optAll_map_exists {β γ : Type} (f : γ → Option β) (l : List γ) (h : ∀ x ∈ l, ∃ y, f x = some y) :
    ∃ r, optAll (l.map f) = some r ∧ (l ≠ [] → r ≠ []) := by
  induction l with
  | nil => exact ⟨[], rfl, fun h => absurd rfl h⟩
  | cons a t ih =>
    obtain ⟨y, hy⟩ := h a (List.mem_cons_self)
    obtain ⟨r, hr, _⟩ := ih (fun x hx => h x (List.mem_cons_of_mem _ hx))
    exact ⟨y :: r, by simp [optAll, hy, hr], fun _ => by simp⟩

theorem minL_exists {l : List α} (h : l ≠ []) : ∃ m, minL l = some m := by
  cases l with
  | nil => exact absurd rfl h
  | cons x xs => exact ⟨_, rfl⟩

theorem maxL_exists {l : List α} (h : l ≠ []) : ∃ m, maxL l = some m := by
  cases l with
  | nil => exact absurd rfl h
  | cons x xs => exact ⟨_, rfl⟩

theorem valid_ne_nil {l : List α} (h : validEdges l = true) : l ≠ [] := by
  rintro rfl; simp [validEdges] at h


/-! ### polychromator fold -/

/-- the accumulator of `Polychromator._update_spectral_settings` -/
def polyAcc (inf : α) (fs : List (PFilter α)) (mbpw : Nat) : α × α × α :=
  fs.foldl (fun (acc : α × α × α) f =>
    (pmin acc.1 (f.window / (mbpw : α)), pmin acc.2.1 f.minW, pmax acc.2.2 f.maxW)) (inf, inf, 0)

theorem polySettings_eq (ceil : α → Int) (inf : α) (fs : List (PFilter α)) (mbpw : Nat) :
    polySettings ceil inf fs mbpw =
      ⟨(polyAcc inf fs mbpw).2.1, (polyAcc inf fs mbpw).2.2, (polyAcc inf fs mbpw).1,
        ceil (((polyAcc inf fs mbpw).2.2 - (polyAcc inf fs mbpw).2.1) / (polyAcc inf fs mbpw).1)⟩ := rfl

theorem poly_fold_bounds (mbpw : Nat) (fs : List (PFilter α)) (acc : α × α × α) :
    let r := fs.foldl (fun (acc : α × α × α) f =>
      (pmin acc.1 (f.window / (mbpw : α)), pmin acc.2.1 f.minW, pmax acc.2.2 f.maxW)) acc
    (r.1 ≤ acc.1 ∧ r.2.1 ≤ acc.2.1 ∧ acc.2.2 ≤ r.2.2) ∧
    (∀ f ∈ fs, r.1 ≤ f.window / (mbpw : α) ∧ r.2.1 ≤ f.minW ∧ f.maxW ≤ r.2.2) ∧
    ((r.1 = acc.1 ∨ ∃ f ∈ fs, r.1 = f.window / (mbpw : α)) ∧ (r.2.1 = acc.2.1 ∨ ∃ f ∈ fs, r.2.1 = f.minW) ∧
      (r.2.2 = acc.2.2 ∨ ∃ f ∈ fs, r.2.2 = f.maxW)) := by
  induction fs generalizing acc with
  | nil => simp
  | cons g t ih =>
    simp only [List.foldl, List.mem_cons, forall_eq_or_imp, exists_eq_or_imp]
    obtain ⟨⟨a1, a2, a3⟩, hall, ⟨m1, m2, m3⟩⟩ := ih (pmin acc.1 (g.window / (mbpw : α)), pmin acc.2.1 g.minW, pmax acc.2.2 g.maxW)
    simp only at a1 a2 a3 m1 m2 m3
    refine ⟨⟨a1.trans (pmin_le_left _ _), a2.trans (pmin_le_left _ _), (le_pmax_left _ _).trans a3⟩,
      ⟨⟨a1.trans (pmin_le_right _ _), a2.trans (pmin_le_right _ _), (le_pmax_right _ _).trans a3⟩, hall⟩, ?_, ?_, ?_⟩
    · rcases m1 with h | h
      · rw [h]; unfold pmin; split_ifs <;> simp
      · exact Or.inr (Or.inr h)
    · rcases m2 with h | h
      · rw [h]; unfold pmin; split_ifs <;> simp
      · exact Or.inr (Or.inr h)
    · rcases m3 with h | h
      · rw [h]; unfold pmax; split_ifs <;> simp
      · exact Or.inr (Or.inr h)


/-! ### class-table interpreter: assigned attributes stay assigned -/

theorem mem_dedup_aux (l acc : List Nat) (x : Nat) :
    x ∈ l.foldl (fun acc x => if acc.contains x then acc else acc ++ [x]) acc ↔ x ∈ acc ∨ x ∈ l := by
  induction l generalizing acc with
  | nil => simp
  | cons a t ih =>
    simp only [List.foldl, List.mem_cons]
    rw [ih]
    by_cases h : acc.contains a
    · simp only [h, if_true]
      have : a ∈ acc := by simpa using h
      constructor
      · rintro (h | h); exact Or.inl h; exact Or.inr (Or.inr h)
      · rintro (h | rfl | h); exact Or.inl h; exact Or.inl this; exact Or.inr h
    · have h' : acc.contains a = false := by simpa using h
      simp only [h', Bool.false_eq_true, if_false, List.mem_append, List.mem_singleton]
      constructor
      · rintro ((h | h) | h); exact Or.inl h; exact Or.inr (Or.inl h); exact Or.inr (Or.inr h)
      · rintro (h | h | h); exact Or.inl (Or.inl h); exact Or.inl (Or.inr h); exact Or.inr h

theorem mem_dedup (l : List Nat) (x : Nat) : x ∈ dedup l ↔ x ∈ l := by
  unfold dedup; rw [mem_dedup_aux]; simp

/-- attributes a statement touches -/
def stmtAttrs : Stmt → List Nat
  | .setNone a => [a] | .assign a _ _ _ => [a] | .read a => [a] | .ifNone a _ => [a] | _ => []

theorem mentioned_of_body (t : ClassTable) (m : Nat) (b : List Stmt) (hb : t.body m = some b) :
    ∀ st ∈ b, ∀ a ∈ stmtAttrs st, a ∈ allMentioned t := by
  intro st hst a ha
  unfold allMentioned
  rw [mem_dedup]
  simp only [ClassTable.body, Option.map_eq_some_iff] at hb
  obtain ⟨md, hmd, rfl⟩ := hb
  have hmem : md ∈ t.methods := List.mem_of_getElem? hmd
  refine List.mem_flatMap.mpr ⟨md, hmem, List.mem_flatMap.mpr ⟨st, hst, ?_⟩⟩
  cases st <;> simp_all [stmtAttrs]

/-- every attribute the class ever touches has been assigned -/
def Defined (t : ClassTable) (s : St) : Prop := ∀ a ∈ allMentioned t, s.get a ≠ .unset

theorem defined_write (t : ClassTable) (s : St) (a : Nat) (v : Shape) (hv : v ≠ .unset) (h : Defined t s) :
    Defined t (s.write a v) := by
  intro b hb
  have := h b hb
  simp only [St.get, St.write, List.getD_eq_getElem?_getD, List.getElem?_set] at this ⊢
  by_cases hab : a = b
  · subst hab
    by_cases hl : a < s.sh.length
    · simp [hl, hv]
    · have hn : s.sh[a]? = none := List.getElem?_eq_none (not_lt.mp hl)
      simp [hn] at this
  · simpa [hab] using this

def GoodRes (t : ClassTable) : Res → Prop
  | .ok s => Defined t s
  | .ret s => Defined t s
  | .notImpl s => Defined t s
  | .attrErr _ _ => False
  | .stuck _ => True

theorem exec_defined (t : ClassTable) : ∀ (f : Nat) (l : List Stmt) (s : St),
    (∀ st ∈ l, ∀ a ∈ stmtAttrs st, a ∈ allMentioned t) → Defined t s → GoodRes t (exec t f l s)
  | _, [], s, _, hs => by simpa [exec, GoodRes] using hs
  | 0, _ :: _, _, _, _ => by simp [exec, GoodRes]
  | f + 1, st :: rest, s, hm, hs => by
    have hrest : ∀ st' ∈ rest, ∀ a ∈ stmtAttrs st', a ∈ allMentioned t :=
      fun st' h => hm st' (List.mem_cons_of_mem _ h)
    have hst := hm st (List.mem_cons_self)
    cases st with
    | setNone a =>
      simp only [exec]
      exact exec_defined t f rest _ hrest (defined_write t s a .none (by decide) hs)
    | assign a fa rs ms =>
      simp only [exec]
      exact exec_defined t f rest _ hrest (defined_write t s a .val (by decide) hs)
    | read a =>
      simp only [exec]
      have ha := hs a (hst a (by simp [stmtAttrs]))
      split
      · rename_i h; exact absurd h ha
      · exact exec_defined t f rest s hrest hs
    | call m =>
      simp only [exec]
      split
      · simp [GoodRes]
      · rename_i b hb
        have hbody := exec_defined t f b s (mentioned_of_body t m b hb) hs
        split
        · rename_i s' h'; rw [h'] at hbody; exact exec_defined t f rest s' hrest hbody
        · rename_i s' h'; rw [h'] at hbody; exact exec_defined t f rest s' hrest hbody
        · rename_i e h1 h2
          exact hbody
    | ifNone a k =>
      simp only [exec]
      have ha := hs a (hst a (by simp [stmtAttrs]))
      split
      · rename_i h; exact absurd h ha
      · exact exec_defined t f rest s hrest hs
      · exact exec_defined t f (rest.drop k) s (fun st' h => hrest st' (List.mem_of_mem_drop h)) hs
    | ret => simpa [exec, GoodRes] using hs
    | abort => simpa [exec, GoodRes] using hs
    | unknown w => simp [exec, GoodRes]


theorem runMethod_good (t : ClassTable) (s : St) (m : Nat) (hs : Defined t s) : GoodRes t (runMethod t s m) := by
  unfold runMethod
  apply exec_defined
  · intro st hst a ha
    simp only [List.mem_singleton] at hst
    subst hst
    simp [stmtAttrs] at ha
  · exact hs

theorem defined_of_initStatic (t : ClassTable) (h : initStaticB t = true) (hk : t.knownUninit = []) :
    Defined t (initState t) := by
  intro a ha
  simp only [initStaticB, List.all_eq_true, hk] at h
  have := h a ha
  simpa using this


/-! ### unfolding `spectralSettings` -/

theorem spectralSettings_unfold {ceil : α → Int} {w2p : List (List α)} {mbpp : Nat} {s : Settings α}
    (h : spectralSettings ceil w2p mbpp = some s) :
    ∃ firsts lasts widths w,
      optAll (w2p.map List.head?) = some firsts ∧ optAll (w2p.map List.getLast?) = some lasts ∧
      optAll (w2p.map fun a => minL (diffs a)) = some widths ∧
      minL firsts = some s.minW ∧ maxL lasts = some s.maxW ∧ minL widths = some w ∧
      s.step = w / (mbpp : α) ∧ s.bins = ceil ((s.maxW - s.minW) / s.step) := by
  unfold spectralSettings at h
  split at h
  · rename_i firsts lasts widths h1 h2 h3
    split at h
    · rename_i mn mx w h4 h5 h6
      simp only [Option.some.injEq] at h
      subst h
      exact ⟨firsts, lasts, widths, w, h1, h2, h3, h4, h5, h6, rfl, rfl⟩
    · cases h
  · cases h


/-! ### invalidation protocol helpers -/

section protocol
variable {P C : Type} [DecidableEq P] [DecidableEq C]

/-- observing a freshly built instance with parameter versions `ver` -/
theorem fresh_obs (pr : Inval.Proto P C) (ver : P → Nat) (c : C) :
    (Inval.step pr (freshAt ver) (.obs c)).2 = some ((pr.deps c).map ver) := by
  simp [Inval.step, Inval.fill, Inval.view, freshAt]

theorem ver_fill (s : Inval.St P C) (c : C) : (Inval.fill s c).ver = s.ver := by
  unfold Inval.fill; split <;> rfl

theorem ver_run_filter (pr : Inval.Proto P C) (ops : List (Inval.Op P C)) (s s' : Inval.St P C) (h : s.ver = s'.ver) :
    (Inval.run pr s ops).ver = (Inval.run pr s' (ops.filter isSet)).ver := by
  induction ops generalizing s s' with
  | nil => simpa [Inval.run] using h
  | cons o os ih =>
    cases o with
    | set p =>
      simp only [List.filter, isSet, Inval.run, List.foldl, Inval.step]
      apply ih
      simp [Inval.setP, h]
    | obs c =>
      simp only [List.filter, isSet, Inval.run, List.foldl, Inval.step]
      apply ih
      rw [ver_fill]; exact h

end protocol

/-! ### sorting -/

theorem sorted_eq_of_perm (l₁ l₂ : List α) (h : l₁.Perm l₂) :
    l₁.mergeSort (fun a b => decide (a ≤ b)) = l₂.mergeSort (fun a b => decide (a ≤ b)) := by
  apply List.Perm.eq_of_pairwise (le := fun a b => decide (a ≤ b) = true)
  · intro a b _ _ h1 h2; exact le_antisymm (by simpa using h1) (by simpa using h2)
  · exact List.pairwise_mergeSort (fun a b c h1 h2 => by simp at *; exact le_trans h1 h2)
      (fun a b => by simp; exact le_total a b) l₁
  · exact List.pairwise_mergeSort (fun a b c h1 h2 => by simp at *; exact le_trans h1 h2)
      (fun a b => by simp; exact le_total a b) l₂
  · exact ((List.mergeSort_perm l₁ _).trans h).trans (List.mergeSort_perm l₂ _).symm


end Cherab.Lemmas.Instruments
