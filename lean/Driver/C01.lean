import Cherab.Drv.Proto
import Cherab.Model.NotifyGraph
import Cherab.Model.CherabDeps
import Cherab.Model.Notifier
import Cherab.Gen.NotifyEdges
import Cherab.Model.Subscription
import Cherab.Gen.SetterEvents
import Cherab.Gen.CacheReads
open Cherab.Drv Cherab.NotifyGraph Cherab.CherabDeps Cherab.Gen.NotifyEdges

/-- C01 driver.
  clears <param-node>        caches the generated graph says are invalidated by that mutator
  uncovered                  (cache,param) pairs of the dependency table the graph does not cover
  notifier <ops…>            Notifier model: ops `a<obj>.<name>` add, `r<obj>.<name>` remove, `k<obj>` kill, `n` notify;
                             prints the callbacks invoked by each notify
  subs <setter> <p1> <p2> …  Subscription model: the generated event list of that setter run over the assignment history;
                             prints the providers whose notifier lists the callback afterwards (or `unknown-setter`)
  readers <param-node>       caches whose fill functions read that parameter (generated read table `Gen/CacheReads`)
  reads <cache>              the generated read set of that cache
-/
def parseEntry (s : String) : Nat × Nat :=
  match s.splitOn "." with
  | [a, b] => (a.toNat!, b.toNat!)
  | _ => (0, 0)

def notifierRun (ops : List String) : String :=
  let (_, outs) := ops.foldl (fun (acc : Cherab.Notifier.St × List String) o =>
    let (s, out) := acc
    let op : Cherab.Notifier.Op :=
      if o.startsWith "a" then .add (parseEntry (o.drop 1).toString)
      else if o.startsWith "r" then .remove (parseEntry (o.drop 1).toString)
      else if o.startsWith "k" then .kill (o.drop 1).toString.toNat!
      else .notify
    let (s', called) := Cherab.Notifier.step s op
    match op with
    | .notify => (s', out ++ ["[" ++ ",".intercalate (called.map fun e => s!"{e.1}.{e.2}") ++ "]"])
    | _ => (s', out)) (Cherab.Notifier.init, [])
  " ".intercalate outs

def step (ts : List String) : String :=
  match ts with
  | ["clears", p] => " ".intercalate (clearsOf nodeNames edges fuel deps p)
  | ["uncovered"] => " ".intercalate ((uncovered nodeNames edges fuel deps).map fun (c, p) => c ++ "<-" ++ p)
  | ["known", p] => fB ((idOf nodeNames p).isSome)
  | ["readers", p] => " ".intercalate ((Cherab.Gen.CacheReads.cacheReads.filter fun e => e.2.contains p).map (·.1))
  | ["reads", c] => " ".intercalate (depsOf Cherab.Gen.CacheReads.cacheReads c)
  | "notifier" :: ops => notifierRun ops
  | "subs" :: name :: ps =>
      match Cherab.Gen.setterEvents.find? (fun r => r.1 == name) with
      | some r => " ".intercalate ((Cherab.Subscription.run r.2 Cherab.Subscription.init (ps.map String.toNat!)).subs.map toString)
      | none => "unknown-setter"
  | _ => "bad-op"

def main : IO UInt32 := do
  loop (stateless step) (← IO.getStdin) (← IO.getStdout) ()
  return 0
