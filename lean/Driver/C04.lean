import Cherab.Drv.Proto
import Cherab.Model.BeamDensity
open Cherab.Drv Cherab.BeamDensity

/-- C04 driver.  State = knots of the line-density interpolator produced by the last `att` command. -/
abbrev St := List (Float × Float)

def piF : Float := 3.141592653589793
def degToRadF : Float := piF / 180.0
def ceilNatF (x : Float) : Nat := (Float.ceil x).toUInt64.toNat

/-- the harness' family of stopping-rate functions (same expression, same order, in harness/props/c04.py) -/
def rateF (c a b : Float) (e n t : Float) : Float :=
  c * (1.0 + a * e / (e + 5e4)) * (2.0 - 1.0 / (1.0 + n / 1e19)) * (1.0 + b * t / (t + 1e3))

/-- parse `ns` species headers `Z c a b` -/
def parseHeads : Nat → List String → List (Nat × Float × Float × Float) × List String
  | 0, ts => ([], ts)
  | k + 1, z :: c :: a :: b :: ts =>
      let (r, ts') := parseHeads k ts
      ((pN z, pF c, pF a, pF b) :: r, ts')
  | _, ts => ([], ts)

/-- parse one axis point: for every species `n T vx vy vz` -/
def parsePoint : List (Nat × Float × Float × Float) → List String → List (Target Float) × List String
  | [], ts => ([], ts)
  | (z, c, a, b) :: hs, n :: t :: vx :: vy :: vz :: ts =>
      let (r, ts') := parsePoint hs ts
      ({ charge := z, n := pF n, t := pF t, v := (pF vx, pF vy, pF vz), rate := rateF c a b } :: r, ts')
  | _, ts => ([], ts)

def parsePoints (hs : List (Nat × Float × Float × Float)) : Nat → List String → List (List (Target Float))
  | 0, _ => []
  | k + 1, ts =>
      let (p, ts') := parsePoint hs ts
      p :: parsePoints hs k ts'

def optF : Option Float → String
  | some v => fF v
  | none => "ValueError"

def step (st : St) (ts : List String) : St × String :=
  match ts with
  | ["count", l, s] => (st, toString (sampleCount ceilNatF (pF l) (pF s)))
  | ["node", l, n, i] => (st, fF (node (pF l) (pN n) (pN i)))
  | ["src", ec, amu, e, p, m] => (st, fF (sourceDensity Float.sqrt (pF ec) (pF amu) (pF e) (pF p) (pF m)))
  | "rargs" :: ec :: amu :: e :: dx :: dy :: dz :: ns :: rest =>
      let (hs, rest) := parseHeads (pN ns) rest
      let (tg, _) := parsePoint hs rest
      let speed := beamSpeed Float.sqrt (pF ec) (pF amu) (pF e)
      let bv := beamVelocity Float.sqrt (pF dx, pF dy, pF dz) speed
      let ds := densitySum tg
      (st, fFs (tg.foldr (fun s acc =>
        let a := rateArgs Float.sqrt (evAmuFactor (pF ec) (pF amu)) bv ds s
        a.1 :: a.2.1 :: a.2.2 :: acc) []))
  | "att" :: ec :: amu :: e :: p :: m :: l :: n :: dx :: dy :: dz :: ns :: rest =>
      let (hs, rest) := parseHeads (pN ns) rest
      let targets := parsePoints hs (pN n) rest
      let zs := nodes (pF l) (pN n)
      let speed := beamSpeed Float.sqrt (pF ec) (pF amu) (pF e)
      let bv := beamVelocity Float.sqrt (pF dx, pF dy, pF dz) speed
      let ss := targets.map (beamStopping Float.sqrt (evAmuFactor (pF ec) (pF amu)) bv)
      let knots := calcAttenuation Float.sqrt Float.exp (pF ec) (pF amu) (pF e) (pF p) (pF m)
        (pF dx, pF dy, pF dz) zs targets
      (knots, fFs (ss ++ knots.map (·.2)))
  | ["line", z] => (st, optF (interpEval 1e-9 st (pF z)))
  | ["dens", sigma, divx, divy, clamp, cs, l, x, y, z] =>
      let tx := tanDiv Float.tan degToRadF (pF divx)
      let ty := tanDiv Float.tan degToRadF (pF divy)
      (st, optF (beamDensity Float.sqrt Float.exp piF (pF sigma) tx ty (pF l) (pB clamp) (pF cs * pF cs)
        (interpEval 1e-9 st) (pF x) (pF y) (pF z)))
  | ["adens", sigma, divx, divy, clamp, cs, x, y, z] =>
      let tx := tanDiv Float.tan degToRadF (pF divx)
      let ty := tanDiv Float.tan degToRadF (pF divy)
      (st, optF (attDensity Float.sqrt Float.exp piF (pF sigma) tx ty (pB clamp) (pF cs * pF cs)
        (interpEval 1e-9 st) (pF x) (pF y) (pF z)))
  | ["dir", sigma, divx, divy, x, y, z] =>
      let tx := tanDiv Float.tan degToRadF (pF divx)
      let ty := tanDiv Float.tan degToRadF (pF divy)
      let d := beamDirection Float.sqrt (pF sigma) tx ty (pF x) (pF y) (pF z)
      (st, fFs [d.1, d.2.1, d.2.2])
  | _ => (st, "bad-op")

def main : IO UInt32 := do
  loop step (← IO.getStdin) (← IO.getStdout) ([] : St)
  return 0
