#!/usr/bin/env python3
"""regenerates the table between the SEEDED-TABLE markers of DESIGN.md from seeded/*/meta.json"""
import json, os, glob, re
D = os.path.dirname(os.path.dirname(os.path.abspath(__file__)))
rows = ['| id | property | change (needs … to manifest) | check result | how it is caught | re-check with the final machinery |', '|---|---|---|---|---|---|']
def _key(f):
    i = os.path.basename(os.path.dirname(f)); a, b = i.split('-'); return (a, int(b))
for f in sorted(glob.glob(os.path.join(D, 'seeded', '*', 'meta.json')), key=_key):
    m = json.load(open(f))
    c = m.get('check', {})
    rc = os.path.join(os.path.dirname(f), 'recheck.json')
    rtxt = ''
    if os.path.exists(rc):
        r = json.load(open(rc))
        rtxt = '%s (exit %s; /repo %s, /verif %s)' % (r['verdict'], r['check_exit'], r['repo_head'], r['verif_head'])
    sig = '; '.join(s.split(' ')[0] for s in c.get('signatures', [])[:2])
    rows.append('| %s | %s | %s (%s) | exit %s, %s VIOLATION line(s) | %s%s | %s |' % (
        m['id'], m['property'], (m.get('summary') or '').replace('|', '/')[:160], (m.get('needs_to_manifest') or '').replace('|', '/')[:140],
        c.get('exit'), c.get('violation_lines'), c.get('verdict'), ((' — ' + sig) if sig else '') + ((' — *' + m['history'] + '*') if m.get('history') else ''), rtxt))
p = os.path.join(D, 'DESIGN.md')
s = open(p).read()
a, b = '<!-- SEEDED-TABLE-BEGIN -->', '<!-- SEEDED-TABLE-END -->'
if a in s and b in s:
    s = s[:s.index(a) + len(a)] + '\n' + '\n'.join(rows) + '\n' + s[s.index(b):]
    open(p, 'w').write(s)
print('\n'.join(rows))
