import Cherab.Lemmas.CachingEval

/-! C14 helper, part 7: the 3-D coordinate denormalisation identity, obtained from the 2-D one (`denorm2`) slab by slab
plus the 1-D Taylor shift along x (a direct expansion of all 64 × 64 terms is out of reach of `ring`). -/
namespace Cherab.Caching
set_option linter.unusedSimpArgs false
set_option linter.unusedSectionVars false
variable {α : Type} [Field α] [LinearOrder α] [IsStrictOrderedRing α]

/-- the `a`-th `y,z` slab of a 3-D coefficient vector -/
def slab (c : Nat → α) (a : Nat) : Nat → α := fun n => c (16 * a + n)

theorem polyDeriv3_split (c : Nat → α) (px py pz : α) (i j k : Nat) :
    polyDeriv3 c px py pz i j k = sum4 (fun a => derivArr px i a * polyDeriv2 (slab c a) py pz j k) := by
  simp only [polyDeriv3, polyDeriv2, lin4, sum4, slab]

theorem poly3_split (c : Nat → α) (q : α × α × α) :
    poly3 c q = poly2 (slab c 0) (q.2.1, q.2.2) + q.1 * poly2 (slab c 1) (q.2.1, q.2.2)
      + q.1 * q.1 * poly2 (slab c 2) (q.2.1, q.2.2) + q.1 * q.1 * q.1 * poly2 (slab c 3) (q.2.1, q.2.2) := by
  simp only [poly3, poly2, cub, slab]

theorem fact_ne (n : Nat) : ((fact n : Nat) : α) ≠ 0 := by
  have : 0 < fact n := by
    induction n with
    | zero => simp [fact]
    | succ k ih => simp only [fact]; positivity
  exact_mod_cast this.ne'

/-- value normalisation without the offset -/
def Norm.noOffset (nm : Norm α) : Norm α := { nm with dmin := 0 }

/-- a 3-D denormalised coefficient is the x-axis Taylor shift of the 2-D denormalised slab coefficients -/
theorem finish3_split (E : Ext α) (ax ay az : Axis α) (nm : Norm α) (c : Nat → α) (n : Nat) :
    finish3 E ax ay az nm c n =
      E.powi ax.dinv (n / 16) / ((fact (n / 16) : Nat) : α) *
        sum4 (fun a => derivArr (-ax.dinv * ax.xmin) (n / 16) a * finish2 E ay az nm.noOffset (slab c a) (n % 16))
      + (if n = 0 then nm.dmin else 0) := by
  have h1 : n % 16 / 4 = n / 4 % 4 := by omega
  have h2 : n % 16 % 4 = n % 4 := by omega
  have f1 := fact_ne (α := α) (n / 16)
  have f2 := fact_ne (α := α) (n / 4 % 4)
  have f3 := fact_ne (α := α) (n % 4)
  simp only [finish3, finish2, polyDeriv3_split, sum4, h1, h2, Norm.noOffset, add_zero, ite_self, Nat.cast_mul]
  split_ifs <;> field_simp <;> ring

theorem denorm3 (E : Ext α) (hp : ∀ x n, E.powi x n = x ^ n) (ax ay az : Axis α) (nm : Norm α) (c : Nat → α)
    (p : α × α × α) :
    poly3 (finish3 E ax ay az nm c) p =
      nm.delta * poly3 c ((p.1 - ax.xmin) * ax.dinv, (p.2.1 - ay.xmin) * ay.dinv, (p.2.2 - az.xmin) * az.dinv)
        + nm.dmin := by
  have d0 := denorm2 E hp ay az nm.noOffset (slab c 0) (p.2.1, p.2.2)
  have d1 := denorm2 E hp ay az nm.noOffset (slab c 1) (p.2.1, p.2.2)
  have d2 := denorm2 E hp ay az nm.noOffset (slab c 2) (p.2.1, p.2.2)
  have d3 := denorm2 E hp ay az nm.noOffset (slab c 3) (p.2.1, p.2.2)
  simp only [show nm.noOffset.dmin = 0 from rfl, show nm.noOffset.delta = nm.delta from rfl, add_zero] at d0 d1 d2 d3
  rw [poly3_split c]
  simp only [poly3, cub, Nat.reduceAdd, finish3_split E ax ay az nm c, Nat.reduceDiv, Nat.reduceMod,
    OfNat.ofNat_ne_zero, if_false, if_true, sum4]
  simp only [poly2] at d0 d1 d2 d3 ⊢
  simp only [derivArr, fact, hp, OfNat.ofNat_ne_zero, OfNat.zero_ne_ofNat, if_false, if_true, one_ne_zero, zero_ne_one,
    Nat.reduceEqDiff, Nat.cast_ofNat, Nat.cast_one, Nat.reduceMul, Nat.succ_ne_self, OfNat.ofNat_ne_one,
    OfNat.one_ne_ofNat] at d0 d1 d2 d3 ⊢
  linear_combination d0 + ((p.1 - ax.xmin) * ax.dinv) * d1 + ((p.1 - ax.xmin) * ax.dinv) ^ 2 * d2
    + ((p.1 - ax.xmin) * ax.dinv) ^ 3 * d3
end Cherab.Caching
