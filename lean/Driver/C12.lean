import Cherab.Drv.Proto
import Cherab.Model.Equilibrium
open Cherab.Drv Cherab.Equilibrium

/-! C12 driver: the model of `Cherab/Model/Equilibrium.lean` at `Float`.

External functions are supplied by the harness as *point functions*: the raysect interpolators / polygon mask
were evaluated by the harness at one point `(r0, z0)`; the closure handed to the model returns that value
only when the model asks for exactly that point and NaN otherwise, so a model that queried a different point
than the implementation shows up in the comparison.  1-D profiles are quadratics `c0 + x*(c1 + x*c2)`
evaluated here (the Python callable given to cherab performs the same operations in the same order). -/

def nan : Float := 0.0 / 0.0

def ptFn (r0 z0 v : Float) : Float → Float → Float :=
  fun r z => if r == r0 && z == z0 then v else nan

def quad (c0 c1 c2 : Float) : Float → Float := fun x => c0 + x * (c1 + x * c2)

def piF : Float := 3.14159265358979323846

def fV (v : Option (V3 Float)) : String :=
  match v with
  | some w => fFs [w.x, w.y, w.z]
  | none => "E E E"

def noSlerp : V3 Float → V3 Float → Float → V3 Float := fun _ _ _ => ⟨nan, nan, nan⟩

/-- tokens after the point: raw poly dr dz f0 f1 f2 rvac bvac out c0 c1 c2 ox oy oz t0 t1 t2 p0 p1 p2 n0 n1 n2 -/
structure Args where
  e : Eq Float
  out : Float
  prof : Float → Float
  ov : V3 Float
  tor : Float → Float
  pol : Float → Float
  nrm : Float → Float

def mkArgs (r0 z0 : Float) (a : Array Float) : Args :=
  { e := { interpN := ptFn r0 z0 a[0]!, poly := ptFn r0 z0 a[1]!, dpsidr := ptFn r0 z0 a[2]!,
           dpsidz := ptFn r0 z0 a[3]!, fprof := quad a[4]! a[5]! a[6]!, rvac := a[7]!, bvac := a[8]! },
    out := a[9]!, prof := quad a[10]! a[11]! a[12]!, ov := ⟨a[13]!, a[14]!, a[15]!⟩,
    tor := quad a[16]! a[17]! a[18]!, pol := quad a[19]! a[20]! a[21]!, nrm := quad a[22]! a[23]! a[24]! }

def step (ts : List String) : String :=
  match ts with
  | ["pi"] => fF piF
  -- one node of a derivative grid: kind (0 first, 1 interior, 2 last), three psi values, three axis values
  -- (interior: the middle value is not used)
  | ["dnode", k, f0, f1, f2, r0, r1, r2] =>
      let g (a b c : Float) : Float :=
        if pN k == 0 then gradFirst a b c else if pN k == 1 then gradInterior a c else gradLast a b c
      fF (dpsiNode (g (pF f0) (pF f1) (pF f2)) (g (pF r0) (pF r1) (pF r2)))
  -- "rows ndim nrows ncols v..." (row-major): which two rows the code hands to the interpolator, or E (IndexError)
  | "rows" :: ndim :: nrows :: ncols :: vals =>
      let nc := pN ncols
      let fl := vals.map pF
      let rec chunk (n : Nat) (l : List Float) : List (List Float) :=
        match n with
        | 0 => []
        | n + 1 => l.take nc :: chunk n (l.drop nc)
      match profileOfArray (pN ndim) (chunk (pN nrows) fl) with
      | none => "E"
      | some (x, f) => String.intercalate " " [toString x.length, toString f.length, fFs x, fFs f]
  -- "pmask mesh x y n x0 … x(n-1) y0 … y(n-1)": the 2×N polygon as efit.pyx receives it; answer: winding number of the
  -- closed vertex list, point_inside_polygon (0/1), PolygonMask2D.evaluate
  | "pmask" :: mesh :: x :: y :: n :: vals =>
      let k := pN n
      let fl := vals.map pF
      if fl.length != 2 * k then "bad-arity" else
      let vs := polygonVertices (fl.take k) (fl.drop k)
      String.intercalate " " [toString (windingNumber (closePolygon vs) (pF x) (pF y)),
        if pointInsidePolygon (closePolygon vs) (pF x) (pF y) then "1" else "0",
        fF (polygonMask (pF mesh) vs (pF x) (pF y))]
  | ["psin", raw] => fF (psiN (fun _ _ => pF raw) 0 0)
  | ["norm", psi, ax, lc] => fF (normGrid (pF psi) (pF ax) (pF lc))
  | ["mask", poly, psin] => fF (insideLcfs (pF poly) (pF psin))
  | ["blend", t, f1, f2] => fF (blend (pF t) (pF f1) (pF f2))
  | ["bf", dr, dz, ins, psin, fv, rvac, bvac, r] =>
      let b := bField (pF dr) (pF dz) (pF ins) (pF psin) (fun _ => pF fv) (pF rvac) (pF bvac) (pF r)
      fFs [b.x, b.y, b.z]
  | ["pol", bx, by', bz] => fV (poloidalVector Float.sqrt ⟨pF bx, pF by', pF bz⟩)
  | ["nrm", bx, by', bz] => fV (surfaceNormal Float.sqrt ⟨pF bx, pF by', pF bz⟩)
  | ["vel", fx, fy, fz, psi, t, p, n] =>
      fV (fluxCoordToCartesian Float.sqrt ⟨pF fx, pF fy, pF fz⟩ (pF psi) (fun _ => pF t) (fun _ => pF p) (fun _ => pF n))
  | ["rot", x, y, z, rho, vx, vy, vz] =>
      fV (vectorAxisymmetric Float.sqrt Float.atan2 Float.cos Float.sin piF
            (fun r zz => if r == pF rho && zz == pF z then some ⟨pF vx, pF vy, pF vz⟩ else some ⟨nan, nan, nan⟩)
            (pF x) (pF y) (pF z))
  | "eq" :: r :: z :: rest =>
      let a := mkArgs (pF r) (pF z) (rest.map pF).toArray
      if rest.length != 25 then "bad-arity" else
      let r := pF r; let z := pF z
      let b := a.e.bField r z
      String.intercalate " " [fF (a.e.psiN r z), fF (a.e.inside r z), fFs [b.x, b.y, b.z],
        fV (a.e.poloidal Float.sqrt r z), fV (a.e.normal Float.sqrt r z),
        fF (a.e.map2d a.out a.prof r z), fV (a.e.mapVector2d Float.sqrt noSlerp a.ov a.tor a.pol a.nrm r z)]
  | "eq3" :: x :: y :: z :: rho :: rest =>
      let a := mkArgs (pF rho) (pF z) (rest.map pF).toArray
      if rest.length != 25 then "bad-arity" else
      String.intercalate " " [fF (a.e.map3d Float.sqrt a.out a.prof (pF x) (pF y) (pF z)),
        fV (a.e.mapVector3d Float.sqrt Float.atan2 Float.cos Float.sin piF noSlerp a.ov a.tor a.pol a.nrm (pF x) (pF y) (pF z))]
  | _ => "bad-op"

def main : IO UInt32 := do
  loop (stateless step) (← IO.getStdin) (← IO.getStdout) ()
  return 0
