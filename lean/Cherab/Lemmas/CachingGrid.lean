import Cherab.Lemmas.CachingMemo
import Mathlib.Tactic.NormNum.OfScientific
import Mathlib.Tactic.FieldSimp
import Mathlib.Tactic.Positivity
import Mathlib.Data.Nat.Cast.Order.Field

/-!
Helper lemmas for C14, part 2: the node grid is strictly increasing and covers the caching area; `cellOf`
(find_index + the `1 ≤ i ≤ top − 2` test) returns exactly the bracketing cell.
-/
namespace Cherab.Caching
set_option linter.unusedSectionVars false

section Grid
variable {α : Type} [Field α] [LinearOrder α] [IsStrictOrderedRing α]

theorem EPS_pos : (0 : α) < EPS := by unfold EPS; norm_num

theorem nNodes_ge (trunc : α → Nat) (mn mx dx : α) : 2 ≤ nNodes trunc mn mx dx := by
  unfold nNodes; exact le_max_right _ _

theorem nodeAt_zero (mn mx dx : α) (n : Nat) : nodeAt mn mx dx n 0 = mn - dx := by simp [nodeAt]

theorem nodeAt_top (mn mx dx : α) (n : Nat) : nodeAt mn mx dx n (n + 1) = mx + dx := by simp [nodeAt]

theorem nodeAt_one (mn mx dx : α) (n : Nat) (hn : 2 ≤ n) : nodeAt mn mx dx n 1 = mn - EPS := by
  have h1 : ¬ (n = 0) := by omega
  have h2 : ¬ (0 = n - 1) := by omega
  simp [nodeAt, linspace, h1, h2]

theorem nodeAt_last (mn mx dx : α) (n : Nat) (hn : 2 ≤ n) : nodeAt mn mx dx n n = mx + EPS := by
  have h0 : ¬ (n = 0) := by omega
  simp [nodeAt, linspace, h0]

/-- interior linspace values stay below the forced last value -/
theorem linspace_lt_last (a b : α) (hab : a < b) (n j : Nat) (hn : 2 ≤ n) (hj : j + 2 ≤ n) :
    (j : α) * ((b - a) / ((n - 1 : Nat) : α)) + a < b := by
  have hN : (0 : α) < ((n - 1 : Nat) : α) := by exact_mod_cast (by omega : 0 < n - 1)
  have hjN : (j : α) + 1 ≤ ((n - 1 : Nat) : α) := by exact_mod_cast (by omega : j + 1 ≤ n - 1)
  have hL : 0 < b - a := by linarith
  have hstep : 0 < (b - a) / ((n - 1 : Nat) : α) := div_pos hL hN
  have h1 : ((j : α) + 1) * ((b - a) / ((n - 1 : Nat) : α)) ≤ ((n - 1 : Nat) : α) * ((b - a) / ((n - 1 : Nat) : α)) :=
    mul_le_mul_of_nonneg_right hjN hstep.le
  have h2 : ((n - 1 : Nat) : α) * ((b - a) / ((n - 1 : Nat) : α)) = b - a := by field_simp
  nlinarith

theorem nodeAt_succ_lt (mn mx dx : α) (n : Nat) (hn : 2 ≤ n) (h : mn < mx) (hd : EPS < dx) (i : Nat)
    (hi : i ≤ n) : nodeAt mn mx dx n i < nodeAt mn mx dx n (i + 1) := by
  have he : (0 : α) < EPS := EPS_pos
  have hab : mn - EPS < mx + (EPS : α) := by linarith
  rcases Nat.eq_zero_or_pos i with rfl | hpos
  · rw [nodeAt_zero, nodeAt_one _ _ _ _ hn]; linarith
  · rcases Nat.lt_or_ge i n with hlt | hge
    · -- both are linspace values
      have e1 : nodeAt mn mx dx n i = linspace (mn - EPS) (mx + EPS) n (i - 1) := by
        have a1 : ¬ i = 0 := by omega
        have a2 : ¬ i = n + 1 := by omega
        simp [nodeAt, a1, a2]
      have e2 : nodeAt mn mx dx n (i + 1) = linspace (mn - EPS) (mx + EPS) n i := by
        have a2 : ¬ i = n := by omega
        simp [nodeAt, a2]
      rw [e1, e2]
      have hN : (0 : α) < ((n - 1 : Nat) : α) := by exact_mod_cast (by omega : 0 < n - 1)
      have hstep : 0 < (mx + EPS - (mn - EPS)) / ((n - 1 : Nat) : α) := div_pos (by linarith) hN
      have c1 : ¬ (i - 1 = n - 1) := by omega
      by_cases hl : i = n - 1
      · subst hl
        have c2 : ¬ (n - 1 - 1 = n - 1) := by omega
        simp only [linspace, c2, if_false, if_true]
        exact linspace_lt_last (mn - EPS) (mx + EPS) hab n (n - 1 - 1) hn (by omega)
      · simp only [linspace, c1, hl, if_false]
        have hc : ((i - 1 : Nat) : α) + 1 = (i : α) := by
          have : i - 1 + 1 = i := by omega
          exact_mod_cast this
        nlinarith
    · have : i = n := by omega
      subst this
      rw [nodeAt_last _ _ _ _ hn, nodeAt_top]; linarith

/-- the node array is strictly increasing (so `find_index`'s contract is met) -/
theorem nodeAt_strictMono (mn mx dx : α) (n : Nat) (hn : 2 ≤ n) (h : mn < mx) (hd : EPS < dx) :
    ∀ i j, i < j → j ≤ n + 1 → nodeAt mn mx dx n i < nodeAt mn mx dx n j := by
  intro i j hij
  induction j with
  | zero => omega
  | succ k ih =>
    intro hk
    rcases Nat.lt_or_ge i k with hlt | hge
    · exact lt_trans (ih hlt (by omega)) (nodeAt_succ_lt mn mx dx n hn h hd k (by omega))
    · have : i = k := by omega
      subst this
      exact nodeAt_succ_lt mn mx dx n hn h hd i (by omega)

end Grid

section Cell
variable {α : Type} [Field α] [LinearOrder α] [IsStrictOrderedRing α]

/-- an axis whose node array is strictly increasing up to `top` -/
def Axis.Sorted (ax : Axis α) : Prop := ∀ i j, i < j → j ≤ ax.top → ax.dom i < ax.dom j

/-- whatever the node values, a located cell brackets the point and passes the range test -/
theorem cellOf_some (ax : Axis α) (p : α) (i : Nat) (h : cellOf ax p = some i) :
    1 ≤ i ∧ i + 2 ≤ ax.top ∧ ax.dom i ≤ p ∧ p < ax.dom (i + 1) := by
  unfold cellOf at h
  simp only [] at h
  split at h
  · rename_i hr
    cases h
    rcases findIndex_cases ax.dom ax.top p with c | c | c | c | c
    · rw [c.2] at hr; omega
    · rw [c.2.2] at hr; omega
    · rw [c.2] at hr; omega
    · rw [c.2.2] at hr; omega
    · obtain ⟨k, hk, k2, k3, k4⟩ := findIndex_bracket ax.dom ax.top p c.1 c.2.1
      rw [hk] at hr ⊢
      simp only [Int.toNat_natCast]
      exact ⟨by omega, by omega, k3, k4⟩
  · cases h

/-- on a sorted axis a bracketing interior cell is the one returned -/
theorem cellOf_of_bracket (ax : Axis α) (hs : ax.Sorted) (p : α) (i : Nat) (h1 : 1 ≤ i) (h2 : i + 2 ≤ ax.top)
    (hl : ax.dom i ≤ p) (hu : p < ax.dom (i + 1)) : cellOf ax p = some i := by
  have h0 : ax.dom 0 < p := lt_of_lt_of_le (hs 0 i (by omega) (by omega)) hl
  have ht : p < ax.dom ax.top := lt_trans hu (hs (i + 1) ax.top (by omega) le_rfl)
  obtain ⟨k, hk, k2, k3, k4⟩ := findIndex_bracket ax.dom ax.top p h0 ht
  have hki : k = i := by
    rcases Nat.lt_trichotomy k i with c | c | c
    · have : ax.dom (k + 1) ≤ ax.dom i := by
        rcases Nat.lt_or_ge (k + 1) i with d | d
        · exact (hs _ _ d (by omega)).le
        · have : k + 1 = i := by omega
          rw [this]
      exact absurd (lt_of_lt_of_le k4 (le_trans this hl)) (lt_irrefl _)
    · exact c
    · have : ax.dom (i + 1) ≤ ax.dom k := by
        rcases Nat.lt_or_ge (i + 1) k with d | d
        · exact (hs _ _ d (by omega)).le
        · have : i + 1 = k := by omega
          rw [this]
      exact absurd (lt_of_lt_of_le hu (le_trans this k3)) (lt_irrefl _)
  subst hki
  unfold cellOf
  simp only [hk, Int.toNat_natCast]
  have : (1 : Int) ≤ (k : Int) ∧ (k : Int) ≤ (ax.top : Int) - 2 := by omega
  simp [this]

/-- on a sorted axis every point of `[dom 1, dom (top−1))` lies in some cell … -/
theorem cellOf_inside (ax : Axis α) (hs : ax.Sorted) (htop : 3 ≤ ax.top) (p : α) (hl : ax.dom 1 ≤ p)
    (hu : p < ax.dom (ax.top - 1)) : ∃ i, cellOf ax p = some i := by
  have h0 : ax.dom 0 < p := lt_of_lt_of_le (hs 0 1 (by omega) (by omega)) hl
  have ht : p < ax.dom ax.top := lt_trans hu (hs _ _ (by omega) le_rfl)
  obtain ⟨k, hk, k2, k3, k4⟩ := findIndex_bracket ax.dom ax.top p h0 ht
  have hk1 : 1 ≤ k := by
    by_contra hc
    have : k = 0 := by omega
    subst this
    exact absurd (lt_of_lt_of_le k4 hl) (lt_irrefl _)
  have hk2 : k + 2 ≤ ax.top := by
    by_contra hc
    have hge : ax.top - 1 ≤ k := by omega
    have : ax.dom (ax.top - 1) ≤ ax.dom k := by
      rcases Nat.lt_or_ge (ax.top - 1) k with d | d
      · exact (hs _ _ d (by omega)).le
      · have : ax.top - 1 = k := by omega
        rw [this]
    exact absurd (lt_of_lt_of_le hu (le_trans this k3)) (lt_irrefl _)
  exact ⟨k, cellOf_of_bracket ax hs p k hk1 hk2 k3 k4⟩

/-- … and no point outside it does -/
theorem cellOf_outside (ax : Axis α) (hs : ax.Sorted) (p : α)
    (h : p < ax.dom 1 ∨ ax.dom (ax.top - 1) ≤ p) : cellOf ax p = none := by
  cases hc : cellOf ax p with
  | none => rfl
  | some i =>
    obtain ⟨a1, a2, a3, a4⟩ := cellOf_some ax p i hc
    rcases h with h | h
    · have : ax.dom 1 ≤ ax.dom i := by
        rcases Nat.lt_or_ge 1 i with d | d
        · exact (hs _ _ d (by omega)).le
        · have : 1 = i := by omega
          rw [this]
      exact absurd (lt_of_lt_of_le h (le_trans this a3)) (lt_irrefl _)
    · have : ax.dom (i + 1) ≤ ax.dom (ax.top - 1) := by
        rcases Nat.lt_or_ge (i + 1) (ax.top - 1) with d | d
        · exact (hs _ _ d (by omega)).le
        · have : i + 1 = ax.top - 1 := by omega
          rw [this]
      exact absurd (lt_of_lt_of_le a4 (le_trans this h)) (lt_irrefl _)

/-- the axis built by the constructor is sorted, has at least four nodes, is normalised as stated and covers the
caching area `[mn, mx]` with its interior cells -/
theorem mkAxis_sorted (trunc : α → Nat) (mn mx dx : α) (h : mn < mx) (hd : EPS < dx) :
    (mkAxis trunc mn mx dx).Sorted := by
  intro i j hij hj
  exact nodeAt_strictMono mn mx dx _ (nNodes_ge trunc mn mx dx) h hd i j hij hj

theorem mkAxis_top (trunc : α → Nat) (mn mx dx : α) : 3 ≤ (mkAxis trunc mn mx dx).top := by
  have := nNodes_ge trunc mn mx dx
  simp only [mkAxis]; omega

theorem mkAxis_covers (trunc : α → Nat) (mn mx dx : α) (p : α) (h1 : mn ≤ p) (h2 : p ≤ mx) :
    (mkAxis trunc mn mx dx).dom 1 ≤ p ∧ p < (mkAxis trunc mn mx dx).dom ((mkAxis trunc mn mx dx).top - 1) := by
  have hn := nNodes_ge trunc mn mx dx
  have he : (0 : α) < EPS := EPS_pos
  simp only [mkAxis, Nat.add_sub_cancel]
  rw [nodeAt_one _ _ _ _ hn, nodeAt_last _ _ _ _ hn]
  constructor <;> linarith

theorem mkAxis_xn (trunc : α → Nat) (mn mx dx : α) (i : Nat) :
    (mkAxis trunc mn mx dx).xn i =
      ((mkAxis trunc mn mx dx).dom i - (mkAxis trunc mn mx dx).xmin) * (mkAxis trunc mn mx dx).dinv := rfl

theorem mkAxis_dinv_ne (trunc : α → Nat) (mn mx dx : α) (h : mn < mx) (hd : EPS < dx) :
    (mkAxis trunc mn mx dx).dinv ≠ 0 := by
  have hs := mkAxis_sorted trunc mn mx dx h hd
  have := hs 0 (mkAxis trunc mn mx dx).top (by have := mkAxis_top trunc mn mx dx; omega) le_rfl
  have hne : (mkAxis trunc mn mx dx).dom (mkAxis trunc mn mx dx).top - (mkAxis trunc mn mx dx).dom 0 ≠ 0 := by
    intro h0; linarith
  simp only [mkAxis] at hne ⊢
  exact one_div_ne_zero hne

end Cell
end Cherab.Caching
