#!/bin/bash
# usage: rmwt.sh <dir>  — removes a scratch worktree made by mkwt.sh together with its build output
WT=$1
git -C /repo worktree remove --force "$WT" >/dev/null 2>&1
rm -rf "$WT"
git -C /repo worktree prune >/dev/null 2>&1
