import Cherab.Model.Adf
import Cherab.Lemmas.Adf
import Mathlib.Tactic.Ring
import Mathlib.Tactic.Linarith
import Mathlib.Data.List.Basic

/-!
Helper lemmas for the ADF15 part of C08: reading a block body, grouping the file into blocks, looking a block up by
its ISEL number, scraping the index section.
-/
namespace Cherab.Adf
set_option linter.unusedSectionVars false
set_option linter.unusedVariables false

variable {α ω σ : Type}

/-- the canonical views at the ambient token types -/
abbrev L15 (α ω σ : Type) : Lex15 (K15 α ω σ) α ω σ := lexK15

/-- the token lines of a block body: densities, temperatures, then one group of lines per density -/
def blkLines (b : Blk15 α ω) : List (List α) :=
  chunk 8 b.ne ++ chunk 8 b.te
    ++ (List.range b.ne.length).flatMap fun i => chunk 8 ((List.range b.te.length).map fun j => b.rate i j)

theorem renderBlk15_eq (b : Blk15 α ω) :
    renderBlk15 (σ := σ) b = .blockHdr b.wl b.ne.length b.te.length b.typ b.isel :: (blkLines b).map .data := by
  unfold renderBlk15 blkLines
  simp only [List.map_append, List.map_flatMap]

theorem split_data (xs : List α) : (L15 α ω σ).split (.data xs) = some xs := rfl

theorem flatten_flatMap_chunk' {β : Type} (l : List β) (f : β → List α) :
    (l.flatMap fun j => chunk 8 (f j)).flatten = l.flatMap f := by
  induction l with
  | nil => rfl
  | cons a l ih => simp only [List.flatMap_cons, List.flatten_append, ih, chunk_flatten' (by omega : 0 < 8)]

theorem flatMap_chunk_ne_nil {β : Type} (l : List β) (f : β → List α) :
    ∀ c ∈ (l.flatMap fun j => chunk 8 (f j)), c ≠ [] := by
  intro c hc
  simp only [List.mem_flatMap] at hc
  obtain ⟨j, _, hj⟩ := hc
  exact chunk_ne_nil (by omega) _ _ rfl c hj

theorem reshape_table (n m : Nat) (rate : Nat → Nat → α) :
    reshape n m ((List.range n).flatMap fun i => (List.range m).map fun j => rate i j) = tabulate n m rate := by
  unfold reshape tabulate
  apply map_range_congr
  intro i hi
  apply filterMap_range_some
  intro j hj
  exact getElem?_flatMap_range n m rate i j hi hj

/-- reading the body of a rendered block returns its tables, whatever follows the block -/
theorem readBlock15_render (b : Blk15 α ω) (extra : List (K15 α ω σ)) :
    readBlock15 (L15 α ω σ) { numN := some b.ne.length, numT := some b.te.length, isel := some b.isel }
      ((blkLines b).map .data ++ extra) = .ok (rateOfBlk15 b) := by
  unfold readBlock15 blkLines
  simp only [opt, bind, Except.bind, List.map_append, List.append_assoc]
  rw [readToks_lines (L15 α ω σ).split K15.data split_data b.ne.length _ (chunk 8 b.ne) 0 []
    (chunk_ne_nil (by omega) _ _ rfl) (by simp [chunk_flatten' (by omega : 0 < 8)])]
  simp only [List.nil_append, chunk_flatten' (by omega : 0 < 8)]
  rw [readToks_lines (L15 α ω σ).split K15.data split_data b.te.length _ (chunk 8 b.te) 0 []
    (chunk_ne_nil (by omega) _ _ rfl) (by simp [chunk_flatten' (by omega : 0 < 8)])]
  simp only [List.nil_append, chunk_flatten' (by omega : 0 < 8)]
  rw [readToks_lines (L15 α ω σ).split K15.data split_data (b.ne.length * b.te.length) extra _ 0 []
    (flatMap_chunk_ne_nil _ _) (by rw [flatten_flatMap_chunk', length_flatMap_range]; omega)]
  simp only [List.nil_append, flatten_flatMap_chunk', pure, Except.pure, reshape_table]
  rfl

/-! ### grouping -/

theorem groupAux_nowl (wl : K15 α ω σ → Bool) :
    ∀ (ls buf : List (K15 α ω σ)), (∀ l ∈ ls, wl l = false) → groupAux wl ls buf = [buf ++ ls] := by
  intro ls
  induction ls with
  | nil => intro buf _; simp [groupAux]
  | cons l ls ih =>
    intro buf h
    simp only [groupAux, h l List.mem_cons_self, Bool.false_eq_true, if_false]
    rw [ih _ (fun l' hl' => h l' (List.mem_cons_of_mem _ hl'))]
    simp

theorem groupAux_data (ds : List (List α)) (R buf : List (K15 α ω σ)) :
    groupAux (L15 α ω σ).wl (ds.map .data ++ R) buf = groupAux (L15 α ω σ).wl R (buf ++ ds.map .data) := by
  induction ds generalizing buf with
  | nil => simp
  | cons d ds ih =>
    have : (L15 α ω σ).wl (.data d) = false := rfl
    simp only [List.map_cons, List.cons_append, groupAux, this, Bool.false_eq_true, if_false]
    rw [ih]; simp

theorem groupAux_first (wl : K15 α ω σ → Bool) :
    ∀ (ls buf : List (K15 α ω σ)), buf ≠ [] → ∃ extra more, groupAux wl ls buf = (buf ++ extra) :: more := by
  intro ls
  induction ls with
  | nil => intro buf _; exact ⟨[], [], by simp [groupAux]⟩
  | cons l ls ih =>
    intro buf hb
    by_cases hw : wl l = true
    · refine ⟨[], groupAux wl ls [l], ?_⟩
      have : buf.isEmpty = false := by cases buf <;> simp_all
      simp [groupAux, hw, this]
    · obtain ⟨extra, more, h⟩ := ih (buf ++ [l]) (by simp)
      refine ⟨l :: extra, more, ?_⟩
      simp only [groupAux, hw, Bool.false_eq_true, if_false, h]
      simp

/-- the head line of a buffer does not identify block `k` -/
def SkipsHead (k : Nat) (h : K15 α ω σ) : Prop :=
  (L15 α ω σ).blockId h = none ∨ ∃ n t i, (L15 α ω σ).blockId h = some { numN := n, numT := t, isel := some i } ∧ (i == k) = false

theorem searchBlocks_skip (k : Nat) (h : K15 α ω σ) (body : List (K15 α ω σ)) (more : List (List (K15 α ω σ)))
    (hs : SkipsHead k h) : searchBlocks (L15 α ω σ) k ((h :: body) :: more) = searchBlocks (L15 α ω σ) k more := by
  rcases hs with hs | ⟨n, t, i, hs, hik⟩
  · simp [searchBlocks, hs]
  · simp [searchBlocks, hs, hik]

def findBlk (bs : List (Blk15 α ω)) (k : Nat) : Option (Blk15 α ω) := bs.find? (fun b => b.isel == k)

/-- **block lookup by ISEL**: scanning the grouped file returns the tables of the first block whose header carries
`ISEL = k`, and `RuntimeError` if there is none -/
theorem searchBlocks_render (k : Nat) (tl : List (K15 α ω σ)) (htl : ∀ l ∈ tl, (L15 α ω σ).wl l = false) :
    ∀ (bs : List (Blk15 α ω)) (h : K15 α ω σ) (body : List (K15 α ω σ)), SkipsHead k h →
      searchBlocks (L15 α ω σ) k (groupAux (L15 α ω σ).wl (bs.flatMap renderBlk15 ++ tl) (h :: body))
        = match findBlk bs k with
          | some b => .ok (rateOfBlk15 b)
          | none => .error .runtime := by
  intro bs
  induction bs with
  | nil =>
    intro h body hs
    simp only [List.flatMap_nil, List.nil_append, findBlk, List.find?_nil]
    rw [groupAux_nowl _ _ _ htl, List.cons_append, searchBlocks_skip k h _ _ hs]
    rfl
  | cons b bs ih =>
    intro h body hs
    simp only [List.flatMap_cons, renderBlk15_eq, List.cons_append, List.append_assoc]
    have hw : (L15 α ω σ).wl (.blockHdr b.wl b.ne.length b.te.length b.typ b.isel) = true := rfl
    rw [groupAux]
    simp only [hw, if_true, List.isEmpty_cons, Bool.false_eq_true, if_false]
    rw [searchBlocks_skip k h _ _ hs, groupAux_data]
    by_cases hk : (b.isel == k) = true
    · obtain ⟨extra, more, hg⟩ := groupAux_first (L15 α ω σ).wl (bs.flatMap renderBlk15 ++ tl)
        ([K15.blockHdr b.wl b.ne.length b.te.length b.typ b.isel] ++ (blkLines b).map .data) (by simp)
      rw [hg]
      have hid : (L15 α ω σ).blockId (.blockHdr b.wl b.ne.length b.te.length b.typ b.isel)
          = some { numN := some b.ne.length, numT := some b.te.length, isel := some b.isel } := rfl
      simp only [List.cons_append, searchBlocks, hid, hk, if_true, findBlk, List.find?_cons]
      exact readBlock15_render b extra
    · have hk' : (b.isel == k) = false := by simpa using hk
      have hsk : SkipsHead (α := α) (ω := ω) (σ := σ) k (.blockHdr b.wl b.ne.length b.te.length b.typ b.isel) :=
        Or.inr ⟨some b.ne.length, some b.te.length, b.isel, rfl, hk'⟩
      have := ih (.blockHdr b.wl b.ne.length b.te.length b.typ b.isel) ((blkLines b).map .data) hsk
      simp only [List.singleton_append]
      rw [this]
      simp [findBlk, hk']

/-! ### the file as header + blocks + comment tail -/

def cfgSection (t : Tab15 α ω σ) : List (K15 α ω σ) :=
  match t.dialect with
  | .full _ => [.cfgHeader, .comment] ++ t.cfgs.map (fun c => .cfgLine c.id c.conf c.spin c.l c.j) ++ [.comment]
  | _ => []

def idxSection (t : Tab15 α ω σ) : List (K15 α ω σ) :=
  [.idxHeader, .comment] ++ t.idx.map (renderIdx15 t.dialect) ++ [.comment, .comment]

def tail15 (t : Tab15 α ω σ) : List (K15 α ω σ) := [.comment, .comment] ++ cfgSection t ++ idxSection t

theorem render15_eq (t : Tab15 α ω σ) :
    render15 t = .fileHeader t.blocks.length :: (t.blocks.flatMap renderBlk15 ++ tail15 t) := by
  unfold render15 tail15 cfgSection idxSection
  cases t.dialect <;> simp

/-- a line that is neither a block header nor a data line -/
def K15.isComment : K15 α ω σ → Bool
  | .blockHdr .. => false
  | .data _ => false
  | .fileHeader _ => false
  | _ => true

theorem renderIdx15_isComment (d : Dialect) (e : Idx15 ω) : (renderIdx15 (α := α) (σ := σ) d e).isComment = true := by
  cases d <;> rfl

theorem cfgSection_isComment (t : Tab15 α ω σ) : ∀ l ∈ cfgSection t, l.isComment = true := by
  intro l hl
  unfold cfgSection at hl
  cases hd : t.dialect <;> simp only [hd, List.mem_append, List.mem_cons, List.mem_map, List.not_mem_nil, or_false] at hl
  rcases hl with ((rfl | rfl) | ⟨c, _, rfl⟩) | rfl <;> rfl

theorem idxSection_isComment (t : Tab15 α ω σ) : ∀ l ∈ idxSection t, l.isComment = true := by
  intro l hl
  unfold idxSection at hl
  simp only [List.mem_append, List.mem_cons, List.mem_map, List.not_mem_nil, or_false] at hl
  rcases hl with ((rfl | rfl) | ⟨e, _, rfl⟩) | (rfl | rfl)
  · rfl
  · rfl
  · exact renderIdx15_isComment _ e
  · rfl
  · rfl

theorem tail15_isComment (t : Tab15 α ω σ) : ∀ l ∈ tail15 t, l.isComment = true := by
  intro l hl
  unfold tail15 at hl
  rcases List.mem_append.mp hl with hl | hl
  · rcases List.mem_append.mp hl with hl | hl
    · simp only [List.mem_cons, List.not_mem_nil, or_false] at hl
      rcases hl with rfl | rfl <;> rfl
    · exact cfgSection_isComment t l hl
  · exact idxSection_isComment t l hl

theorem wl_of_isComment (l : K15 α ω σ) (h : l.isComment = true) : (L15 α ω σ).wl l = false := by
  cases l <;> first | rfl | (simp [K15.isComment] at h)

/-- `_extract_rate` on a rendered file -/
theorem extractRate_render (t : Tab15 α ω σ) (k : Nat) :
    extractRate (L15 α ω σ) (render15 t) k
      = match findBlk t.blocks k with
        | some b => .ok (rateOfBlk15 b)
        | none => .error .runtime := by
  unfold extractRate
  rw [render15_eq, groupAux]
  have hw : (L15 α ω σ).wl (.fileHeader t.blocks.length) = false := rfl
  simp only [hw, Bool.false_eq_true, if_false, List.nil_append]
  exact searchBlocks_render k (tail15 t) (fun l hl => wl_of_isComment l (tail15_isComment t l hl)) t.blocks
    (.fileHeader t.blocks.length) [] (Or.inl rfl)

/-! ### scraping -/

theorem dropUntil_skip (p : K15 α ω σ → Bool) (pre rest : List (K15 α ω σ)) (h : ∀ l ∈ pre, p l = false) :
    dropUntil p (pre ++ rest) = dropUntil p rest := by
  induction pre with
  | nil => rfl
  | cons a pre ih =>
    simp only [List.cons_append, dropUntil, h a List.mem_cons_self, Bool.false_eq_true, if_false]
    exact ih (fun l hl => h l (List.mem_cons_of_mem _ hl))

theorem takeUntil_skip (p : K15 α ω σ → Bool) (pre : List (K15 α ω σ)) (x : K15 α ω σ) (rest : List (K15 α ω σ))
    (h : ∀ l ∈ pre, p l = false) (hx : p x = true) :
    takeUntil p (pre ++ x :: rest) = .ok (pre, x :: rest) := by
  induction pre with
  | nil => simp [takeUntil, hx]
  | cons a pre ih =>
    simp only [List.cons_append, takeUntil, h a List.mem_cons_self, Bool.false_eq_true, if_false]
    rw [ih (fun l hl => h l (List.mem_cons_of_mem _ hl))]

theorem blockLines_views (bs : List (Blk15 α ω)) :
    ∀ l ∈ bs.flatMap (renderBlk15 (σ := σ)), (L15 α ω σ).idxHeader l = false ∧ (L15 α ω σ).cfgHeader l = false := by
  intro l hl
  simp only [List.mem_flatMap] at hl
  obtain ⟨b, _, hb⟩ := hl
  rw [renderBlk15_eq] at hb
  rcases List.mem_cons.mp hb with rfl | hb
  · exact ⟨rfl, rfl⟩
  · simp only [List.mem_map] at hb
    obtain ⟨d, _, rfl⟩ := hb
    exact ⟨rfl, rfl⟩

theorem cfgSection_idxHeader (t : Tab15 α ω σ) : ∀ l ∈ cfgSection t, (L15 α ω σ).idxHeader l = false := by
  intro l hl
  unfold cfgSection at hl
  cases hd : t.dialect <;> simp only [hd, List.mem_append, List.mem_cons, List.mem_map, List.not_mem_nil, or_false] at hl
  rcases hl with ((rfl | rfl) | ⟨c, _, rfl⟩) | rfl <;> rfl

/-- `while not re.match(pec_index_header_match, lines[0]): lines.pop(0)` stops at the index section -/
theorem dropUntil_idxHeader (t : Tab15 α ω σ) :
    dropUntil (L15 α ω σ).idxHeader (render15 t) = .ok (idxSection t) := by
  rw [render15_eq, tail15]
  have : (K15.fileHeader t.blocks.length :: (t.blocks.flatMap renderBlk15 ++ ([K15.comment, K15.comment] ++ cfgSection t ++ idxSection t)))
      = (K15.fileHeader t.blocks.length :: (t.blocks.flatMap renderBlk15 ++ ([K15.comment, K15.comment] ++ cfgSection t))) ++ idxSection t := by
    simp
  rw [this, dropUntil_skip]
  · simp [idxSection, dropUntil, lexK15]
  · intro l hl
    rcases List.mem_cons.mp hl with rfl | hl
    · rfl
    · rcases List.mem_append.mp hl with hl | hl
      · exact (blockLines_views t.blocks l hl).1
      · rcases List.mem_append.mp hl with hl | hl
        · simp only [List.mem_cons, List.not_mem_nil, or_false] at hl
          rcases hl with rfl | rfl <;> rfl
        · exact cfgSection_idxHeader t l hl

/-- scraping a list of index lines with a view that recognises every one of them -/
theorem scrapeWith_map (view : K15 α ω σ → Option (IdxMatch ω)) (r : Idx15 ω → K15 α ω σ) (en : Idx15 ω → Entry15 ω σ)
    (h : ∀ e, ∃ m, view (r e) = some m ∧ entryN m = .ok (en e)) (rest : List (K15 α ω σ)) (es : List (Entry15 ω σ))
    (hrest : scrapeWith view rest = .ok es) :
    ∀ (idx : List (Idx15 ω)), scrapeWith view (idx.map r ++ rest) = .ok (idx.map en ++ es) := by
  intro idx
  induction idx with
  | nil => simpa using hrest
  | cons e idx ih =>
    obtain ⟨m, hm, hen⟩ := h e
    simp only [List.map_cons, List.cons_append, scrapeWith, hm, hen, ih]

/-- … and with a view that recognises none of them -/
theorem scrapeWith_none (view : K15 α ω σ → Option (IdxMatch ω)) (ls : List (K15 α ω σ)) (h : ∀ l ∈ ls, view l = none) :
    scrapeWith (σ := σ) view ls = .ok [] := by
  induction ls with
  | nil => rfl
  | cons l ls ih =>
    simp only [scrapeWith, h l List.mem_cons_self]
    exact ih (fun l' hl' => h l' (List.mem_cons_of_mem _ hl'))

def entryNOf (e : Idx15 ω) : Entry15 ω σ := { typ := e.typ, tr := (.n e.up, .n e.lo), block := e.isel, wl := e.wl }

theorem idxSection_scrape (t : Tab15 α ω σ) (view : K15 α ω σ → Option (IdxMatch ω))
    (hh : view .idxHeader = none) (hc : view .comment = none) (es : List (Entry15 ω σ))
    (hmid : ∀ rest es', scrapeWith view rest = .ok es' →
      scrapeWith view (t.idx.map (renderIdx15 t.dialect) ++ rest) = .ok (es ++ es')) :
    scrapeWith view (idxSection t) = .ok es := by
  unfold idxSection
  simp only [List.cons_append, List.nil_append, scrapeWith, hh, hc]
  have := hmid [K15.comment, K15.comment] [] (by simp [scrapeWith, hc])
  simpa using this

theorem scrapeHydrogen_render (t : Tab15 α ω σ) (hd : t.dialect = .hydrogen) :
    scrapeHydrogen (L15 α ω σ) (render15 t) = .ok (t.idx.map entryNOf) := by
  unfold scrapeHydrogen
  simp only [bind, Except.bind, dropUntil_idxHeader]
  apply idxSection_scrape t _ rfl rfl
  intro rest es' hrest
  rw [hd]
  exact scrapeWith_map _ _ entryNOf (fun e => ⟨_, rfl, rfl⟩) rest es' hrest t.idx

theorem scrapeHydrogenLike_render (t : Tab15 α ω σ) (hd : t.dialect = .hydrogenLike) :
    scrapeHydrogenLike (L15 α ω σ) (render15 t) = .ok (t.idx.map entryNOf) := by
  unfold scrapeHydrogenLike
  simp only [bind, Except.bind, dropUntil_idxHeader]
  apply idxSection_scrape t _ rfl rfl
  intro rest es' hrest
  rw [hd]
  exact scrapeWith_map _ _ entryNOf (fun e => ⟨_, rfl, rfl⟩) rest es' hrest t.idx

/-- the hydrogen-like expression finds nothing in an index written in the hydrogen ("N= u - N= l") style:
this is what triggers the `bnd#` fallback -/
theorem scrapeHydrogenLike_on_hydrogen (t : Tab15 α ω σ) (hd : t.dialect = .hydrogen) :
    scrapeHydrogenLike (L15 α ω σ) (render15 t) = .ok [] := by
  unfold scrapeHydrogenLike
  simp only [bind, Except.bind, dropUntil_idxHeader]
  apply scrapeWith_none
  intro l hl
  unfold idxSection at hl
  simp only [hd, List.mem_append, List.mem_cons, List.mem_map, List.not_mem_nil, or_false] at hl
  rcases hl with ((rfl | rfl) | ⟨e, _, rfl⟩) | (rfl | rfl) <;> rfl

/-! ### full dialect: configuration table, then the index -/

def cfgEntry (c : Cfg15 σ) : Nat × Level σ := (c.id, Level.cfg c.conf c.spin c.l c.j)

def cfgTable (t : Tab15 α ω σ) : List (Nat × Level σ) := dictOfList (t.cfgs.map cfgEntry)

theorem cfgDict_lines (rest : List (K15 α ω σ)) :
    ∀ (cs : List (Cfg15 σ)) (d : List (Nat × Level σ)), (∀ c ∈ cs, c.l ≤ 13) →
      cfgDict (L15 α ω σ) (cs.map (fun c => .cfgLine c.id c.conf c.spin c.l c.j) ++ rest) d
        = cfgDict (L15 α ω σ) rest ((cs.map cfgEntry).foldl (fun d kv => dictSet d kv.1 kv.2) d) := by
  intro cs
  induction cs with
  | nil => intro d _; rfl
  | cons c cs ih =>
    intro d h
    have hc : ¬ (13 < c.l) := by have := h c List.mem_cons_self; omega
    have hv : (L15 α ω σ).cfg (.cfgLine c.id c.conf c.spin c.l c.j)
        = some { id := some c.id, conf := c.conf, spin := c.spin, l := some c.l, j := c.j } := rfl
    simp only [List.map_cons, List.cons_append, cfgDict, hv, hc, if_false, List.foldl_cons]
    exact ih _ (fun c' hc' => h c' (List.mem_cons_of_mem _ hc'))

def entryFOf (d : List (Nat × Level σ)) (e : Idx15 ω) : Option (Entry15 ω σ) :=
  match dictGet d e.up, dictGet d e.lo with
  | some u, some l => some { typ := e.typ, tr := (u, l), block := e.isel, wl := e.wl }
  | _, _ => none

theorem scrapeFullIdx_map (d : List (Nat × Level σ)) (dot : Bool) (rest : List (K15 α ω σ)) (es' : List (Entry15 ω σ))
    (hrest : scrapeFullIdx (L15 α ω σ).idxF d rest = .ok es') :
    ∀ (idx : List (Idx15 ω)), (∀ e ∈ idx, (entryFOf (σ := σ) d e).isSome) →
      scrapeFullIdx (L15 α ω σ).idxF d (idx.map (renderIdx15 (.full dot)) ++ rest) = .ok (idx.filterMap (entryFOf d) ++ es') := by
  intro idx
  induction idx with
  | nil => intro _; simpa using hrest
  | cons e idx ih =>
    intro h
    have he := h e List.mem_cons_self
    have hv : (L15 α ω σ).idxF (renderIdx15 (.full dot) e)
        = some { isel := some e.isel, wl := some e.wl, up := some e.up, lo := some e.lo, typ := some e.typ } := rfl
    unfold entryFOf at he
    cases hu : dictGet d e.up with
    | none => simp [hu] at he
    | some u =>
      cases hl : dictGet d e.lo with
      | none => simp [hu, hl] at he
      | some l =>
        simp only [List.map_cons, List.cons_append, scrapeFullIdx, hv, entryF, opt, bind, Except.bind, hu, hl, pure, Except.pure,
          ih (fun e' he' => h e' (List.mem_cons_of_mem _ he')), List.filterMap_cons, entryFOf]

theorem scrapeFull_render [DecidableEq σ] (t : Tab15 α ω σ) (dot : Bool) (hd : t.dialect = .full dot)
    (hl : ∀ c ∈ t.cfgs, c.l ≤ 13) (hlev : ∀ e ∈ t.idx, (entryFOf (cfgTable t) e).isSome) :
    scrapeFull (L15 α ω σ) (render15 t) = .ok (t.idx.filterMap (entryFOf (cfgTable t))) := by
  unfold scrapeFull
  have hcs : cfgSection t = [.cfgHeader, .comment] ++ t.cfgs.map (fun c => .cfgLine c.id c.conf c.spin c.l c.j) ++ [.comment] := by
    unfold cfgSection; rw [hd]
  have h1 : dropUntil (L15 α ω σ).cfgHeader (render15 t) = .ok (cfgSection t ++ idxSection t) := by
    rw [render15_eq, tail15]
    have : (K15.fileHeader t.blocks.length :: (t.blocks.flatMap renderBlk15 ++ ([K15.comment, K15.comment] ++ cfgSection t ++ idxSection t)))
        = (K15.fileHeader t.blocks.length :: (t.blocks.flatMap renderBlk15 ++ [K15.comment, K15.comment])) ++ (cfgSection t ++ idxSection t) := by
      simp
    rw [this, dropUntil_skip]
    · rw [hcs]; simp [dropUntil, lexK15]
    · intro l hl'
      rcases List.mem_cons.mp hl' with rfl | hl'
      · rfl
      · rcases List.mem_append.mp hl' with hl' | hl'
        · exact (blockLines_views t.blocks l hl').2
        · simp only [List.mem_cons, List.not_mem_nil, or_false] at hl'
          rcases hl' with rfl | rfl <;> rfl
  have h2 : takeUntil (L15 α ω σ).idxHeader (cfgSection t ++ idxSection t) = .ok (cfgSection t, idxSection t) := by
    unfold idxSection
    simp only [List.cons_append, List.nil_append]
    exact takeUntil_skip _ _ _ _ (cfgSection_idxHeader t) rfl
  have h3 : cfgDict (L15 α ω σ) (cfgSection t) [] = .ok (cfgTable t) := by
    rw [hcs]
    simp only [List.cons_append, List.nil_append, cfgDict]
    have hh : (L15 α ω σ).cfg .cfgHeader = none := rfl
    have hc : (L15 α ω σ).cfg .comment = none := rfl
    simp only [hh, hc]
    rw [cfgDict_lines _ _ _ hl]
    simp only [cfgDict, hc]
    rfl
  simp only [bind, Except.bind, h1, h2, h3]
  unfold idxSection
  simp only [List.cons_append, List.nil_append, scrapeFullIdx]
  have hh : (L15 α ω σ).idxF .idxHeader = none := rfl
  have hc : (L15 α ω σ).idxF .comment = none := rfl
  simp only [hh, hc]
  rw [hd]
  have := scrapeFullIdx_map (α := α) (cfgTable t) dot [K15.comment, K15.comment] [] (by simp [scrapeFullIdx, hc]) t.idx hlev
  simpa using this

end Cherab.Adf
