/-
C02 round 6 — helpers for `Props/C02Param.lean`: the component list of `ParametrisedZeemanTriplet.add_line`
(zeeman.pyx:205) consists of Gaussian components of non-negative radiance and positive width.
-/
import Cherab.Lemmas.LineShape

namespace Cherab.Lemmas.LineShape
set_option linter.unusedSectionVars false
open Cherab.LineShape

variable {α : Type} [Field α] [LinearOrder α] [IsStrictOrderedRing α]

/-- zeeman.pyx:233 `sigma = thermal_broadening(...) * sqrt(1 + beta² T^(2γ))` is positive as soon as the `pow` value is
non-negative (whatever the sign of `beta`, `gamma`) -/
theorem paramZeeman_width_pos (F : Fns α) (hs : SqrtSpec F.sqrt) (K : Consts α) (hK : ConstsPos K) (be ga : α) (e : Env α)
    (hwl : 0 < e.wl) (haw : 0 < e.aw) (hts : 0 < e.ts) (hp : 0 ≤ F.pow e.ts (2.0 * ga)) :
    0 < thermalBroadening F K e.wl e.ts e.aw * F.sqrt (1.0 + be * be * F.pow e.ts (2.0 * ga)) := by
  have hw := thermal_pos F hs K hK e.wl e.ts e.aw hwl hts haw
  have hq : (0 : α) < 1.0 + be * be * F.pow e.ts (2.0 * ga) := by
    rw [lit10]; have := mul_self_nonneg be; positivity
  exact mul_pos hw (sqrt_pos_of_spec F.sqrt hs _ hq)

/-- the broadening factor is at least 1: the parametrised line is never narrower than the Doppler line -/
theorem paramZeeman_width_ge_thermal (F : Fns α) (hs : SqrtSpec F.sqrt) (K : Consts α) (hK : ConstsPos K) (be ga : α) (e : Env α)
    (hwl : 0 < e.wl) (haw : 0 < e.aw) (hts : 0 < e.ts) (hp : 0 ≤ F.pow e.ts (2.0 * ga)) :
    thermalBroadening F K e.wl e.ts e.aw ≤
      thermalBroadening F K e.wl e.ts e.aw * F.sqrt (1.0 + be * be * F.pow e.ts (2.0 * ga)) := by
  have hw := thermal_pos F hs K hK e.wl e.ts e.aw hwl hts haw
  have hq : (1 : α) ≤ 1.0 + be * be * F.pow e.ts (2.0 * ga) := by
    rw [lit10]; have := mul_nonneg (mul_self_nonneg be) hp; linarith
  obtain ⟨h0, h1⟩ := hs _ (le_trans zero_le_one hq)
  have h1le : (1 : α) ≤ F.sqrt (1.0 + be * be * F.pow e.ts (2.0 * ga)) := by
    by_contra hlt
    have hlt := not_le.mp hlt
    have : F.sqrt (1.0 + be * be * F.pow e.ts (2.0 * ga)) * F.sqrt (1.0 + be * be * F.pow e.ts (2.0 * ga)) < 1 := by
      nlinarith
    linarith
  nlinarith

theorem paramZeeman_good (F : Fns α) (hs : SqrtSpec F.sqrt) (K : Consts α) (hK : ConstsPos K) (al be ga : α) (pol : Pol) (R : α)
    (e : Env α) (hR : 0 ≤ R) (hwl : 0 < e.wl) (haw : 0 < e.aw) (hts : 0 < e.ts) (hd : dot e.dir e.dir ≠ 0)
    (hp : 0 ≤ F.pow e.ts (2.0 * ga)) : GoodComps (paramZeemanComps F K al be ga pol R e) := by
  have hw := paramZeeman_width_pos F hs K hK be ga e hwl haw hts hp
  have h05 : (0 : α) ≤ 0.5 * R := by rw [lit05]; positivity
  by_cases hb : (vlen F e.b == 0) = true
  · intro c hc
    simp only [paramZeemanComps, ts_pos_not e hts, hb, if_true, if_false] at hc
    split_ifs at hc <;> simp only [List.mem_singleton] at hc <;> subst hc
    · exact ⟨rfl, hR, hw⟩
    · exact ⟨rfl, h05, hw⟩
  · obtain ⟨r1, r2⟩ := zeeman_rads_nonneg F hs e R hR hd hb
    intro c hc
    simp only [paramZeemanComps, ts_pos_not e hts, hb, Bool.false_eq_true, if_false, zeemanSplit, List.mem_append] at hc
    rcases hc with hc | hc <;> split_ifs at hc <;> simp only [List.mem_cons, List.not_mem_nil, or_false] at hc
    · subst hc; exact ⟨rfl, r1, hw⟩
    · rcases hc with hc | hc <;> subst hc <;> exact ⟨rfl, r2, hw⟩

end Cherab.Lemmas.LineShape
