"""C11 — inversion solvers: SART follows its update rule, NNLS/LSQ return true minimisers.

T  lean/Cherab/Props/C11.lean over lean/Cherab/Model/Inversion.lean (helper algebra in Lemmas/Inversion.lean)
K  * representation stream: every argument of the five entry points in many Python representations; acceptance / kind of rejection
     against the model's sartAccept / lsqAccept / svdAccept, accepted cases through the same value comparisons as below;
   * invert_sart / invert_constrained_sart against the Lean model run at Float by the native driver on generated
     systems (under/over-determined, rank-deficient, rows/columns of zeros, all kinds of initial_guess), compared
     on (status, number of iterations, solution, convergence list);  an *exact* stream of dyadic systems on which
     double arithmetic does not round is compared bit-for-bit, including the stop decision placed exactly on
     `|conv[k]-conv[k-1]| == conv_tol`;
   * invert_regularised_nnls / invert_regularised_lstsq / invert_svd with the external solver spied
     (scipy.optimize.nnls, numpy.linalg.lstsq, scipy.linalg.pinv record their arguments and results): the
     stacked / normalised system must equal the model's bit-for-bit, the returned x must be the solver's and
     the reported norm `rnorm*vmax`;
   * the model's certificate functions (kktResidual, objective) against numpy.
S  direct oracles on the implementation's outputs, no model: non-negativity; the documented update rule replayed
   in vectorised numpy for `len(convergence)` sweeps; the documented stop rule evaluated on the returned
   convergence list; fixed point at an exact non-negative solution; KKT / normal-equation residuals of the
   returned x computed in float64 from the mathematical values (W, L, alpha, b); residual-norm consistency; objective not
   larger than at perturbed feasible points; standing oracles for every argument object: not modified by the call (SART's array
   initial_guess excepted: it is the returned solution), and a second identical call returns the identical result.
"""
import json
import math

import numpy as np

from harness.vlib.util import f2b, b2f, fs, close, call

GUARD = dict(flag=False)       # set by run(): does nnls.py guard the normaliser? (translator)
SIG_NNLS_VMAX = 'C11:invert_regularised_nnls:max(b)<=0:normalisation-divides-by-zero'


# ------------------------------------------------------------------------------------------------- generators

def gen_matrix(rng, m, n):
    """returns (W as list of rows of python floats >= 0, class name)"""
    kind = rng.choice(['dense', 'dense', 'sparse', 'sparse', 'zero-rows', 'zero-cols', 'zero-rows-cols', 'rank-deficient',
                       'rank1', 'integer', 'scaled', 'mixed-magnitude', 'mixed-magnitude'])
    if kind == 'mixed-magnitude':
        return mixed_matrix(rng, m, n), kind
    W = [[rng.uniform(0.05, 2.0) for _ in range(n)] for _ in range(m)]
    if kind in ('sparse', 'zero-rows', 'zero-cols', 'zero-rows-cols'):
        p = rng.uniform(0.3, 0.7)
        W = [[v if rng.random() < p else 0.0 for v in r] for r in W]
    if kind in ('zero-rows', 'zero-rows-cols'):
        for i in rng.sample(range(m), max(1, m // 3)):
            W[i] = [0.0] * n
    if kind in ('zero-cols', 'zero-rows-cols'):
        for j in rng.sample(range(n), max(1, n // 3)):
            for r in W:
                r[j] = 0.0
    if kind == 'rank-deficient':
        if m > 1:
            i, k = rng.sample(range(m), 2)
            W[i] = [2.0 * v for v in W[k]]
        if n > 1:
            j, k = rng.sample(range(n), 2)
            for r in W:
                r[j] = r[k]
    if kind == 'rank1':
        u = [rng.uniform(0.1, 2) for _ in range(m)]
        v = [rng.uniform(0.1, 2) for _ in range(n)]
        W = [[a * c for c in v] for a in u]
    if kind == 'integer':
        W = [[float(rng.randint(0, 3)) for _ in range(n)] for _ in range(m)]
    if kind == 'scaled':
        s = 10.0 ** rng.randint(-3, 3)
        W = [[v * s for v in r] for r in W]
    return W, kind


def mixed_matrix(rng, m, n):
    """rows and columns spanning up to 20 decades: grazing sight lines (tiny rows), tiny voxels (tiny columns), and voxels that
    are seen *only* by tiny rows"""
    W = [[rng.uniform(0.05, 2.0) if rng.random() < 0.7 else 0.0 for _ in range(n)] for _ in range(m)]
    rs = [1.0] * m
    cs = [1.0] * n
    tiny_rows = rng.sample(range(m), rng.randint(1, max(1, m // 2)))
    for i in tiny_rows:
        rs[i] = 10.0 ** -rng.randint(6, 20)
    for j in range(n):
        if rng.random() < 0.25:
            cs[j] = 10.0 ** -rng.randint(3, 20)
    W = [[v * rs[i] * cs[j] for j, v in enumerate(r)] for i, r in enumerate(W)]
    # some voxels are seen only by grazing rows
    for j in rng.sample(range(n), rng.randint(1, max(1, n // 2))):
        i0 = rng.choice(tiny_rows)
        for i in range(m):
            if i not in tiny_rows:
                W[i][j] = 0.0
        if W[i0][j] == 0.0:
            W[i0][j] = rng.uniform(0.05, 2.0) * rs[i0] * cs[j]
    return W


def mixed_b(rng, W, m, n):
    """measurements of the magnitude of their own row (consistent up to a relative perturbation)"""
    xt = [rng.uniform(0.2, 3) for _ in range(n)]
    b = [math.fsum(w * x for w, x in zip(r, xt)) * (1 + rng.choice([0.0, rng.uniform(-0.1, 0.1)])) for r in W]
    if not any(v != 0 for v in b):
        b[rng.randrange(m)] = 1.0
    return b, 'row-magnitude'


def gen_b(rng, W, m, n):
    kind = rng.choice(['consistent', 'consistent', 'noisy', 'noisy', 'random', 'some-negative', 'scaled'])
    xt = [rng.choice([0.0, rng.uniform(0, 3)]) for _ in range(n)]
    b = [math.fsum(w * x for w, x in zip(r, xt)) for r in W]
    if kind == 'noisy':
        b = [v * (1 + rng.uniform(-0.1, 0.1)) + rng.uniform(0, 0.05) for v in b]
    if kind == 'random':
        b = [rng.uniform(0, 5) for _ in range(m)]
    if kind == 'some-negative':
        b = [v + rng.uniform(-1.0, 0.3) for v in b]
    if kind == 'scaled':
        s = 10.0 ** rng.randint(-3, 3)
        b = [v * s + s * rng.uniform(0, 0.1) for v in b]
    if not any(v != 0 for v in b):
        b[rng.randrange(m)] = 1.0
        kind += '+fixed-zero'
    return b, kind


def gen_laplacian(rng, n, integer=False):
    kind = rng.choice(['chain', 'chain', 'ring', 'grid', 'random-sym', 'zero'])
    L = [[0.0] * n for _ in range(n)]
    if kind == 'chain':
        for i in range(n - 1):
            L[i][i + 1] -= 1; L[i + 1][i] -= 1; L[i][i] += 1; L[i + 1][i + 1] += 1
    elif kind == 'ring' and n > 2:
        for i in range(n):
            j = (i + 1) % n
            L[i][j] -= 1; L[j][i] -= 1; L[i][i] += 1; L[j][j] += 1
    elif kind == 'grid':
        c = max(1, int(math.sqrt(n)))
        for i in range(n):
            for j in (i + 1, i + c):
                if j < n and not (j == i + 1 and j % c == 0):
                    L[i][j] -= 1; L[j][i] -= 1; L[i][i] += 1; L[j][j] += 1
    elif kind == 'random-sym':
        for i in range(n):
            for j in range(i + 1, n):
                if rng.random() < 0.4:
                    w = float(rng.randint(1, 2)) if integer else rng.uniform(0.1, 1.0)
                    L[i][j] -= w; L[j][i] -= w; L[i][i] += w; L[j][j] += w
    return L, kind


def gen_guess(rng, n):
    """returns (python argument factory, protocol tokens, kind)"""
    kind = rng.choice(['none', 'float', 'int', 'bool', 'np.float64', 'array', 'array', 'array-view', 'array-negative',
                       'array-zeros', 'zero-float'])
    if kind == 'none':
        return (lambda: None), '0 ' + f2b(float(np.exp(-1))), kind
    if kind == 'float':
        v = rng.uniform(0.0, 3.0)
        return (lambda: v), '1 ' + f2b(v), kind
    if kind == 'zero-float':
        return (lambda: 0.0), '1 ' + f2b(0.0), kind
    if kind == 'int':
        v = rng.randint(0, 3)
        return (lambda: v), '1 ' + f2b(float(v)), kind
    if kind == 'bool':
        return (lambda: True), '1 ' + f2b(1.0), kind
    if kind == 'np.float64':
        v = rng.uniform(0.0, 3.0)
        return (lambda: np.float64(v)), '1 ' + f2b(v), kind
    xs = [rng.uniform(0.0, 3.0) for _ in range(n)]
    if kind == 'array-negative':
        xs = [rng.uniform(-2.0, 2.0) for _ in range(n)]
    if kind == 'array-zeros':
        xs = [0.0] * n
    tok = '2 %d %s' % (n, fs(xs))
    if kind == 'array-view':
        def mk():
            a = np.zeros(2 * n)
            a[::2] = xs
            return a[::2]
        return mk, tok, kind
    return (lambda: np.array(xs, dtype=float)), tok, kind


def flat(W):
    return [v for r in W for v in r]


# ------------------------------------------------------------------------------------------------- direct oracles

def sart_reference(W, b, x0, sweeps, relax, L=None, beta=0.0):
    """the documented rule, vectorised: x <- max(0, x + w/W_(+,j) * sum_k W_kj/W_(k,+) (b_k - (Wx)_k) - beta (Lx)_j).
    Returns the final iterate, the list of convergence values and the largest magnitude of any term that entered an
    update (the scale against which cancellation residues are judged)."""
    W = np.asarray(W, float); b = np.asarray(b, float)
    x = np.array(x0, float)
    dens = W.sum(axis=0)
    length = W.sum(axis=1)
    live = length != 0
    conv = []
    bb = float(b @ b)
    mag = float(np.max(np.abs(x), initial=0.0))
    aW = np.abs(W)
    for _ in range(sweeps):
        res = np.zeros(len(b))
        res[live] = (b[live] - (W @ x)[live]) / length[live]
        ares = np.zeros(len(b))
        ares[live] = (np.abs(b[live]) + (aW @ np.abs(x))[live]) / np.abs(length[live])
        back = W.T @ res
        safe = np.where(dens > 0, dens, 1.0)
        upd = np.where(dens > 0, relax * back / safe, 0.0)
        mag = max(mag, float(np.max(np.where(dens > 0, abs(relax) * (aW.T @ ares) / safe, 0.0), initial=0.0)))
        xn = x + upd
        if L is not None:
            xn = xn - beta * (np.asarray(L, float) @ x)
            mag = max(mag, float(np.max(abs(beta) * (np.abs(np.asarray(L, float)) @ np.abs(x)), initial=0.0)))
        x = np.maximum(xn, 0.0)
        mag = max(mag, float(np.max(np.abs(x), initial=0.0)))
        y = W @ x
        conv.append((bb - float(y @ y)) / bb)
    return x, conv, mag


def stop_rule_ok(conv, max_it, tol):
    """documented stop rule on a returned convergence list -> (ok, why, margin)"""
    N = len(conv)
    margin = math.inf
    for k in range(1, N):
        d = abs(conv[k] - conv[k - 1])
        margin = min(margin, abs(d - tol))
        if d < tol and k != N - 1:
            return False, 'stop condition held at k=%d but the loop ran on to %d iterations' % (k, N), margin
    if N > max_it:
        return False, '%d iterations > max_iterations=%d' % (N, max_it), margin
    if N < max_it:
        if N < 2:
            return False, 'stopped after %d iteration(s) although k>0 is required' % N, margin
        if not abs(conv[-1] - conv[-2]) < tol:
            return False, 'stopped at %d < max_iterations=%d without the stop condition' % (N, max_it), margin
    return True, '', margin


def vec_close(a, b, rel=1e-9, floor=0.0):
    a = np.asarray(a, float); b = np.asarray(b, float)
    if a.shape != b.shape:
        return False
    if a.size == 0:
        return True
    if not (np.all(np.isfinite(a)) and np.all(np.isfinite(b))):
        return bool(np.array_equal(a, b, equal_nan=True))
    scale = max(float(np.max(np.abs(a))), float(np.max(np.abs(b))))
    return bool(np.all(np.abs(a - b) <= rel * np.maximum(np.abs(a), np.abs(b)) + rel * scale + floor))


def conv_close(a, b, rel=1e-9, floor=0.0):
    return len(a) == len(b) and all(abs(x - y) <= rel * (1.0 + abs(x) + abs(y)) + floor for x, y in zip(a, b))


# ------------------------------------------------------------------------------------------------- SART stream

def sart_cases(ctx, n_cases, big):
    from cherab.tools.inversions import invert_sart, invert_constrained_sart
    rng = ctx.rng
    cases = []
    for it in range(n_cases):
        m = rng.randint(1, big)
        n = rng.randint(1, big)
        W, wk = gen_matrix(rng, m, n)
        b, bk = mixed_b(rng, W, m, n) if wk == 'mixed-magnitude' else gen_b(rng, W, m, n)
        mk, gtok, gk = gen_guess(rng, n)
        constrained = rng.random() < 0.45
        relax = rng.choice([1.0, 1.0, 0.5, 0.1, 1.5, rng.uniform(0.05, 1.9)])
        tol = rng.choice([1e-4, 1e-4, 1e-2, 1e-6, 1e-3, 0.0, -1.0])
        maxit = rng.choice([0, 1, 2, 3, 5, 10, 30, 100, 250])
        beta = rng.choice([0.0, 0.01, 0.01, 0.05, rng.uniform(0.0, 0.15)])
        L, lk = gen_laplacian(rng, n) if constrained else (None, '-')
        if relax > 1.0 or (constrained and beta > 0.05):
            maxit = min(maxit, 30)          # keep rounding noise from being amplified in non-contractive regimes
        Wa = np.array(W, dtype=float).reshape(m, n)
        if rng.random() < 0.15:
            Wa = np.asfortranarray(Wa)       # strided memoryview
        ba = np.array(b, dtype=float)
        guess = mk()
        guess_copy = None if not isinstance(guess, np.ndarray) else guess.copy()
        x0 = (np.zeros(n) + math.exp(-1) if guess is None else
              (guess_copy if guess_copy is not None else np.zeros(n) + float(guess)))
        La_ = np.array(L, dtype=float).reshape(n, n) if constrained else None
        snaps = [snap(v) for v in (Wa, ba, La_)]
        with np.errstate(all='ignore'):
            if constrained:
                st, res = call(invert_constrained_sart, Wa, La_, ba, initial_guess=guess,
                               max_iterations=maxit, relaxation=relax, beta_laplace=beta, conv_tol=tol)
                line = 'csart %d %d %d %s %s %s %s %s %s %s' % (n, m, maxit, f2b(relax), f2b(tol), f2b(beta), gtok,
                                                               fs(flat(W)), fs(b), fs(flat(L)))
            else:
                st, res = call(invert_sart, Wa, ba, initial_guess=guess, max_iterations=maxit, relaxation=relax, conv_tol=tol)
                line = 'sart %d %d %d %s %s %s %s %s' % (n, m, maxit, f2b(relax), f2b(tol), gtok, fs(flat(W)), fs(b))
        for nm_, v_, s0 in zip(('geometry_matrix', 'measurement_vector', 'laplacian_matrix'), (Wa, ba, La_), snaps):
            if snap(v_) != s0:
                ctx.fail('C11:%s:argument-%s-modified' % ('invert_constrained_sart' if constrained else 'invert_sart', nm_),
                         'the caller\'s %s was modified by the call' % nm_, dict(W=W, b=b, L=L))
        twin = None
        if constrained and beta == 0.0:
            # two entry points agree (`csart_beta_zero`): without penalty the constrained solver is invert_sart
            g2 = guess_copy.copy() if guess_copy is not None else guess
            with np.errstate(all='ignore'):
                twin = call(invert_sart, Wa, ba, initial_guess=g2, max_iterations=maxit, relaxation=relax, conv_tol=tol)
        desc = dict(func='invert_constrained_sart' if constrained else 'invert_sart', W=W, b=b, L=L, beta=beta if constrained else None,
                    initial_guess_kind=gk, x0=[float(v) for v in x0], max_iterations=maxit, relaxation=relax, conv_tol=tol,
                    matrix_class=wk, b_class=bk, laplacian_class=lk)
        fn = desc['func']
        ctx.count(fn)
        ctx.count('matrix:' + wk); ctx.count('guess:' + gk); ctx.count('shape:' + ('under' if m < n else 'over' if m > n else 'square'))
        if st == 'ok' and isinstance(guess, np.ndarray):
            if res[0] is guess or np.shares_memory(res[0], guess):
                ctx.count('observation:initial_guess-array-overwritten-and-returned(outside property)')
        ctx.case(key=(fn, wk, bk, gk, m, n, maxit, f2b(relax), f2b(tol)),
                 sample=dict(func=fn, shape=[m, n], matrix_class=wk, b_class=bk, initial_guess=gk, max_iterations=maxit,
                             relaxation=relax, conv_tol=tol, beta_laplace=desc['beta'], W=W, b=b) if it % 97 == 3 else None)
        cases.append(dict(line=line, st=st, res=res, desc=desc, n=n, x0=x0, W=W, b=b, L=L, beta=beta if constrained else 0.0,
                          relax=relax, tol=tol, maxit=maxit, guess_obj=guess, guess_before=guess_copy, twin=twin))
    return cases


def sart_oracles(ctx, c):
    """S: direct oracles on one implementation result"""
    d = c['desc']
    fn = d['func']
    if c['st'] != 'ok':
        ctx.fail('C11:%s:raised-%s' % (fn, c['st']), '%s raised %s: %s on a valid system with non-zero measurement' % (fn, c['st'], c['res']), d)
        return
    x, conv = c['res']
    x = np.asarray(x, float)
    conv = [float(v) for v in conv]
    d = dict(d, returned_solution=[float(v) for v in x], returned_convergence=conv)
    if c['maxit'] >= 1 and not np.all(x >= 0):
        ctx.fail('C11:%s:negative-solution' % fn, 'solution has a negative entry: %r' % (x.tolist(),), d)
    ok, why, margin = stop_rule_ok(conv, c['maxit'], c['tol'])
    if not ok:
        if margin <= 1e-12:
            ctx.count('stop-rule-guard-band-skipped')
        else:
            ctx.fail('C11:%s:stop-rule' % fn, why, d)
    xr, convr, mag = sart_reference(c['W'], c['b'], c['x0'], len(conv), c['relax'], c['L'], c['beta'])
    c['mag'] = mag
    # sensitivity of a convergence value to the cancellation residue (<= ~1e-16 mag) an iterate may carry:
    # d conv = 2 |W x| |W dx| / |b|^2
    Wn = np.asarray(c['W'], float); bn = np.asarray(c['b'], float)
    bb = float(bn @ bn)
    ymax = math.sqrt(max([0.0] + [abs(1.0 - v) for v in convr])) * math.sqrt(bb)
    c['cfloor'] = 20.0 * ymax * float(np.linalg.norm(Wn)) * mag * math.sqrt(Wn.shape[1]) / bb
    if not vec_close(x, xr, 1e-8, 1e-9 * mag):
        ctx.fail('C11:%s:update-rule' % fn, 'returned solution is not iterate %d of the documented rule: %r vs %r' % (len(conv), x.tolist(), xr.tolist()), d)
    elif not conv_close(conv, convr, 1e-8, 1e-9 * c['cfloor']):
        ctx.fail('C11:%s:convergence-list' % fn, 'convergence list differs from (|b|^2-|Wx|^2)/|b|^2 of the iterates: %r vs %r' % (conv, convr), d)
    elif conv:
        y = Wn @ x
        last = (bb - float(y @ y)) / bb
        if abs(conv[-1] - last) > 1e-9 * (1.0 + abs(last) + float(y @ y) / bb):
            ctx.fail('C11:%s:convergence-list' % fn, 'last convergence value %r is not (|b|^2-|Wx|^2)/|b|^2 = %r of the returned solution' % (conv[-1], last), d)


def sart_compare(ctx, c, o):
    """S oracles on one SART result, then K: compare it with the model's output line `o`"""
    ctx.traces += 1
    sart_oracles(ctx, c)
    t = o.split()
    st, res, d = c['st'], c['res'], c['desc']
    if c.get('twin') is not None:
        # the implementation's two entry points agree when beta_laplace = 0 (np.dot may round differently from call to call
        # with the alignment of its operands: values compared at the K tolerance, a stop decision on the boundary is skipped)
        st2, res2 = c['twin']
        ctx.count('entry-points:constrained(beta=0) vs invert_sart')
        why = None
        if st2 != st:
            why = 'constrained %s, invert_sart %s' % (st, st2)
        elif st == 'ok':
            c1 = [float(v) for v in res[1]]; c2 = [float(v) for v in res2[1]]
            if len(c1) != len(c2):
                k = min(len(c1), len(c2)) - 1
                if k >= 1 and abs(abs(c1[k] - c1[k - 1]) - c['tol']) <= 1e-9 * (1 + abs(c1[k])):
                    ctx.count('stop-decision-guard-band-skipped')
                else:
                    why = 'iteration counts %d vs %d' % (len(c1), len(c2))
            elif not (vec_close(res[0], res2[0], 1e-9, 1e-10 * c.get('mag', 0.0)) and conv_close(c1, c2, 1e-9, 1e-10 * c.get('cfloor', 0.0))):
                why = 'constrained %r %r, invert_sart %r %r' % (list(res[0]), c1, list(res2[0]), c2)
        if why:
            ctx.fail('C11:invert_constrained_sart:beta_laplace=0-differs-from-invert_sart', 'beta_laplace = 0: ' + why, d)
    name = 'C11 stream ' + d['func']
    if t[0] != 'ok' or st != 'ok':
        if t[0] != st:
            ctx.disagreements += 1
            ctx.broke('correspondence', name, dict(model=o[:200], implementation=st, input=d))
        return
    N = int(t[1])
    xm = [b2f(v) for v in t[2:2 + c['n']]]
    cm = [b2f(v) for v in t[2 + c['n']:]]
    x, conv = res
    conv = [float(v) for v in conv]
    if N != len(conv):
        k = min(N, len(conv)) - 1
        near = k >= 1 and abs(abs(conv[k] - conv[k - 1]) - c['tol']) <= 1e-9 * (1 + abs(conv[k]))
        if near:
            ctx.count('stop-decision-guard-band-skipped')
        else:
            ctx.disagreements += 1
            ctx.broke('correspondence', name, dict(what='iteration count', model=N, implementation=len(conv), input=d))
    elif not (vec_close(x, xm, 1e-9, 1e-10 * c.get('mag', 0.0)) and conv_close(conv, cm, 1e-9, 1e-10 * c.get('cfloor', 0.0))):
        ctx.disagreements += 1
        ctx.broke('correspondence', name, dict(what='values', model_x=xm, impl_x=[float(v) for v in x], model_conv=cm, impl_conv=conv, input=d))
    ctx.count('iterations:%s' % ('0' if N == 0 else '1' if N == 1 else '2-9' if N < 10 else '10-99' if N < 100 else '100+'))
    ctx.count('stopped:' + ('max_iterations' if N == c['maxit'] else 'convergence'))


def guess_after_compare(ctx, o, guess_obj, guess_before, st, res, desc, mag=0.0):
    """K for the model's `guessAfter` (driver op `ga`): the state of the caller's `initial_guess` object after the call.
    An array guess holds the returned solution after a successful call and is untouched when the call raised; scalars and
    None are what they were."""
    ctx.traces += 1
    t = o.split()
    name = 'C11 stream guess-after'
    why = None
    if guess_obj is None:
        if t != ['none']:
            why = 'model says the None guess became %r' % (o[:80],)
    elif not isinstance(guess_obj, np.ndarray):
        if t[0] != 'scalar' or len(t) != 2 or b2f(t[1]) != float(guess_obj):
            why = 'model says the scalar guess %r became %r' % (guess_obj, o[:80])
    else:
        now = [float(v) for v in guess_obj]
        if t[0] != 'array' or int(t[1]) != len(t) - 2:
            why = 'model output malformed / not an array: %r' % (o[:80],)
        else:
            xm = [b2f(v) for v in t[2:]]
            if st != 'ok':
                # a rejected call must leave the array exactly as it was — in the code and in the model
                if now != [float(v) for v in guess_before] or _bits(xm) != _bits([float(v) for v in guess_before]):
                    why = 'after %s: array was %r, is %r, model %r' % (st, [float(v) for v in guess_before], now, xm)
                ctx.count('guess-after:array-untouched-after-' + st)
            else:
                if len(xm) != len(now) or not vec_close(now, xm, 1e-9, 1e-10 * mag):
                    why = 'after ok: array holds %r, model %r' % (now, xm)
                elif _bits(now) != _bits([float(v) for v in np.asarray(res[0], float)]):
                    why = 'after ok: array holds %r but %r was returned' % (now, [float(v) for v in res[0]])
                ctx.count('guess-after:array-holds-returned-solution')
    if why:
        ctx.disagreements += 1
        ctx.broke('correspondence', name, dict(what=why, model=o[:200], implementation=st, input=desc))


def sart_stream(ctx):
    cases = sart_cases(ctx, ctx.n(800, 30000), 8 if ctx.tier == 'quick' else 12)
    outs = ctx.driver([c['line'] for c in cases])
    for c, o in zip(cases, outs):
        sart_compare(ctx, c, o)
    # `guessAfter`: every array guess, and a sample of the immutable kinds
    sel = [c for i, c in enumerate(cases) if isinstance(c['guess_obj'], np.ndarray) or i % 8 == 0]
    outs = ctx.driver(['ga ' + c['line'] for c in sel])
    for c, o in zip(sel, outs):
        guess_after_compare(ctx, o, c['guess_obj'], c['guess_before'], c['st'], c['res'], c['desc'], c.get('mag', 0.0))


# ------------------------------------------------------------------------------------------------- exact stream

def exact_system(rng):
    """block matrix of constant power-of-two blocks of size 2^p x 2^q: row/column sums are powers of two, so every
    operation of a few SART sweeps on small dyadic data is exact in binary64"""
    blocks = []
    for _ in range(rng.randint(1, 3)):
        # some blocks are 2^-60 .. 2^-70 of the others: grazing rows whose voxels no other row sees (scaling by a power of two is exact)
        e = rng.randint(-1, 1) if rng.random() < 0.6 else -rng.randint(55, 70)
        blocks.append((2 ** rng.randint(0, 1), 2 ** rng.randint(0, 1), 2.0 ** e))
    zr, zc = rng.randint(0, 1), rng.randint(0, 1)
    m = sum(p for p, _, _ in blocks) + zr
    n = sum(q for _, q, _ in blocks) + zc
    W = [[0.0] * n for _ in range(m)]
    i0 = j0 = 0
    for p, q, c in blocks:
        for i in range(p):
            for j in range(q):
                W[i0 + i][j0 + j] = c
        i0 += p; j0 += q
    # shuffle rows / columns
    rows = list(range(m)); rng.shuffle(rows)
    cols = list(range(n)); rng.shuffle(cols)
    W = [[W[i][j] for j in cols] for i in rows]
    b = [float(rng.randint(0, 8)) * (max(r) if max(r) > 0 and max(r) < 1e-10 else 1.0) for r in W]   # measurement of its row's magnitude
    if not any(b):
        b[0] = 4.0
    return W, b, m, n


def exact_stream(ctx):
    """bit-for-bit comparison incl. the stop decision exactly at |conv[k]-conv[k-1]| == conv_tol"""
    from cherab.tools.inversions import invert_sart, invert_constrained_sart
    rng = ctx.rng
    lines, expect = [], []
    for it in range(ctx.n(150, 3000)):
        W, b, m, n = exact_system(rng)
        relax = rng.choice([1.0, 0.5, 0.25])
        x0 = [rng.randint(0, 8) / 4.0 for _ in range(n)]
        constrained = rng.random() < 0.4
        beta = rng.choice([0.0, 0.125, 0.25])
        L, _ = gen_laplacian(rng, n, integer=True)
        maxit = 3

        def run(tol):
            g = np.array(x0, dtype=float)
            if constrained:
                return call(invert_constrained_sart, np.array(W).reshape(m, n), np.array(L).reshape(n, n), np.array(b), initial_guess=g,
                            max_iterations=maxit, relaxation=relax, beta_laplace=beta, conv_tol=tol)
            return call(invert_sart, np.array(W).reshape(m, n), np.array(b), initial_guess=g, max_iterations=maxit, relaxation=relax, conv_tol=tol)

        st, res = run(-1.0)
        if st != 'ok':
            ctx.fail('C11:sart-exact:raised-%s' % st, 'SART raised %s on a dyadic system: %s' % (st, res), dict(W=W, b=b, x0=x0))
            continue
        conv = [float(v) for v in res[1]]
        T = abs(conv[1] - conv[0])
        tols = [-1.0, T, math.nextafter(T, math.inf), 0.0]
        for tol in tols:
            st, res = run(tol)
            gt = '2 %d %s' % (n, fs(x0))
            if constrained:
                line = 'csart %d %d %d %s %s %s %s %s %s %s' % (n, m, maxit, f2b(relax), f2b(tol), f2b(beta), gt, fs(flat(W)), fs(b), fs(flat(L)))
            else:
                line = 'sart %d %d %d %s %s %s %s %s' % (n, m, maxit, f2b(relax), f2b(tol), gt, fs(flat(W)), fs(b))
            lines.append(line)
            desc = dict(func='invert_constrained_sart' if constrained else 'invert_sart', W=W, b=b, L=L if constrained else None,
                        beta=beta if constrained else None, x0=x0, max_iterations=maxit, relaxation=relax, conv_tol=tol,
                        boundary='|conv[1]-conv[0]| = %r' % T)
            expect.append((st, res, desc, tol, T))
            # S: strictness of the documented comparison, evaluated on the implementation alone
            if st == 'ok':
                N = len(res[1])
                want = 2 if T < tol else 3            # `< conv_tol` is strict; with max_iterations = 3 the loop ends at k = 2 anyway
                if N != want:
                    ctx.fail('C11:%s:stop-rule-boundary' % desc['func'],
                             'conv_tol=%r, |conv[1]-conv[0]|=%r: ran %d iterations, documented rule gives %d' % (tol, T, N, want), desc)
            ctx.count('exact-stream')
            ctx.case(key=('exact', json.dumps([W, b, x0]), f2b(tol), constrained))
    outs = ctx.driver(lines)
    for (st, res, desc, tol, T), o in zip(expect, outs):
        ctx.traces += 1
        t = o.split()
        if st != 'ok' or t[0] != 'ok':
            if st != t[0]:
                ctx.disagreements += 1
                ctx.broke('correspondence', 'C11 exact stream', dict(model=o[:200], implementation=st, input=desc))
            continue
        n = len(desc['x0'])
        xm = [b2f(v) for v in t[2:2 + n]]
        cm = [b2f(v) for v in t[2 + n:]]
        same = int(t[1]) == len(res[1]) and [f2b(v) for v in xm] == [f2b(v) for v in res[0]] and [f2b(v) for v in cm] == [f2b(v) for v in res[1]]
        if not same:
            ctx.disagreements += 1
            ctx.broke('correspondence', 'C11 exact stream', dict(what='bitwise', model_x=xm, impl_x=[float(v) for v in res[0]], model_conv=cm,
                                                                   impl_conv=[float(v) for v in res[1]], input=desc))


# ------------------------------------------------------------------------------------------------- fixed point stream

def fixed_point_stream(ctx):
    """S: started at an exact non-negative solution the solver must return it.  Exact variant: integer weights, dyadic
    solution, integer Laplacian with the constant vector in its kernel — `W x = b` and `L x = 0` hold without rounding, so
    the returned vector must equal x bit-for-bit whatever the relaxation / beta / iteration limit.  Float variant
    (unconstrained, relaxation <= 1 where the iteration does not amplify the rounding of b = W x): tolerance 1e-10."""
    from cherab.tools.inversions import invert_sart, invert_constrained_sart
    rng = ctx.rng
    for it in range(ctx.n(200, 6000)):
        m, n = rng.randint(1, 8), rng.randint(1, 8)
        exact = it % 4 != 0
        constrained = exact and rng.random() < 0.5
        L = None
        beta = None
        if exact:
            W = [[float(rng.choice([0, 0, 1, 2, 3])) for _ in range(n)] for _ in range(m)]
            if rng.random() < 0.3:
                W[rng.randrange(m)] = [0.0] * n
            wk = 'integer'
            if constrained:
                L, lk = gen_laplacian(rng, n, integer=True)
                xs = [rng.randint(1, 12) / 4.0] * n
                beta = rng.uniform(0, 1)
            else:
                xs = [rng.choice([0.0, rng.randint(0, 12) / 4.0]) for _ in range(n)]
            relax = rng.uniform(0.05, 1.9)
        else:
            W, wk = gen_matrix(rng, m, n)
            xs = [rng.choice([0.0, rng.uniform(0, 3)]) for _ in range(n)]
            relax = rng.uniform(0.05, 1.0)
        Wa = np.array(W).reshape(m, n)
        b = Wa @ np.array(xs)
        if not np.any(b != 0):
            continue
        maxit = rng.choice([1, 2, 5, 50, 250])
        tol = rng.choice([1e-4, 0.0, -1.0])
        g = np.array(xs)
        if constrained:
            st, res = call(invert_constrained_sart, Wa, np.array(L).reshape(n, n), b, initial_guess=g, max_iterations=maxit, relaxation=relax,
                           beta_laplace=beta, conv_tol=tol)
        else:
            st, res = call(invert_sart, Wa, b, initial_guess=g, max_iterations=maxit, relaxation=relax, conv_tol=tol)
        fn = 'invert_constrained_sart' if constrained else 'invert_sart'
        desc = dict(func=fn, W=W, b=b.tolist(), x0=xs, x_exact=xs, L=L, beta=beta, max_iterations=maxit, relaxation=relax, conv_tol=tol,
                    exact_arithmetic=exact)
        ctx.count('fixed-point-stream:' + ('exact' if exact else 'float'))
        ctx.case(key=('fixed', fn, wk, m, n, maxit, exact))
        if st != 'ok':
            ctx.fail('C11:%s:raised-%s' % (fn, st), '%s raised %s: %s' % (fn, st, res), desc)
        elif (exact and [f2b(v) for v in res[0]] != [f2b(v) for v in xs]) or (not exact and not vec_close(res[0], xs, 1e-10)):
            ctx.fail('C11:%s:fixed-point' % fn, 'started at an exact non-negative solution %r the solver returned %r' % (xs, res[0].tolist()), desc)


# ------------------------------------------------------------------------------------------------- malformed / kinds

def kinds_stream(ctx):
    """argument kinds of initial_guess outside the documented ones, and the b = 0 measurement (as-is behaviour,
    compared with the model where the model speaks about it)"""
    from cherab.tools.inversions import invert_sart, invert_constrained_sart
    W = np.array([[1.0, 2.0], [0.0, 1.0], [1.0, 1.0]])
    b = np.array([1.0, 2.0, 3.0])
    Lz = np.zeros((2, 2))
    wl = fs(W.ravel().tolist()) + ' ' + fs(b.tolist())
    E1 = f2b(float(np.exp(-1)))
    # wrong length arrays -> ValueError in both
    lines = []
    exp = []
    for g in (np.array([1.0, 1.0, 1.0]), np.array([1.0])):
        st, _ = call(invert_sart, W, b, initial_guess=g, max_iterations=2)
        lines.append('sart 2 3 2 %s %s 2 %d %s %s' % (f2b(1.0), f2b(1e-4), len(g), fs(g.tolist()), wl))
        exp.append(st)
    # zero measurement -> ZeroDivisionError in both (max_iterations >= 1), plain return for max_iterations = 0
    for maxit in (0, 1, 5):
        st, _ = call(invert_sart, W, np.zeros(3), max_iterations=maxit)
        lines.append('sart 2 3 %d %s %s 0 %s %s %s' % (maxit, f2b(1.0), f2b(1e-4), E1, fs(W.ravel().tolist()), fs([0.0] * 3)))
        exp.append(st)
        st2, _ = call(invert_constrained_sart, W, Lz, np.zeros(3), max_iterations=maxit)
        lines.append('csart 2 3 %d %s %s %s 0 %s %s %s %s' % (maxit, f2b(1.0), f2b(1e-4), f2b(0.01), E1, fs(W.ravel().tolist()), fs([0.0] * 3), fs([0.0] * 4)))
        exp.append(st2)
        if maxit > 0 and st == 'ZeroDivisionError':
            ctx.count('observation:zero-measurement-raises-ZeroDivisionError(stop rule undefined; outside property)')
    # rejected calls leave an array guess untouched (model: `guessAfter`)
    ga = []
    for g, bz, maxit in ((np.array([1.0, 1.0, 1.0]), b, 2), (np.array([1.0]), b, 2), (np.array([0.5, 2.0]), np.zeros(3), 1),
                         (np.array([0.5, 2.0]), np.zeros(3), 5), (np.array([0.5, -2.0]), np.zeros(3), 0), (np.array([0.5, 2.0]), b, 3)):
        g0 = g.copy()
        st, res = call(invert_sart, W, bz, initial_guess=g, max_iterations=maxit)
        l = 'sart 2 3 %d %s %s 2 %d %s %s %s' % (maxit, f2b(1.0), f2b(1e-4), len(g0), fs(g0.tolist()), fs(W.ravel().tolist()), fs(bz.tolist()))
        ga.append((l, g, g0, st, res))
    for (l, g, g0, st, res), o in zip(ga, ctx.driver(['ga ' + t[0] for t in ga])):
        ctx.case(key=('guess-after', l[:40], st))
        guess_after_compare(ctx, o, g, g0, st, res, dict(func='invert_sart', line=l[:120]))
    outs = ctx.driver(lines)
    for l, e, o in zip(lines, exp, outs):
        ctx.traces += 1
        ctx.case(key=('kinds', l[:40], e))
        if o.split()[0] != e:
            ctx.disagreements += 1
            ctx.broke('correspondence', 'C11 stream argument-kinds', dict(line=l[:80], model=o[:80], implementation=e))
    # np.exp(-1) is the model's `expm1` parameter (numpy's SIMD exp differs from libm by an ulp: the harness passes numpy's value)
    if abs(float(np.exp(-1)) - math.exp(-1)) > 1e-15:
        ctx.broke('correspondence', 'C11 default initial guess', dict(numpy=float(np.exp(-1)), libm=math.exp(-1)))
    # undocumented kinds are rejected rather than silently misread (as-is; recorded, not part of the property)
    for g, nm in (([1.0, 1.0], 'list'), (np.float32(1.0), 'np.float32'), (np.array([1, 1]), 'int-array')):
        st, _ = call(invert_sart, W, b, initial_guess=g, max_iterations=1)
        ctx.count('observation:initial_guess=%s->%s' % (nm, st))


# ------------------------------------------------------------------------------------------------- least squares

class Spy:
    def __init__(self, real):
        self.real = real
        self.calls = []

    def __call__(self, *a, **k):
        r = self.real(*a, **k)
        self.calls.append((tuple(np.array(v, copy=True) if isinstance(v, np.ndarray) else v for v in a), dict(k), r))
        return r


def lsq_scale(C, d, x):
    nc = float(np.linalg.norm(C))
    return nc * (nc * float(np.linalg.norm(x)) + float(np.linalg.norm(d))) + 1e-300


SIG_NNLS_EXT = 'C11:invert_regularised_nnls:external-solver(scipy.optimize.nnls)-returns-non-KKT-point'


def kkt_why(C, d, x, slack_extra=0.0, rel=1e-8):
    """None when x satisfies the KKT conditions of min |Cx-d|^2, x >= 0 within tolerance, else the reason"""
    x = np.asarray(x, float)
    g = C.T @ (C @ x - d)
    sc = lsq_scale(C, d, x)
    slack = rel * sc + slack_extra
    if not np.all(x >= 0):
        return 'x has a negative entry'
    if np.min(g) < -slack:
        return 'gradient component %.3g < 0 (scale %.3g): a feasible descent direction exists' % (float(np.min(g)), sc)
    if np.max(np.abs(g[x > 0]), initial=0.0) > slack:
        return 'complementarity violated: |g_j| = %.3g on a positive x_j (scale %.3g)' % (float(np.max(np.abs(g[x > 0]))), sc)
    return None


def nnls_oracle(ctx, rng, Wa, ba, alpha, La, st, res, spycall, desc, zclass=None, rel=1e-8):
    """S for invert_regularised_nnls on the caller's problem (W, L, alpha, b).  Returns 'compare' when the case should also be
    compared with the model (K), else None."""
    m, n = Wa.shape
    Leff = np.identity(n) if La is None else La
    C = np.vstack([Wa, alpha * Leff]); d = np.concatenate([ba, np.zeros(n)])
    vmax = float(d.max())
    verdict = 'compare'
    if not vmax > 0:
        # The minimiser exists (x = 0 when W >= 0 and b <= 0); the wrapper must return one.  The as-is model divides by vmax = 0
        # here (Props: nnls_norm_degenerate; nnls_wrapper_correct assumes 0 < vmax), so this class is judged by S alone and not
        # compared with the model — unless the translator recognises the guard in the source (then the model is the guarded one).
        verdict = 'compare' if GUARD['flag'] else None
        ctx.count('nnls:max(b)<=0 ' + ('(compared with the guarded model)' if GUARD['flag'] else '(S only)'))
        if st != 'ok' or not np.all(np.isfinite(res[0])):
            ctx.fail(SIG_NNLS_VMAX,
                     'invert_regularised_nnls with max(b) = %r <= 0 (%s measurement): %s — the wrapper divides the system by '
                     'vmax = max([b;0]) = 0 (nnls.py:68-70); the minimiser x = 0 exists and scipy.optimize.nnls returns it when '
                     'called on the unnormalised system' % (float(np.max(ba)), zclass or 'non-positive',
                                                            ('raised ' + st + ': ' + str(res)) if st != 'ok' else 'returned non-finite x'),
                     dict(desc, expected_minimiser=[0.0] * n))
            return None
        vmax = 1.0
    if st != 'ok':
        ctx.fail('C11:invert_regularised_nnls:raised-%s' % st, 'raised %s: %s' % (st, res), desc)
        return None
    x, norm = res
    x = np.asarray(x, float)
    # scipy's stopping test is absolute (~1e-14) on the *normalised* system: allow it back in caller's units
    x = np.asarray(x, float)
    if x.shape != (n,):
        ctx.fail('C11:invert_regularised_nnls:solution-shape', 'solution of shape %r for n = %d' % (x.shape, n), desc)
        return None
    why = kkt_why(C, d, x, 1e-10 * vmax * vmax, rel)
    obj = float(np.sum((Wa @ x - ba) ** 2) + alpha ** 2 * np.sum((Leff @ x) ** 2))
    norm_bad = abs(float(norm) - math.sqrt(obj)) > 0.1 * rel * (float(np.linalg.norm(C)) * float(np.linalg.norm(x)) + float(np.linalg.norm(d)))
    if (why or norm_bad) and spycall is not None:
        # is it the wrapper or the external solver?  evaluate the solver's own answer on the system it was handed
        (A_, b_), _, (xs_, rn_) = spycall
        A_ = np.asarray(A_, float); b_ = np.asarray(b_, float)
        ext_why = kkt_why(A_, b_, xs_, 1e-10)
        ext_norm_bad = abs(float(rn_) - float(np.linalg.norm(A_ @ xs_ - b_))) > 1e-9 * (float(rn_) + float(np.linalg.norm(b_)))
        if ext_why or ext_norm_bad:
            import scipy
            ctx.count('nnls:external-solver-returned-non-KKT-point')
            ctx.fail(SIG_NNLS_EXT,
                     'scipy.optimize.nnls (SciPy %s) returned a point that fails the KKT conditions of the system it was handed (%s; rnorm %r vs '
                     '|Ax-b| = %r); invert_regularised_nnls passes it on: x = %r is not a minimiser of |Wx-b|^2 + alpha^2|Lx|^2 over x >= 0 '
                     '(objective %r, reported norm^2 %r)' % (scipy.__version__, ext_why or 'KKT ok', float(rn_), float(np.linalg.norm(A_ @ xs_ - b_)),
                                                             x.tolist(), obj, float(norm) ** 2),
                     dict(desc, returned_x=x.tolist(), reported_norm=float(norm)))
            return verdict
    if why:
        ctx.fail('C11:invert_regularised_nnls:kkt-violated', why, dict(desc, returned_x=x.tolist()))
    if norm_bad:
        ctx.fail('C11:invert_regularised_nnls:residual-norm-inconsistent',
                 'reported norm %r but sqrt(|Wx-b|^2 + alpha^2|Lx|^2) = %r' % (float(norm), math.sqrt(obj)), dict(desc, returned_x=x.tolist()))
    if not why:
        _perturb_check(ctx, rng, 'invert_regularised_nnls', Wa, ba, alpha, Leff, x, obj, True, desc, rel)
    return verdict


def spied(which, fn, args, kw):
    """call one of the three wrappers with its external solver spied; returns (status, result, spy calls)"""
    import scipy.optimize
    import scipy.linalg
    tgt = {'nnls': (scipy.optimize, 'nnls'), 'lstsq': (np.linalg, 'lstsq'), 'svd': (scipy.linalg, 'pinv')}[which]
    real = getattr(*tgt)
    spy = Spy(real)
    setattr(tgt[0], tgt[1], spy)
    try:
        with np.errstate(all='ignore'):
            st, res = call(fn, *args, **kw)
    finally:
        setattr(tgt[0], tgt[1], real)
    return st, res, spy.calls


def lsq_judge(ctx, rng, which, M, st, res, calls, desc, lines, checks, kw=None, zclass=None, rel=1e-8, compare=True):
    """S oracles for one result of nnls / lstsq / svd, computed in float64 from the mathematical values M = (W, b, alpha, L);
    queues the K comparison of the spied call with the model when `compare`."""
    W, b, alpha, L = M['W'], M['b'], M['alpha'], M['L']
    m, n = len(W), len(W[0])
    hasL = L is not None
    Wa = np.array(W, float).reshape(m, n); ba = np.array(b, float); La = None if L is None else np.array(L, float).reshape(n, n)
    Leff = np.identity(n) if La is None else La
    C = np.vstack([Wa, alpha * Leff]); d = np.concatenate([ba, np.zeros(n)])
    kw = kw or {}
    spycall = calls[0] if len(calls) == 1 else None
    if which == 'nnls':
        verdict = nnls_oracle(ctx, rng, Wa, ba, alpha, La, st, res, spycall, desc, zclass, rel)
        if verdict == 'compare' and compare:
            if spycall is not None:
                (A_, b_), kw_, (xs_, rn_) = spycall
                lines.append('nnls %d %d %s %d %s %s %s %s %s' % (m, n, f2b(alpha), 1 if hasL else 0, fs(flat(W)), fs(b),
                                                                  (fs(flat(L)) if hasL else ''), fs(xs_.tolist()), f2b(rn_)))
                checks.append(('nnls', desc, dict(A=A_, b=b_, x=np.asarray(res[0]), norm=float(res[1]), xs=xs_, kw=kw_, kw_in=kw, n=n, rows=m + n)))
            else:
                ctx.broke('correspondence', 'C11 stream nnls-spy', dict(what='scipy.optimize.nnls called %d times' % len(calls), input=desc))
    elif which == 'lstsq':
        if st != 'ok':
            ctx.fail('C11:invert_regularised_lstsq:raised-%s' % st, 'raised %s: %s' % (st, res), desc)
            return
        x, resid = res
        if compare:
            if spycall is not None:
                (A_, b_), kw_, r_ = spycall
                lines.append('lstsq %d %d %s %d %s %s %s' % (m, n, f2b(alpha), 1 if hasL else 0, fs(flat(W)), fs(b), fs(flat(L)) if hasL else ''))
                checks.append(('lstsq', desc, dict(A=A_, b=b_, x=x, resid=resid, r=r_, kw=kw_, n=n, rows=m + n)))
            else:
                ctx.broke('correspondence', 'C11 stream lstsq-spy', dict(what='numpy.linalg.lstsq called %d times' % len(calls), input=desc))
        x = np.asarray(x, float)
        if x.shape != (n,):
            ctx.fail('C11:invert_regularised_lstsq:solution-shape', 'solution of shape %r for n = %d' % (x.shape, n), desc)
            return
        g = C.T @ (C @ x - d)
        sc = lsq_scale(C, d, x)
        if np.max(np.abs(g)) > rel * sc:
            ctx.fail('C11:invert_regularised_lstsq:normal-equations-violated',
                     'max |C^T(Cx-d)| = %.3g at scale %.3g' % (float(np.max(np.abs(g))), sc), dict(desc, returned_x=x.tolist()))
        obj = float(np.sum((Wa @ x - ba) ** 2) + alpha ** 2 * np.sum((Leff @ x) ** 2))
        resid = np.asarray(resid, float)
        if resid.size == 1:
            if abs(float(resid[0]) - obj) > 0.1 * rel * (float(np.linalg.norm(C)) * float(np.linalg.norm(x)) + float(np.linalg.norm(d))) ** 2:
                ctx.fail('C11:invert_regularised_lstsq:residual-inconsistent', 'reported residual %r but |Wx-b|^2+alpha^2|Lx|^2 = %r' % (float(resid[0]), obj),
                         dict(desc, returned_x=x.tolist()))
            ctx.count('lstsq-residual-reported')
        elif resid.size == 0:
            if np.linalg.matrix_rank(C) >= n and C.shape[0] > n:
                ctx.fail('C11:invert_regularised_lstsq:residual-missing', 'no residual reported for a full-rank stacked system', desc)
            ctx.count('lstsq-residual-empty(rank-deficient stacked system)')
        else:
            ctx.fail('C11:invert_regularised_lstsq:residual-shape', 'residuals of shape %r' % (resid.shape,), desc)
        _perturb_check(ctx, rng, 'invert_regularised_lstsq', Wa, ba, alpha, Leff, x, obj, False, desc, rel)
    else:
        if st != 'ok':
            ctx.fail('C11:invert_svd:raised-%s' % st, 'raised %s: %s' % (st, res), desc)
            return
        x = np.asarray(res, float)
        if compare:
            if spycall is not None:
                (A_,), kw_, P = spycall
                lines.append('svd %d %d %s %s %s' % (m, n, fs(flat(W)), fs(b), fs(np.asarray(P, float).ravel().tolist())))
                checks.append(('svd', desc, dict(A=A_, x=x, n=n, W=Wa, rel=max(1e-9, rel * 0.1),
                                                 cond=np.abs(np.asarray(P, float)).reshape(n, m) @ np.abs(ba))))
            else:
                ctx.broke('correspondence', 'C11 stream svd-spy', dict(what='scipy.linalg.pinv called %d times' % len(calls), input=desc))
        g = Wa.T @ (Wa @ x - ba) if x.shape == (n,) else np.zeros(1)
        sc = lsq_scale(Wa, ba, x)
        # invert_svd forms pinv(W) explicitly: singular values below max(m,n)*eps*sigma_max are dropped (scipy's documented default),
        # the retained ones enter as 1/sigma, so the honest error of x = pinv(W) b is eps * sigma_max / sigma_min_retained relative —
        # not the 1e-15 of a backward-stable solver.  The residual is judged on the backward-error scale |W|(|W||x|+|b|) times that.
        eps = 1.2e-7 if rel > 1e-6 else 2.3e-16
        sv = np.linalg.svd(Wa, compute_uv=False) if Wa.size else np.zeros(0)
        kept = sv[sv > 0.5 * max(m, n) * eps * sv[0]] if sv.size and sv[0] > 0 else sv[:0]
        kappa = float(sv[0] / kept[-1]) if kept.size else 1.0
        rel_svd = max(rel, min(1.0, eps * kappa))
        if rel_svd > rel:
            ctx.count('svd:ill-conditioned retained singular values (tolerance eps*kappa)')
        if spycall is not None and Wa.size:
            # hypothesis of `svd_wrapper_correct` (Moore-Penrose conditions 1 and 3), monitored on what scipy.linalg.pinv returned
            Pn = np.asarray(spycall[2], float).reshape(n, m)
            with np.errstate(all='ignore'):
                wp = Wa @ Pn
                nw, npn = float(np.linalg.norm(Wa)), float(np.linalg.norm(Pn))
                e1 = float(np.max(np.abs(wp @ Wa - Wa))) / (nw * (1.0 + nw * npn) + 1e-300)
                e3 = float(np.max(np.abs(wp - wp.T))) / (1.0 + nw * npn)
            ctx.count('svd:pinv-contract(WPW=W, WP symmetric) ' + ('holds' if max(e1, e3) <= 100 * rel_svd else
                                                                     'residual above tolerance (external solver; observation)'))
        if x.shape != (n,) or np.max(np.abs(g)) > rel_svd * sc:
            ctx.fail('C11:invert_svd:normal-equations-violated', 'shape %r, max |W^T(Wx-b)| = %.3g at scale %.3g (retained condition number %.3g)'
                     % (x.shape, float(np.max(np.abs(g))), sc, kappa), dict(desc, returned_x=x.tolist()))


def _bits(vs):
    """bit patterns, with -0.0 identified with 0.0 (integer-typed alpha*L has no signed zero)"""
    return [f2b(v + 0.0) if v != 0 else f2b(0.0) for v in (float(u) for u in vs)]


def lsq_compare(ctx, lines, checks):
    """K: the spied solver calls against the model's stacked / normalised systems"""
    outs = ctx.driver(lines)
    for (which, desc, k), o in zip(checks, outs):
        ctx.traces += 1
        t = [b2f(v) for v in o.split()]
        n, rows = k['n'], k.get('rows')
        name = 'C11 stream ' + which
        bad = None
        if which == 'nnls':
            vm, Cm, dm, xm, nm = t[0], t[1:1 + rows * n], t[1 + rows * n:1 + rows * n + rows], t[1 + rows * n + rows:-1], t[-1]
            if k['A'].shape != (rows, n) or _bits(k['A'].ravel()) != _bits(Cm):
                bad = 'matrix handed to scipy.optimize.nnls differs from the model\'s [W; alpha L]/vmax'
            elif _bits(k['b']) != _bits(dm):
                bad = 'right-hand side handed to scipy.optimize.nnls differs from the model\'s [b; 0]/vmax'
            elif k['x'] is not k['xs'] and not np.array_equal(k['x'], k['xs']):
                bad = 'returned x is not the solver\'s x'
            elif f2b(k['norm']) != f2b(nm):
                bad = 'reported norm %r is not rnorm*vmax = %r' % (k['norm'], nm)
            elif k['kw'] != k['kw_in']:
                bad = 'keyword arguments not passed through: %r vs %r' % (k['kw'], k['kw_in'])
        elif which == 'lstsq':
            Cm, dm = t[:rows * n], t[rows * n:]
            if k['A'].shape != (rows, n) or _bits(k['A'].ravel()) != _bits(Cm):
                bad = 'matrix handed to numpy.linalg.lstsq differs from the model\'s [W; alpha L]'
            elif _bits(k['b']) != _bits(dm):
                bad = 'right-hand side handed to numpy.linalg.lstsq differs from the model\'s [b; 0]'
            elif not (np.array_equal(k['x'], k['r'][0]) and np.array_equal(k['resid'], k['r'][1])):
                bad = 'returned (x, residuals) are not the solver\'s'
            elif k['kw'] != dict(rcond=None):
                bad = 'lstsq keyword arguments %r' % (k['kw'],)
        else:
            if not np.array_equal(np.asarray(k['A'], float), k['W']):
                bad = 'matrix handed to scipy.linalg.pinv is not W'
            elif k['x'].shape != (n,) or np.any(np.abs(k['x'] - np.array(t)) > k.get('rel', 1e-9) * (np.abs(k['x']) + 4.0 * k['cond'])):
                bad = 'returned x %r is not pinv(W) b = %r' % (k['x'].tolist(), t)
        if bad:
            ctx.disagreements += 1
            ctx.broke('correspondence', name, dict(what=bad, input=desc))


def lsq_stream(ctx):
    from cherab.tools.inversions import invert_regularised_nnls, invert_regularised_lstsq, invert_svd
    rng = ctx.rng
    lines, checks = [], []
    big = 8 if ctx.tier == 'quick' else 12
    for it in range(ctx.n(700, 30000)):
        m, n = rng.randint(1, big), rng.randint(1, big)
        W, wk = gen_matrix(rng, m, n)
        b, bk = mixed_b(rng, W, m, n) if wk == 'mixed-magnitude' else gen_b(rng, W, m, n)
        zclass = None
        if it % 11 == 5:
            zclass = rng.choice(['all-zero', 'all-negative', 'non-positive'])
            b = {'all-zero': [0.0] * m, 'all-negative': [-rng.uniform(0.1, 2) for _ in range(m)],
                 'non-positive': [rng.choice([0.0, -rng.uniform(0.1, 2)]) for _ in range(m)]}[zclass]
            bk = zclass
        alpha = rng.choice([0.01, 0.01, 0.0, 1.0, 0.1, rng.uniform(0, 2), 10.0 ** rng.randint(-4, 1)])
        hasL = rng.random() < 0.6
        if hasL:
            if rng.random() < 0.5:
                L, lk = gen_laplacian(rng, n)
            else:
                L, lk = [[rng.uniform(-1, 1) for _ in range(n)] for _ in range(n)], 'random'
        else:
            L, lk = None, 'identity(default)'
        Wa = np.array(W).reshape(m, n); ba = np.array(b); La = None if L is None else np.array(L).reshape(n, n)
        base = dict(W=W, b=b, alpha=alpha, tikhonov_matrix=L, matrix_class=wk, b_class=bk, tikhonov_class=lk)
        which = rng.choice(['nnls', 'nnls', 'lstsq', 'lstsq', 'svd']) if zclass is None else 'nnls'
        ctx.count('invert_' + which); ctx.count('lsq-matrix:' + wk); ctx.count('lsq-b:' + bk)
        ctx.case(key=(which, wk, bk, lk, m, n, f2b(alpha)),
                 sample=dict(func=which, shape=[m, n], alpha=alpha, tikhonov=lk, W=W, b=b) if it % 89 == 7 else None)
        M = dict(W=W, b=b, alpha=alpha, L=L)
        kw = {}
        if which == 'nnls':
            desc = dict(base, func='invert_regularised_nnls')
            kw = dict(maxiter=50 * n) if rng.random() < 0.3 else {}
            snaps = [snap(v) for v in (Wa, ba, La)]
            st, res, calls = spied('nnls', invert_regularised_nnls, (Wa, ba, alpha, La), kw)
        elif which == 'lstsq':
            desc = dict(base, func='invert_regularised_lstsq')
            snaps = [snap(v) for v in (Wa, ba, La)]
            st, res, calls = spied('lstsq', invert_regularised_lstsq, (Wa, ba, alpha, La), {})
        else:
            desc = dict(func='invert_svd', W=W, b=b, matrix_class=wk, b_class=bk)
            snaps = [snap(v) for v in (Wa, ba, La)]
            st, res, calls = spied('svd', invert_svd, (Wa, ba), {})
        for nm, v, s0 in zip(('w_matrix', 'b_vector', 'tikhonov_matrix'), (Wa, ba, La), snaps):
            if snap(v) != s0:
                ctx.fail('C11:%s:argument-%s-modified' % (desc['func'], nm), 'the caller\'s %s was modified by the call' % nm, desc)
        lsq_judge(ctx, rng, which, M, st, res, calls, desc, lines, checks, kw, zclass)
    lsq_compare(ctx, lines, checks)


def snap(o):
    """content snapshot of an argument (to detect in-place modification)"""
    if isinstance(o, np.ndarray):
        return ('nd', o.dtype.str, o.shape, o.tobytes(), bool(o.flags.writeable))
    return ('py', repr(o))


def _perturb_check(ctx, rng, fn, Wa, ba, alpha, Leff, x, obj, nonneg, desc, rel=1e-8):
    """S: the objective at the returned x is not larger than at perturbed feasible points"""
    n = len(x)
    sc = obj + float(ba @ ba) + 1e-300
    for _ in range(3):
        h = 10.0 ** rng.randint(-6, 0)
        y = x + np.array([rng.uniform(-1, 1) * h * (1 + abs(v)) for v in x])
        if nonneg:
            y = np.maximum(y, 0.0)
        oy = float(np.sum((Wa @ y - ba) ** 2) + alpha ** 2 * np.sum((Leff @ y) ** 2))
        if oy < obj - 0.1 * rel * sc:
            ctx.fail('C11:%s:not-a-minimiser' % fn, 'objective %r at the returned x but %r at a nearby feasible point' % (obj, oy),
                     dict(desc, returned_x=x.tolist(), better_point=y.tolist()))
            return


# ------------------------------------------------------------------------------------------------- representations

ARR_KINDS = ['f64', 'f32', 'i32', 'i64', 'bool', 'list', 'intlist', 'tuple', 'fortran', 'strided', 'readonly']
GUESS_SCALARS = ['none', 'pyfloat', 'pyint', 'pybool', 'npf64', 'npf32', 'npi64', 'zerod']
ALPHA_KINDS = ['pyfloat', 'pyint', 'npf64', 'npf32', 'zerod']
PLAIN = ('f64', 'fortran', 'strided')
CLEAN = ('TypeError', 'ValueError', 'AttributeError')


def vclass(kind):
    return {'f32': 'f32', 'i32': 'int', 'i64': 'int', 'intlist': 'int', 'bool': 'bool'}.get(kind, 'float')


def rvalue(rng, cls, lo, hi, pzero=0.0):
    """a python float that is exactly representable in the value class"""
    if rng.random() < pzero:
        return 0.0
    if cls == 'int':
        return float(rng.randint(int(math.ceil(lo)), int(hi)))
    if cls == 'bool':
        return float(rng.randint(0, 1))
    v = rng.uniform(lo, hi)
    return float(np.float32(v)) if cls == 'f32' else v


def make_obj(vals, kind, nd):
    """the Python object of representation `kind` holding exactly the mathematical values `vals`"""
    a = np.array(vals, dtype=float)
    if kind == 'f32':
        return a.astype(np.float32)
    if kind == 'i32':
        return a.astype(np.int32)
    if kind == 'i64':
        return a.astype(np.int64)
    if kind == 'bool':
        return a.astype(bool)
    if kind == 'list':
        return a.tolist()
    if kind == 'intlist':
        return a.astype(int).tolist()
    if kind == 'tuple':
        return tuple(tuple(r) for r in a.tolist()) if nd == 2 else tuple(a.tolist())
    if kind == 'fortran':
        return np.asfortranarray(a)
    if kind == 'strided':
        if nd == 2:
            z = np.full((a.shape[0] * 2 + 1, a.shape[1] * 3), 7.5)
            v = z[1::2, ::3]
        else:
            z = np.full(a.shape[0] * 2, 7.5)
            v = z[::2]
        v[...] = a
        return v
    if kind == 'readonly':
        a.setflags(write=False)
        return a
    if kind == 'col':
        return a.reshape(-1, 1)
    return a


def make_scalar(v, kind):
    return {'pyfloat': lambda: float(v), 'pyint': lambda: int(v), 'pybool': lambda: bool(v), 'npf64': lambda: np.float64(v),
            'npf32': lambda: np.float32(v), 'npi64': lambda: np.int64(v), 'zerod': lambda: np.array(float(v))}[kind]()


def gen_rep_case(rng, tier):
    """one representation case as a JSON-able description (mathematical values + representation of every argument)"""
    fn = rng.choice(['invert_sart', 'invert_constrained_sart', 'invert_regularised_nnls', 'invert_regularised_lstsq', 'invert_svd'])
    m, n = rng.randint(1, 6), rng.randint(1, 6)
    sart = fn in ('invert_sart', 'invert_constrained_sart')
    names = ['W', 'b'] + (['guess'] if sart else []) + (['L'] if fn in ('invert_constrained_sart', 'invert_regularised_nnls', 'invert_regularised_lstsq') else []) \
        + (['alpha'] if fn in ('invert_regularised_nnls', 'invert_regularised_lstsq') else [])
    reps = dict(W='f64', b='f64', guess='none' if rng.random() < 0.5 else 'f64', L='f64', alpha='pyfloat')
    varied = names if rng.random() < 0.35 else [rng.choice(names)]
    for a in varied:
        if a == 'guess':
            reps[a] = rng.choice(GUESS_SCALARS + ARR_KINDS + ['col'])
        elif a == 'alpha':
            reps[a] = rng.choice(ALPHA_KINDS)
        elif a == 'b':
            reps[a] = rng.choice(ARR_KINDS + ['col'])
        else:
            reps[a] = rng.choice(ARR_KINDS)
    if 'L' in names and not sart and rng.random() < 0.3:
        reps['L'] = '-'                                       # default identity
    cW, cb = vclass(reps['W']), vclass(reps['b'])
    W = [[rvalue(rng, cW, 0.05, 3.0, 0.3) if cW in ('float', 'f32') else rvalue(rng, cW, 0, 3) for _ in range(n)] for _ in range(m)]
    if rng.random() < 0.2:
        W[rng.randrange(m)] = [0.0] * n
    if cb in ('float', 'f32'):
        xt = [rng.uniform(0, 3) for _ in range(n)]
        b = [math.fsum(w * x for w, x in zip(r, xt)) * (1 + rng.uniform(-0.1, 0.1)) + rng.uniform(0, 0.05) for r in W]
        if cb == 'f32':
            b = [float(np.float32(v)) for v in b]
    else:
        b = [rvalue(rng, cb, 0, 8) for _ in range(m)]
    if not any(b):
        b[rng.randrange(m)] = 1.0
    d = dict(func=fn, W=W, b=b, reprs={k: reps[k] for k in names}, representation_case=True)
    if 'L' in names:
        if reps['L'] == '-':
            L = None
        else:
            cL = vclass(reps['L'])
            if cL == 'int':
                L, _ = gen_laplacian(rng, n, integer=True)
            elif cL == 'bool':
                L = [[rvalue(rng, 'bool', 0, 1) for _ in range(n)] for _ in range(n)]
            else:
                L = [[rvalue(rng, cL, -1, 1) for _ in range(n)] for _ in range(n)] if rng.random() < 0.5 else gen_laplacian(rng, n)[0]
                if cL == 'f32':
                    L = [[float(np.float32(v)) for v in r] for r in L]
        d['L'] = L
    if sart:
        g = reps['guess']
        if g == 'none':
            d['guess'] = None
        elif g in GUESS_SCALARS:
            d['guess'] = {'pyfloat': rng.uniform(0, 3), 'npf64': rng.uniform(0, 3), 'zerod': rng.uniform(0, 3), 'pyint': float(rng.randint(0, 3)),
                          'npi64': float(rng.randint(0, 3)), 'pybool': float(rng.randint(0, 1)), 'npf32': float(np.float32(rng.uniform(0, 3)))}[g]
        else:
            d['guess'] = [rvalue(rng, vclass(g), 0, 3) for _ in range(n)]
        d.update(max_iterations=rng.choice([1, 2, 3, 5, 10]), relaxation=rng.choice([1.0, 0.5, 0.8]), conv_tol=rng.choice([1e-4, -1.0, 1e-2]),
                 beta=rng.choice([0.0, 0.01, 0.05]) if fn == 'invert_constrained_sart' else None)
    if 'alpha' in names:
        a = reps['alpha']
        dyadic = a == 'npf32' or reps['L'] == 'f32'
        if a == 'pyint':
            d['alpha'] = float(rng.randint(0, 2))
        elif dyadic and rng.random() < 0.8:
            d['alpha'] = rng.choice([0.0, 0.125, 0.25, 0.5, 1.0, 2.0])
        else:
            d['alpha'] = rng.choice([0.01, 0.1, 1.0, rng.uniform(0, 2)])
            if a == 'npf32':
                d['alpha'] = float(np.float32(d['alpha']))
        d['alpha_dyadic'] = d['alpha'] in (0.0, 0.125, 0.25, 0.5, 1.0, 2.0)
    return d


def rep_objects(d):
    """fresh argument objects for a representation case"""
    r = d['reprs']
    o = dict(W=make_obj(d['W'], r['W'], 2), b=make_obj(d['b'], r['b'], 1))
    if 'L' in r:
        o['L'] = None if r['L'] == '-' else make_obj(d['L'], r['L'], 2)
    if 'guess' in r:
        g = r['guess']
        o['guess'] = None if g == 'none' else make_scalar(d['guess'], g) if g in GUESS_SCALARS else make_obj(d['guess'], g, 1)
    if 'alpha' in r:
        o['alpha'] = make_scalar(d['alpha'], r['alpha'])
    return o


def rep_call(d, o):
    import cherab.tools.inversions as inv
    fn = d['func']
    if fn == 'invert_sart':
        with np.errstate(all='ignore'):
            st, res = call(inv.invert_sart, o['W'], o['b'], initial_guess=o['guess'], max_iterations=d['max_iterations'], relaxation=d['relaxation'],
                           conv_tol=d['conv_tol'])
        return st, res, []
    if fn == 'invert_constrained_sart':
        with np.errstate(all='ignore'):
            st, res = call(inv.invert_constrained_sart, o['W'], o['L'], o['b'], initial_guess=o['guess'], max_iterations=d['max_iterations'],
                           relaxation=d['relaxation'], beta_laplace=d['beta'], conv_tol=d['conv_tol'])
        return st, res, []
    if fn == 'invert_regularised_nnls':
        return spied('nnls', inv.invert_regularised_nnls, (o['W'], o['b'], o['alpha'], o['L']), {})
    if fn == 'invert_regularised_lstsq':
        return spied('lstsq', inv.invert_regularised_lstsq, (o['W'], o['b'], o['alpha'], o['L']), {})
    return spied('svd', inv.invert_svd, (o['W'], o['b']), {})


def _same_result(a, b):
    if isinstance(a, (tuple, list)) and isinstance(b, (tuple, list)):
        return len(a) == len(b) and all(_same_result(x, y) for x, y in zip(a, b))
    try:
        return bool(np.array_equal(np.asarray(a, float), np.asarray(b, float), equal_nan=True))
    except Exception:
        return repr(a) == repr(b)


def sart_entry(d, st, res):
    """the model line and comparison record of one SART call described by d (mathematical values)"""
    fn = d['func']
    g = d['guess']
    n = len(d['W'][0])
    x0 = np.zeros(n) + (float(np.exp(-1)) if g is None else g) if not isinstance(g, list) else np.array(g, float)
    gtok = ('0 ' + f2b(float(np.exp(-1)))) if g is None else ('1 ' + f2b(g)) if not isinstance(g, list) else '2 %d %s' % (n, fs(g))
    m = len(d['W'])
    if fn == 'invert_constrained_sart':
        line = 'csart %d %d %d %s %s %s %s %s %s %s' % (n, m, d['max_iterations'], f2b(d['relaxation']), f2b(d['conv_tol']), f2b(d['beta']), gtok,
                                                       fs(flat(d['W'])), fs(d['b']), fs(flat(d['L'])))
    else:
        line = 'sart %d %d %d %s %s %s %s %s' % (n, m, d['max_iterations'], f2b(d['relaxation']), f2b(d['conv_tol']), gtok, fs(flat(d['W'])), fs(d['b']))
    c = dict(line=line, st=st, res=res, desc=dict(d, x0=[float(v) for v in x0]), n=n, x0=x0, W=d['W'], b=d['b'],
             L=d.get('L') if fn == 'invert_constrained_sart' else None, beta=d.get('beta') or 0.0, relax=d['relaxation'], tol=d['conv_tol'], maxit=d['max_iterations'])
    return ('sart', line, c, d)


def rep_case_run(ctx, rng, d, pending):
    """execute one representation case: standing oracles (arguments untouched, repeatable), S oracles from the mathematical
    values; queues the model lines (acceptance + values) in `pending`"""
    fn = d['func']
    r = d['reprs']
    sart = fn in ('invert_sart', 'invert_constrained_sart')
    o = rep_objects(d)
    snaps = {k: snap(v) for k, v in o.items()}
    st, res, calls = rep_call(d, o)
    res1 = res if st != 'ok' else (tuple(np.array(v, copy=True) if isinstance(v, np.ndarray) else (list(v) if isinstance(v, list) else v) for v in res)
                                   if isinstance(res, tuple) else np.array(res, copy=True))
    ctx.count('repr:%s:%s' % (fn, st))
    for k, v in r.items():
        if v not in ('f64', 'pyfloat', 'none'):
            ctx.count('repr-arg:%s=%s' % (k, v))
    # standing oracle 1: the caller's objects are untouched (SART's array initial_guess is the one as-is exception: it is the
    # returned solution, documented as outside the property)
    for k, v in o.items():
        if snap(v) != snaps[k]:
            if sart and k == 'guess':
                ctx.count('observation:initial_guess-array-overwritten-and-returned(outside property)')
                continue
            pn = (dict(W='geometry_matrix', b='measurement_vector', L='laplacian_matrix', guess='initial_guess') if sart else
                  dict(W='w_matrix', b='b_vector', L='tikhonov_matrix', alpha='alpha'))[k]
            ctx.fail('C11:%s:argument-%s-modified' % (fn, pn), 'the caller\'s %s (%s) was modified by the call' % (pn, r[k]), d)
    # standing oracle 2: an identical second call on the same objects gives the identical result
    if sart and isinstance(o.get('guess'), np.ndarray):
        o['guess'] = rep_objects(d)['guess']
    st2, res2, _ = rep_call(d, o)
    if st2 != st or (st == 'ok' and not _same_result(res1, res2)):
        ctx.fail('C11:%s:repeated-call-differs' % fn, 'two identical calls on the same argument objects: first %s %r, second %s %r' % (st, res1 if st == 'ok' else res, st2, res2), d)
    # acceptance: model line
    if sart:
        acc = 'acc sart %s %s %s' % (r['W'], r['b'], r['guess'])
        plain = r['W'] in PLAIN and r['b'] in PLAIN and r['guess'] in ('none', 'pyfloat', 'pyint', 'pybool', 'npf64') + PLAIN
    elif fn == 'invert_svd':
        acc = 'acc svd %s %s' % (r['W'], r['b'])
        plain = r['W'] in PLAIN and r['b'] in PLAIN
    else:
        acc = 'acc lsq %d %s %s %s %s' % (len(d['W']), r['W'], r['alpha'], r['L'], r['b'])
        plain = r['W'] in PLAIN and r['b'] in PLAIN and r['L'] in PLAIN + ('-',) and r['alpha'] == 'pyfloat'
    pending.append(('acc', acc, st, d))
    if st != 'ok':
        # S: a representation may be refused, but cleanly (TypeError / ValueError / AttributeError); writable float64 ndarrays must work
        if plain or st not in CLEAN:
            ctx.fail('C11:%s:raised-%s' % (fn, st), '%s raised %s: %s for representations %r' % (fn, st, res, r), d)
        return
    f32 = any(v in ('f32', 'npf32') for v in r.values())
    if sart:
        pending.append(sart_entry(d, st, res1))
    else:
        which = {'invert_regularised_nnls': 'nnls', 'invert_regularised_lstsq': 'lstsq', 'invert_svd': 'svd'}[fn]
        M = dict(W=d['W'], b=d['b'], alpha=d.get('alpha', 0.0), L=d.get('L'))
        exact = not f32 or (which != 'svd' and d.get('alpha_dyadic'))
        if which == 'svd':
            exact = True
            # scipy.linalg.pinv works in single precision for float32 *and bool* input (as-is; svd is not in the property sentence)
            rel = 2e-4 if (f32 or r['W'] == 'bool') else 1e-8
        else:
            rel = 1e-8 if exact else 1e-5
        if not exact:
            ctx.count('repr:single-precision alpha*L (K skipped, S at 1e-5)')
        desc = dict(d, tikhonov_matrix=d.get('L'))
        lines, checks = [], []
        lsq_judge(ctx, rng, which, M, st, res, calls, desc, lines, checks, {}, None, rel, exact)
        for l, ch in zip(lines, checks):
            pending.append(('lsq', l, ch, d))


def repr_stream(ctx):
    """input-representation variety for all five entry points"""
    rng = ctx.rng
    pending = []
    for it in range(ctx.n(900, 20000)):
        d = gen_rep_case(rng, ctx.tier)
        ctx.case(key=('repr', d['func'], json.dumps(d['reprs'], sort_keys=True), len(d['W']), len(d['W'][0])),
                 sample=dict(func=d['func'], reprs=d['reprs'], W=d['W'], b=d['b']) if it % 211 == 5 else None)
        rep_case_run(ctx, rng, d, pending)
    rep_flush(ctx, pending)


def rep_flush(ctx, pending):
    outs = ctx.driver([p[1] for p in pending])
    lsq_lines, lsq_checks = [], []
    for (kind, line, x, d), o in zip(pending, outs):
        if kind == 'acc':
            ctx.traces += 1
            if o != x:
                ctx.disagreements += 1
                ctx.broke('correspondence', 'C11 stream representations (acceptance)', dict(line=line, model=o, implementation=x, input=d))
        elif kind == 'sart':
            sart_compare(ctx, x, o)
        else:
            lsq_lines.append(line); lsq_checks.append(x)
    if lsq_lines:
        lsq_compare(ctx, lsq_lines, lsq_checks)


# ------------------------------------------------------------------------------------------------- histories

def gen_history(rng):
    """consecutive calls of one entry point with the SAME argument objects whose contents are edited in place between the calls
    (or replaced by fresh objects of the same shape, or left alone); alpha / beta equal or changed.  JSON-able: every step lists
    the full contents at call time."""
    fn = rng.choice(['invert_sart', 'invert_constrained_sart', 'invert_regularised_nnls', 'invert_regularised_nnls',
                     'invert_regularised_lstsq', 'invert_regularised_lstsq', 'invert_svd'])
    sart = fn in ('invert_sart', 'invert_constrained_sart')
    m, n = rng.randint(2, 6), rng.randint(2, 6)
    W, _ = gen_matrix(rng, m, n)
    W = [[abs(v) for v in r] for r in W]
    xt = [rng.uniform(0.2, 3) for _ in range(n)]
    b = [math.fsum(w * x for w, x in zip(r, xt)) + 1e-3 for r in W]
    useL = fn == 'invert_constrained_sart' or (not sart and fn != 'invert_svd' and rng.random() < 0.7)
    L = (gen_laplacian(rng, n)[0] if rng.random() < 0.6 else [[rng.uniform(-1, 1) for _ in range(n)] for _ in range(n)]) if useL else None
    alpha = rng.choice([0.05, 0.5, 1.0])
    beta = rng.choice([0.01, 0.05])
    steps = []
    for k in range(rng.randint(2, 5)):
        mode = 'first' if k == 0 else rng.choice(['edit-W', 'edit-W', 'edit-L', 'edit-b', 'edit-W-and-b', 'unchanged', 'fresh-W', 'fresh-L'])
        W = [list(r) for r in W]; b = list(b); L = None if L is None else [list(r) for r in L]
        if mode in ('edit-W', 'edit-W-and-b', 'fresh-W'):
            how = rng.choice(['zero-row', 'scale-col', 'new-entries'])
            if how == 'zero-row':
                i = rng.randrange(m); W[i] = [0.0] * n
                if mode == 'edit-W-and-b':
                    b[i] = 0.0
            elif how == 'scale-col':
                j = rng.randrange(n); f = rng.choice([0.0, 0.5, 3.0])
                for r in W:
                    r[j] *= f
            else:
                W = [[rng.uniform(0.05, 2.0) if rng.random() < 0.7 else 0.0 for _ in range(n)] for _ in range(m)]
            if mode == 'edit-W-and-b':
                b = [math.fsum(w * x for w, x in zip(r, xt)) * 1.3 + 1e-3 for r in W]
        if mode in ('edit-L', 'fresh-L') and L is not None:
            L = [[v * rng.choice([1.0, 2.0, 0.0]) + (rng.uniform(-0.5, 0.5) if rng.random() < 0.3 else 0.0) for v in r] for r in L]
        if mode == 'edit-b':
            b = [v * rng.uniform(0.5, 2.0) for v in b]
        if not any(b):
            b[0] = 1.0
        if k > 0 and rng.random() < 0.25:
            alpha = rng.choice([0.05, 0.5, 1.0]); beta = rng.choice([0.01, 0.05])
        steps.append(dict(mode=mode, W=W, b=b, L=L, alpha=alpha, beta=beta))
    h = dict(func=fn, history_case=True, steps=steps)
    if sart:
        h.update(guess=rng.choice([None, 1.0, 0.0]), max_iterations=rng.choice([1, 2, 5]), relaxation=rng.choice([1.0, 0.7]), conv_tol=rng.choice([1e-4, -1.0]))
    return h


def run_history(ctx, rng, h, pending):
    """every call must be certified for the contents the argument objects hold at call time"""
    import cherab.tools.inversions as inv
    fn = h['func']
    sart = fn in ('invert_sart', 'invert_constrained_sart')
    s0 = h['steps'][0]
    Wo = np.array(s0['W'], float); bo = np.array(s0['b'], float); Lo = None if s0['L'] is None else np.array(s0['L'], float)
    for k, stp in enumerate(h['steps']):
        if stp['mode'].startswith('fresh-W'):
            Wo = np.array(stp['W'], float)
        else:
            Wo[...] = stp['W']
        bo[...] = stp['b']
        if Lo is not None:
            if stp['mode'] == 'fresh-L':
                Lo = np.array(stp['L'], float)
            else:
                Lo[...] = stp['L']
        d = dict(func=fn, W=stp['W'], b=stp['b'], L=stp['L'], history_case=True, steps=h['steps'], failing_step=k, mode=stp['mode'],
                 **{q: h[q] for q in ('guess', 'max_iterations', 'relaxation', 'conv_tol') if q in h})
        snaps = [snap(v) for v in (Wo, bo, Lo)]
        ctx.count('history:%s:%s' % (fn, stp['mode']))
        if sart:
            d['beta'] = stp['beta'] if fn == 'invert_constrained_sart' else None
            kw = dict(initial_guess=h['guess'], max_iterations=h['max_iterations'], relaxation=h['relaxation'], conv_tol=h['conv_tol'])
            with np.errstate(all='ignore'):
                if fn == 'invert_sart':
                    st, res = call(inv.invert_sart, Wo, bo, **kw)
                else:
                    st, res = call(inv.invert_constrained_sart, Wo, Lo, bo, beta_laplace=stp['beta'], **kw)
            pending.append(sart_entry(d, st, res))
        else:
            which = {'invert_regularised_nnls': 'nnls', 'invert_regularised_lstsq': 'lstsq', 'invert_svd': 'svd'}[fn]
            d['alpha'] = stp['alpha']; d['tikhonov_matrix'] = stp['L']
            args = (Wo, bo) if which == 'svd' else (Wo, bo, stp['alpha'], Lo)
            st, res, calls = spied(which, getattr(inv, fn), args, {})
            M = dict(W=stp['W'], b=stp['b'], alpha=stp['alpha'], L=None if which == 'svd' else stp['L'])
            lines, checks = [], []
            lsq_judge(ctx, rng, which, M, st, res, calls, d, lines, checks)
            for l, ch in zip(lines, checks):
                pending.append(('lsq', l, ch, d))
        for nm, v, sn in zip(('W', 'b', 'L'), (Wo, bo, Lo), snaps):
            if snap(v) != sn:
                pn = (dict(W='geometry_matrix', b='measurement_vector', L='laplacian_matrix') if sart else dict(W='w_matrix', b='b_vector', L='tikhonov_matrix'))[nm]
                ctx.fail('C11:%s:argument-%s-modified' % (fn, pn), 'the caller\'s %s was modified by call %d of a history' % (pn, k), d)


def history_stream(ctx):
    rng = ctx.rng
    pending = []
    for it in range(ctx.n(250, 5000)):
        h = gen_history(rng)
        ctx.case(key=('history', h['func'], tuple(s_['mode'] for s_ in h['steps']), len(h['steps'][0]['W']), len(h['steps'][0]['W'][0])),
                 sample=dict(func=h['func'], modes=[s_['mode'] for s_ in h['steps']], first_W=h['steps'][0]['W']) if it % 83 == 2 else None)
        run_history(ctx, rng, h, pending)
    rep_flush(ctx, pending)


# ------------------------------------------------------------------------------------------------- certificate functions

def certificate_stream(ctx):
    """the model's kktResidual / objective against numpy on random data"""
    rng = ctx.rng
    lines, exp = [], []
    for it in range(ctx.n(60, 600)):
        rows, n = rng.randint(1, 8), rng.randint(1, 6)
        C = [[rng.uniform(-2, 2) for _ in range(n)] for _ in range(rows)]
        d = [rng.uniform(-2, 2) for _ in range(rows)]
        x = [rng.uniform(-2, 2) for _ in range(n)]
        Ca, da, xa = np.array(C).reshape(rows, n), np.array(d), np.array(x)
        g = Ca.T @ (Ca @ xa - da)
        lines.append('kkt %d %d %s %s %s' % (rows, n, fs(flat(C)), fs(d), fs(x)))
        exp.append(list(g) + [float(xa @ g)])
        L = [[rng.uniform(-1, 1) for _ in range(n)] for _ in range(n)]
        a = rng.uniform(0, 2)
        lines.append('obj %d %d %s %s %s %s %s' % (rows, n, f2b(a), fs(flat(C)), fs(d), fs(flat(L)), fs(x)))
        exp.append([float(np.sum((Ca @ xa - da) ** 2) + a * a * np.sum((np.array(L).reshape(n, n) @ xa) ** 2))])
        ctx.case(key=('cert', it))
    outs = ctx.driver(lines)
    for l, e, o in zip(lines, exp, outs):
        ctx.traces += 1
        t = [b2f(v) for v in o.split()]
        sc = max(1.0, max(abs(v) for v in e))
        if len(t) != len(e) or any(abs(a - b) > 1e-11 * sc for a, b in zip(t, e)):
            ctx.disagreements += 1
            ctx.broke('correspondence', 'C11 stream certificates', dict(line=l[:60], model=t, numpy=e))


# ------------------------------------------------------------------------------------------------- entry points

def run(ctx):
    ctx.rule = ('random systems W (m,n in 1..8, thorough 1..12; dense / sparse / rows or columns of zeros / rank-deficient / rank-1 / integer / scaled), '
                'measurements (consistent, noisy, random, partly negative, scaled; for nnls also all-zero / all-negative / non-positive), every kind of '
                'initial_guess (None, float, int, bool, np.float64, array, strided view, negative, zeros), relaxation, conv_tol (incl. 0 and negative), '
                'max_iterations 0..250, beta_laplace and Laplacians (chain, ring, grid, random, zero), alpha and Tikhonov matrices (default identity, Laplacian, '
                'random); a representation stream passes W, b, L, initial_guess, alpha as float64/float32/int32/int64/bool arrays, nested lists/tuples, Fortran / strided / '
                'read-only arrays, column vectors, Python and numpy scalars, 0-d arrays, with values exactly representable in the chosen type; a case is distinct by (function, matrix class, measurement class, guess/Tikhonov kind, shape, scalar parameters); non-trivial = '
                'the real function was executed and its result compared with the model and checked by the direct oracle')
    ctx.trusted += ['scipy.optimize.nnls, numpy.linalg.lstsq, scipy.linalg.pinv are parameters of the model; the wrapper theorems assume the returned point satisfies '
                    'the KKT / normal-equation certificate of the system handed to the solver — checked on every returned x by the S oracles',
                    'numpy sum/dot (pairwise / BLAS summation order differs from the model\'s left-to-right order: compared with rel 1e-9; bit-for-bit on the dyadic stream)',
                    'np.exp(-1) (default initial guess) compared with libm exp(-1) every run']
    ctx.assumptions += ['compatible shapes, finite entries, non-negative weights; a representation the code refuses with TypeError/ValueError/AttributeError is a clean rejection '
                        '(must agree with the acceptance model of Model/Inversion.lean), writable float64 ndarrays must be accepted; SART: measurement vector not identically zero (the documented '
                        'convergence measure divides by |b|^2; as-is the code raises ZeroDivisionError — recorded as an observation, model agrees)',
                        'mutation of a caller-supplied initial_guess array (it is overwritten and returned) is outside the property text; recorded in the histogram',
                        'stop decisions within 1e-9 of conv_tol are skipped in the random stream (counted) and hit exactly in the dyadic stream',
                        'OpenCL SART variant (needs pyopencl, absent) is out of scope']
    from harness.translators import inversion as tr
    ctx.extra['nnls_vmax_guarded_in_source'] = GUARD['flag'] = tr.translate()
    ctx.lean_check(['Cherab.Props.C11'], 'Cherab/Audit/C11.lean')
    for f in _corpus():
        _replay_case(ctx, json.load(open(f)).get('replay', {}), from_corpus=True)
    kinds_stream(ctx)
    sart_stream(ctx)
    exact_stream(ctx)
    fixed_point_stream(ctx)
    lsq_stream(ctx)
    repr_stream(ctx)
    history_stream(ctx)
    certificate_stream(ctx)


def _corpus():
    import glob
    import os
    from harness.vlib.util import VERIF
    return sorted(glob.glob(os.path.join(VERIF, 'corpus', 'C11', '*.json')))


def _replay_case(ctx, r, from_corpus=False):
    """re-execute one stored failing input against the real code with the direct oracle"""
    import cherab.tools.inversions as inv
    fn = r.get('func')
    if r.get('history_case'):
        pending = []
        nf = len(ctx.failing) + len(ctx.known_hits)
        ctx.case(key=('replay-history', fn, r.get('failing_step')))
        run_history(ctx, ctx.rng, {k: r[k] for k in ('func', 'history_case', 'steps', 'guess', 'max_iterations', 'relaxation', 'conv_tol') if k in r}, pending)
        rep_flush(ctx, pending)
        if not from_corpus and nf == len(ctx.failing) + len(ctx.known_hits):
            ctx.log('replay: the property holds on this history now')
        return
    if r.get('representation_case'):
        d = {k: v for k, v in r.items() if k not in ('returned_x', 'reported_norm', 'returned_solution', 'returned_convergence', 'gradient', 'better_point', 'x0', 'tikhonov_matrix')}
        pending = []
        nf = len(ctx.failing) + len(ctx.known_hits)
        ctx.case(key=('replay-repr', fn, json.dumps(d['reprs'], sort_keys=True)))
        rep_case_run(ctx, ctx.rng, d, pending)
        rep_flush(ctx, pending)
        if not from_corpus and nf == len(ctx.failing) + len(ctx.known_hits):
            ctx.log('replay: the property holds on this input now')
        return
    if fn == 'invert_regularised_nnls':
        import scipy.optimize
        W = np.array(r['W'], float); b = np.array(r['b'], float)
        L = None if r.get('tikhonov_matrix') is None else np.array(r['tikhonov_matrix'], float)
        real = scipy.optimize.nnls
        spy = Spy(real); scipy.optimize.nnls = spy
        try:
            with np.errstate(all='ignore'):
                st, res = call(inv.invert_regularised_nnls, W, b, r.get('alpha', 0.01), L)
        finally:
            scipy.optimize.nnls = real
        ctx.case(key=('replay', fn, json.dumps(r['W']), json.dumps(r['b'])))
        nf = len(ctx.failing) + len(ctx.known_hits)
        nnls_oracle(ctx, ctx.rng, W, b, r.get('alpha', 0.01), L, st, res, spy.calls[0] if len(spy.calls) == 1 else None,
                    {k: v for k, v in r.items() if k not in ('returned_x', 'reported_norm')})
        if not from_corpus and nf == len(ctx.failing) + len(ctx.known_hits):
            ctx.log('replay: the property holds on this input now: %r' % (res,))
    elif fn in ('invert_sart', 'invert_constrained_sart'):
        W = np.array(r['W'], float); b = np.array(r['b'], float)
        x0 = np.array(r['x0'], float)
        L = None if r.get('L') is None else np.array(r['L'], float)
        kw = dict(initial_guess=x0.copy(), max_iterations=r['max_iterations'], relaxation=r['relaxation'], conv_tol=r['conv_tol'])
        if fn == 'invert_sart':
            st, res = call(inv.invert_sart, W, b, **kw)
        else:
            st, res = call(inv.invert_constrained_sart, W, L, b, beta_laplace=r['beta'], **kw)
        c = dict(desc=dict(r, func=fn), st=st, res=res, W=r['W'], b=r['b'], x0=x0, L=r.get('L'), beta=r.get('beta') or 0.0,
                 relax=r['relaxation'], tol=r['conv_tol'], maxit=r['max_iterations'])
        ctx.case(key=('replay', fn))
        sart_oracles(ctx, c)
    elif fn in ('invert_regularised_lstsq', 'invert_svd'):
        which = 'lstsq' if fn == 'invert_regularised_lstsq' else 'svd'
        W = np.array(r['W'], float); b = np.array(r['b'], float)
        L = None if r.get('tikhonov_matrix') is None else np.array(r['tikhonov_matrix'], float)
        args = (W, b) if which == 'svd' else (W, b, r.get('alpha', 0.01), L)
        st, res, calls = spied(which, getattr(inv, fn), args, {})
        nf = len(ctx.failing) + len(ctx.known_hits)
        lines, checks = [], []
        ctx.case(key=('replay', fn, json.dumps(r['b'])))
        lsq_judge(ctx, ctx.rng, which, dict(W=r['W'], b=r['b'], alpha=r.get('alpha', 0.0), L=r.get('tikhonov_matrix')), st, res, calls,
                  {k: v for k, v in r.items() if k != 'returned_x'}, lines, checks)
        lsq_compare(ctx, lines, checks)
        if not from_corpus and nf == len(ctx.failing) + len(ctx.known_hits):
            ctx.log('replay: the property holds on this input now (%s)' % (np.asarray(res[0] if which == 'lstsq' else res).tolist(),))
    elif fn:
        ctx.log('replay of %s: re-running the whole check' % fn)


def replay(ctx, path):
    r = json.load(open(path))
    print(json.dumps(r, indent=1, default=str)[:3000])
    if r.get('kind') == 'failing-input' and (r.get('replay', {}).get('representation_case') or r.get('replay', {}).get('history_case') or r.get('replay', {}).get('func') in ('invert_regularised_nnls', 'invert_regularised_lstsq', 'invert_svd', 'invert_sart', 'invert_constrained_sart')):
        _replay_case(ctx, r['replay'])
        ctx.rule = 'replay of one stored failing input against the real code with the direct oracle'
        return ctx.finish()
    run(ctx)
    return ctx.finish()
