import Cherab.Props.C18TableSpectra
open Cherab.Props.C18Table
#print axioms covered_spectra
