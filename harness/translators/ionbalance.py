"""C09 translator: reads cherab/tools/plasmas/ionisation_balance.py (Python ast) and writes Cherab/Gen/IonBalance.lean.

What it recognises (syntactic):

* in each of `_fractional_abundance`, `_from_element_density_point`, `_match_element_density_point` the statement
      if tcx_donor is not None and coef_tcx is None:
          coef_tcx = get_rates_tcx(...)
      else:                                  -> the helper DROPS a supplied coef_tcx      (flag false)
          coef_tcx = None
  or
      elif tcx_donor is None:                -> the helper KEEPS a supplied coef_tcx      (flag true)
          coef_tcx = None
  (also accepted as "keeps": no else branch at all);
* in `_from_elementdensity`, `_match_plasma_neutrality`: `if tcx_donor is not None: coef_tcx = get_rates_tcx(...) else:
  coef_tcx = None` and that `coef_tcx` is passed on to the point helper;
* in `fractional_abundance`: `_fractional_abundance` is called without a `coef_tcx` argument.

Anything else is reported as unrecognised (the check then treats the generated table as broken and falls back to the
behavioural comparison + search).
"""
import ast
import os

from harness.vlib import lean
from harness.vlib.util import REPO, LEAN

SRC = os.path.join(REPO, 'cherab', 'tools', 'plasmas', 'ionisation_balance.py')
OUT = os.path.join(LEAN, 'Cherab', 'Gen', 'IonBalance.lean')

HELPERS = (('fa', '_fractional_abundance'), ('fd', '_from_element_density_point'), ('mn', '_match_element_density_point'))


def _is_name(n, s):
    return isinstance(n, ast.Name) and n.id == s


def _is_none(n):
    return isinstance(n, ast.Constant) and n.value is None


def _cmp(n, name, op):
    """`name is None` / `name is not None`"""
    return (isinstance(n, ast.Compare) and _is_name(n.left, name) and len(n.ops) == 1 and isinstance(n.ops[0], op)
            and _is_none(n.comparators[0]))


def _assign_none(stmts):
    return (len(stmts) == 1 and isinstance(stmts[0], ast.Assign) and len(stmts[0].targets) == 1
            and _is_name(stmts[0].targets[0], 'coef_tcx') and _is_none(stmts[0].value))


def _assign_load(stmts):
    return (len(stmts) == 1 and isinstance(stmts[0], ast.Assign) and len(stmts[0].targets) == 1
            and _is_name(stmts[0].targets[0], 'coef_tcx') and isinstance(stmts[0].value, ast.Call)
            and _is_name(stmts[0].value.func, 'get_rates_tcx'))


def classify_helper(fn):
    """returns True (keeps a supplied coef_tcx), False (drops it) or a string describing why it is unrecognised"""
    hits = []
    for st in fn.body:
        if isinstance(st, ast.If) and any(_is_name(n, 'coef_tcx') for n in ast.walk(st.test)):
            hits.append(st)
    if len(hits) != 1:
        return 'expected exactly one top-level `if` over coef_tcx, found %d' % len(hits)
    st = hits[0]
    t = st.test
    ok_test = (isinstance(t, ast.BoolOp) and isinstance(t.op, ast.And) and len(t.values) == 2
               and _cmp(t.values[0], 'tcx_donor', ast.IsNot) and _cmp(t.values[1], 'coef_tcx', ast.Is))
    if not ok_test or not _assign_load(st.body):
        return 'unrecognised test/body of the coef_tcx selection at line %d' % st.lineno
    if not st.orelse:
        return True
    if _assign_none(st.orelse):
        return False
    if (len(st.orelse) == 1 and isinstance(st.orelse[0], ast.If) and _cmp(st.orelse[0].test, 'tcx_donor', ast.Is)
            and _assign_none(st.orelse[0].body) and not st.orelse[0].orelse):
        return True
    return 'unrecognised else-branch of the coef_tcx selection at line %d' % st.lineno


def check_outer(fn, callee):
    hits = [st for st in fn.body if isinstance(st, ast.If) and _cmp(st.test, 'tcx_donor', ast.IsNot)]
    if len(hits) != 1 or not _assign_load(hits[0].body) or not _assign_none(hits[0].orelse):
        return 'outer selection in %s not recognised' % fn.name
    calls = [n for n in ast.walk(fn) if isinstance(n, ast.Call) and _is_name(n.func, callee)]
    if len(calls) != 1:
        return '%s does not call %s exactly once' % (fn.name, callee)
    c = calls[0]
    passed = any(_is_name(a, 'coef_tcx') for a in c.args) or any(k.arg == 'coef_tcx' and _is_name(k.value, 'coef_tcx') for k in c.keywords)
    if not passed:
        return '%s does not pass coef_tcx to %s' % (fn.name, callee)
    return None


def translate():
    """returns (flags dict, problems list)"""
    tree = ast.parse(open(SRC).read())
    fns = {n.name: n for n in tree.body if isinstance(n, ast.FunctionDef)}
    flags, problems = {}, []
    for key, name in HELPERS:
        if name not in fns:
            problems.append('function %s not found' % name)
            continue
        r = classify_helper(fns[name])
        if isinstance(r, str):
            problems.append('%s: %s' % (name, r))
        else:
            flags[key] = r
    for outer, callee in (('_from_elementdensity', '_from_element_density_point'),
                          ('_match_plasma_neutrality', '_match_element_density_point')):
        if outer not in fns:
            problems.append('function %s not found' % outer)
        else:
            p = check_outer(fns[outer], callee)
            if p:
                problems.append(p)
    if 'fractional_abundance' in fns:
        calls = [n for n in ast.walk(fns['fractional_abundance']) if isinstance(n, ast.Call) and _is_name(n.func, '_fractional_abundance')]
        if len(calls) != 1 or len(calls[0].args) > 7 or any(k.arg == 'coef_tcx' for k in calls[0].keywords):
            problems.append('fractional_abundance: call of _fractional_abundance not recognised')
    else:
        problems.append('function fractional_abundance not found')
    return flags, problems


def render(flags):
    b = lambda v: 'true' if v else 'false'
    return ('/- GENERATED by harness/translators/ionbalance.py from cherab/tools/plasmas/ionisation_balance.py — do not edit.\n'
            '   `true`  = the helper keeps a coef_tcx supplied by its caller (`elif tcx_donor is None: coef_tcx = None`),\n'
            '   `false` = it discards it (`else: coef_tcx = None`). -/\n'
            'import Cherab.Model.IonBalance\n'
            'namespace Cherab.Gen.IonBalance\n'
            'def flags : Cherab.IonBalance.Flags :=\n'
            '  { fa := %s, fd := %s, mn := %s }\n'
            'end Cherab.Gen.IonBalance\n' % (b(flags['fa']), b(flags['fd']), b(flags['mn'])))


def run():
    """regenerate the Lean table; returns (flags, problems, changed)"""
    flags, problems = translate()
    changed = False
    if not problems:
        changed = lean.write_if_changed(OUT, render(flags))
    return flags, problems, changed


if __name__ == '__main__':
    print(run())
