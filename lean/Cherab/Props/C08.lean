import Cherab.Model.Adf
import Cherab.Lemmas.Adf
import Mathlib.Tactic.Ring
import Mathlib.Tactic.Linarith

/-!
# C08 — ADF parsers return the file's numbers under the documented conventions
-/
namespace Cherab.Props.C08
set_option linter.unusedSectionVars false
set_option linter.unusedVariables false
open Cherab.Adf

variable {α ℓ : Type}

/-- utility.readvalues: reading `n` values from the lines produced by writing `n` values `p` per line returns them in
order and leaves the stream exactly after the last of those lines — for every `n`, multiples of `p` or not. -/
theorem readvalues_chunks (field : ℓ → Nat → Option α) (mk : List α → ℓ) (hf : ∀ xs k, field (mk xs) k = xs[k]?)
    (p : Nat) (hp : 0 < p) (xs : List α) (rest : List ℓ) :
    readvalues field xs.length p ((chunk p xs).map mk ++ rest) = .ok (xs, rest) := by
  have := readvaluesAux_chunks field mk hf p hp rest xs.length xs rfl 0 none
  simpa [readvalues] using this

/-! ## ADF21 / ADF22 -/

theorem field2x (xs : List α) (k : Nat) : (lexK2x (α := α)).field (.vals xs) k = xs[k]? := rfl

theorem readCols_cols (neb : Nat) (rest : List (K2x α)) :
    ∀ (cs : List (List α)), (∀ c ∈ cs, c.length = neb) →
      readCols (lexK2x (α := α)).field neb cs.length (cs.flatMap (fun c => (chunk 8 c).map .vals) ++ rest) = .ok (cs, rest) := by
  intro cs
  induction cs with
  | nil => intro _; simp [readCols]
  | cons c cs ih =>
    intro h
    have hc : c.length = neb := h c List.mem_cons_self
    simp only [List.length_cons, List.flatMap_cons, List.append_assoc, readCols]
    rw [← hc, readvalues_chunks _ K2x.vals field2x 8 (by omega)]
    simp only
    rw [hc, ih (fun c' hc' => h c' (List.mem_cons_of_mem _ hc'))]

theorem transpose_cols (neb ndt : Nat) (sv : Nat → Nat → α) :
    ((List.range neb).map fun i => ((List.range ndt).map fun j => (List.range neb).map fun i => sv i j).filterMap fun c => c[i]?)
      = tabulate neb ndt sv := by
  unfold tabulate
  apply map_range_congr
  intro i hi
  rw [List.filterMap_map]
  apply filterMap_range_some
  intro j _
  simp [hi]

section views2x
variable (z n a b : Nat) (s sp tr e d : α) (xs : List α)
@[simp] theorem zt_head : (lexK2x (α := α)).zt (.head z s sp) = some z := rfl
@[simp] theorem svref_head : (lexK2x (α := α)).svref (.head z s sp) = some s := rfl
@[simp] theorem n1_dims : (lexK2x (α := α)).n1 (.dims a b tr) = some a := rfl
@[simp] theorem n2_dims : (lexK2x (α := α)).n2 (.dims a b tr) = some b := rfl
@[simp] theorem tref_dims : (lexK2x (α := α)).tref (.dims a b tr) = some tr := rfl
@[simp] theorem n1_tdims : (lexK2x (α := α)).n1 (.tdims n e d) = some n := rfl
@[simp] theorem eref_tdims : (lexK2x (α := α)).eref (.tdims n e d) = some e := rfl
@[simp] theorem dref_tdims : (lexK2x (α := α)).dref (.tdims n e d) = some d := rfl
end views2x

theorem readvalues_chunks_n (field : ℓ → Nat → Option α) (mk : List α → ℓ) (hf : ∀ xs k, field (mk xs) k = xs[k]?)
    (p : Nat) (hp : 0 < p) (xs : List α) (n : Nat) (hn : xs.length = n) (rest : List ℓ) :
    readvalues field n p ((chunk p xs).map mk ++ rest) = .ok (xs, rest) := by
  subst hn; exact readvalues_chunks field mk hf p hp xs rest

theorem readvalues_chunks_end (field : ℓ → Nat → Option α) (mk : List α → ℓ) (hf : ∀ xs k, field (mk xs) k = xs[k]?)
    (p : Nat) (hp : 0 < p) (xs : List α) (n : Nat) (hn : xs.length = n) :
    readvalues field n p ((chunk p xs).map mk) = .ok (xs, []) := by
  have := readvalues_chunks_n field mk hf p hp xs n hn []
  simpa using this

theorem readCols_range (neb ndt : Nat) (sv : Nat → Nat → α) (rest : List (K2x α)) :
    readCols (lexK2x (α := α)).field neb ndt
      ((List.range ndt).flatMap (fun j => (chunk 8 ((List.range neb).map fun i => sv i j)).map .vals) ++ rest)
      = .ok ((List.range ndt).map (fun j => (List.range neb).map fun i => sv i j), rest) := by
  have := readCols_cols neb rest ((List.range ndt).map (fun j => (List.range neb).map fun i => sv i j))
    (by intro c hc; simp only [List.mem_map] at hc; obtain ⟨j, _, rfl⟩ := hc; simp)
  simpa [List.flatMap_map] using this

/-- ADF21/ADF22: parsing the rendered file returns exactly the file's tables (section order, `sen[i_e][i_n]` axis
order), for all grid sizes. -/
theorem adf2x_roundtrip (t : Tab2x α) : parse2x lexK2x (render2x t) = .ok (expected2x t) := by
  unfold parse2x render2x expected2x
  simp only [List.append_assoc, List.cons_append, List.nil_append, needLine, bind, Except.bind, opt, List.tail_cons,
    pure, Except.pure, zt_head, svref_head, n1_dims, n2_dims, tref_dims]
  rw [readvalues_chunks _ K2x.vals field2x 8 (by omega)]
  simp only []
  rw [readvalues_chunks _ K2x.vals field2x 8 (by omega)]
  simp only [List.tail_cons]
  rw [readCols_range]
  simp only [List.tail_cons, n1_tdims, eref_tdims, dref_tdims]
  rw [readvalues_chunks _ K2x.vals field2x 8 (by omega)]
  simp only [List.tail_cons]
  rw [readvalues_chunks_end _ K2x.vals field2x 8 (by omega) _ _ (by simp)]
  simp only [transpose_cols]

/-! ## ADF12 -/

theorem chunk_small {p : Nat} (xs : List α) (h0 : xs ≠ []) (hl : xs.length ≤ p) : chunk p xs = [xs] := by
  have hp : 0 < p := by have := List.length_pos_iff.mpr h0; omega
  rw [chunk_cons hp h0, List.take_of_length_le hl, List.drop_eq_nil_of_le hl, chunk_nil]

theorem field12 (xs : List α) (k : Nat) : (lexK12 (α := α)).field (.vals xs) k = xs[k]? := rfl
theorem ifield12 (xs : List Nat) (k : Nat) : (lexK12 (α := α)).ifield (.ints xs) k = xs[k]? := rfl

theorem length_padTo (n : Nat) (pad : α) (xs : List α) (h : xs.length ≤ n) : (padTo n pad xs).length = n := by
  simp [padTo]; omega

theorem take_padTo (n : Nat) (pad : α) (xs : List α) : (padTo n pad xs).take xs.length = xs := by
  simp [padTo]

theorem sec_read (n : Nat) (pad : α) (xs : List α) (h : xs.length ≤ n) (rest : List (K12 α)) :
    readvalues (lexK12 (α := α)).field n 6 (section12 n pad xs ++ rest) = .ok (padTo n pad xs, rest) :=
  readvalues_chunks_n _ K12.vals field12 6 (by omega) _ _ (length_padTo n pad xs h) rest

/-- well-formed ADF12 block: five reference values, section lengths within the fixed 24/12/24/12/12 layout -/
structure WF12 (b : Blk12 α) : Prop where
  refs : b.refs.length = 5
  ener : b.ener.length ≤ 24
  tiev : b.tiev.length ≤ 12
  densi : b.densi.length ≤ 24
  zeff : b.zeff.length ≤ 12
  bmag : b.bmag.length ≤ 12

theorem parseBlock12_render (pad : α) (b : Blk12 α) (h : WF12 b) (rest : List (K12 α)) :
    parseBlock12 lexK12 (renderBlk12 pad b ++ rest) = .ok (expectedBlk12 b, rest) := by
  obtain ⟨hr, h1, h2, h3, h4, h5⟩ := h
  obtain ⟨r0, r1, r2, r3, r4, hrefs⟩ : ∃ r0 r1 r2 r3 r4, b.refs = [r0, r1, r2, r3, r4] := by
    match hb : b.refs, hr with
    | [r0, r1, r2, r3, r4], _ => exact ⟨r0, r1, r2, r3, r4, rfl⟩
  unfold parseBlock12 renderBlk12 expectedBlk12
  simp only [List.append_assoc, List.cons_append, List.nil_append, needLine, bind, Except.bind, opt, pure, Except.pure]
  have hq : readvalues (lexK12 (α := α)).field 1 6 (K12.vals [b.qefref] :: (K12.vals b.refs :: (K12.ints [b.ener.length, b.tiev.length, b.densi.length, b.zeff.length, b.bmag.length] :: rest')))
      = .ok ([b.qefref], K12.vals b.refs :: (K12.ints [b.ener.length, b.tiev.length, b.densi.length, b.zeff.length, b.bmag.length] :: rest')) := by
    intro rest'
    have := readvalues_chunks_n _ K12.vals (field12 (α := α)) 6 (by omega) [b.qefref] 1 rfl
      (K12.vals b.refs :: (K12.ints [b.ener.length, b.tiev.length, b.densi.length, b.zeff.length, b.bmag.length] :: rest'))
    rw [chunk_small _ (by simp) (by simp)] at this
    simpa using this
  sorry

end Cherab.Props.C08
