"""out-of-tree Cython shim: exposes cdef-only functions of /repo to Python (no repo hook needed).
Rebuilt by setup.sh and by harness.vlib.shim.ensure() whenever the .pxd files it cimports change."""
from setuptools import setup, Extension
from Cython.Build import cythonize
import numpy
setup(ext_modules=cythonize(
    [Extension("cherab_shim", ["cherab_shim.pyx"], include_dirs=["/repo", numpy.get_include()],
               define_macros=[("NPY_NO_DEPRECATED_API", "NPY_1_7_API_VERSION")])],
    include_path=["/repo"], compiler_directives={"language_level": 3}, force=True))
