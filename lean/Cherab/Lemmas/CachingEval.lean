import Cherab.Lemmas.CachingInterp
import Cherab.Lemmas.CachingMl3

/-!
Helper lemmas for C14, part 6: from `evalPure` of the three concrete `Spec`s to the algebra of part 3–5.
-/
namespace Cherab.Caching
set_option linter.unusedSectionVars false
set_option linter.unusedSimpArgs false

variable {α : Type} [Field α] [LinearOrder α] [IsStrictOrderedRing α]

/-- hypotheses on the external functions: C `pow`, and `numpy.linalg.solve` returns (when it returns) a vector that
satisfies every equation of the system it was given -/
structure ExtOK (E : Ext α) : Prop where
  powi : ∀ x n, E.powi x n = x ^ n
  solve : ∀ A b c, E.solve A b = some c → Solves A b c

/-- what the constructor establishes for an axis (`mkAxis_ok`) -/
structure AxisOK (ax : Axis α) : Prop where
  sorted : ax.Sorted
  top : 3 ≤ ax.top
  xn_eq : ∀ i, ax.xn i = (ax.dom i - ax.xmin) * ax.dinv
  dinv_ne : ax.dinv ≠ 0

theorem mkAxis_ok (trunc : α → Nat) (mn mx dx : α) (h : mn < mx) (hd : EPS < dx) : AxisOK (mkAxis trunc mn mx dx) :=
  ⟨mkAxis_sorted trunc mn mx dx h hd, mkAxis_top trunc mn mx dx, mkAxis_xn trunc mn mx dx,
    mkAxis_dinv_ne trunc mn mx dx h hd⟩

/-- what the constructor establishes for the value normalisation (`mkNorm_ok`) -/
structure NormOK (nm : Norm α) : Prop where
  delta_ne : nm.delta ≠ 0
  inv : nm.deltaInv = 1 / nm.delta

theorem mkNorm_ok (b : Option (α × α)) : NormOK (mkNorm b) := by
  cases b with
  | none => exact ⟨by simp [mkNorm], by simp [mkNorm]⟩
  | some lh =>
    obtain ⟨lo, hi⟩ := lh
    by_cases h : hi - lo = 0
    · exact ⟨by simp [mkNorm, h], by simp [mkNorm, h]⟩
    · exact ⟨by simp [mkNorm, h], by simp [mkNorm, h]⟩

/-- the float environment seen from an ordered field: no NaN -/
def envOf {P : Type} (f : P → α) (nm : Norm α) : Env α P :=
  { f := f, isnan := fun _ => false, nan := 0, norm := nm.apply }

theorem AxisOK.xn_ne {ax : Axis α} (h : AxisOK ax) (i j : Nat) (hij : i < j) (hj : j ≤ ax.top) :
    ax.xn j ≠ ax.xn i := by
  rw [h.xn_eq, h.xn_eq]
  intro e
  have := mul_right_cancel₀ h.dinv_ne e
  have h2 := h.sorted i j hij hj
  linarith

theorem AxisOK.dom_eq {ax : Axis α} (h : AxisOK ax) (i : Nat) : ax.dom i = ax.xn i / ax.dinv + ax.xmin := by
  rw [h.xn_eq]; field_simp [h.dinv_ne]; ring

theorem NormOK.unapply {nm : Norm α} (h : NormOK nm) (v : α) : nm.delta * nm.apply v + nm.dmin = v := by
  unfold Norm.apply; rw [h.inv]; field_simp [h.delta_ne]; ring

/-! ### 1-D -/

/-- normalised stencil data of cell `i`, indexed by stencil position -/
def d1 (ax : Axis α) (nm : Norm α) (f : α → α) (i : Nat) : Nat → α :=
  fun k => ((stencil1 i).map (fun u => nm.apply (f (ax.dom u)))).getD k 0

theorem nodeVal1 (E : Ext α) (ax : Axis α) (nm : Norm α) (f : α → α) :
    nodeVal (spec1 E ax nm) (envOf f nm) = fun u => nm.apply (f (ax.dom u)) := by
  funext u; simp [nodeVal, envOf, spec1]

theorem d1_eq (ax : Axis α) (nm : Norm α) (f : α → α) (i' k : Nat) (hk : k < 4) :
    d1 ax nm f (i' + 1) k = nm.apply (f (ax.dom (i' + k))) := by
  interval_cases k <;> simp [d1, stencil1, Nat.add_assoc]

theorem isSol1_congr (ax : Axis α) (i : Nat) (d d' c : Nat → α) (h : ∀ k, k < 4 → d k = d' k)
    (hs : IsSol1 ax i d c) : IsSol1 ax i d' c := by
  intro l hl
  have := hs l hl
  interval_cases l <;> simp [row1] at this ⊢ <;>
    simp only [← h 0 (by norm_num), ← h 1 (by norm_num), ← h 2 (by norm_num), ← h 3 (by norm_num)] <;> exact this

/-- a value returned inside cell `i` is the denormalised polynomial of *some* solution of the cell's system -/
theorem evalPure1_val (E : Ext α) (hE : ExtOK E) (ax : Axis α) (nm : Norm α) (f : α → α) (nbe : Bool) (p v : α)
    (i : Nat) (hc : cellOf ax p = some i)
    (h : evalPure (spec1 E ax nm) (envOf f nm) nbe p = .val v) :
    ∃ c, IsSol1 ax i (d1 ax nm f i) c ∧ v = poly1 (finish1 E ax nm c) p := by
  have h' := h
  unfold evalPure at h'
  rw [show (spec1 E ax nm).locate p = some i from hc] at h'
  dsimp only at h'
  rw [nodeVal1] at h'
  simp only [spec1, build1] at h'
  generalize hs : E.solve (system1 ax i fun k => ((stencil1 i).map fun u => nm.apply (f (ax.dom u))).getD k 0).1
    (system1 ax i fun k => ((stencil1 i).map fun u => nm.apply (f (ax.dom u))).getD k 0).2 = r at h'
  cases r with
  | none => simp at h'
  | some c =>
    simp only [Option.map_some, Out.val.injEq] at h'
    exact ⟨c, (solves_system1 ax i _ c).mp (hE.solve _ _ c hs), h'.symm⟩

end Cherab.Caching
