import Cherab.Model.Subscription
import Cherab.Gen.SetterEvents

/-!
C01 — subscriptions follow the installed object.

`SubInv`: after any history of assignments through a setter whose body has a canonical order, the callback is registered
with the notifier of exactly the object the attribute holds — so a change of that object reaches the owner (no stale
state) and a change of a previously installed object does not.  This covers re-assignment of the object already
installed (`x.attenuator = x.attenuator`), and moving between objects (two plasmas in one world).
The order "add to the new object, remove from the old one, assign" — seeded three times during the campaign — breaks
the invariant exactly when the object installed is the one already held; the witness is proved.
The generated table `Gen.setterEvents` (one row per setter of the .pyx sources, statements in source order) is decided
canonical by the kernel on every run.
-/
namespace Cherab.Props.C01
open Cherab.Subscription

theorem erase_singleton (q : Nat) : [q].erase q = [] := by simp

theorem addN_nil (p : Nat) : addN [] p = [p] := by simp [addN]

theorem addN_self (p : Nat) : addN [p] p = [p] := by simp [addN]

/-- one call through a canonical setter keeps the invariant (whatever was installed before, including `p` itself) -/
theorem setter_inv (evs : List Ev) (h : canonical evs = true) (s : St) (p : Nat) (hs : SubInv s) :
    SubInv (setter evs s p) ∧ (setter evs s p).cur = some p := by
  obtain ⟨cur, subs⟩ := s
  unfold SubInv at hs
  simp only at hs
  subst hs
  simp only [canonical, Bool.or_eq_true, beq_iff_eq] at h
  rcases h with ((((h | h) | h) | h) | h) | h <;> subst h <;> cases cur <;>
    simp [setter, ev, target, SubInv, addN]

/-- **every history**: after any sequence of assignments the callback is registered with exactly the installed object -/
theorem run_inv (evs : List Ev) (h : canonical evs = true) (ps : List Nat) (s : St) (hs : SubInv s) :
    SubInv (run evs s ps) := by
  induction ps generalizing s with
  | nil => exact hs
  | cons p ps ih => exact ih _ (setter_inv evs h s p hs).1

theorem run_from_init (evs : List Ev) (h : canonical evs = true) (ps : List Nat) : SubInv (run evs init ps) :=
  run_inv evs h ps init rfl

/-- … and it is the last object assigned -/
theorem run_cur (evs : List Ev) (h : canonical evs = true) (ps : List Nat) (p : Nat) (s : St) (hs : SubInv s) :
    (run evs s (ps ++ [p])).subs = [p] := by
  have h1 : SubInv (run evs s ps) := run_inv evs h ps s hs
  have : run evs s (ps ++ [p]) = setter evs (run evs s ps) p := by simp [run, List.foldl_append]
  rw [this]
  obtain ⟨hi, hc⟩ := setter_inv evs h _ p h1
  rw [hi, hc]; rfl

/-- the seeded slip: register with the new object first, then unregister from the old one.  Re-assigning the object
already installed drops the only registration. -/
theorem add_then_remove_breaks :
    ∃ s p, SubInv s ∧ ¬ SubInv (setter [.add .value, .remove .attr, .assign] s p) :=
  ⟨{ cur := some 7, subs := [7] }, 7, rfl, by decide⟩

/-- … while it is harmless when a different object is installed (why ordinary use never notices) -/
theorem add_then_remove_ok_if_distinct (s : St) (p : Nat) (hs : SubInv s) (hd : s.cur ≠ some p) :
    SubInv (setter [.add .value, .remove .attr, .assign] s p) := by
  obtain ⟨cur, subs⟩ := s
  unfold SubInv at hs
  simp only at hs
  subst hs
  cases cur with
  | none => simp [setter, ev, target, SubInv, addN]
  | some q =>
    have hq : q ≠ p := fun h => hd (by rw [h])
    have hpq : ¬ p = q := fun h => hq h.symm
    simp [setter, ev, target, SubInv, addN, hpq]

/-- the same slip written with a local alias (`previous = self._x; self._x = value; add; previous.remove`), as seeded -/
theorem add_then_remove_old_breaks :
    ∃ s p, SubInv s ∧ ¬ SubInv (setter [.assign, .add .attr, .remove .old] s p) :=
  ⟨{ cur := some 7, subs := [7] }, 7, rfl, by decide⟩

/-- never unregistering (subscribe only on first assignment) leaves the owner deaf to the object it moved to -/
theorem add_if_none_breaks :
    ∃ ps, ¬ SubInv (run [.assign] (setter [.assign, .add .attr] init 1) ps) :=
  ⟨[2], by decide⟩

/-- the generated table: every subscribing setter of the sources has a canonical order -/
theorem all_setters_canonical : (Cherab.Gen.setterEvents.all fun r => canonical r.2) = true := by decide

theorem no_setter_problems : Cherab.Gen.setterProblems = [] := by decide

theorem setter_table_nonempty : 0 < Cherab.Gen.setterEvents.length := by decide

/-- lifted: for every setter in the table and every history, the invariant holds -/
theorem no_stale_subscription (r : String × List Ev) (hr : r ∈ Cherab.Gen.setterEvents) (ps : List Nat) :
    SubInv (run r.2 init ps) := by
  have h := all_setters_canonical
  rw [List.all_eq_true] at h
  exact run_from_init r.2 (h r hr) ps

example : SubInv (run [.remove .attr, .assign, .add .attr] init [3, 3, 5, 3]) := by decide

end Cherab.Props.C01
