import Cherab.Model.NotifyGraph
/-
C01 — hand-written dependency table: which derived state (cache) is computed from which public mutator.
Written from the formulas in singleray.pyx (`_calc_attenuation`, `_beam_stopping`), `_generate_geometry`,
`_configure_geometry`, `_populate_cache` of every emission model, `LaserMaterial._cache_transforms`.
Validated at run time by perturbation (harness/props/c01.py, stream "deps"); names are node names of the generated
notification graph (`Cherab/Gen/NotifyEdges.lean`).
-/
namespace Cherab.CherabDeps
open Cherab.NotifyGraph

def compositionMutators : List String :=
  ["Plasma.composition.set", "Composition.set", "Composition.add", "Composition.clear"]

def plasmaModelDeps : List String :=
  compositionMutators ++ ["Plasma.atomic_data.set", "PlasmaModel.plasma.set", "PlasmaModel.atomic_data.set",
    "Plasma.models.set", "plasma.ModelManager.set", "plasma.ModelManager.add"]

def beamModelDeps : List String :=
  compositionMutators ++ ["Beam.element.set", "Beam.atomic_data.set", "Beam.plasma.set",
    "BeamModel.beam.set", "BeamModel.plasma.set", "BeamModel.atomic_data.set",
    "Beam.models.set", "beam.ModelManager.set", "beam.ModelManager.add"]

def profileGeometrySetters : List String :=
  ["UniformEnergyDensity.laser_length.set", "UniformEnergyDensity.laser_radius.set",
   "ConstantBivariateGaussian.laser_length.set", "ConstantBivariateGaussian.laser_radius.set",
   "TrivariateGaussian.laser_length.set", "TrivariateGaussian.laser_radius.set",
   "GaussianBeamAxisymmetric.laser_length.set", "GaussianBeamAxisymmetric.laser_radius.set"]

def deps : DepTable := [
  ("cache:Models(ExcitationLine)", plasmaModelDeps),
  ("cache:Models(RecombinationLine)", plasmaModelDeps),
  ("cache:Models(ThermalCXLine)", plasmaModelDeps),
  ("cache:Models(TotalRadiatedPower)", plasmaModelDeps),
  ("cache:Models(Bremsstrahlung)", plasmaModelDeps),
  ("cache:PlasmaMaterial",
    ["Plasma.models.set", "plasma.ModelManager.set", "plasma.ModelManager.add", "plasma.ModelManager.clear",
     "Plasma.integrator.set", "Plasma.atomic_data.set", "Plasma.geometry.set", "Plasma.geometry_transform.set"]),
  ("cache:Attenuation",
    compositionMutators ++
    ["Beam.energy.set", "Beam.power.set", "Beam.element.set", "Beam.length.set", "Beam.divergence_x.set",
     "Beam.divergence_y.set", "scenegraph:Beam", "scenegraph:Plasma", "SingleRayAttenuator.step.set",
     "Beam.atomic_data.set", "Beam.plasma.set", "BeamAttenuator.beam.set", "BeamAttenuator.plasma.set",
     "BeamAttenuator.atomic_data.set"]),
  ("cache:BeamGeometry",
    ["Beam.sigma.set", "Beam.length.set", "Beam.divergence_x.set", "Beam.divergence_y.set",
     "SingleRayAttenuator.clamp_sigma.set", "Beam.attenuator.set", "beam.ModelManager.set", "beam.ModelManager.add",
     "Beam.models.set"]),
  ("cache:BeamMaterial",
    ["Beam.models.set", "beam.ModelManager.set", "beam.ModelManager.add", "beam.ModelManager.clear",
     "Beam.integrator.set", "Beam.atomic_data.set", "Beam.plasma.set",
     -- round 6: `_configure_geometry` tests `self._attenuator` before it builds the material (found by Gen/CacheReads)
     "Beam.attenuator.set"]),
  -- round 6: the public `line` setters of the two beam models (read by `_populate_cache`; found by Gen/CacheReads)
  ("cache:Models(BeamCXLine)", "BeamCXLine.line.set" :: beamModelDeps),
  ("cache:Models(BeamEmissionLine)", "BeamEmissionLine.line.set" :: beamModelDeps),
  ("cache:LaserGeometry", "Laser.laser_profile.set" :: profileGeometrySetters),
  ("cache:LaserMaterial",
    ["Laser.models.set", "Laser.importance.set", "Laser.plasma.set", "Laser.laser_spectrum.set",
     "Laser.laser_profile.set", "scenegraph:Laser", "scenegraph:Plasma"] ++ profileGeometrySetters)
]

/-- call/notification chains in the code are at most 8 long; 10 leaves room -/
def fuel : Nat := 10

end Cherab.CherabDeps
