"""C20 translator: cherab/tools/inversions/admt_utils.py  ->  lean/Cherab/Gen/Admt.lean   (syntactic, Python `ast`)

What is recognised (anything else raises `Unrecognised`, which the property module reports as a broken tie):

generate_derivative_operators
  * the `for ith_cell in range(num_cells)` loop; inside it, in source order
      - `try: n = grid_index_2d_to_1d_map[ix + a, iy + b]  except KeyError: <flag = True | pass>  else: <assignments>`
        -> neighbour variable `n` at stencil offset (a, b);  `flag`  ==  "that lookup failed"
      - `name = <and/or/not expression over flags>`                                 (top_left = at_top and at_left …)
      - `D[ith_cell, ith_cell | n] = <rational constant>`                           (unconditional, in a try-else, in an if)
      - `if <and/or/not expression over flags>:` blocks, nested
    -> `program : List Asg`, the assignments in execution order, each with the conjunction of the guards enclosing it.
  * `D = D / <expr in dx, dy>` after the loop                                       -> `scaleDen`
  * every statement *before* the loop must be one of: argument validation (`np.asarray`, `if …: raise TypeError`),
    `num_cells = voxel_vertices.shape[0]`, `D = np.zeros((num_cells, num_cells))`,
    `cell_centres = np.mean(voxel_vertices, axis=1)`, `cell_sizes = np.diff(cell_centres, axis=0)` and the chain that
    defines `dx`, `dy` from it, built from `v[:, k]`, `v[v != 0]`, `abs(v)`, `np.min(v)`, `np.max(v)`, `.item()`
                                                                                    -> `stepDx`, `stepDy : SExpr`
    (interpreted by `Model/Admt.lean: extractSteps`; `steps_extracted_origin_independent` is proved over them);
    every statement after the loop must be a scaling, the `operators = dict(…)` packaging or the return.
calculate_admt
  * straight-line assignments of element-wise arithmetic (+ - * / **2, unary minus, integer constants),
    `np.full(x.shape, c)` (constant vector), `derivative_operators["Dx"]` (operator alias), `Op @ vector`
    (becomes an input symbol `Op_vector` of the per-cell function), `np.diag(v)`, the final
    `diag @ Op + …` sum (becomes the per-entry function `entry`) and `admt_operator *= np.sqrt(dx * dy)`.
    -> `coeffs`, `denominators`, `preVectors`, `entry`, `finalScale`, and `dnormCxSlot` (which second derivative
       multiplies `dpsidy` in the first bracket of `dnorm_term_cx`).
"""
import ast
import os
from fractions import Fraction

from harness.vlib import lean
from harness.vlib.util import LEAN, REPO

SRC = os.path.join(REPO, 'cherab', 'tools', 'inversions', 'admt_utils.py')
OUT = os.path.join(LEAN, 'Cherab', 'Gen', 'Admt.lean')

POS = {(0, 0): 'self', (-1, 0): 'left', (1, 0): 'right', (0, -1): 'above', (0, 1): 'below',
       (-1, -1): 'aboveLeft', (1, -1): 'aboveRight', (-1, 1): 'belowLeft', (1, 1): 'belowRight'}
OPS = ('Dx', 'Dy', 'Dxx', 'Dxy', 'Dyy')


EXPECTED_MATVECS = [(op, 'psi_at_voxels') for op in ('Dx', 'Dy', 'Dxx', 'Dxy', 'Dyy')] + \
    [('Dx', 'Dpar'), ('Dy', 'Dpar'), ('Dx', 'Dperp'), ('Dy', 'Dperp')]


class Unrecognised(Exception):
    pass


def _fn(tree, name):
    for n in tree.body:
        if isinstance(n, ast.FunctionDef) and n.name == name:
            return n
    raise Unrecognised('function %s not found' % name)


def _const(e):
    """rational constant expression"""
    if isinstance(e, ast.Constant) and isinstance(e.value, (int, float)) and not isinstance(e.value, bool):
        return Fraction(e.value)
    if isinstance(e, ast.UnaryOp) and isinstance(e.op, ast.USub):
        return -_const(e.operand)
    if isinstance(e, ast.BinOp) and isinstance(e.op, ast.Div):
        return _const(e.left) / _const(e.right)
    if isinstance(e, ast.BinOp) and isinstance(e.op, ast.Mult):
        return _const(e.left) * _const(e.right)
    raise Unrecognised('not a rational constant at line %d: %s' % (e.lineno, ast.unparse(e)))


def _offset(e, var):
    if isinstance(e, ast.Name) and e.id == var:
        return 0
    if isinstance(e, ast.BinOp) and isinstance(e.left, ast.Name) and e.left.id == var and isinstance(e.right, ast.Constant):
        if isinstance(e.op, ast.Add):
            return int(e.right.value)
        if isinstance(e.op, ast.Sub):
            return -int(e.right.value)
    raise Unrecognised('index expression at line %d: %s' % (e.lineno, ast.unparse(e)))


# ------------------------------------------------------------------------------------------------- stencil program
def stencil_program(fn):
    loop = None
    for n in fn.body:
        if isinstance(n, ast.For) and isinstance(n.target, ast.Name) and n.target.id == 'ith_cell':
            loop = n
    if loop is None:
        raise Unrecognised('cell loop not found')
    cell = loop.target.id
    flags = {}        # name -> guard expression (Lean text)
    neigh = {}        # variable -> position name
    prog = []         # (guards [lean text], op, pos, Fraction, lineno)
    map2d = fn.args.args[2].arg
    map1d = fn.args.args[1].arg
    ixiy = [None, None]

    def guard(e):
        if isinstance(e, ast.Name):
            if e.id not in flags:
                raise Unrecognised('unknown flag %s at line %d' % (e.id, e.lineno))
            return flags[e.id]
        if isinstance(e, ast.BoolOp):
            parts = [guard(v) for v in e.values]
            k = '.and' if isinstance(e.op, ast.And) else '.or'
            g = parts[0]
            for p in parts[1:]:
                g = '(%s %s %s)' % (k, g, p)
            return g
        if isinstance(e, ast.UnaryOp) and isinstance(e.op, ast.Not):
            return '(.not %s)' % guard(e.operand)
        if isinstance(e, ast.Constant) and isinstance(e.value, bool):
            return '.tt' if e.value else '(.not .tt)'
        raise Unrecognised('guard at line %d: %s' % (e.lineno, ast.unparse(e)))

    def assign(st, guards):
        t = st.targets[0]
        if (isinstance(t, ast.Subscript) and isinstance(t.value, ast.Name) and t.value.id in OPS
                and isinstance(t.slice, ast.Tuple) and len(t.slice.elts) == 2):
            r, c = t.slice.elts
            if not (isinstance(r, ast.Name) and r.id == cell and isinstance(c, ast.Name)):
                raise Unrecognised('matrix assignment at line %d' % st.lineno)
            if c.id == cell:
                pos = 'self'
            elif c.id in neigh:
                pos = neigh[c.id]
            else:
                raise Unrecognised('column variable %s at line %d' % (c.id, st.lineno))
            prog.append((list(guards), t.value.id, pos, _const(st.value), st.lineno))
            return True
        return False

    def block(stmts, guards):
        for st in stmts:
            if isinstance(st, ast.Assign) and len(st.targets) == 1:
                t = st.targets[0]
                if assign(st, guards):
                    continue
                if isinstance(t, ast.Tuple) and isinstance(st.value, ast.Tuple):
                    names = [x.id for x in t.elts]
                    vals = st.value.elts
                    if all(isinstance(v, ast.Constant) and v.value is False for v in vals):
                        if guards:
                            raise Unrecognised('flag initialisation under a guard, line %d' % st.lineno)
                        for nm in names:
                            flags[nm] = '(.not .tt)'
                        continue
                    if all(ast.unparse(v) == 'np.nan' for v in vals):
                        continue                       # neighbour variables start as nan = "no neighbour"
                    raise Unrecognised('tuple assignment at line %d' % st.lineno)
                if (isinstance(t, ast.Tuple) and isinstance(st.value, ast.Subscript)
                        and ast.unparse(st.value) == '%s[%s]' % (map1d, cell)):
                    ixiy[0], ixiy[1] = t.elts[0].id, t.elts[1].id
                    continue
                if isinstance(t, ast.Name) and isinstance(st.value, (ast.BoolOp, ast.UnaryOp, ast.Name)):
                    if guards:
                        raise Unrecognised('flag definition under a guard, line %d' % st.lineno)
                    flags[t.id] = guard(st.value)
                    continue
                raise Unrecognised('assignment at line %d: %s' % (st.lineno, ast.unparse(st)))
            elif isinstance(st, ast.Try):
                if guards:
                    raise Unrecognised('try under a guard, line %d' % st.lineno)
                if len(st.body) != 1 or len(st.handlers) != 1 or st.finalbody:
                    raise Unrecognised('try shape at line %d' % st.lineno)
                look = st.body[0]
                h = st.handlers[0]
                if not (isinstance(look, ast.Assign) and isinstance(look.targets[0], ast.Name)
                        and isinstance(look.value, ast.Subscript) and isinstance(look.value.value, ast.Name)
                        and look.value.value.id == map2d and isinstance(look.value.slice, ast.Tuple)
                        and h.type is not None and ast.unparse(h.type) == 'KeyError'):
                    raise Unrecognised('lookup shape at line %d' % st.lineno)
                a = _offset(look.value.slice.elts[0], ixiy[0])
                b = _offset(look.value.slice.elts[1], ixiy[1])
                if (a, b) not in POS or (a, b) == (0, 0):
                    raise Unrecognised('stencil offset (%d,%d) at line %d' % (a, b, st.lineno))
                pos = POS[(a, b)]
                neigh[look.targets[0].id] = pos
                for hs in h.body:
                    if isinstance(hs, ast.Pass):
                        continue
                    if (isinstance(hs, ast.Assign) and isinstance(hs.targets[0], ast.Name)
                            and isinstance(hs.value, ast.Constant) and hs.value.value is True):
                        nm = hs.targets[0].id
                        if flags.get(nm) != '(.not .tt)':
                            raise Unrecognised('flag %s set twice, line %d' % (nm, hs.lineno))
                        flags[nm] = '(.missing .%s)' % pos
                        continue
                    raise Unrecognised('except body at line %d' % hs.lineno)
                block(st.orelse, guards + ['(.found .%s)' % pos])
            elif isinstance(st, ast.If):
                g = guard(st.test)
                block(st.body, guards + [g])
                if st.orelse:
                    block(st.orelse, guards + ['(.not %s)' % g])
            elif isinstance(st, (ast.Pass, ast.Expr)):
                continue
            else:
                raise Unrecognised('statement at line %d: %s' % (st.lineno, type(st).__name__))

    block(loop.body, [])
    # post-loop scalings  D = D / expr(dx, dy)
    scales = {}
    after = fn.body[fn.body.index(loop) + 1:]
    for st in after:
        if (isinstance(st, ast.Assign) and isinstance(st.targets[0], ast.Name) and st.targets[0].id in OPS
                and isinstance(st.value, ast.BinOp) and isinstance(st.value.op, ast.Div)
                and isinstance(st.value.left, ast.Name) and st.value.left.id == st.targets[0].id):
            scales[st.targets[0].id] = Expr({'dx', 'dy'}).tr(st.value.right)
        elif (isinstance(st, ast.Assign) and isinstance(st.targets[0], ast.Name) and st.targets[0].id == 'operators'
              and ast.unparse(st.value) == 'dict(Dx=Dx, Dy=Dy, Dxx=Dxx, Dyy=Dyy, Dxy=Dxy)'):
            continue
        elif isinstance(st, ast.Return) and ast.unparse(st.value) == 'operators':
            continue
        else:
            raise Unrecognised('statement after the loop, line %d: %s' % (st.lineno, ast.unparse(st)[:60]))
    if set(scales) != set(OPS):
        raise Unrecognised('scalings found for %s only' % sorted(scales))
    return prog, scales, step_expressions(fn, loop)



# --------------------------------------------------------------------------------- extraction of dx, dy (pre-loop)
def _is_call(e, name):
    return isinstance(e, ast.Call) and ast.unparse(e.func) == name


def step_expressions(fn, loop):
    """symbolic evaluation of the statements before the cell loop; returns (stepDx, stepDy) as Lean `SExpr` text"""
    vv = fn.args.args[0].arg
    env = {}                 # name -> ('C',) centres | ('D',) diff of centres | ('V', lean) | ('S', lean)

    def vexpr(e):
        if isinstance(e, ast.Name):
            if e.id in env and env[e.id][0] == 'V':
                return env[e.id][1]
            raise Unrecognised('step extraction: %s is not a difference vector (line %d)' % (e.id, e.lineno))
        if _is_call(e, 'abs') or _is_call(e, 'np.abs') or _is_call(e, 'np.absolute'):
            if len(e.args) == 1 and not e.keywords:
                return '(.abs %s)' % vexpr(e.args[0])
        if isinstance(e, ast.Subscript):
            base, sl = e.value, e.slice
            # cell_sizes[:, k]
            if (isinstance(base, ast.Name) and env.get(base.id, ('',))[0] == 'D' and isinstance(sl, ast.Tuple)
                    and len(sl.elts) == 2 and isinstance(sl.elts[0], ast.Slice)
                    and sl.elts[0].lower is None and sl.elts[0].upper is None and sl.elts[0].step is None
                    and isinstance(sl.elts[1], ast.Constant) and sl.elts[1].value in (0, 1)):
                return '(.diffCol %d)' % sl.elts[1].value
            # v[v != 0]
            if (isinstance(sl, ast.Compare) and len(sl.ops) == 1 and isinstance(sl.ops[0], ast.NotEq)
                    and isinstance(sl.comparators[0], ast.Constant) and sl.comparators[0].value == 0
                    and not isinstance(sl.comparators[0].value, bool)
                    and ast.dump(sl.left) == ast.dump(base)):
                return '(.nonzero %s)' % vexpr(base)
        raise Unrecognised('step extraction: vector expression at line %d: %s' % (e.lineno, ast.unparse(e)))

    def sexpr(e):
        if isinstance(e, ast.Call) and isinstance(e.func, ast.Attribute) and e.func.attr == 'item' and not e.args:
            return sexpr(e.func.value)
        for nm, k in (('np.min', '.min'), ('np.amin', '.min'), ('np.max', '.max'), ('np.amax', '.max')):
            if _is_call(e, nm) and len(e.args) == 1 and not e.keywords:
                return '(%s %s)' % (k, vexpr(e.args[0]))
        raise Unrecognised('step extraction: scalar expression at line %d: %s' % (e.lineno, ast.unparse(e)))

    for st in fn.body[:fn.body.index(loop)]:
        if isinstance(st, ast.Expr) and isinstance(st.value, ast.Constant):
            continue                                                       # docstring
        if isinstance(st, ast.If):                                         # argument validation
            if all(isinstance(b, ast.Raise) for b in st.body) and not st.orelse:
                continue
            raise Unrecognised('statement before the loop, line %d' % st.lineno)
        if not (isinstance(st, ast.Assign) and len(st.targets) == 1 and isinstance(st.targets[0], ast.Name)):
            raise Unrecognised('statement before the loop, line %d: %s' % (st.lineno, ast.unparse(st)[:60]))
        name, v = st.targets[0].id, st.value
        txt = ast.unparse(v)
        if name == vv and txt == 'np.asarray(%s)' % vv:
            continue
        if name == 'num_cells' and txt == '%s.shape[0]' % vv:
            continue
        if name in OPS and txt == 'np.zeros((num_cells, num_cells))':
            continue
        if txt == 'np.mean(%s, axis=1)' % vv:
            env[name] = ('C',)
            continue
        if (_is_call(v, 'np.diff') and len(v.args) == 1 and isinstance(v.args[0], ast.Name)
                and env.get(v.args[0].id, ('',))[0] == 'C'
                and [(k.arg, ast.unparse(k.value)) for k in v.keywords] == [('axis', '0')]):
            env[name] = ('D',)
            continue
        if name in (vv, 'num_cells') or name in OPS:
            raise Unrecognised('unexpected definition of %s at line %d' % (name, st.lineno))
        try:
            env[name] = ('V', vexpr(v))
        except Unrecognised:
            env[name] = ('S', sexpr(v))
    out = []
    for nm in ('dx', 'dy'):
        if env.get(nm, ('',))[0] != 'S':
            raise Unrecognised('%s is not defined as a min/max of centre differences before the loop' % nm)
        out.append(env[nm][1])
    return out

# --------------------------------------------------------------------------------------------- arithmetic -> Lean
class Expr:
    """element-wise arithmetic over names -> Lean term over the notation classes of the model"""

    def __init__(self, names, matvec=None, diag=None, ops=None):
        self.names = set(names)
        self.matvec = matvec if matvec is not None else {}
        self.diag = diag or set()
        self.ops = ops or {}
        self.dens = []

    def tr(self, e):
        if isinstance(e, ast.Constant) and isinstance(e.value, int) and not isinstance(e.value, bool) and e.value >= 0:
            return '((%d : Nat) : α)' % e.value
        if isinstance(e, ast.Name):
            if e.id in self.ops:
                return self.ops[e.id] + '_e'
            if e.id not in self.names:
                raise Unrecognised('unknown name %s at line %d' % (e.id, e.lineno))
            return e.id
        if isinstance(e, ast.UnaryOp) and isinstance(e.op, ast.USub):
            return '(-%s)' % self.tr(e.operand)
        if isinstance(e, ast.BinOp):
            if isinstance(e.op, ast.MatMult):
                if isinstance(e.left, ast.Name) and e.left.id in self.ops and isinstance(e.right, ast.Name):
                    key = (self.ops[e.left.id], e.right.id)
                    sym = '%s_%s' % key
                    self.matvec.setdefault(key, sym)
                    return sym
                # diag(c) @ Op   ->   c * Op_entry    (left: element-wise expression over diag'ed names)
                if isinstance(e.right, ast.Name) and e.right.id in self.ops and self._diag_expr(e.left):
                    return '(%s * %s_e)' % (self.tr(e.left), self.ops[e.right.id])
                raise Unrecognised('matrix product at line %d: %s' % (e.lineno, ast.unparse(e)))
            if isinstance(e.op, ast.Pow):
                if isinstance(e.right, ast.Constant) and e.right.value == 2:
                    return '(sq %s)' % self.tr(e.left)
                raise Unrecognised('power at line %d' % e.lineno)
            sym = {ast.Add: '+', ast.Sub: '-', ast.Mult: '*', ast.Div: '/'}.get(type(e.op))
            if sym is None:
                raise Unrecognised('operator at line %d' % e.lineno)
            l, r = self.tr(e.left), self.tr(e.right)
            if sym == '/':
                self.dens.append(r)
            return '(%s %s %s)' % (l, sym, r)
        raise Unrecognised('expression at line %d: %s' % (e.lineno, ast.unparse(e)))

    def _diag_expr(self, e):
        if isinstance(e, ast.Name):
            return e.id in self.diag
        if isinstance(e, ast.BinOp) and isinstance(e.op, ast.Mult):
            return ((isinstance(e.left, ast.Constant) and self._diag_expr(e.right))
                    or (isinstance(e.right, ast.Constant) and self._diag_expr(e.left)))
        return False


def admt_formulas(fn):
    params = [a.arg for a in fn.args.args]          # voxel_radii, derivative_operators, psi_at_voxels, dx, dy, anisotropy
    if params != ['voxel_radii', 'derivative_operators', 'psi_at_voxels', 'dx', 'dy', 'anisotropy']:
        raise Unrecognised('calculate_admt signature %r' % params)
    opsd, psi = params[1], params[2]
    ex = Expr({'voxel_radii', 'anisotropy'})
    lets = []            # (name, lean rhs, lineno)
    diag = set()
    entry = None
    final = None
    slot = 'other'
    for st in fn.body:
        if isinstance(st, ast.Expr) and isinstance(st.value, ast.Constant):
            continue                                   # docstring
        if isinstance(st, ast.Return):
            if not (isinstance(st.value, ast.Name) and st.value.id == 'admt_operator'):
                raise Unrecognised('return at line %d' % st.lineno)
            continue
        if isinstance(st, ast.AugAssign):
            if (isinstance(st.target, ast.Name) and st.target.id == 'admt_operator' and isinstance(st.op, ast.Mult)
                    and isinstance(st.value, ast.Call) and ast.unparse(st.value.func) == 'np.sqrt' and entry is not None):
                final = 'sqrt %s' % Expr({'dx', 'dy'}).tr(st.value.args[0])
                continue
            raise Unrecognised('augmented assignment at line %d' % st.lineno)
        if not (isinstance(st, ast.Assign) and len(st.targets) == 1 and isinstance(st.targets[0], ast.Name)):
            raise Unrecognised('statement at line %d' % st.lineno)
        name, v = st.targets[0].id, st.value
        if entry is not None:
            raise Unrecognised('assignment after the operator sum, line %d' % st.lineno)
        # operator alias
        if isinstance(v, ast.Subscript) and isinstance(v.value, ast.Name) and v.value.id == opsd:
            key = v.slice.value if isinstance(v.slice, ast.Constant) else None
            if key not in OPS:
                raise Unrecognised('operator key at line %d' % st.lineno)
            ex.ops[name] = key
            continue
        # constant vector
        if isinstance(v, ast.Call) and ast.unparse(v.func) == 'np.full':
            if ast.unparse(v.args[0]) != psi + '.shape':
                raise Unrecognised('np.full shape at line %d' % st.lineno)
            lets.append((name, ex.tr(v.args[1]), st.lineno))
            ex.names.add(name)
            continue
        if isinstance(v, ast.Call) and ast.unparse(v.func) == 'np.diag':
            if not (len(v.args) == 1 and isinstance(v.args[0], ast.Name) and v.args[0].id == name and name in ex.names):
                raise Unrecognised('np.diag at line %d' % st.lineno)
            diag.add(name)
            continue
        if name == 'admt_operator':
            ex.diag = diag
            entry = ex.tr(v)
            continue
        if name == 'dnorm_term_cx':
            slot = _slot(v)
        if diag:
            raise Unrecognised('element-wise assignment after np.diag, line %d' % st.lineno)
        lets.append((name, ex.tr(v), st.lineno))
        ex.names.add(name)
    if entry is None or final is None:
        raise Unrecognised('operator sum / final scaling not found')
    if diag != {'cx', 'cy', 'cxx', 'cyy', 'cxy'}:
        raise Unrecognised('diag set %r' % sorted(diag))
    # psi must only be used through Op @ psi
    mv = dict(ex.matvec)
    pre = sorted({vec for (_, vec) in mv if vec != psi})
    return dict(lets=lets, matvec=mv, pre=pre, entry=entry, final=final, slot=slot, dens=list(ex.dens), psi=psi)


def _slot(v):
    """-2 / normalisation * ( A * (dpsidx * dpsidxx + dpsidy * <SLOT>) + B * (…) )"""
    try:
        inner = v.right                      # A*(…) + B*(…)
        first = inner.left                   # A * (dpsidx*dpsidxx + dpsidy*SLOT)
        br = first.right                     # dpsidx*dpsidxx + dpsidy*SLOT
        term = br.right                      # dpsidy * SLOT
        if term.left.id == 'dpsidy' and br.left.left.id == 'dpsidx' and br.left.right.id == 'dpsidxx':
            return term.right.id if term.right.id in ('dpsidyy', 'dpsidxdy') else 'other'
    except AttributeError:
        pass
    return 'other'


# ----------------------------------------------------------------------------------------------------- emit
HEADER = '''/-
GENERATED by harness/translators/admt.py from cherab/tools/inversions/admt_utils.py — do not edit.
Regenerated on every `./check C20`; the committed copy corresponds to the current tree.
-/
import Cherab.Model.AdmtCore
set_option linter.unusedVariables false
namespace Cherab.Gen.Admt
open Cherab.Admt

/-- `generate_derivative_operators`, body of the cell loop: every `D[ith_cell, n] = c` in execution order with the
conjunction of its enclosing conditions (`found p` = the try-lookup of neighbour `p` succeeded, `missing p` = the flag
set in its `except KeyError`).  `line` = source line. -/
def program : List Asg := [
%(prog)s
]

/-- `dx`, `dy` as the statements before the loop define them from `np.diff(np.mean(voxel_vertices, axis=1), axis=0)` -/
def stepDx : SExpr := %(stepdx)s
def stepDy : SExpr := %(stepdy)s

section
variable {α : Type} [Add α] [Sub α] [Mul α] [Div α] [Neg α] [NatCast α]

/-- the divisors applied after the loop: `D = D / scaleDen D dx dy` -/
def scaleDen : Op5 → α → α → α
%(scales)s

/-- `calculate_admt`: the element-wise part for one cell.  Inputs are the scalars of that cell
(`voxel_radii[i]`) and the entries `(Op @ vector)[i]` of the matrix–vector products the code forms. -/
def coeffs (anisotropy voxel_radii %(mvsyms)s : α) : Coeffs α :=
%(lets)s
  ⟨cx, cy, cxx, cxy, cyy⟩

/-- every divisor that occurs while evaluating `coeffs` (in order of appearance) -/
def denominators (anisotropy voxel_radii %(mvsyms)s : α) : List α :=
%(lets)s
  [%(dens)s]

/-- the computed vectors that are themselves differentiated (`Op @ v`), per cell: %(pre)s -/
def preVectors (anisotropy : α) : List α :=
%(prelets)s
  [%(prenames)s]

/-- one entry of `cx @ Dx + cy @ Dy + cxx @ Dxx + 2 * cxy @ Dxy + cyy @ Dyy` (diagonal coefficient matrices) -/
def entry (cx cy cxx cxy cyy Dx_e Dy_e Dxx_e Dxy_e Dyy_e : α) : α :=
  %(entry)s

/-- `admt_operator *= np.sqrt(dx * dy)` -/
def finalScale (sqrt : α → α) (dx dy : α) : α := %(final)s

end

/-- matrix–vector products formed by `calculate_admt`: (operator, vector) in the order of `coeffs`' arguments -/
def matvecs : List (Op5 × String) := [%(mvlist)s]

/-- which second derivative multiplies `dpsidy` in the first bracket of `dnorm_term_cx`
(∂ₓ|∇ψ|² = 2(ψₓψₓₓ + ψ_yψₓ_y) needs `dpsidxdy`) -/
def dnormCxSlot : Slot := .%(slot)s

end Cherab.Gen.Admt
'''


def _int(n):
    return '(%d)' % n if n < 0 else '%d' % n


def generate(src_path=None):
    tree = ast.parse(open(src_path or SRC).read())
    prog, scales, (step_dx, step_dy) = stencil_program(_fn(tree, 'generate_derivative_operators'))
    f = admt_formulas(_fn(tree, 'calculate_admt'))
    rows = []
    for guards, op, pos, val, line in prog:
        if val.denominator not in (1, 2, 4):
            raise Unrecognised('coefficient %s at line %d' % (val, line))
        rows.append('  ⟨[%s], .%s, .%s, %s, %d, %d⟩' % (', '.join(guards), op, pos, _int(val.numerator), val.denominator, line))
    mv_order = sorted(f['matvec'].items(), key=lambda kv: (kv[0][1] != f['psi'], kv[0][1], OPS.index(kv[0][0])))
    mvsyms = ' '.join(sym for _, sym in mv_order)
    # Model/Admt.lean applies `coeffs` positionally: the set and order of products is pinned
    if [k for k, _ in mv_order] != EXPECTED_MATVECS or f['pre'] != ['Dpar', 'Dperp']:
        raise Unrecognised('matrix-vector products %r / differentiated vectors %r differ from the pinned signature'
                           % ([k for k, _ in mv_order], f['pre']))
    lets = '\n'.join('  let %s : α := %s' % (n, rhs) for n, rhs, _ in f['lets'])
    # lets needed for the pre-vectors: the prefix of `lets` up to the last pre-vector, restricted to names not using inputs
    prelets = []
    need = set(f['pre'])
    if need:
        last = max(i for i, (n, _, _) in enumerate(f['lets']) if n in need)
        prelets = f['lets'][:last + 1]
        for n, rhs, ln in prelets:
            for sym in [s for _, s in mv_order] + ['voxel_radii']:
                if sym in rhs.replace('(', ' ').replace(')', ' ').split():
                    raise Unrecognised('differentiated vector %s depends on %s (line %d)' % (n, sym, ln))
    text = HEADER % dict(
        prog=',\n'.join(rows),
        scales='\n'.join('  | .%s, dx, dy => %s' % (op, scales[op]) for op in OPS),
        mvsyms=mvsyms, lets=lets, dens=', '.join(f['dens']),
        pre=', '.join(f['pre']) or 'none',
        prelets='\n'.join('  let %s : α := %s' % (n, rhs) for n, rhs, _ in prelets),
        prenames=', '.join(f['pre']),
        entry=f['entry'], final=f['final'],
        mvlist=', '.join('(.%s, "%s")' % (k[0], k[1]) for k, _ in mv_order),
        slot=f['slot'], stepdx=step_dx, stepdy=step_dy)
    info = dict(assignments=len(prog), lets=len(f['lets']), matvecs=[list(k) for k, _ in mv_order], slot=f['slot'],
                pre=f['pre'], denominators=len(f['dens']), steps=[step_dx, step_dy])
    return text, info


def run():
    text, info = generate()
    info['changed'] = lean.write_if_changed(OUT, text)
    return info


if __name__ == '__main__':
    import sys
    t, i = generate(sys.argv[1] if len(sys.argv) > 1 else SRC)
    sys.stdout.write(t)
    sys.stderr.write(repr(i) + '\n')
