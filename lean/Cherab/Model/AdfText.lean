/-
C08, layer 1: the views of `Model/Adf.lean` for real text lines (`ℓ = String`, a line without its trailing newline),
transcribed from the column slices and regular expressions of cherab/openadas/parse/*.py, and the text rendering of the
abstract line kinds (the Fortran-style layout of the formats).  Not proved; tied to the code by the correspondence run
(the same text is parsed by the real `parse_adf*`), and internally: parsing the rendered text with these views must
agree with parsing the abstract lines with the canonical views.

Numeric tokens stay strings (`α = String`): a field that Python's `float()` would accept is returned trimmed, after
`replace('D','E')` where the code does that.
-/
import Cherab.Model.Adf
namespace Cherab.Adf.Text
open Cherab.Adf

abbrev Cs := List Char

def isWs (c : Char) : Bool := c == ' ' || c == '\t' || c == '\n' || c == '\r' || c == '\x0b' || c == '\x0c'
def isDig (c : Char) : Bool := c.isDigit

def skipWs (cs : Cs) : Cs := cs.dropWhile isWs
def trim (cs : Cs) : Cs := ((cs.dropWhile isWs).reverse.dropWhile isWs).reverse
def digits (cs : Cs) : Cs × Cs := (cs.takeWhile isDig, cs.dropWhile isDig)
def natOf (ds : Cs) : Nat := ds.foldl (fun n c => 10 * n + (c.toNat - '0'.toNat)) 0

/-- Python slice `s[a:b]` -/
def slice (s : Cs) (a b : Nat) : Cs := (s.drop a).take (b - a)

/-- Python `int(s)` for the non-negative decimal literals that occur here (surrounding blanks allowed) -/
def pyInt (cs : Cs) : Option Nat :=
  let t := trim cs
  let t := match t with | '+' :: r => r | _ => t
  if t ≠ [] ∧ t.all isDig then some (natOf t) else none

/-- would Python's `float()` accept this text (decimal / exponent notation; blanks around it allowed) -/
def isFloat (cs : Cs) : Bool :=
  let t := trim cs
  let t := match t with | '+' :: r => r | '-' :: r => r | _ => t
  let (ip, r) := digits t
  let (fp, r, _hasDot) := match r with
    | '.' :: r' => let (f, r'') := digits r'; (f, r'', true)
    | _ => ([], r, false)
  if ip = [] ∧ fp = [] then false else
    match r with
    | [] => true
    | e :: r' =>
      if e == 'e' || e == 'E' then
        let r' := match r' with | '+' :: x => x | '-' :: x => x | _ => r'
        r' ≠ [] ∧ r'.all isDig
      else false

def pyFloat (cs : Cs) : Option String :=
  if isFloat cs then some (String.ofList (trim cs)) else none

def replaceDE (cs : Cs) : Cs := cs.map fun c => if c == 'D' then 'E' else c

/-- `line[1+10k : 10(k+1)].replace('D','E')` -/
def fieldCs (s : String) (k : Nat) : Cs := replaceDE (slice s.toList (1 + 10 * k) (10 * (k + 1)))

/-- `line.split()` -/
def splitWs (cs : Cs) : List Cs :=
  let rec go : Cs → Cs → List Cs
    | [], cur => if cur = [] then [] else [cur.reverse]
    | c :: r, cur => if isWs c then (if cur = [] then go r [] else cur.reverse :: go r []) else go r (c :: cur)
  go cs []

def allSome {β : Type} : List (Option β) → Option (List β)
  | [] => some []
  | none :: _ => none
  | some x :: t => (allSome t).map (x :: ·)

/-- all whitespace-separated tokens of a line as numbers -/
def floatToks (s : String) : Option (List String) := allSome ((splitWs s.toList).map pyFloat)

def rj (w : Nat) (s : String) : String := String.ofList (List.replicate (w - s.length) ' ') ++ s
def lj (w : Nat) (s : String) : String := s ++ String.ofList (List.replicate (w - s.length) ' ')
def rjn (w : Nat) (n : Nat) : String := rj w (toString n)
def dashes (n : Nat) : String := String.ofList (List.replicate n '-')
def cat (l : List String) : String := l.foldl (· ++ ·) ""

/-! ## ADF21 / ADF22 -/

def lex2x : Lex2x String String where
  field := fun s k => pyFloat (fieldCs s k)
  zt := fun s => pyInt (slice s.toList 3 5)
  svref := fun s => pyFloat (slice s.toList 13 22)
  n1 := fun s => pyInt (slice s.toList 1 5)
  n2 := fun s => pyInt (slice s.toList 6 10)
  tref := fun s => pyFloat (slice s.toList 17 26)
  eref := fun s => pyFloat (slice s.toList 12 21)
  dref := fun s => pyFloat (slice s.toList 28 37)

def text2x : K2x String → String
  | .head zt svref spec =>
    "ZT=" ++ rjn 2 zt ++ "  SVREF=" ++ rj 9 svref ++ "  SPEC=" ++ lj 2 spec ++ "  DATE=01/01/99  CODE=ADAS310"
  | .hy => dashes 79
  | .dims neb ndt tref => " " ++ rjn 4 neb ++ " " ++ rjn 4 ndt ++ " /TREF=" ++ rj 9 tref
  | .tdims ntt eref dref => " " ++ rjn 4 ntt ++ " /EREF=" ++ rj 9 eref ++ " /NREF=" ++ rj 9 dref
  | .vals xs => cat (xs.map (rj 10))

/-! ## ADF12 -/

def lex12 : Lex12 String String where
  field := fun s k => pyFloat (fieldCs s k)
  ifield := fun s k => pyInt (fieldCs s k)
  count := fun s => pyInt (slice s.toList 3 5)
  trans := fun s => match pyInt (slice s.toList 38 40), pyInt (slice s.toList 41 43) with
    | some a, some b => some (a, b)
    | _, _ => none

def text12 : K12 String → String
  | .count n => rjn 5 n
  | .hdr up lo => lj 38 " C+6   + H(1S)     /RECVR=C+6 /N=" ++ rjn 2 up ++ "-" ++ rjn 2 lo ++ " /EMISSIVITY"
  | .vals xs => cat (xs.map (rj 10))
  | .ints xs => cat (xs.map (rjn 10))

end Cherab.Adf.Text
