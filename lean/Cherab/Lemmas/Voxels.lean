import Cherab.Model.Voxels
import Mathlib.Tactic.Ring
import Mathlib.Tactic.Linarith
import Mathlib.Tactic.FieldSimp
import Mathlib.Algebra.Order.Field.Basic
import Mathlib.Data.List.Rotate
import Mathlib.Algebra.BigOperators.Group.List.Basic

/-!
Helper lemmas for C17: sums of an edge functional over the closed edge list of a vertex list
(`esum`), open-path sums (`osum`), invariance under rotation / reversal, telescoping, fan and split.
-/
namespace Cherab.Lemmas.Voxels
set_option linter.unusedSectionVars false
open Cherab.Voxels

variable {α : Type} [Field α] [LinearOrder α] [IsStrictOrderedRing α] {β : Type}

/-- the accumulation loops, as a sum -/
def esum (g : β → β → α) (l : List β) : α := ((edges l).map fun e => g e.1 e.2).sum

theorem foldl_add_eq (f : γ → α) (a : α) (l : List γ) :
    l.foldl (fun acc e => acc + f e) a = a + (l.map f).sum := by
  induction l generalizing a with
  | nil => simp
  | cons x xs ih => simp [ih, add_assoc]

theorem accum_eq_esum (g : β → β → α) (l : List β) : accum g l = esum g l := by
  unfold accum esum
  rw [foldl_add_eq]; simp

theorem edges_eq (l : List β) : edges l = List.zipWith Prod.mk l (l.rotate 1) := by
  cases l with
  | nil => simp [edges]
  | cons v vs => simp [edges, List.rotate_cons_succ, List.zip]

theorem edges_rotate (l : List β) (n : Nat) : edges (l.rotate n) = (edges l).rotate n := by
  rw [edges_eq, edges_eq, List.zipWith_rotate_distrib _ _ _ _ (by simp), List.rotate_rotate,
    List.rotate_rotate, Nat.add_comm]

theorem esum_rotate (g : β → β → α) (l : List β) (n : Nat) : esum g (l.rotate n) = esum g l := by
  unfold esum
  rw [edges_rotate]
  exact ((List.rotate_perm _ n).map _).sum_eq

theorem edges_reverse (l : List β) :
    edges l.reverse = ((edges (l.rotate (l.length - 1 % l.length))).map Prod.swap).reverse := by
  rw [edges_eq, edges_eq, List.rotate_reverse, ← List.reverse_zipWith (by simp)]
  congr 1
  rw [List.rotate_rotate]
  have hrot : l.rotate (l.length - 1 % l.length + 1) = l := by
    rcases Nat.lt_or_ge l.length 2 with h | h
    · match l, h with
      | [], _ => simp
      | [a], _ => simp
    · rw [Nat.mod_eq_of_lt (by omega), Nat.sub_add_cancel (by omega), List.rotate_length]
  rw [hrot, List.map_zipWith]
  rw [List.zipWith_comm]
  rfl

/-- reversal swaps the arguments of the edge functional -/
theorem esum_reverse (g : β → β → α) (l : List β) : esum g l.reverse = esum (fun p q => g q p) l := by
  rw [← esum_rotate (fun p q => g q p) l (l.length - 1 % l.length)]
  unfold esum
  rw [edges_reverse, List.map_reverse, List.sum_reverse, List.map_map]
  rfl

theorem esum_reverse_anti (g : β → β → α) (h : ∀ p q, g q p = - g p q) (l : List β) :
    esum g l.reverse = - esum g l := by
  rw [esum_reverse]
  unfold esum
  have : (fun e : β × β => g e.2 e.1) = fun e => - g e.1 e.2 := by funext e; exact h _ _
  rw [this]
  induction edges l with
  | nil => simp
  | cons x xs ih => simp [ih]; ring

theorem esum_add (g h : β → β → α) (l : List β) :
    esum (fun p q => g p q + h p q) l = esum g l + esum h l := by
  unfold esum
  induction edges l with
  | nil => simp
  | cons x xs ih => simp [ih]; ring

theorem esum_smul (c : α) (g : β → β → α) (l : List β) :
    esum (fun p q => c * g p q) l = c * esum g l := by
  unfold esum
  induction edges l with
  | nil => simp
  | cons x xs ih => simp [ih]; ring

theorem esum_congr (g h : β → β → α) (l : List β) (e : ∀ p q, g p q = h p q) : esum g l = esum h l := by
  have : g = h := by funext p q; exact e p q
  rw [this]

theorem edges_map (φ : β → γ) (l : List β) : edges (l.map φ) = (edges l).map (Prod.map φ φ) := by
  cases l with
  | nil => simp [edges]
  | cons v vs =>
    simp only [edges, List.map_cons]
    rw [show List.map φ vs ++ [φ v] = List.map φ (vs ++ [v]) by simp, ← List.map_cons, List.zip_map]

theorem esum_map (g : γ → γ → α) (φ : β → γ) (l : List β) :
    esum g (l.map φ) = esum (fun p q => g (φ p) (φ q)) l := by
  unfold esum
  rw [edges_map, List.map_map]
  rfl

/-- Σ over the closed edge list of a function of the end point = Σ of the function of the start point -/
theorem esum_snd_eq_fst (H : β → α) (l : List β) :
    esum (fun _ q => H q) l = esum (fun p _ => H p) l := by
  unfold esum
  have h1 : (edges l).map (fun e => H e.2) = (l.rotate 1).map H := by
    rw [edges_eq]
    have : (fun e : β × β => H e.2) = H ∘ Prod.snd := rfl
    rw [this, ← List.map_map]
    congr 1
    rw [← List.zip, List.map_snd_zip]
    simp
  have h2 : (edges l).map (fun e => H e.1) = l.map H := by
    rw [edges_eq]
    have : (fun e : β × β => H e.1) = H ∘ Prod.fst := rfl
    rw [this, ← List.map_map]
    congr 1
    rw [← List.zip, List.map_fst_zip]
    simp
  rw [h1, h2]
  exact ((List.rotate_perm l 1).map H).sum_eq

/-- telescoping around the closed polygon -/
theorem esum_telescope (H : β → α) (l : List β) : esum (fun p q => H q - H p) l = 0 := by
  have := esum_add (fun _ q => H q) (fun p _ => - H p) l
  have e : (fun p q => H q - H p) = fun p q : β => (fun _ q => H q) p q + (fun p _ => - H p) p q := by
    funext p q; ring
  rw [e, this, esum_snd_eq_fst]
  have := esum_smul (-1 : α) (fun p _ => H p) l
  have e2 : (fun p (_ : β) => - H p) = fun p q : β => (-1 : α) * (fun p _ => H p) p q := by
    funext p q; ring
  rw [e2, this]; ring

/-- two edge functionals that differ by a telescoping term have the same closed sum -/
theorem esum_eq_of_telescope (g g' : β → β → α) (H : β → α) (h : ∀ p q, g' p q = g p q + (H q - H p))
    (l : List β) : esum g' l = esum g l := by
  rw [esum_congr g' _ l h, esum_add, esum_telescope]; ring

/-! ### open paths, fan, split -/

/-- sum of the functional along the open path `l` -/
def osum (g : β → β → α) : List β → α
  | a :: b :: r => g a b + osum g (b :: r)
  | _ => 0

theorem osum_append (g : β → β → α) (A : List β) (x : β) (B : List β) :
    osum g (A ++ x :: B) = osum g (A ++ [x]) + osum g (x :: B) := by
  induction A with
  | nil => simp [osum]
  | cons a A ih =>
    cases A with
    | nil => simp [osum]
    | cons b A' =>
      simp only [List.cons_append, osum] at ih ⊢
      rw [ih]; ring

theorem zip_path (g : β → β → α) (a : β) (l : List β) (x : β) :
    (((a :: l).zip (l ++ [x])).map fun e => g e.1 e.2).sum = osum g (a :: l ++ [x]) := by
  induction l generalizing a with
  | nil => simp [osum]
  | cons b l ih =>
    have h := ih b
    simp only [List.cons_append] at h
    simp only [List.cons_append, List.zip_cons_cons, List.map_cons, List.sum_cons, osum]
    rw [h]

/-- closed sum = open-path sum of the list with its head appended -/
theorem esum_cons (g : β → β → α) (v : β) (vs : List β) : esum g (v :: vs) = osum g (v :: vs ++ [v]) := by
  unfold esum edges
  exact zip_path g v vs v

/-- fan around `a`: Σ over consecutive pairs `(p,q)` of `l` of `T a p q` -/
def fanSum (T : β → β → β → α) (a : β) : List β → α
  | p :: q :: r => T a p q + fanSum T a (q :: r)
  | _ => 0

theorem fan_aux (g : β → β → α) (hanti : ∀ p q, g q p = - g p q) (a p : β) (r : List β) :
    g a p + osum g (p :: r ++ [a]) = fanSum (fun a p q => g a p + g p q + g q a) a (p :: r) := by
  induction r generalizing p with
  | nil => simp [osum, fanSum, hanti p a]
  | cons q r ih =>
    simp only [List.cons_append, osum, fanSum]
    rw [← ih q, hanti a q]
    simp only [List.cons_append]
    ring

/-- an antisymmetric edge functional summed round `a :: l` is the sum over the fan triangles `(a, p, q)`
of the functional summed round each triangle -/
theorem esum_fan (g : β → β → α) (hanti : ∀ p q, g q p = - g p q) (a : β) (l : List β) :
    esum g (a :: l) = fanSum (fun a p q => g a p + g p q + g q a) a l := by
  rw [esum_cons]
  cases l with
  | nil =>
    have : g a a = 0 := by have := hanti a a; linarith
    simp [osum, fanSum, this]
  | cons p r =>
    simp only [List.cons_append, osum]
    exact fan_aux g hanti a p r

/-- cutting along the diagonal `(a, b)`: the two pieces add up -/
theorem esum_split (g : β → β → α) (hanti : ∀ p q, g q p = - g p q) (a b : β) (Q R : List β) :
    esum g (a :: Q ++ b :: R) = esum g (a :: Q ++ [b]) + esum g (a :: b :: R) := by
  simp only [List.cons_append]
  rw [esum_cons, esum_cons, esum_cons]
  have e1 : a :: (Q ++ b :: R) ++ [a] = (a :: Q) ++ b :: (R ++ [a]) := by simp
  have e2 : a :: (Q ++ [b]) ++ [a] = (a :: Q) ++ b :: [a] := by simp
  have h1 : osum g (a :: (Q ++ b :: R) ++ [a]) = osum g (a :: Q ++ [b]) + osum g (b :: (R ++ [a])) := by
    rw [e1, osum_append]
  have h2 : osum g (a :: (Q ++ [b]) ++ [a]) = osum g (a :: Q ++ [b]) + osum g [b, a] := by
    rw [e2, osum_append]
  have h3 : osum g (a :: b :: R ++ [a]) = g a b + osum g (b :: (R ++ [a])) := by simp [osum]
  have h4 : osum g [b, a] = - g a b := by simp [osum, hanti a b]
  rw [h1, h2, h3, h4]
  simp only [List.cons_append]
  ring

end Cherab.Lemmas.Voxels
