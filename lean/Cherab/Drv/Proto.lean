/-
Line-protocol helpers shared by all driver modules (Mathlib-free).
Floats travel as the decimal integer of their IEEE-754 bit pattern; ints as decimal; strings hex-encoded
by the harness when they can contain spaces.
-/
namespace Cherab.Drv

instance : NatCast Float := ⟨Float.ofNat⟩
instance : IntCast Float := ⟨Float.ofInt⟩

def pF (s : String) : Float := Float.ofBits (s.toNat!.toUInt64)
def pN (s : String) : Nat := s.toNat!
def pI (s : String) : Int := s.toInt!
def pB (s : String) : Bool := s == "1"

def fF (x : Float) : String := toString x.toBits
def fFs (xs : List Float) : String := " ".intercalate (xs.map fF)
def fB (b : Bool) : String := if b then "1" else "0"

/-- split a protocol line into tokens -/
def toks (line : String) : List String :=
  (line.trimAscii.toString.splitOn " ").filter (· ≠ "")

/-- take `n` floats from the token list, returning them and the rest -/
def takeF (n : Nat) (ts : List String) : List Float × List String :=
  ((ts.take n).map pF, ts.drop n)

partial def loop {σ : Type} (step : σ → List String → σ × String) (h : IO.FS.Stream)
    (out : IO.FS.Stream) (s : σ) : IO Unit := do
  let line ← h.getLine
  if line.isEmpty then return ()
  let (s', o) := step s (toks line)
  out.putStrLn o
  loop step h out s'

/-- run a stateless handler -/
def stateless (f : List String → String) : Unit → List String → Unit × String :=
  fun _ ts => ((), f ts)

end Cherab.Drv
