"""known_findings.json: read-only at run time.

entries: {"property": "C06", "signature": "...", "status": "open"|"fixed", "commit": "...", "description": "..."}
An *open* entry suppresses a violation whose signature matches exactly; a *fixed* entry suppresses nothing.
"""
import json
import os

from .util import VERIF

PATH = os.path.join(VERIF, 'known_findings.json')


def load():
    if not os.path.exists(PATH):
        return []
    return json.load(open(PATH)).get('findings', [])


def open_signatures(prop):
    return {e['signature']: e for e in load() if e['property'] == prop and e.get('status') == 'open'}
