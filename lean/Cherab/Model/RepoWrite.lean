/-
C06, round 6 — the lower-level model of ONE file write of the repository writers
(`_update_and_write_adf11` (atomic.py, radiated_power.py), `update_pec_rates`, `update_pec_thermal_cx_rates`,
`update_wavelengths`, `update_beam_cx_rates`, `update_beam_emission_rates`, `add_beam_stopping_rate`,
`add_beam_population_rate`).

`Model/Repository.lean` treats a write as one atomic `FS.write`.  The code is a sequence of statements: conversions and
checks that may raise, (sometimes) `json.dumps`, `os.makedirs`, `open(path, 'w')` — which TRUNCATES the stored file —
and then either `json.dump(obj, f)` (serialises *into the open file*: a failure leaves the truncated file behind) or
`f.write(text)`.  This module gives the file the missing third state `truncated` and executes such a statement
sequence (`WStep`s, regenerated from the source by `harness/translators/repo_paths.py` → `Gen/RepoWrites.lean`) under an
arbitrary oracle `fails : Nat → Bool` ("does the statement at position i raise on this input?").
No Mathlib.
-/
namespace Cherab.RepoWrite

/-- statement kinds of a write segment, in source order -/
inductive WStep
  | validate    -- anything that may raise and touches no file (np.array, float, raise …, dictionary look-ups, reading the old file)
  | serialise   -- `text = json.dumps(obj, …)`: may raise, touches no file
  | mkdirs      -- `if not os.path.isdir(d): os.makedirs(d)`
  | openW       -- `with open(path, 'w') as f:` — truncates
  | dumpBuilt   -- `json.dump(content, f, …)`, `content` a local built from `json.load` / `RecursiveDict()` and entries whose
                --   keys are `str(…)`/`int(…)`/`encode_transition(…)` and whose values are `float(…)` / `….tolist()`: cannot raise
  | dumpCaller  -- `json.dump(obj, f, …)` of anything else (a caller's object, caller's keys): may raise
  | writeText   -- `f.write(text)` of the text serialised before
  deriving DecidableEq, Repr, Inhabited

/-- state of the file on disk -/
inductive Disk (α : Type)
  | absent
  | valid (c : α)
  | truncated       -- opened for writing, nothing (or a prefix) written: not JSON
  deriving DecidableEq, Repr

/-- after `open(path,'w')`: position `i`, `text` = has `json.dumps` run, `new` = the content to be stored -/
def runOpen {α : Type} (fails : Nat → Bool) (new : α) : List WStep → Nat → Bool → Disk α × Bool
  | [], _, _ => (.truncated, true)                       -- opened and closed without writing: returns normally, file empty
  | s :: rest, i, text =>
    match s with
    | .validate | .serialise => if fails i then (.truncated, false) else runOpen fails new rest (i + 1) (text || s == .serialise)
    | .mkdirs | .openW => runOpen fails new rest (i + 1) text
    | .dumpBuilt => (.valid new, true)
    | .dumpCaller => if fails i then (.truncated, false) else (.valid new, true)
    | .writeText => if text then (.valid new, true) else (.truncated, false)      -- NameError: `text` unbound

/-- before the file is opened: a raising statement leaves the disk as it was -/
def runPre {α : Type} (fails : Nat → Bool) (d : Disk α) (new : α) : List WStep → Nat → Bool → Disk α × Bool
  | [], _, _ => (d, true)                                 -- returns without ever opening the file
  | s :: rest, i, text =>
    match s with
    | .validate => if fails i then (d, false) else runPre fails d new rest (i + 1) text
    | .serialise => if fails i then (d, false) else runPre fails d new rest (i + 1) true
    | .mkdirs => runPre fails d new rest (i + 1) text
    | .openW => runOpen fails new rest (i + 1) text
    | .dumpBuilt | .dumpCaller | .writeText => (d, false)  -- NameError: `f` unbound

/-- one write segment: (state of the file afterwards, returned normally?) -/
def run {α : Type} (steps : List WStep) (fails : Nat → Bool) (d : Disk α) (new : α) : Disk α × Bool :=
  runPre fails d new steps 0 false

/-- syntactic criterion, decided on the generated table: between `open(path,'w')` and the statement that fills the
file nothing can raise -/
def safeOpen : List WStep → Bool → Bool
  | .dumpBuilt :: _, _ => true
  | .writeText :: _, text => text
  | _, _ => false

def safePre : List WStep → Bool → Bool
  | [], _ => false
  | .validate :: r, t => safePre r t
  | .serialise :: r, _ => safePre r true
  | .mkdirs :: r, t => safePre r t
  | .openW :: r, t => safeOpen r t
  | _ :: _, _ => false

def safe (steps : List WStep) : Bool := safePre steps false

/-- the writers the property's anchors contain (file:function); the generated table must cover each of them -/
def expectedWriters : List String :=
  ["atomic.py:_update_and_write_adf11", "radiated_power.py:_update_and_write_adf11", "pec.py:update_pec_rates",
   "pec.py:update_pec_thermal_cx_rates", "wavelength.py:update_wavelengths", "beam/cx.py:update_beam_cx_rates",
   "beam/emission.py:update_beam_emission_rates", "beam/stopping.py:add_beam_stopping_rate",
   "beam/population.py:add_beam_population_rate"]

def covers (table : List (String × List WStep)) : Bool :=
  expectedWriters.all fun w => table.any fun e => e.1 == w

def allSafe (table : List (String × List WStep)) : Bool := table.all fun e => safe e.2

/-- the pre-round-3 shape of `add_beam_stopping_rate` (dump of the caller's dictionary into the open file) -/
def legacyDump : List WStep := [.validate, .mkdirs, .openW, .dumpCaller]

def WStep.name : WStep → String
  | .validate => "validate" | .serialise => "serialise" | .mkdirs => "mkdirs" | .openW => "openW"
  | .dumpBuilt => "dumpBuilt" | .dumpCaller => "dumpCaller" | .writeText => "writeText"

end Cherab.RepoWrite
