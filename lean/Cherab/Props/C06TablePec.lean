import Cherab.Model.Repository
import Cherab.Gen.RepoPaths

namespace Cherab.Props.C06Table
open Cherab.Repository Cherab.Gen.RepoPaths

/-- **`pec_reads_passed_data`**: `update_pec_rates` does not rebind its class loop variable and then index its argument
with it — i.e. it stores, for every entry, the rate dictionary that entry carries (`UpdFn.prep` is the identity:
`Props.C06.prep_id_of_tables`) -/
theorem pec_reads_passed_data : tables.pecReindexes = false := by decide

end Cherab.Props.C06Table
