import Cherab.Props.C16Alias
open Cherab.Props.C16
#print axioms no_alias_spectrometer
#print axioms no_alias_ct
#print axioms no_alias_polychromator
#print axioms no_alias_all
