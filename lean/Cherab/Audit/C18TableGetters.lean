import Cherab.Props.C18TableGetters
open Cherab.Props.C18Table
#print axioms getter_returns_own_field
