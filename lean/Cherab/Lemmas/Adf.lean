import Cherab.Model.Adf
import Mathlib.Tactic.Ring
import Mathlib.Tactic.Linarith
import Mathlib.Data.List.Basic

/-!
Helper lemmas for C08: `chunk`, indexing into row-major tables, `readvalues` over chunked lines,
`readToks` over token lines.
-/
namespace Cherab.Adf
set_option linter.unusedSectionVars false
set_option linter.unusedVariables false

variable {α ℓ : Type}

theorem chunk_nil (p : Nat) : chunk p ([] : List α) = [] := rfl

theorem chunkF_fuel2 (p : Nat) (hp : 0 < p) : ∀ (f : Nat) (xs : List α) (g : Nat), xs.length ≤ f → xs.length ≤ g →
    chunkF p f xs = chunkF p g xs := by
  intro f
  induction f with
  | zero =>
    intro xs g h _
    have : xs = [] := List.length_eq_zero_iff.mp (by omega)
    subst this
    cases g <;> simp [chunkF]
  | succ f ih =>
    intro xs g h hg
    cases xs with
    | nil => cases g <;> simp [chunkF]
    | cons a t =>
      cases g with
      | zero => simp at hg
      | succ g =>
        simp only [chunkF, List.isEmpty_cons]
        have hd : ((a :: t).drop p).length ≤ t.length := by simp only [List.length_drop, List.length_cons]; omega
        simp only [List.length_cons] at h hg
        rw [ih _ g (by omega) (by omega)]

theorem chunkF_fuel (p : Nat) (hp : 0 < p) (f : Nat) (xs : List α) (h : xs.length ≤ f) :
    chunkF p f xs = chunkF p xs.length xs := chunkF_fuel2 p hp f xs xs.length h (Nat.le_refl _)

theorem chunk_cons {p : Nat} (hp : 0 < p) {xs : List α} (hx : xs ≠ []) :
    chunk p xs = xs.take p :: chunk p (xs.drop p) := by
  cases xs with
  | nil => exact absurd rfl hx
  | cons a t =>
    unfold chunk
    simp only [List.length_cons, chunkF, List.isEmpty_cons]
    have hd : ((a :: t).drop p).length ≤ t.length := by simp only [List.length_drop, List.length_cons]; omega
    rw [chunkF_fuel p hp _ _ hd]
    simp [Nat.ne_of_gt hp]

theorem chunk_flatten {p : Nat} (hp : 0 < p) : ∀ (n : Nat) (xs : List α), xs.length = n → (chunk p xs).flatten = xs := by
  intro n
  induction n using Nat.strong_induction_on with
  | _ n ih =>
    intro xs hn
    by_cases hx : xs = []
    · subst hx; simp [chunk_nil]
    · rw [chunk_cons hp hx, List.flatten_cons]
      have hl : (xs.drop p).length < n := by
        have := List.length_pos_iff.mpr hx
        simp only [List.length_drop]; omega
      rw [ih _ hl _ rfl, List.take_append_drop]

theorem chunk_flatten' {p : Nat} (hp : 0 < p) (xs : List α) : (chunk p xs).flatten = xs :=
  chunk_flatten hp _ xs rfl

/-- every line of a chunking is non-empty -/
theorem chunk_ne_nil {p : Nat} (hp : 0 < p) : ∀ (n : Nat) (xs : List α), xs.length = n → ∀ c ∈ chunk p xs, c ≠ [] := by
  intro n
  induction n using Nat.strong_induction_on with
  | _ n ih =>
    intro xs hn c hc
    by_cases hx : xs = []
    · subst hx; simp [chunk_nil] at hc
    · rw [chunk_cons hp hx] at hc
      rcases List.mem_cons.mp hc with h | h
      · subst h
        intro h0
        have : (xs.take p).length = 0 := by rw [h0]; rfl
        have hl := List.length_pos_iff.mpr hx
        simp only [List.length_take] at this
        omega
      · have hl : (xs.drop p).length < n := by
          have := List.length_pos_iff.mpr hx
          simp only [List.length_drop]; omega
        exact ih _ hl _ rfl c h

/-- indexing into a table written row by row -/
theorem getElem?_flatMap_range (m n : Nat) (g : Nat → Nat → α) (j i : Nat) (hj : j < m) (hi : i < n) :
    ((List.range m).flatMap fun j => (List.range n).map (g j))[j * n + i]? = some (g j i) := by
  induction m with
  | zero => omega
  | succ m ih =>
    rw [List.range_succ, List.flatMap_append]
    have hlen : ((List.range m).flatMap fun j => (List.range n).map (g j)).length = m * n := by
      clear ih hj
      induction m with
      | zero => simp
      | succ m ih2 => rw [List.range_succ, List.flatMap_append, List.length_append, ih2]; simp; ring
    by_cases hjm : j < m
    · have hlt : j * n + i < m * n := by
        have : (j + 1) * n ≤ m * n := Nat.mul_le_mul_right n hjm
        have : (j + 1) * n = j * n + n := by ring
        omega
      rw [List.getElem?_append_left (by rw [hlen]; exact hlt)]
      exact ih hjm
    · have hje : j = m := by omega
      subst hje
      rw [List.getElem?_append_right (by rw [hlen]; omega), hlen]
      simp [hi]

theorem length_flatMap_range (m n : Nat) (g : Nat → Nat → α) :
    ((List.range m).flatMap fun j => (List.range n).map (g j)).length = m * n := by
  induction m with
  | zero => simp
  | succ m ih => rw [List.range_succ, List.flatMap_append, List.length_append, ih]; simp; ring

theorem filterMap_range_some (n : Nat) (f : Nat → Option α) (g : Nat → α) (h : ∀ j, j < n → f j = some (g j)) :
    (List.range n).filterMap f = (List.range n).map g := by
  induction n with
  | zero => simp
  | succ n ih =>
    rw [List.range_succ, List.filterMap_append, List.map_append, ih (fun j hj => h j (by omega))]
    simp [h n (by omega)]

theorem map_range_congr (n : Nat) (f g : Nat → α) (h : ∀ j, j < n → f j = g j) :
    (List.range n).map f = (List.range n).map g := by
  apply List.map_congr_left
  intro a ha
  exact h a (List.mem_range.mp ha)

/-! ### readvalues over chunked lines -/
section rv
variable (field : ℓ → Nat → Option α) (mk : List α → ℓ) (hf : ∀ xs k, field (mk xs) k = xs[k]?)

private def liftOk (pre : List α) : Except Err (List α × List ℓ) → Except Err (List α × List ℓ)
  | .ok (o, r) => .ok (pre ++ o, r)
  | .error e => .error e

include hf in
private theorem within_line (p : Nat) (c : List α) (L : List ℓ) (q m : Nat) (hc : c.length ≤ p) :
    ∀ (k i : Nat), 0 < i → i + k ≤ c.length →
      readvaluesAux field p (k + m) (q * p + i) (some (mk c)) L =
        liftOk ((c.drop i).take k) (readvaluesAux field p m (q * p + i + k) (some (mk c)) L) := by
  intro k
  induction k with
  | zero =>
    intro i hi hik
    simp only [Nat.zero_add, Nat.add_zero, List.take_zero]
    cases h : readvaluesAux field p m (q * p + i) (some (mk c)) L with
    | error e => rfl
    | ok v => obtain ⟨o, r⟩ := v; simp [liftOk]
  | succ k ih =>
    intro i hi hik
    have hip : i < p := by omega
    have hmod : (q * p + i) % p = i := by
      rw [Nat.add_comm, Nat.add_mul_mod_self_right]; exact Nat.mod_eq_of_lt hip
    have hfuel : k + 1 + m = (k + m) + 1 := by omega
    rw [hfuel, readvaluesAux]
    have hne : (i == 0) = false := by simp; omega
    simp only [hmod, hne, Bool.false_eq_true, if_false, Option.bind_some, hf]
    have hic : i < c.length := by omega
    rw [List.getElem?_eq_getElem hic]
    simp only
    have hnb : q * p + i + 1 = q * p + (i + 1) := by omega
    rw [hnb, ih (i + 1) (by omega) (by omega)]
    have hnb2 : q * p + (i + 1) + k = q * p + i + (k + 1) := by omega
    rw [hnb2]
    cases h : readvaluesAux field p m (q * p + i + (k + 1)) (some (mk c)) L with
    | error e => rfl
    | ok v =>
      obtain ⟨o, r⟩ := v
      simp only [liftOk]
      congr 2
      rw [List.drop_eq_getElem_cons hic, List.take_succ_cons, List.cons_append]

include hf in
private theorem line_start (p : Nat) (hp : 0 < p) (c : List α) (L : List ℓ) (q m : Nat) (cur : Option ℓ)
    (hc0 : c ≠ []) (hc : c.length ≤ p) :
    readvaluesAux field p (c.length + m) (q * p) cur (mk c :: L) =
      liftOk c (readvaluesAux field p m (q * p + c.length) (some (mk c)) L) := by
  have hpos := List.length_pos_iff.mpr hc0
  obtain ⟨k, hk⟩ : ∃ k, c.length = k + 1 := ⟨c.length - 1, by omega⟩
  have hfuel : c.length + m = (k + m) + 1 := by omega
  rw [hfuel, readvaluesAux]
  have hmod : (q * p) % p = 0 := Nat.mul_mod_left q p
  simp only [hmod, BEq.rfl, if_true, List.head?_cons, List.tail_cons, Option.bind_some, hf]
  rw [List.getElem?_eq_getElem hpos]
  simp only
  have h1 := within_line field mk hf p c L q m hc k 1 (by omega) (by omega)
  rw [h1]
  have hnb : q * p + 1 + k = q * p + c.length := by omega
  rw [hnb]
  cases h : readvaluesAux field p m (q * p + c.length) (some (mk c)) L with
  | error e => rfl
  | ok v =>
    obtain ⟨o, r⟩ := v
    simp only [liftOk]
    congr 2
    have : (c.drop 1).take k = c.drop 1 := by
      apply List.take_of_length_le; simp; omega
    rw [this]
    cases c with
    | nil => exact absurd rfl hc0
    | cons a t => simp

include hf in
theorem readvaluesAux_chunks (p : Nat) (hp : 0 < p) (rest : List ℓ) :
    ∀ (n : Nat) (xs : List α), xs.length = n → ∀ (q : Nat) (cur : Option ℓ),
      readvaluesAux field p xs.length (q * p) cur ((chunk p xs).map mk ++ rest) = .ok (xs, rest) := by
  intro n
  induction n using Nat.strong_induction_on with
  | _ n ih =>
    intro xs hn q cur
    by_cases hx : xs = []
    · subst hx; simp [chunk_nil, readvaluesAux]
    · rw [chunk_cons hp hx, List.map_cons, List.cons_append]
      have hpos := List.length_pos_iff.mpr hx
      have hc0 : xs.take p ≠ [] := by
        intro h0
        have : (xs.take p).length = 0 := by rw [h0]; rfl
        simp only [List.length_take] at this; omega
      have hc : (xs.take p).length ≤ p := by simp only [List.length_take]; omega
      have hsplit : xs.length = (xs.take p).length + (xs.drop p).length := by
        simp only [List.length_take, List.length_drop]; omega
      rw [hsplit, line_start field mk hf p hp (xs.take p) _ q _ cur hc0 hc]
      by_cases hd : xs.drop p = []
      · rw [hd]
        simp only [List.length_nil, chunk_nil, List.map_nil, List.nil_append, readvaluesAux, liftOk]
        congr 2
        have := List.take_append_drop p xs
        rw [hd, List.append_nil] at this
        simp [this]
      · have hlen : p < xs.length := by
          have := List.length_pos_iff.mpr hd
          simp only [List.length_drop] at this; omega
        have htl : (xs.take p).length = p := by simp only [List.length_take]; omega
        have hl : (xs.drop p).length < n := by simp only [List.length_drop]; omega
        have hq : q * p + (xs.take p).length = (q + 1) * p := by rw [htl]; ring
        rw [hq, ih _ hl _ rfl (q + 1)]
        simp only [liftOk, List.take_append_drop]

end rv

/-! ### readToks over token lines -/
section rt
variable (split : ℓ → Option (List α)) (mk : List α → ℓ) (hs : ∀ xs, split (mk xs) = some xs)

include hs in
theorem readToks_lines (n : Nat) (rest : List ℓ) :
    ∀ (ls : List (List α)) (nn : Nat) (acc : List α), (∀ c ∈ ls, c ≠ []) → nn + ls.flatten.length = n →
      readToks split n (ls.map mk ++ rest) nn acc = .ok (acc ++ ls.flatten, rest) := by
  intro ls
  induction ls with
  | nil =>
    intro nn acc _ hn
    simp only [List.flatten_nil, List.length_nil, Nat.add_zero] at hn
    subst hn
    cases rest with
    | nil => simp [readToks]
    | cons a t => simp [readToks]
  | cons c ls ih =>
    intro nn acc hne hn
    have hc : c ≠ [] := hne c (List.mem_cons_self)
    have hcl := List.length_pos_iff.mpr hc
    simp only [List.flatten_cons, List.length_append] at hn
    have hneq : (nn == n) = false := by simp; omega
    simp only [List.map_cons, List.cons_append, readToks, hneq, Bool.false_eq_true, if_false, hs]
    rw [ih (nn + c.length) (acc ++ c) (fun c' h => hne c' (List.mem_cons_of_mem _ h)) (by omega)]
    simp

end rt

end Cherab.Adf
