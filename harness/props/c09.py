"""C09 — ionisation balance solves the steady-state equations, conserves particles / charge.

T  lean/Cherab/Props/C09.lean over lean/Cherab/Model/IonBalance.lean (+ generated Cherab/Gen/IonBalance.lean)
K  translator (coef_tcx selection of the three helpers, read from the source with `ast`) +
   correspondence with the native driver drv_c09 on
     mat    the matrix / rhs / bounds handed to scipy's lsq_linear (captured by wrapping the module attribute) vs the
            model's `matrixRows`, `rhsList`
     frac   fractional_abundance                       vs  entryFractional (closed form through `bdSolve`)
     fd     from_elementdensity                        vs  entryFromDensity  (selection flags from the generated table)
     mn     match_plasma_neutrality                    vs  entryMatch
     pfrac / pfd   profile level: scalar / 1-D / 2-D ndarray / Function1D / Function2D (+ free variable) inputs, donor
            density given in any representation or absent, through fractional_abundance / from_elementdensity /
            interpolators1d_* / interpolators2d_* (evaluated at the knots); the model normalises the inputs itself
            (`toArray`, `assignDonor`, `toArrays`) and the (n_e, T_e) sequence seen by the mock rates is compared too
     err    malformed input combinations: model says "raises" <-> the implementation raises
   A model/implementation difference on fractions is *excused* (counted, not reported as a broken stream) only when the
   captured lsq_linear call shows that scipy did not return the steady state of the (consistent) matrix it was given.
S  oracles on the implementation's numbers (no model): fractions in [0,1], sum to one, pair-normalised balance residual
   |f_z S_z - f_(z+1) R_(z+1)| / (S_z + R_(z+1)) with R = alpha + n_D/n_e C for the donor asked for; densities = element
   density x fractions; neutrality; interpolators / equilibrium maps agree with the direct entry points; provider
   queried for the right (species, charge, donor, donor charge).
"""
import contextlib
import glob
import io
import json
import math
import os
import signal

import numpy as np

from harness.vlib.util import f2b, b2f, fs, close, VERIF
from harness.translators import ionbalance as tr

K_TOL = 1e-8          # absolute tolerance on fractions (model vs implementation)
S_TOL = 1e-6          # an oracle residual above this is reported as a failing input
CALL_LIMIT = 20       # seconds; a single public call taking longer is "no result"
WIDE_LIMIT = 5        # ... in the wide-range stream (a normal call takes < 1 ms)
_LIMIT = [CALL_LIMIT]

DONOR_FACTOR = {'hydrogen': 1.0, 'deuterium': 1.25, 'helium': 2.5}     # the mock CX rates depend on the donor species

SYMBOLS = ['H', 'He', 'Li', 'Be', 'B', 'C', 'N', 'O', 'F', 'Ne', 'Na', 'Mg', 'Al', 'Si', 'P', 'S', 'Cl', 'Ar']


# ---------------------------------------------------------------------------------------------------------------
# implementation side: mock provider, capture of lsq_linear, guarded calls
# ---------------------------------------------------------------------------------------------------------------
class _Env:
    """lazy imports + mock classes (cherab must not be imported at module import time of the harness)"""
    _inst = None

    @classmethod
    def get(cls):
        if cls._inst is None:
            cls._inst = cls()
        return cls._inst

    def __init__(self):
        from cherab.core import AtomicData
        from cherab.core.atomic import IonisationRate, RecombinationRate, ThermalCXRate, lookup_element, deuterium, hydrogen
        import cherab.tools.plasmas.ionisation_balance as ib
        from raysect.core.math.function.float.function1d.autowrap import PythonFunction1D
        from raysect.core.math.function.float.function2d.autowrap import PythonFunction2D
        from raysect.core.math.function.float import Arg1D, Arg2D
        self.ib = ib
        install_capture(ib)
        self.elements = [lookup_element(s) for s in SYMBOLS]
        self.deuterium = deuterium
        self.hydrogen = hydrogen
        self.PF1, self.PF2, self.Arg1D, self.Arg2D = PythonFunction1D, PythonFunction2D, Arg1D, Arg2D
        self._eq = None

        class Ion(IonisationRate):
            def __init__(s, f, log):
                s.f, s.log = f, log

            def evaluate(s, n, t):
                if s.log is not None:
                    s.log.append((n, t))
                return s.f(n, t)

        class Rec(RecombinationRate):
            def __init__(s, f):
                s.f = f

            def evaluate(s, n, t):
                return s.f(n, t)

        class Cx(ThermalCXRate):
            def __init__(s, f):
                s.f = f

            def evaluate(s, n, t):
                return s.f(n, t)

        class Mock(AtomicData):
            """S_i(n,t) = s_i (1 + p t);  alpha_i(n,t) = a_i (1 + q n);  C_i(n,t) = c_i (1 + dq/2) (1 + p t + q n)"""

            def __init__(s, case, tables=None):
                s.c = case
                s.tables = tables or {}     # element name -> case (rate tables) for providers shared between calls
                s.points = []       # (n_e, t_e) seen by the ionisation rate of the neutral, in call order
                s.queries = []

            def tab(s, el):
                return s.tables.get(el.name, s.c)

            def ionisation_rate(s, el, z):
                s.queries.append(('ion', el.name, int(z)))
                c = s.tab(el)
                p = c['p']
                v = c['s'][z]
                return Ion(lambda n, t: v * (1.0 + p * t), s.points if z == 0 else None)

            def recombination_rate(s, el, z):
                s.queries.append(('rec', el.name, int(z)))
                c = s.tab(el)
                q = c['q']
                v = c['a'][z - 1]
                return Rec(lambda n, t: v * (1.0 + q * n))

            def thermal_cx_rate(s, donor, dq, rec, z):
                s.queries.append(('cx', donor.name, dq, rec.name, int(z)))
                c = s.tab(rec)
                p, q = c['p'], c['q']
                v = (c['c'][z - 1] * (1.0 + 0.5 * dq)) * DONOR_FACTOR[donor.name]
                return Cx(lambda n, t: v * (1.0 + p * t + q * n))

        self.Mock = Mock

    def element(self, case):
        if case.get('isotope'):
            return self.deuterium
        return self.elements[case['Z'] - 1]

    def donor(self, case):
        if not case['donor']:
            return None
        return {'hydrogen': self.hydrogen, 'deuterium': self.deuterium, 'helium': self.elements[1]}[case.get('donor_el', 'hydrogen')]

    def equilibrium(self):
        if self._eq is None:
            from cherab.tools.equilibrium import example_equilibrium
            self._eq = example_equilibrium()
        return self._eq


class Timeout(Exception):
    pass


def _alarm(sig, frm):
    raise Timeout()


def guarded(f, *a, **k):
    """('ok', value) | ('timeout-lsq' | 'timeout', None) | (exception name, message).
    The lsq_linear calls made meanwhile are left in CAP (cleared first)."""
    del CAP[:]
    old = signal.signal(signal.SIGALRM, _alarm)
    signal.alarm(_LIMIT[0])
    try:
        with contextlib.redirect_stdout(io.StringIO()):      # "Plasma neutrality violated ..." prints of the code under test
            return 'ok', f(*a, **k)
    except Timeout as e:
        tb, inside = e.__traceback__, False
        while tb is not None:
            if '/scipy/optimize/_lsq/' in tb.tb_frame.f_code.co_filename:
                inside = True
            tb = tb.tb_next
        return ('timeout-lsq' if inside else 'timeout'), None
    except Exception as e:  # noqa
        return type(e).__name__, str(e)[:200]
    finally:
        signal.alarm(0)
        signal.signal(signal.SIGALRM, old)


CAP = []          # (matrix, rhs, bounds, x) of every lsq_linear call of the last guarded() call


def install_capture(ib):
    """wrap the module attribute `lsq_linear` of ionisation_balance in this process (observation only; /repo untouched)"""
    if not hasattr(ib, 'lsq_linear') or ib.lsq_linear is None or getattr(ib.lsq_linear, '_c09_wrapped', False):
        return          # (a tree that no longer uses lsq_linear: the `mat` stream is then empty, counted as mat-capture-missing)
    orig = ib.lsq_linear

    def wrap(A, b, *a, **k):
        rec = [np.array(A, dtype=float), np.array(b, dtype=float), k.get('bounds', a[0] if a else None), None]
        CAP.append(rec)
        r = orig(A, b, *a, **k)
        rec[3] = np.array(r['x'], dtype=float)
        return r

    wrap._c09_wrapped = True
    ib.lsq_linear = wrap


def solver_reference(rec):
    """steady state of the birth-death matrix that was handed to lsq_linear, from its off-diagonals only (model-free):
    x_(j+1)/x_j = A[j+1][j] / A[j][j+1], normalised to rhs[-1].  Returns fractions x / rhs[-1] or None."""
    A, b = rec[0], rec[1]
    n = A.shape[1]
    if A.shape[0] != n + 1 or not b[-1] > 0:
        return None
    r = [1.0]
    for j in range(n - 1):
        if not (A[j + 1][j] >= 0 and A[j][j + 1] > 0):        # (an exact zero ionisation rate is allowed)
            return None
        r.append(r[-1] * (A[j + 1][j] / A[j][j + 1]))
        m = max(r)
        r = [x / m for x in r]
    t = sum(r)
    ref = [x / t for x in r]
    # the reference must actually solve the captured system (it does for every consistent birth-death matrix; it does
    # not when the matrix was filled wrongly, and then nothing is attributed to the solver)
    x = np.array(ref) * b[-1]
    res = np.abs(A @ x - b)
    if not np.all(res <= 1e-9 * (np.abs(A) @ np.abs(x) + np.abs(b))):        # row-wise relative residual
        return None
    return ref


SIG_NOTERM = 'C09:_fractional_abundance_point:lsq_linear-no-termination'
SIG_INACC = 'C09:_fractional_abundance_point:lsq_linear-inaccurate'


def solver_deviation(rec):
    """max |x / rhs[-1] - steady state of the captured matrix| for one captured lsq_linear call (None if not applicable)"""
    if rec is None or rec[3] is None:
        return None
    ref = solver_reference(rec)
    if ref is None:
        return None
    return max(abs(x / rec[1][-1] - y) for x, y in zip(rec[3], ref))


def solver_at_fault(rec, S, A, C, d, donor):
    """True when the matrix handed to lsq_linear encodes a balance whose exact solution satisfies the oracle while the
    vector lsq_linear returned is not that solution: the defect is in the solve, not in the equations"""
    dev = solver_deviation(rec)
    if dev is None or dev <= K_TOL:
        return False
    ref = solver_reference(rec)
    return len(ref) == len(S) + 1 and not check_fractions(ref, S, A, C, d, donor)


# ---------------------------------------------------------------------------------------------------------------
# point cases
# ---------------------------------------------------------------------------------------------------------------
def rates_at(case, n, t):
    """the numbers the mock provider returns at (n, t): S[0..Z-1], A[1..Z], C[1..Z] (effective, donor charge folded in)"""
    p, q = case['p'], case['q']
    S = [v * (1.0 + p * t) for v in case['s']]
    A = [v * (1.0 + q * n) for v in case['a']]
    C = [v * (1.0 + p * t + q * n) for v in c_eff(case)]
    return S, A, C


def c_eff(case):
    """CX table as the mock provider scales it with the donor charge and the donor species"""
    return [(v * (1.0 + 0.5 * case['dq'])) * DONOR_FACTOR[case.get('donor_el', 'hydrogen')] for v in case['c']]


def exact_fractions(S, A, C, d):
    """reference used only in *descriptions* of failures"""
    r = [1.0]
    for z in range(len(S)):
        r.append(r[-1] * S[z] / (A[z] + d * C[z]))
        m = max(r)
        r = [x / m for x in r]
    t = sum(r)
    return [x / t for x in r]


def gen_point_case(rng, wide=False, Z=None):
    Z = Z or rng.randint(1, 18)
    mid = rng.uniform(-16, -12)
    kind = rng.random()
    if wide:
        span = rng.uniform(3.0, 5.0)
        s = [10 ** (mid + rng.uniform(-span, span)) for _ in range(Z)]
        a = [10 ** (mid + rng.uniform(-span, span)) for _ in range(Z)]
        c = [10 ** (mid + rng.uniform(-span, span)) for _ in range(Z)]
        fam = 'wide'
    elif kind < 0.6:
        span = rng.choice([0.3, 0.7, 1.0])
        s = [10 ** (mid + rng.uniform(-span, span)) for _ in range(Z)]
        a = [10 ** (mid + rng.uniform(-span, span)) for _ in range(Z)]
        c = [10 ** (mid + rng.uniform(-span, span)) for _ in range(Z)]
        fam = 'loguniform'
    else:
        # ADAS-like: ionisation falls, recombination rises with charge (moderate ratios)
        # total range of either table kept below ~1.5 decades: lsq_linear is reliable there (the wide stream goes beyond)
        g, h = 30.0 ** (rng.uniform(0.2, 1.0) / Z), 30.0 ** (rng.uniform(0.2, 1.0) / Z)
        s0, a0, c0 = 10 ** rng.uniform(-15, -13), 10 ** rng.uniform(-17, -15), 10 ** rng.uniform(-16, -14)
        s = [s0 * g ** (-i) * rng.uniform(0.7, 1.4) for i in range(Z)]
        a = [a0 * h ** i * rng.uniform(0.7, 1.4) for i in range(Z)]
        c = [c0 * rng.uniform(0.5, 2.0) for i in range(Z)]
        fam = 'adas-like'
    ne = 10 ** rng.uniform(17, 21)
    te = 10 ** rng.uniform(0, 4)
    if rng.random() < 0.5:
        p, q = 0.0, 0.0
    else:
        p, q = rng.uniform(0, 2) / 1e4, rng.uniform(0, 2) / 1e21
    donor = rng.random() < 0.6
    nD = ne * 10 ** rng.uniform(-4, 0) if (donor and rng.random() < 0.9) else 0.0
    if not donor and rng.random() < 0.3:
        nD = ne * 0.1            # a donor density without a donor species must be ignored
    species = []
    for _ in range(rng.randint(0, 3)):
        species.append([ne * rng.uniform(0, 0.08) for _ in range(rng.randint(1, 5))])
    if rng.random() < 0.12 and species:
        species[0] = [ne * 2.0 for _ in species[0]] + [ne]       # more electrons than n_e: clamp branch
    return dict(Z=Z, s=s, a=a, c=c, p=p, q=q, ne=ne, te=te, nD=nD, donor=donor, dq=rng.choice([0, 0, 1]),
                donor_el=rng.choice(['hydrogen', 'hydrogen', 'deuterium', 'helium']),
                dens=10 ** rng.uniform(14, 18), species=species, family=fam,
                isotope=(Z == 1 and rng.random() < 0.3))


def point_lines(case):
    """driver lines for one point case: mat (as the code is asked: tcx iff donor), frac, fd, mn"""
    Z = case['Z']
    S, A, C = rates_at(case, case['ne'], case['te'])
    r = fs(S) + ' ' + fs(A) + ' ' + fs(C)
    d = '1' if case['donor'] else '0'
    head = '%d %s %s %s' % (Z, d, f2b(case['ne']), f2b(case['nD']))
    sp = ' '.join('%d %s' % (len(x), fs(x)) if x else '0' for x in case['species'])
    return ['mat ' + head + ' ' + r,
            'frac ' + head + ' ' + r,
            'fd %s %s %s' % (head, f2b(case['dens']), r),
            ('mn %s %d %s %s' % (head, len(case['species']), sp, r)).replace('  ', ' ')]


def species_forms(case):
    """scalar point: every species as an ndarray (charges, 1) or as a {charge: array([value])} dict in a non-canonical
    insertion order with int / numpy-int keys (derived deterministically from the case); the container a list or a tuple"""
    import random
    r_ = random.Random(f2b(case['ne']))
    forms = []
    for x in case['species']:
        if r_.random() < 0.5:
            forms.append(('ndarray', list(range(len(x))), [False] * len(x)))
        else:
            order = list(range(len(x)))
            r_.shuffle(order)
            if r_.random() < 0.4:
                order = sorted(order, reverse=True)
            forms.append(('dict', order, [r_.random() >= 0.7 for _ in order]))
    return forms, r_.random() < 0.5


def mnd_line(case):
    """driver line for neutrality matching with the species as dictionaries in the insertion order actually used"""
    S, A, C = rates_at(case, case['ne'], case['te'])
    forms, _ = species_forms(case)
    sp = ' '.join('%d %s' % (len(x), ' '.join('%d %s' % (z, f2b(x[z])) for z in order)) for x, (_, order, _) in zip(case['species'], forms))
    return ('mnd %d %s %s %s %d %s %s %s %s' % (case['Z'], '1' if case['donor'] else '0', f2b(case['ne']), f2b(case['nD']),
                                               len(case['species']), sp, fs(S), fs(A), fs(C))).replace('  ', ' ')


def exec_point(env, case):
    """run the three public entry points with scalar inputs; returns dict of observations"""
    ib = env.ib
    el = env.element(case)
    donor = env.donor(case)
    kw = dict(tcx_donor=donor, tcx_donor_n=(case['nD'] if (case['donor'] or case['nD']) else None),
              tcx_donor_charge=case['dq'])
    out = {}
    ad = env.Mock(case)
    st, r = guarded(ib.fractional_abundance, ad, el, case['ne'], case['te'], **kw)
    out['frac'] = (st, _vec(r, case['Z']) if st == 'ok' else r)
    out['cap'] = list(CAP)
    out['queries'] = list(ad.queries)
    ad = env.Mock(case)
    st, r = guarded(ib.from_elementdensity, ad, el, case['dens'], case['ne'], case['te'], **kw)
    out['fd'] = (st, _vec(r, case['Z']) if st == 'ok' else r)
    out['cap_fd'] = list(CAP)
    ad = env.Mock(case)
    species = []
    forms, as_tuple = species_forms(case)
    for x, (form, order, npkeys) in zip(case['species'], forms):
        if form == 'ndarray':
            species.append(np.array(x, dtype=float).reshape(-1, 1))
        else:
            species.append({(np.int64(z) if nk else z): np.array([x[z]]) for z, nk in zip(order, npkeys)})
    if as_tuple:
        species = tuple(species)
    st, r = guarded(ib.match_plasma_neutrality, ad, el, species, case['ne'], case['te'], **kw)
    out['mn'] = (st, _vec(r, case['Z']) if st == 'ok' else r)
    out['cap_mn'] = list(CAP)
    return out


def _vec(d, Z):
    if not isinstance(d, dict) or sorted(d.keys()) != list(range(Z + 1)):
        raise ValueError('result is not a dict over charges 0..Z: %r' % (list(d.keys()) if isinstance(d, dict) else type(d)))
    return [float(np.asarray(d[z]).reshape(-1)[0]) for z in range(Z + 1)]


# ---------------------------------------------------------------------------------------------------------------
# S: oracles on the implementation's numbers
# ---------------------------------------------------------------------------------------------------------------
def balance_residual(f, S, R):
    """max over neighbouring pairs of |f_z S_z - f_(z+1) R_(z+1)| / (S_z + R_(z+1))"""
    return max(abs(f[z] * S[z] - f[z + 1] * R[z]) / (S[z] + R[z]) for z in range(len(S)))


def check_fractions(f, S, A, C, d, donor):
    """returns list of (tag, text) problems of a fraction vector against the property"""
    bad = []
    if not all(0.0 <= x <= 1.0 for x in f):
        bad.append(('range', 'fraction outside [0,1]: min %r max %r' % (min(f), max(f))))
    if abs(sum(f) - 1.0) > S_TOL:
        bad.append(('sum', 'fractions sum to %r' % sum(f)))
    R = [A[z] + (d * C[z] if donor else 0.0) for z in range(len(S))]
    res = balance_residual(f, S, R)
    if res > S_TOL:
        R0 = [A[z] for z in range(len(S))]
        res0 = balance_residual(f, S, R0)
        if donor and d > 0 and res0 <= S_TOL:
            bad.append(('donor-cx-rates-discarded',
                        'balance with the CX term violated (pair-normalised residual %.3g) but the no-donor balance holds (%.3g)' % (res, res0)))
        else:
            bad.append(('balance', 'pair-normalised balance residual %.3g' % res))
    return bad


def neutrality_problem(species, ne, n, tol=1e-9):
    """neutrality of the matched element in *relative* terms.  e = n_e minus the electrons of the given species (subtracted in
    the order the code subtracts them, so e is the same double); returns None or a description.
    e > 0: sum_z z n_z / e - 1 must vanish (1e-9), whatever the mean charge of the element; e <= 0: all densities zero."""
    e = ne
    for sp in species:
        for i, v in enumerate(sp):
            e -= i * v
    if any(math.isnan(x) or math.isinf(x) for x in n):
        return 'non-finite densities %r' % (n,)
    charge = sum(z * x for z, x in enumerate(n))
    if e > 0:
        rel = charge / e - 1.0
        if abs(rel) > tol:
            return ('charge of the matched element %r instead of n_e - given species = %r: (sum Z n + given) / n_e - 1 = %.3g, '
                    'relative to the element\'s own share %.3g' % (charge, e, (charge - e) / ne, rel))
        return None
    if max(n) != 0.0:
        return 'given species carry at least n_e (n_e - given = %r) but the densities are %r' % (e, n)
    return None


def oracle_point(ctx, case, out, stream):
    """evaluates the property on one point case; reports failing inputs; returns number of problems"""
    Z = case['Z']
    S, A, C = rates_at(case, case['ne'], case['te'])
    d = case['nD'] / case['ne']
    donor = case['donor']
    nprob = 0

    def fail(entry, tag, text, rec=None):
        nonlocal nprob
        nprob += 1
        if tag == 'timeout-lsq':
            sig = SIG_NOTERM
        elif tag in ('balance', 'sum', 'total') and solver_at_fault(rec, S, A, C, d, donor):
            sig = SIG_INACC
            text += '; the matrix handed to lsq_linear has the right steady state, the returned vector is off by %.3g' % solver_deviation(rec)
        else:
            sig = 'C09:%s:%s' % (entry, tag)
        ctx.count('S-fail:' + sig)
        ctx.fail(sig, '%s (Z=%d, donor=%s, n_e=%.4g, n_D=%.4g, family=%s): %s' % (entry, Z, donor, case['ne'], case['nD'], case.get('family'), text),
                 dict(kind='point', case=case, entry=entry, problem=text))

    def first(key):
        c = out.get(key) or []
        return c[0] if len(c) == 1 else None

    # ---- fractional_abundance
    st, f = out['frac']
    if st == 'skip':
        pass
    elif st.startswith('timeout'):
        fail('fractional_abundance', st, 'no result within %d s%s' % (out.get('limit', CALL_LIMIT),
             ' (interrupted inside scipy.optimize._lsq: the backtracking loop of lsq_linear does not terminate)' if st == 'timeout-lsq' else ''))
    elif st != 'ok':
        fail('fractional_abundance', 'raised-' + st, str(f))
    else:
        for tag, text in check_fractions(f, S, A, C, d, donor):
            ex = exact_fractions(S, A, C, d if donor else 0.0)
            fail('fractional_abundance', tag, text + '; max |f - steady state| = %.3g' % max(abs(x - y) for x, y in zip(f, ex)), first('cap'))
        # provider wiring
        q = out['queries']
        want = [('ion', z) for z in range(Z)] + [('rec', z) for z in range(1, Z + 1)]
        got = [(k[0], k[2]) for k in q if k[0] in ('ion', 'rec')]
        if sorted(got) != sorted(want):
            fail('fractional_abundance', 'provider-queries', 'ionisation/recombination rates requested for charges %r' % (got,))
        cx = [k for k in q if k[0] == 'cx']
        if donor:
            if sorted((k[1], k[2], k[4]) for k in cx) != sorted((case.get('donor_el', 'hydrogen'), case['dq'], z) for z in range(1, Z + 1)):
                fail('fractional_abundance', 'provider-queries', 'thermal CX rates requested as %r' % (cx,))
    # ---- from_elementdensity
    st, n = out['fd']
    if st == 'skip':
        pass
    elif st.startswith('timeout'):
        fail('from_elementdensity', st, 'no result within %d s' % CALL_LIMIT)
    elif st != 'ok':
        fail('from_elementdensity', 'raised-' + st, str(n))
    else:
        tot = sum(n)
        if not (abs(tot - case['dens']) <= S_TOL * case['dens']) or min(n) < 0:
            fail('from_elementdensity', 'total', 'densities sum to %r, element density %r, min %r' % (tot, case['dens'], min(n)),
                 first('cap_fd') if min(n) >= 0 else None)
        else:
            for tag, text in check_fractions([x / case['dens'] for x in n], S, A, C, d, donor):
                if tag == 'range':
                    continue
                ex = exact_fractions(S, A, C, d if donor else 0.0)
                fail('from_elementdensity', tag, text + '; max |n/n_el - steady state| = %.3g' % max(abs(x / case['dens'] - y) for x, y in zip(n, ex)),
                     first('cap_fd'))
    # ---- match_plasma_neutrality
    st, n = out['mn']
    others = sum(i * v for sp in case['species'] for i, v in enumerate(sp))
    if st == 'skip':
        pass
    elif st.startswith('timeout'):
        fail('match_plasma_neutrality', st, 'no result within %d s' % CALL_LIMIT)
    elif st != 'ok':
        fail('match_plasma_neutrality', 'raised-' + st, str(n))
    else:
        if any(math.isnan(x) for x in n) or min(n) < 0:
            fail('match_plasma_neutrality', 'negative-density', 'min density %r' % min(n))
        else:
            pb = neutrality_problem(case['species'], case['ne'], n)
            if pb:
                fail('match_plasma_neutrality', 'neutrality', pb)
            tot = sum(n)
            if tot > 0 and not math.isinf(tot):
                for tag, text in check_fractions([x / tot for x in n], S, A, C, d, donor):
                    if tag in ('range', 'sum'):
                        continue
                    fail('match_plasma_neutrality', tag, text, first('cap_mn'))
    return nprob


def compare_point(ctx, case, out, outs, stream):
    """K: model (driver output lines) vs implementation for one point case"""
    Z = case['Z']
    mat_o, frac_o, fd_o, mn_o = outs
    lines = point_lines(case)

    def broke(name, detail):
        ctx.disagreements += 1
        ctx.count('disagreement:' + name)
        ctx.broke('correspondence', 'C09 stream ' + name, detail)

    # --- matrix
    if out['cap']:
        Am, bm, bounds = out['cap'][0][:3]
        mod = [b2f(t) for t in mat_o.split()]
        nm = (Z + 2) * (Z + 1)
        ok = Am.shape == (Z + 2, Z + 1) and len(mod) == nm + Z + 2
        if ok:
            scale = float(np.max(np.abs(Am[:-1]))) or 1.0
            ok = all(abs(x - y) <= 1e-12 * scale for x, y in zip(mod[:nm], Am.reshape(-1))) and \
                all(close(x, y, 1e-13) for x, y in zip(mod[nm:], bm))
            ok = ok and bounds is not None and float(bounds[0]) == 0.0 and float(bounds[1]) == case['ne']
        ctx.traces += 1
        ctx.count('K:mat')
        if not ok:
            broke('mat', dict(line=lines[0][:400], model=mod[:8], implementation=Am.reshape(-1)[:8].tolist(), bounds=str(bounds), case=case))
        if len(out['cap']) != 1:
            broke('mat', dict(note='expected one lsq_linear call per point, saw %d' % len(out['cap']), case=case))
    else:
        ctx.count('mat-capture-missing')
    # --- fractions / densities
    for name, o, scale in (('frac', frac_o, 1.0), ('fd', fd_o, case['dens']), ('mn', mn_o, None)):
        st, v = out[name]
        if st != 'ok':
            continue                      # S reports it
        mod = [b2f(t) for t in o.split()]
        sc = scale if scale is not None else max(max(abs(x) for x in mod), 1e-300) * _mn_amplification(mod)
        ctx.traces += 1
        ctx.count('K:' + name)
        if len(mod) != Z + 1 or any(math.isnan(x) for x in mod) or not all(abs(x - y) <= K_TOL * sc for x, y in zip(mod, v)):
            dev = max(abs(x - y) for x, y in zip(mod, v)) / sc if len(mod) == Z + 1 else None
            caps = out.get({'frac': 'cap', 'fd': 'cap_fd', 'mn': 'cap_mn'}[name]) or []
            sdev = solver_deviation(caps[0]) if len(caps) == 1 else None
            if sdev is not None and sdev > K_TOL / 2:
                # lsq_linear did not return the steady state of the matrix it was given (SolverSpec violated by scipy on
                # this input): not a disagreement between model and code; S reports it when it matters
                ctx.count('K-excused:lsq_linear-deviation')
                continue
            broke(name, dict(line=lines[{'frac': 1, 'fd': 2, 'mn': 3}[name]][:300], model=mod, implementation=v, max_dev=dev, case=case))
        elif name == 'mn' and not mn_charge_agrees(mod, v):
            broke('mn', dict(note='charge of the matched element differs between model and implementation', line=lines[3][:300],
                             model=mod, implementation=v, case=case))
        else:
            dev = max(abs(x - y) for x, y in zip(mod, v)) / sc
            key = 'max_dev_' + name + ('_extreme' if case.get('family') == 'extreme' else '')
            ctx.extra[key] = max(ctx.extra.get(key, 0.0), dev)


def mn_charge_agrees(mod, impl, tol=1e-9):
    """K for neutrality matching, well-conditioned part: the charge carried by the matched element (sum_z z n_z) must agree
    between model and implementation to 1e-9 whatever the mean charge (the per-state comparison loses resolution when the
    element is almost neutral, because both sides divide by the mean charge)"""
    if len(mod) != len(impl) or any(math.isnan(x) or math.isinf(x) for x in list(mod) + list(impl)):
        return False
    cm = sum(z * x for z, x in enumerate(mod))
    ci = sum(z * x for z, x in enumerate(impl))
    return abs(cm - ci) <= tol * max(abs(cm), abs(ci))


def _mn_amplification(n):
    """neutrality matching divides by the mean charge: an error df in the fractions becomes df (1 + 1/z_mean) in n / n_max"""
    tot = sum(n)
    if not tot > 0:
        return 1.0
    zm = sum(z * x for z, x in enumerate(n)) / tot
    return 1.0 + 1.0 / max(zm, 1e-12)


# ---------------------------------------------------------------------------------------------------------------
# profile level: input representations
# ---------------------------------------------------------------------------------------------------------------
def _affine(rng, base, dim):
    """coefficients of a positive affine profile on coordinates in [0, 1.1]"""
    a = base * rng.uniform(0.5, 2.0)
    return [a] + [a * rng.uniform(0.0, 1.5) for _ in range(dim)]


def _val(co, *xs):
    v = co[0]
    for c, x in zip(co[1:], xs):
        v = v + c * x
    return v


PATTERNS = ('affine', 'flat', 'steps', 'random', 'decay')


def gen_field(rng, base, dim, grid, kinds, pattern, as_int=False, dtype='f64'):
    """a profile = dict(kind, co, table, pattern): `co` affine coefficients (functions, or arrays without a table),
    `table` explicit array values (nested like the grid).  Patterns: affine | flat (constant) | steps (piecewise constant,
    two levels, so coordinates repeat) | random | decay (exponentially falling along the first axis)."""
    kind = rng.choice(kinds)
    if dim == 0:
        pattern = 'flat'
    isfn = kind in ('f1', 'f1n', 'f2')
    if isfn and pattern not in ('affine', 'flat'):
        kind = 'arr1' if dim == 1 else 'arr2'
        isfn = False
    co = _affine(rng, base, dim)
    if pattern == 'flat':
        co = [co[0]] + [0.0] * dim
    table = None
    if not isfn and kind != 'scalar' and pattern in ('steps', 'random', 'decay'):
        shape = [len(g) for g in grid]
        levels = [base * rng.uniform(0.5, 1.0), base * rng.uniform(1.0, 2.0)]

        def cell(ix):
            if pattern == 'steps':
                return levels[rng.randint(0, 1)]
            if pattern == 'random':
                return base * rng.uniform(0.3, 3.0)
            return base * 2.0 * math.exp(-3.0 * ix[0] / max(shape[0] - 1, 1)) * (1.0 if dim == 1 else 1.0 + 0.1 * ix[1])
        if dim == 1:
            table = [cell((a,)) for a in range(shape[0])]
        else:
            table = [[cell((a, b)) for b in range(shape[1])] for a in range(shape[0])]
    f = dict(kind=kind, co=co, table=table, pattern=pattern, as_int=False, dtype='f64')
    if as_int:
        dtype = 'int'
    if dtype == 'int' and base * 8 >= 9e18:
        dtype = 'f64'       # would not fit an int64 array; a python int >= 2**64 as scalar n_e makes HEAD raise (see notes, round 4)
    if dtype == 'int' and not isfn and kind != 'scalar':
        probe = dict(kind=kind, co=co, table=table)
        if max(field_values(probe, grid)) >= 9e18:
            dtype = 'f64'
    if dtype in ('int', 'f32') and not isfn:
        # non-float64 input (python int / np.float32 scalar, integer or float32 ndarray): the values are rounded to what that
        # type can hold first, so that model, truth and implementation are given the same numbers
        r = (lambda v: float(max(1, round(v)))) if dtype == 'int' else (lambda v: float(np.float32(v)))      # noqa
        if table is None and kind != 'scalar':
            table = [_val(co, x) for x in grid[0]] if dim == 1 else [[_val(co, x, y) for y in grid[1]] for x in grid[0]]
        if table is not None:
            table = [r(v) for v in table] if dim == 1 else [[r(v) for v in row] for row in table]
        f.update(co=[r(co[0])] + [0.0] * dim, table=table, as_int=(dtype == 'int'), dtype=dtype)
    return f


def field_values(field, grid):
    """flat (C order) list of the profile's values on the grid ([value] for a scalar)"""
    dim = len(grid)
    if field['kind'] == 'scalar' or dim == 0:
        return [field['co'][0]]
    if field.get('table') is not None:
        return list(field['table']) if dim == 1 else [v for row in field['table'] for v in row]
    if dim == 1:
        return [_val(field['co'], x) for x in grid[0]]
    return [_val(field['co'], x, y) for x in grid[0] for y in grid[1]]


def make_rep(env, field, grid):
    """returns (python object handed to cherab, driver tokens) for a field on the grid"""
    kind, co = field['kind'], field['co']
    dt = field.get('dtype', 'int' if field.get('as_int') else 'f64')
    npdt = {'f64': np.float64, 'f32': np.float32, 'int': np.int64}[dt]
    if kind == 'scalar':
        v = co[0]
        tok = 's ' + f2b(v)
        if dt == 'int':
            return (np.int64(v) if (field.get('np_scalar') and v < 9e18) else int(v)), tok
        if dt == 'f32':
            return np.float32(v), tok
        return (np.float64(v) if field.get('np_scalar') else v), tok
    if kind == 'arr1':
        vals = field_values(field, grid)
        return np.array(vals, dtype=npdt), 'a1 %d %s' % (len(vals), fs(vals))
    if kind == 'arr2':
        vals = field_values(field, grid)
        return np.array(vals, dtype=npdt).reshape(len(grid[0]), len(grid[1])), 'a2 %d %d %s' % (len(grid[0]), len(grid[1]), fs(vals))
    if kind in ('f1', 'f1n'):
        a, b = co[0], co[1]
        if kind == 'f1':
            return env.PF1(lambda x: a + b * x), 'f1 %s %s' % (f2b(a), f2b(b))
        return env.Arg1D() * b + a, 'f1 %s %s' % (f2b(a), f2b(b))          # raysect-native Function1D expression
    if kind == 'f2':
        a, b, c = co
        return env.PF2(lambda x, y: a + b * x + c * y), 'f2 %s %s %s' % (f2b(a), f2b(b), f2b(c))
    raise ValueError(kind)


def gen_patterns(rng, dim):
    """which of n_e, T_e, n_D, element density vary and how.  `scan`: exactly one of n_e / T_e / n_D varies, the other two
    are constant (donor-density scan at fixed plasma, temperature scan, density scan); `steps`: each profile independently
    piecewise constant (coordinates repeat in every argument); `affine`: all vary smoothly."""
    mode = rng.choice(['affine', 'scan', 'scan', 'scan', 'steps', 'steps']) if dim else 'affine'
    if mode == 'affine':
        pat = dict(ne='affine', te='affine', nd='affine', dens='affine')
    elif mode == 'steps':
        pat = dict(ne='steps', te='steps', nd='steps', dens=rng.choice(['steps', 'random']))
    else:
        var = rng.choice(['ne', 'te', 'nd', 'nd'])
        pat = dict(ne='flat', te='flat', nd='flat', dens=rng.choice(['flat', 'random', 'affine']))
        pat[var] = rng.choice(['affine', 'steps', 'random', 'decay'])
        mode = 'scan-' + var
    return mode, pat


def gen_profile_spec(rng):
    """JSON-able description of one profile-level call (entry point, representations, rate tables, grid)"""
    dim = rng.choice([0, 1, 1, 1, 2, 2])
    case = gen_point_case(rng, Z=rng.choice([1, 2, 3, 6, 10, 18, rng.randint(1, 18)]))
    case['species'] = []
    if case['p'] or case['q']:
        case['p'], case['q'] = rng.uniform(0, 2) / 2e4, rng.uniform(0, 2) / 1e21
    interp = dim > 0 and rng.random() < 0.4
    fv_dtype, fv_scalar = [], None

    def axis(n, lo_step, hi_step, dt):
        """strictly increasing coordinates representable in the coordinate dtype"""
        if dt in ('int', 'int32'):
            x, out = rng.randint(0, 3), []
            for _ in range(n):
                out.append(float(x))
                x += rng.randint(1, 3)
            return out
        x, out = rng.uniform(0, 0.1), []
        for _ in range(n):
            out.append(float(np.float32(x)) if dt == 'f32' else x)
            x += rng.uniform(lo_step, hi_step)
        return out
    if dim == 0:
        grid, kinds = [], ['scalar']
    elif dim == 1:
        n = rng.randint(2, 7)
        if not interp and rng.random() < 0.2:
            n = 1                   # one point: free variable given as a bare scalar or as a one-element array
            fv_scalar = rng.choice(['pyint', 'pyfloat', 'np.int64', 'np.float32', 'np.float64', None, None])
        elif rng.random() < 0.3:
            n = 2
        fv_dtype = [rng.choice(['f64', 'f64', 'int', 'int32', 'f32'])]
        if fv_scalar:
            fv_dtype = ['int' if fv_scalar in ('pyint', 'np.int64') else ('f32' if fv_scalar == 'np.float32' else 'f64')]
        grid, kinds = [axis(n, 0.05, 0.3, fv_dtype[0])], ['arr1', 'f1', 'f1n']
    else:
        n, m = rng.randint(2, 4), rng.randint(2, 4)
        if not interp and rng.random() < 0.25:
            n, m = rng.choice([(1, m), (n, 1), (1, 1)])      # degenerate axes are legal for the direct entry points
        fv_dtype = [rng.choice(['f64', 'f64', 'int', 'int32', 'f32']), rng.choice(['f64', 'f64', 'int', 'f32'])]
        grid = [axis(n, 0.2, 0.4, fv_dtype[0]), axis(m, 0.2, 0.4, fv_dtype[1])]
        kinds = ['arr2', 'f2']
    mode, pat = gen_patterns(rng, dim)
    fields = {}
    for name, base in (('ne', case['ne']), ('te', case['te']), ('nd', case['nD'] or case['ne'] * 0.05), ('dens', case['dens'])):
        fields[name] = gen_field(rng, base, dim, grid, kinds, pat[name], dtype=rng.choice(['f64'] * 6 + ['f32', 'int', 'int']))
        if dim == 0 and rng.random() < 0.3:
            fields[name]['np_scalar'] = True
    donor_given = case['donor'] and rng.random() < 0.85
    isfn = lambda f: f['kind'] in ('f1', 'f1n', 'f2')      # noqa
    which = rng.choice(['frac', 'fd'])
    any_fn = isfn(fields['ne']) or isfn(fields['te']) or (donor_given and isfn(fields['nd'])) or (which == 'fd' and isfn(fields['dens']))
    give_fv = dim > 0 and (any_fn or interp or rng.random() < 0.3)
    return dict(case=case, dim=dim, grid=grid, fields=fields, mode=mode, which=which, interp=interp, give_fv=give_fv,
                fv_as_list=(dim == 2 and rng.random() < 0.5), donor_given=donor_given, fv_dtype=fv_dtype, fv_scalar=fv_scalar)


def _legacy_fields(spec):
    """corpus / replay files written before the `fields` format: reps + coefs"""
    return {k: dict(kind=spec['reps'][k], co=spec['coefs'][k], table=None, pattern='affine', as_int=False) for k in spec['reps']}


def build_profile(env, spec):
    """python objects + driver line for a profile spec"""
    pc = dict(spec)
    if 'fields' not in pc:
        pc['fields'] = _legacy_fields(spec)
        pc.setdefault('mode', 'affine')
    case, dim, grid = spec['case'], spec['dim'], spec['grid']
    fvtok, fv = 'fv0', None
    npdt = {'f64': np.float64, 'f32': np.float32, 'int': np.int64, 'int32': np.int32}
    fvd = spec.get('fv_dtype') or ['f64', 'f64']
    if dim == 1 and spec['give_fv']:
        fvtok, fv = 'fv1 %d %s' % (len(grid[0]), fs(grid[0])), np.array(grid[0], dtype=npdt[fvd[0]])
        if spec.get('fv_scalar'):
            x = grid[0][0]
            fv = {'pyint': int(x), 'pyfloat': float(x), 'np.int64': np.int64(x), 'np.float32': np.float32(x), 'np.float64': np.float64(x)}[spec['fv_scalar']]
    elif dim == 2 and spec['give_fv']:
        fvtok = 'fv2 %d %s %d %s' % (len(grid[0]), fs(grid[0]), len(grid[1]), fs(grid[1]))
        fv = (np.array(grid[0], dtype=npdt[fvd[0]]), np.array(grid[1], dtype=npdt[fvd[1]]))
        if spec['fv_as_list']:
            fv = list(fv)
    objs, toks = {}, {}
    for name in ('ne', 'te', 'nd', 'dens'):
        objs[name], toks[name] = make_rep(env, pc['fields'][name], grid)
    dtok = toks['nd'] if spec['donor_given'] else 'dnone'
    line = '%s %d %s %s %s %s %s %s %s %s %s %s' % (
        'pfrac' if spec['which'] == 'frac' else 'pfd', case['Z'], '1' if case['donor'] else '0', f2b(case['p']), f2b(case['q']),
        fs(case['s']), fs(case['a']), fs(c_eff(case)), fvtok, toks['ne'], toks['te'], dtok)
    if spec['which'] == 'fd':
        line += ' ' + toks['dens']
    pc.update(fv=fv, objs=objs, line=line, reps={k: v['kind'] for k, v in pc['fields'].items()},
              values={k: field_values(v, grid) for k, v in pc['fields'].items()})
    return pc


def snapshot(o):
    """structural fingerprint of an argument, to detect that a call modified its inputs"""
    if isinstance(o, np.ndarray):
        return ('nd', str(o.dtype), o.shape, o.tobytes())
    if isinstance(o, (list, tuple)):
        return (type(o).__name__, tuple(id(e) for e in o), tuple(snapshot(e) for e in o))
    if isinstance(o, dict):
        return ('dict', tuple((type(k).__name__, int(k)) for k in o.keys()), tuple(snapshot(v) for v in o.values()))
    if o is None or isinstance(o, (bool, int, float, np.generic)):
        return ('sc', type(o).__name__, repr(o))
    return ('obj', id(o))


def exec_profile(env, pc):
    """call the implementation; returns (entry name, status, shape | message, [index, charge] array, (n,t) points seen,
    captured lsq_linear calls)"""
    ib = env.ib
    case = pc['case']
    el = env.element(case)
    ad = env.Mock(case)
    donor = env.donor(case)
    nd = pc['objs']['nd'] if pc['donor_given'] else None
    o = pc['objs']
    dim = pc['dim']
    watched = dict(free_variable=pc['fv'], n_e=o['ne'], t_e=o['te'], tcx_donor_n=nd, element_density=(o['dens'] if pc['which'] == 'fd' else None))
    before = {k: snapshot(v) for k, v in watched.items()}
    pc['modified_inputs'] = None
    if pc['interp']:
        if pc['which'] == 'frac':
            fn = ib.interpolators1d_fractional if dim == 1 else ib.interpolators2d_fractional
            args = (ad, el, pc['fv'], o['ne'], o['te'], donor, nd, case['dq'])
        else:
            fn = ib.interpolators1d_from_elementdensity if dim == 1 else ib.interpolators2d_from_elementdensity
            args = (ad, el, pc['fv'], o['dens'], o['ne'], o['te'], donor, nd, case['dq'])
        name = fn.__name__
        st, r = guarded(fn, *args)
        caps = list(CAP)
        if st == 'ok':
            g = pc['grid']
            if dim == 1:
                r = {z: np.array([f(x) for x in g[0]]) for z, f in r.items()}
            else:
                r = {z: np.array([[f(x, y) for y in g[1]] for x in g[0]]) for z, f in r.items()}
    else:
        if pc['which'] == 'frac':
            name = 'fractional_abundance'
            st, r = guarded(ib.fractional_abundance, ad, el, o['ne'], o['te'], donor, nd, case['dq'], free_variable=pc['fv'])
        else:
            name = 'from_elementdensity'
            st, r = guarded(ib.from_elementdensity, ad, el, o['dens'], o['ne'], o['te'], donor, nd, case['dq'], free_variable=pc['fv'])
        caps = list(CAP)
    pc['modified_inputs'] = [k for k, v in watched.items() if snapshot(v) != before[k]]
    if st != 'ok':
        return name, st, r, None, None, caps
    Z = case['Z']
    if sorted(r.keys()) != list(range(Z + 1)):
        return name, 'bad-keys', str(list(r.keys())), None, None, caps
    shape = tuple(np.asarray(r[0]).shape)
    flat = np.stack([np.asarray(r[z], dtype=float).reshape(-1) for z in range(Z + 1)], axis=1)   # [index, charge]
    return name, 'ok', shape, flat, list(ad.points), caps


def truth_at(pc, k):
    """the (dens, ne, te, nD) values of the profile case at flat index k, computed by the harness (S side)"""
    def v(name):
        vals = pc['values'][name]
        return vals[k] if len(vals) > 1 else vals[0]
    return v('dens'), v('ne'), v('te'), (v('nd') if pc['donor_given'] else 0.0)


def profile_spec_of(pc):
    return {k: pc.get(k) for k in ('case', 'dim', 'grid', 'fields', 'mode', 'which', 'interp', 'give_fv', 'fv_as_list', 'donor_given', 'fv_dtype', 'fv_scalar')}


def scalar_call(env, case, which, ne, te, nd, donor_given, dens=None, species=None):
    """the same physical point through the scalar form of the public entry point; returns the vector over charges or None"""
    ib = env.ib
    kw = dict(tcx_donor=env.donor(case), tcx_donor_n=(float(nd) if donor_given else None),
              tcx_donor_charge=case['dq'])
    ad, el = env.Mock(case), env.element(case)
    if which == 'frac':
        st, r = guarded(ib.fractional_abundance, ad, el, float(ne), float(te), **kw)
    elif which == 'fd':
        st, r = guarded(ib.from_elementdensity, ad, el, float(dens), float(ne), float(te), **kw)
    else:
        st, r = guarded(ib.match_plasma_neutrality, ad, el, [np.array(x, dtype=float).reshape(-1, 1) for x in species], float(ne), float(te), **kw)
    return _vec(r, case['Z']) if st == 'ok' else None


def check_profile(ctx, env, pc, o, compare=True):
    """K + S for one profile-level call; `o` is the driver's output line for pc['line'] (None: S only).
    Returns the number of property problems found."""
    case = pc['case']
    Z = case['Z']
    nprob = 0
    name, st, shape, flat, points, caps = exec_profile(env, pc)
    ctx.count('profile:%s:dim%d' % (name, pc['dim']))
    for k_, v_ in pc['reps'].items():
        if k_ in ('ne', 'te') or (k_ == 'nd' and pc['donor_given']) or (k_ == 'dens' and pc['which'] == 'fd'):
            ctx.count('rep:%s:%s' % (k_, v_))
    ctx.count('profile-mode:' + pc.get('mode', 'affine'))
    ctx.count('profile-length:' + ('x'.join(str(len(g)) for g in pc['grid']) or 'scalar'))
    if st == 'ok' and pc['dim'] > 0:
        # how often the stream really contains what a memoising / mis-keyed loop would get wrong
        seen = {}
        for k in range(flat.shape[0]):
            dens_k, ne_k, te_k, nd_k = truth_at(pc, k)
            for tagname, key, rest in (('same-ne-te-other-nD', (ne_k, te_k), nd_k), ('same-ne-nD-other-te', (ne_k, nd_k), te_k),
                                       ('same-te-nD-other-ne', (te_k, nd_k), ne_k)):
                prev = seen.setdefault((tagname, key), rest)
                if prev != rest:
                    seen[('hit', tagname)] = True
        for tagname in ('same-ne-te-other-nD', 'same-ne-nD-other-te', 'same-te-nD-other-ne'):
            if seen.get(('hit', tagname)):
                ctx.count('profile-repeats:' + tagname + (':donor' if case['donor'] and pc['donor_given'] else ''))
    desc = dict(kind='profile', entry=name, spec=profile_spec_of(pc))
    compare = compare and o is not None
    if compare and o == 'err':
        # the model says the combination raises (shape mismatch etc.)
        ctx.traces += 1
        ctx.count('K:err')
        if st == 'ok':
            ctx.disagreements += 1
            ctx.broke('correspondence', 'C09 stream err', dict(note='model: raises, implementation: returned', **desc))
        return 0
    if compare and o.startswith('bad'):
        raise RuntimeError('driver could not parse: %s -> %s' % (pc['line'][:200], o))
    if st.startswith('timeout'):
        ctx.count('S-fail:timeout')
        ctx.fail(SIG_NOTERM if st == 'timeout-lsq' else 'C09:%s:timeout' % name,
                 '%s gave no result within %d s%s (Z=%d, representations %r)' % (
                     name, CALL_LIMIT, ' (interrupted inside scipy.optimize._lsq: the backtracking loop of lsq_linear does not terminate)'
                     if st == 'timeout-lsq' else '', Z, pc['reps']), desc)
        return 1
    if st != 'ok':
        # the inputs are of the documented kinds and consistent shapes, yet the implementation raised
        ctx.fail('C09:%s:raised-%s:%s' % (name, st, '+'.join(sorted(set(pc['reps'].values())))),
                 '%s raised %s: %s for representations %r' % (name, st, shape, pc['reps']), desc)
        return 1
    npts = flat.shape[0]
    per = Z + 3
    mod = None
    if compare:
        t = o.split()
        nd_ = int(t[0])
        mshape = tuple(int(x) for x in t[1:1 + nd_])
        mod = [b2f(x) for x in t[1 + nd_:]]
        ctx.traces += 1
        ctx.count('K:' + pc['line'].split()[0])
        if tuple(shape) != mshape or len(mod) != npts * per:
            ctx.disagreements += 1
            ctx.broke('correspondence', 'C09 stream profile-shape', dict(model_shape=mshape, implementation_shape=shape, **desc))
            mod = None
    agree = True
    worst = 0.0
    direct = None
    # float32 parameters: the code then forms n_D / n_e (and everything derived from it) in single precision, 6e-8 relative
    used_ = ['ne', 'te'] + (['nd'] if pc['donor_given'] else []) + (['dens'] if pc['which'] == 'fd' else [])
    single = any(pc['fields'][k_].get('dtype') == 'f32' for k_ in used_)
    ktol, stol = (1e-6, 1e-6) if single else (K_TOL, 1e-9)
    if single:
        ctx.count('profile:float32-parameters')
    for k in range(npts):
        dens_k, ne_k, te_k, nd_k = truth_at(pc, k)
        sc = dens_k if pc['which'] == 'fd' else 1.0
        rec = caps[k] if len(caps) == npts else None
        if mod is not None:
            row = mod[k * per:(k + 1) * per]
            mne, mte, mf = row[0], row[1], row[2:]
            if points and len(points) % npts == 0:
                # coef_ion[0] is evaluated a fixed number of times per point (first row + the row below)
                step = len(points) // npts
                if not all(close(pq[0], mne, 1e-12) and close(pq[1], mte, 1e-12) for pq in points[k * step:(k + 1) * step]):
                    agree = False
            else:
                agree = False
            dv = max(abs(x - y) for x, y in zip(mf, flat[k])) / sc
            if not dv <= ktol:
                sdev = solver_deviation(rec)
                if sdev is not None and sdev > K_TOL / 2:
                    ctx.count('K-excused:lsq_linear-deviation')
                else:
                    agree = False
                    worst = max(worst, dv)
            elif not single:
                worst = max(worst, dv)
        # S at this index, with the harness' own evaluation of the profiles
        cs = dict(case, ne=ne_k, te=te_k, nD=nd_k)
        S, A, C = rates_at(cs, ne_k, te_k)
        d = nd_k / ne_k
        f = [x / sc for x in flat[k]]
        for tag, text in check_fractions(f, S, A, C, d, case['donor']):
            if tag == 'range' and pc['which'] == 'fd':
                continue
            sig = 'C09:%s:%s' % (name, tag)
            if tag in ('balance', 'sum') and solver_at_fault(rec, S, A, C, d, case['donor']):
                sig = SIG_INACC
                text += '; the matrix handed to lsq_linear has the right steady state, the returned vector is off by %.3g' % solver_deviation(rec)
            elif tag == 'donor-cx-rates-discarded' and pc['interp']:
                # attribute to the direct entry point only if it shows the same defect on the same input
                if direct is None:
                    direct = exec_profile(env, dict(pc, interp=False))
                if direct[1] == 'ok' and direct[3].shape == flat.shape and any(
                        t2 == tag for t2, _ in check_fractions([x / sc for x in direct[3][k]], S, A, C, d, case['donor'])):
                    sig = 'C09:%s:%s' % (_base_entry(name), tag)
            nprob += 1
            ctx.count('S-fail:' + sig)
            ctx.fail(sig, '%s at index %d (n_e=%.4g, T_e=%.4g, n_D=%.4g, representations %r): %s' % (name, k, ne_k, te_k, nd_k, pc['reps'], text),
                     dict(index=k, **desc))
    # S: every index against the scalar form of the direct entry point at the same (n_e, T_e, n_D, density)
    which = pc['which']
    worst_sc = 0.0
    for k in range(npts):
        dens_k, ne_k, te_k, nd_k = truth_at(pc, k)
        ref = scalar_call(env, case, which, ne_k, te_k, nd_k, pc['donor_given'], dens=dens_k)
        if ref is None:
            ctx.count('scalar-reference-unavailable')
            continue
        sc = dens_k if which == 'fd' else 1.0
        dv = max(abs(x - y) for x, y in zip(ref, flat[k])) / sc
        if not single:
            worst_sc = max(worst_sc, dv)
        if not dv <= stol:
            nprob += 1
            sig = 'C09:%s:differs-from-scalar-call' % name
            ctx.count('S-fail:' + sig)
            ctx.fail(sig, '%s at index %d differs by %.3g from %s called with the scalars n_e=%.6g, T_e=%.6g, n_D=%.6g (profile mode %s, '
                          'representations %r)' % (name, k, dv, _base_entry(name), ne_k, te_k, nd_k, pc.get('mode'), pc['reps']),
                     dict(index=k, **desc))
            break
    ctx.extra['max_dev_profile_vs_scalar'] = max(ctx.extra.get('max_dev_profile_vs_scalar', 0.0), worst_sc)
    # S: inputs are not modified by a call that returns
    if pc.get('modified_inputs'):
        nprob += 1
        sig = 'C09:%s:modifies-input:%s' % (name, '+'.join(pc['modified_inputs']))
        ctx.count('S-fail:' + sig)
        ctx.fail(sig, '%s changed its argument(s) %r in place (representations %r, free variable dtype %r)' % (
            name, pc['modified_inputs'], pc['reps'], pc.get('fv_dtype')), desc)
    # S: representation agreement — the same call with every Function1D/2D argument replaced by the float64 array of its
    # samples on the free variable (and the free variable as float64) must return the same numbers
    used = ['ne', 'te'] + (['nd'] if pc['donor_given'] else []) + (['dens'] if which == 'fd' else [])
    nonplain = any(pc['fields'][k]['kind'] in ('f1', 'f1n', 'f2') for k in used) or any(d != 'f64' for d in (pc.get('fv_dtype') or []))
    if pc['dim'] > 0 and nonplain and not pc.get('_alt'):
        ak = 'arr1' if pc['dim'] == 1 else 'arr2'
        alt_fields = {}
        for k, f_ in pc['fields'].items():
            vals = field_values(f_, pc['grid'])
            tab = vals if pc['dim'] == 1 else [vals[i * len(pc['grid'][1]):(i + 1) * len(pc['grid'][1])] for i in range(len(pc['grid'][0]))]
            alt_fields[k] = dict(kind=ak, co=f_['co'], table=tab, pattern=f_['pattern'], as_int=False, dtype='f64')
        alt = build_profile(env, dict(profile_spec_of(pc), fields=alt_fields, fv_dtype=['f64', 'f64'], fv_scalar=None, interp=False))
        alt['_alt'] = True
        a_name, a_st, a_shape, a_flat, _, _ = exec_profile(env, alt)
        ctx.count('representation-cross-check')
        if a_st == 'ok' and a_flat.shape == flat.shape:
            scs = np.array([truth_at(pc, k)[0] if which == 'fd' else 1.0 for k in range(npts)])[:, None]
            dv = float(np.max(np.abs(a_flat - flat) / scs))
            if not dv <= stol:
                k = int(np.argmax(np.max(np.abs(a_flat - flat) / scs, axis=1)))
                nprob += 1
                sig = 'C09:%s:differs-from-array-representation' % name
                ctx.count('S-fail:' + sig)
                ctx.fail(sig, '%s with representations %r (free variable dtype %r, scalar %r) differs at index %d by %.3g from %s given the float64 '
                              'arrays of the same samples' % (name, pc['reps'], pc.get('fv_dtype'), pc.get('fv_scalar'), k, dv, a_name), dict(index=k, **desc))
        elif a_st != 'ok' and not a_st.startswith('timeout'):
            ctx.count('representation-cross-check-unavailable')
    if mod is not None:
        ctx.extra['max_dev_profile'] = max(ctx.extra.get('max_dev_profile', 0.0), worst)
        if not agree:
            ctx.disagreements += 1
            ctx.count('disagreement:profile')
            ctx.broke('correspondence', 'C09 stream ' + pc['line'].split()[0],
                      dict(max_dev=worst, model=mod[:per], implementation=flat[0].tolist(), points=(points or [])[:2], **desc))
    return nprob


def run_profiles(ctx, env, n):
    rng = ctx.rng
    pcs = [build_profile(env, gen_profile_spec(rng)) for _ in range(n)]
    outs = ctx.driver([pc['line'] for pc in pcs])
    for pc, o in zip(pcs, outs):
        case = pc['case']
        key = ('profile', pc['which'], pc['interp'], pc['dim'], tuple(sorted(pc['reps'].items())), pc['mode'], case['donor'], pc['donor_given'], pc['give_fv'])
        ctx.case(key=key, sample=dict(stream='profile', which=pc['which'], through_interpolators=pc['interp'], dim=pc['dim'], mode=pc['mode'],
                                      representations=pc['reps'], patterns={k: v['pattern'] for k, v in pc['fields'].items()},
                                      donor=case['donor'], donor_density_given=pc['donor_given'],
                                      free_variable=pc['give_fv'], Z=case['Z']) if rng.random() < 0.05 else None)
        check_profile(ctx, env, pc, o)


def _base_entry(name):
    if 'from_elementdensity' in name:
        return 'from_elementdensity'
    if 'match_plasma_neutrality' in name:
        return 'match_plasma_neutrality'
    return 'fractional_abundance'


# ---------------------------------------------------------------------------------------------------------------
# malformed input combinations
# ---------------------------------------------------------------------------------------------------------------
def run_malformed(ctx, env):
    rng = ctx.rng
    ib = env.ib
    case = gen_point_case(rng, Z=2)
    case.update(p=0.0, q=0.0, donor=True, dq=0)
    r3 = fs(case['s']) + ' ' + fs(case['a']) + ' ' + fs(c_eff(case))
    head = 'pfrac 2 1 %s %s %s' % (f2b(0.0), f2b(0.0), r3)
    xs = [0.1, 0.4, 0.9]
    a3 = np.array([1e19, 2e19, 3e19])
    t3 = np.array([10.0, 100.0, 1000.0])
    a3t, t3t = 'a1 3 ' + fs(a3), 'a1 3 ' + fs(t3)
    f1 = env.PF1(lambda x: 1e19 + 1e19 * x)
    f1t = 'f1 %s %s' % (f2b(1e19), f2b(1e19))
    f2 = env.PF2(lambda x, y: 1e19 + 1e19 * x + 0.0 * y)
    f2t = 'f2 %s %s %s' % (f2b(1e19), f2b(1e19), f2b(0.0))
    fv1 = 'fv1 3 ' + fs(xs)
    H = env.hydrogen
    combos = [
        ('array n_e with shorter array T_e', 'fv0 %s a1 2 %s dnone' % (a3t, fs(t3[:2])), dict(n_e=a3, t_e=t3[:2])),
        ('array profiles with a scalar donor density', 'fv0 %s %s s %s' % (a3t, t3t, f2b(1e18)), dict(n_e=a3, t_e=t3, tcx_donor=H, tcx_donor_n=1e18)),
        ('Function1D without free_variable', 'fv0 %s %s dnone' % (f1t, t3t), dict(n_e=f1, t_e=t3)),
        ('Function1D with free_variable of another length', 'fv1 2 %s %s %s dnone' % (fs(xs[:2]), f1t, t3t), dict(n_e=f1, t_e=t3, free_variable=np.array(xs[:2]))),
        ('Function2D with a 1-D free_variable', '%s %s %s dnone' % (fv1, f2t, t3t), dict(n_e=f2, t_e=t3, free_variable=np.array(xs))),
        ('Function1D with a pair of coordinate arrays', 'fv2 3 %s 2 %s %s %s dnone' % (fs(xs), fs(xs[:2]), f1t, t3t), dict(n_e=f1, t_e=t3, free_variable=(np.array(xs), np.array(xs[:2])))),
        ('scalar n_e with array T_e', 'fv0 s %s %s dnone' % (f2b(1e19), t3t), dict(n_e=1e19, t_e=t3)),
        # well-formed controls
        ('control: Function1D n_e, array T_e, free_variable', '%s %s %s dnone' % (fv1, f1t, t3t), dict(n_e=f1, t_e=t3, free_variable=np.array(xs))),
        ('control: arrays with array donor density', 'fv0 %s %s a1 3 %s' % (a3t, t3t, fs(a3 * 0.1)), dict(n_e=a3, t_e=t3, tcx_donor=H, tcx_donor_n=a3 * 0.1)),
    ]
    outs = ctx.driver([head + ' ' + c[1] for c in combos])
    for (what, tok, kw), o in zip(combos, outs):
        if o.startswith('bad'):
            raise RuntimeError('driver could not parse malformed-stream line: %s -> %s' % (tok, o))
        kw = dict(kw)
        ne, te = kw.pop('n_e'), kw.pop('t_e')
        st, r = guarded(ib.fractional_abundance, env.Mock(case), env.elements[1], ne, te, **kw)
        ctx.case(key=('malformed', what), sample=dict(stream='malformed', what=what, model=o[:20], implementation=st))
        ctx.traces += 1
        ctx.count('K:err')
        model_raises = (o == 'err')
        if model_raises != (st != 'ok'):
            ctx.disagreements += 1
            ctx.broke('correspondence', 'C09 stream err', dict(what=what, model=o[:60], implementation=st, message=str(r)[:200]))
        if what.startswith('control') and st != 'ok':
            ctx.fail('C09:fractional_abundance:raised-%s:control' % st, 'well-formed input rejected (%s): %s' % (what, r), dict(kind='malformed', what=what))


def run_malformed_density(ctx, env, n):
    """round 6 — K stream `err-fd`: the normalisation ladder of `from_elementdensity` (model `callFromDensity`): every one of
    (element_density, n_e, T_e, donor density) independently a scalar, an array (of the common or of another length), a
    `Function1D` (with / without / with a mismatching free_variable) or absent (donor); about half of the cases are
    well-formed.  Compared: raises / returns, and the shape of the returned profile."""
    rng = ctx.rng
    ib = env.ib
    H = env.hydrogen
    for it in range(n):
        case = gen_point_case(rng, Z=2)
        case.update(p=0.0, q=0.0, donor=True, dq=0)
        head = 'pfd 2 1 %s %s %s' % (f2b(0.0), f2b(0.0), fs(case['s']) + ' ' + fs(case['a']) + ' ' + fs(c_eff(case)))
        npts = rng.randrange(1, 6)
        corrupt = (it % 2 == 1)
        fvkind = ['none', 'ok', 'ok', 'short'][rng.randrange(0, 4)] if (corrupt or rng.random() < 0.5) else 'ok'
        if not corrupt and fvkind == 'short':
            fvkind = 'ok'
        xs = np.array(sorted(rng.uniform(0.05, 0.95) for _ in range(npts + 3)))
        fvx = {'none': None, 'ok': xs[:npts], 'short': xs[:npts + 1 + rng.randrange(0, 2)]}[fvkind]
        fvt = 'fv0' if fvx is None else 'fv1 %d %s' % (len(fvx), fs(fvx))
        bad_slot = rng.randrange(0, 4) if corrupt else -1
        toks, vals, kinds = [], [], []
        for slot, scale in enumerate((1e17, 1e19, 50.0, 1e18)):       # element density, n_e, T_e, donor density
            kinds_ok = ['arr', 'arr', 'fn'] if fvkind == 'ok' else ['arr']
            if npts == 1:
                kinds_ok = kinds_ok + ['scalar', 'scalar']
            if slot == 3:
                kinds_ok = kinds_ok + ['absent']
            kind = kinds_ok[rng.randrange(len(kinds_ok))]
            if slot == bad_slot:
                kind = ['arr-other', 'scalar', 'fn', 'arr-other'][rng.randrange(0, 4)]
            if kind == 'absent':
                toks.append('dnone'); vals.append(None)
            elif kind == 'scalar':
                v = float(scale * rng.uniform(1.0, 3.0))
                toks.append('s %s' % f2b(v)); vals.append(v)
            elif kind == 'fn':
                a, b = float(scale * rng.uniform(1.0, 2.0)), float(scale * rng.uniform(0.0, 1.0))
                toks.append('f1 %s %s' % (f2b(a), f2b(b))); vals.append(env.PF1(lambda x, a=a, b=b: a + b * x))
            else:
                m = npts if kind == 'arr' else npts + 1 + rng.randrange(0, 2)
                v = np.array([scale * rng.uniform(1.0, 3.0) for _ in range(m)])
                toks.append('a1 %d %s' % (m, fs(v))); vals.append(v)
            kinds.append(kind)
        line = '%s %s %s %s %s %s' % (head, fvt, toks[1], toks[2], toks[3], toks[0])
        o = ctx.driver([line])[0]
        if o.startswith('bad'):
            raise RuntimeError('driver could not parse err-fd line: %s -> %s' % (line[:200], o))
        kw = dict(tcx_donor=H, tcx_donor_n=vals[3])
        if fvx is not None:
            kw['free_variable'] = np.array(fvx)
        st, r = guarded(ib.from_elementdensity, env.Mock(case), env.elements[1], vals[0], vals[1], vals[2], **kw)
        what = 'fv=%s %s' % (fvkind, '/'.join(kinds))
        ctx.case(key=('malformed-fd', what, npts), sample=dict(stream='err-fd', what=what, n=npts, model=o[:20], implementation=st))
        ctx.traces += 1
        ctx.count('K:err-fd')
        ctx.count('err-fd:' + ('rejected' if o == 'err' else 'accepted'))
        if st in ('timeout', 'timeout-lsq'):
            continue
        model_raises = (o == 'err')
        detail = None
        if model_raises != (st != 'ok'):
            detail = dict(what=what, n=npts, model=o[:60], implementation=st, message=str(r)[:200])
        elif st == 'ok':
            t = o.split()
            shape = tuple(int(x) for x in t[1:1 + int(t[0])])
            got = sorted((k, tuple(np.shape(v))) for k, v in r.items())        # {charge: profile}
            if got != [(k, shape) for k in range(3)]:
                detail = dict(what=what, n=npts, model_shape=shape, implementation_shapes=got)
        if detail is not None:
            ctx.disagreements += 1
            ctx.broke('correspondence', 'C09 stream err-fd', detail)
        if not corrupt and st not in ('ok',):
            ctx.fail('C09:from_elementdensity:raised-%s:control' % st, 'well-formed input rejected (%s): %s' % (what, r),
                     dict(kind='malformed-fd', what=what))


# ---------------------------------------------------------------------------------------------------------------
# round 6 — memory layouts: the same values as F-ordered / transposed-view / strided / negative-stride / read-only arrays
# (S only, no model: referenced to the C-contiguous call and to the balance equations per point)
# ---------------------------------------------------------------------------------------------------------------
LAYOUTS = ('F', 'Tview', 'strided', 'reversed', 'readonly', 'F-readonly')


def relayout(a, layout):
    """the same values (same shape, same dtype) in another memory layout; the gaps of the strided form hold NaN"""
    a = np.array(a)
    if layout == 'C':
        return np.ascontiguousarray(a)
    if layout in ('F', 'F-readonly'):
        b = np.asfortranarray(a) if a.ndim > 1 else a[::-1].copy()[::-1]
    elif layout == 'Tview':
        b = np.ascontiguousarray(a.T).T if a.ndim > 1 else a[::-1].copy()[::-1]
    elif layout == 'strided':
        big = np.full(tuple(2 * n + 1 for n in a.shape), np.nan, dtype=a.dtype)
        sl = tuple(slice(1, None, 2) for _ in a.shape)
        big[sl] = a
        b = big[sl]
    elif layout == 'reversed':
        sl = tuple(slice(None, None, -1) for _ in a.shape)
        b = np.ascontiguousarray(a[sl])[sl]
    elif layout == 'readonly':
        b = np.ascontiguousarray(a)
    else:
        raise ValueError(layout)
    if layout.endswith('readonly'):
        b.setflags(write=False)
    assert b.shape == a.shape and np.array_equal(b, a)
    return b


def run_layouts(ctx, env, n):
    rng = ctx.rng
    ib = env.ib
    for it in range(n):
        case = gen_point_case(rng, Z=rng.randint(1, 4))
        case.update(p=rng.uniform(0.5, 2) / 1e4, q=rng.uniform(0.5, 2) / 1e21, donor=(it % 4 != 3), isotope=False, dq=rng.choice([0, 1]))
        Z = case['Z']
        dim = 1 if it % 5 == 4 else 2
        shape = (rng.randint(2, 5),) if dim == 1 else ((rng.randint(2, 4),) * 2 if it % 2 else (rng.randint(2, 4), rng.randint(2, 4)))
        npts = int(np.prod(shape))
        ne0 = 10 ** rng.uniform(18, 20.3)

        def field(base, lo, hi):
            return np.array([base * rng.uniform(lo, hi) for _ in range(npts)]).reshape(shape)
        ne, te, dens = field(ne0, 0.4, 2.5), field(10 ** rng.uniform(0.5, 3.5), 0.4, 2.5), field(case['dens'], 0.4, 2.5)
        nd = ne * field(1.0, 0.0, 0.3)
        donor = case['donor']
        species = [np.array([ne0 * rng.uniform(0, 0.02) for _ in range(k * npts)]).reshape((k,) + shape)
                   for k in [rng.randint(1, 4) for _ in range(rng.randint(1, 2))]]
        same = rng.random() < 0.6
        lay0 = LAYOUTS[it % len(LAYOUTS)]
        pick = (lambda: lay0) if same else (lambda: rng.choice(LAYOUTS + ('C',)))
        lays = dict(ne=lay0, te=pick(), nd=pick(), dens=pick(), species=[pick() for _ in species])
        kw = dict(tcx_donor=env.donor(case), tcx_donor_charge=case['dq'])
        ad, el = env.Mock(case), env.element(case)
        entries = (
            ('fractional_abundance', lambda L: (ib.fractional_abundance, (ad, el, L('ne', ne), L('te', te)))),
            ('from_elementdensity', lambda L: (ib.from_elementdensity, (ad, el, L('dens', dens), L('ne', ne), L('te', te)))),
            ('match_plasma_neutrality', lambda L: (ib.match_plasma_neutrality, (ad, el, [L(('species', i), sp) for i, sp in enumerate(species)], L('ne', ne), L('te', te)))),
        )
        for name, build in entries:
            def layC(key, a):
                return relayout(a, 'C')

            def layX(key, a):
                return relayout(a, lays['species'][key[1]] if isinstance(key, tuple) else lays[key])
            res = {}
            for tag, L in (('C', layC), ('X', layX)):
                f, args = build(L)
                k2 = dict(kw)
                if donor:
                    k2['tcx_donor_n'] = L('nd', nd)
                held = [a for a in args[2:]] + [k2.get('tcx_donor_n')]
                before = [snapshot(a) for a in held]
                res[tag] = guarded(f, *args, **k2)
                if res[tag][0] == 'ok' and [snapshot(a) for a in held] != before:
                    ctx.fail('C09:%s:modifies-its-inputs' % name, '%s changed an input array (layouts %r)' % (name, lays),
                             dict(kind='layout', entry=name, layouts=lays, case=case, shape=list(shape)))
            desc = 'layouts %s, shape %r, Z=%d, donor=%s' % (json.dumps(lays), shape, Z, donor)
            ctx.case(key=('layout', name, lay0, dim, same), sample=dict(stream='layout', entry=name, layouts=lays, shape=list(shape)))
            ctx.count('layout:%s:%s' % (name, lay0 if same else 'mixed'))
            (stc, rc), (stx, rx) = res['C'], res['X']
            if 'timeout' in stc or 'timeout' in stx:
                ctx.count('layout:timeout')
                continue
            rp = dict(kind='layout', entry=name, layouts=lays, case=case, shape=list(shape))
            if stc != 'ok':
                ctx.fail('C09:%s:raised-%s' % (name, stc), '%s raised on C-contiguous arrays (%s): %s' % (name, desc, rc), rp)
                continue
            if stx != 'ok':
                ctx.fail('C09:%s:raised-%s:memory-layout' % (name, stx),
                         '%s accepts the profile as C-contiguous arrays but raises on the same values in another memory layout (%s): %s' % (name, desc, rx), rp)
                continue
            bad = None
            for idx in np.ndindex(*shape):
                try:
                    vc = [float(np.asarray(rc[z])[idx]) for z in range(Z + 1)]
                    vx = [float(np.asarray(rx[z])[idx]) for z in range(Z + 1)]
                except Exception as e:  # noqa  -- wrong container / shape of the result
                    bad = ('result-shape', 'result is not {charge: array of shape %r}: %s' % (shape, e))
                    break
                # the property at the (n_e, T_e, n_D) of *this* index, on the numbers returned for the non-contiguous input
                S, A, C = rates_at(case, float(ne[idx]), float(te[idx]))
                d = float(nd[idx] / ne[idx]) if donor else 0.0
                tot, totc = sum(vx), sum(vc)
                if name == 'match_plasma_neutrality':
                    prob = neutrality_problem([[float(sp[(k,) + idx]) for k in range(sp.shape[0])] for sp in species], float(ne[idx]), vx)
                    if prob:
                        bad = ('neutrality', 'at index %r: %s' % (idx, prob))
                        break
                if name == 'from_elementdensity' and abs(tot / float(dens[idx]) - 1.0) > S_TOL:
                    bad = ('total', 'at index %r: densities sum to %r, element density there is %r' % (idx, tot, float(dens[idx])))
                    break
                if tot > 0 and totc > 0:
                    px = [t for t in check_fractions([v / tot for v in vx], S, A, C, d, donor and d > 0) if t[0] == 'balance']
                    pc_ = [t for t in check_fractions([v / totc for v in vc], S, A, C, d, donor and d > 0) if t[0] == 'balance']
                    if px and not pc_:       # (a residual shared with the contiguous call is the solver's, reported by the other streams)
                        bad = ('balance:memory-layout', 'at index %r (n_e=%.4g, T_e=%.4g, n_D=%.4g): %s; the C-contiguous call satisfies it'
                               % (idx, ne[idx], te[idx], nd[idx] if donor else 0.0, px[0][1]))
                        break
                scale = max(abs(v) for v in vc) or 1.0
                dev = max(abs(a - b) for a, b in zip(vc, vx)) / scale
                if not dev <= 1e-9:
                    bad = ('differs-from-contiguous-input', 'at index %r (n_e=%.4g, T_e=%.4g): %r with C-contiguous arrays, %r with the same values in '
                           'another layout (relative difference %.3g)' % (idx, ne[idx], te[idx], vc, vx, dev))
                    break
            if bad:
                ctx.fail('C09:%s:%s' % (name, bad[0]), '%s, %s: %s' % (name, desc, bad[1]), rp)


# ---------------------------------------------------------------------------------------------------------------
# neutrality matching at profile level, interpolators and equilibrium maps (S: entry points agree)
# ---------------------------------------------------------------------------------------------------------------
def build_species(env, rng, spfields, grid, dim):
    """python objects for the `n_species` argument: every species either an ndarray (charge, *profile shape) or a
    {charge: profile} dict whose insertion order is ascending / descending / ions-first / shuffled and whose keys are python
    ints or numpy integers; the container is a list or a tuple.  Returns (objects, description)."""
    objs, how = [], []
    for sp in spfields:
        form = rng.choice(['ndarray', 'dict', 'dict', 'dict'])
        if form == 'ndarray':
            ak = 'arr1' if dim == 1 else 'arr2'
            objs.append(np.array([make_rep(env, dict(f, kind=ak), grid)[0] for f in sp]))
            how.append('ndarray')
            continue
        order = list(range(len(sp)))
        o = rng.choice(['ascending', 'descending', 'ions-first', 'shuffled'])
        if o == 'descending':
            order.reverse()
        elif o == 'ions-first':
            order = order[1:] + order[:1]
        elif o == 'shuffled':
            rng.shuffle(order)
        keyt = rng.choice(['int', 'int', 'np.int64'])
        d = {}
        for z in order:
            d[z if keyt == 'int' else np.int64(z)] = make_rep(env, sp[z], grid)[0]
        objs.append(d)
        how.append('dict:%s:%s:%s' % (o, keyt, '+'.join(sp[z]['kind'] for z in order)))
    cont = rng.choice(['list', 'tuple'])
    return (tuple(objs) if cont == 'tuple' else objs), how + [cont]


def run_entry_agreement(ctx, env, n):
    """profile-level match_plasma_neutrality (K through per-index `mn` lines, S through scalar calls) and the derived entry
    points (interpolators1d/2d_match_plasma_neutrality, abundance_axisymmetric_mapper, equilibrium_map3d_*) against
    point-by-point scalar calls of the direct entry points"""
    from raysect.core.math.function.float import Interpolator1DArray
    rng = ctx.rng
    ib = env.ib
    lines, todo = [], []
    for it in range(n):
        case = gen_point_case(rng, Z=rng.choice([1, 1, 2, 6, 10, rng.randint(1, 18)]))
        case['isotope'] = False
        el = env.element(case)
        donor = env.donor(case)
        dim = rng.choice([1, 1, 2])
        # profile lengths: 1 (direct entry point only), 2, 3 and a few more; the first iterations force the minimal psi_n grids
        npt = rng.choice([1, 2, 2, 3, 3, 4, 5, 6])
        if it < 4:
            dim, npt = 1, (2, 3, 2, 4)[it]
        xs = [1.05 * i / (npt - 1) for i in range(npt)] if npt > 1 else [0.4]
        ys = [0.2 + 0.4 * j for j in range(rng.randint(2, 3))]
        ctx.count('profile-length:match:%d%s' % (npt, '' if dim == 1 else 'x%d' % len(ys)))
        # coordinate dtype: float64 / float32 (coordinates rounded to float32 first); 2-D also integer coordinates
        xdt = rng.choice(['f64', 'f64', 'f32'])
        ydt = rng.choice(['f64', 'f32', 'int'])
        if xdt == 'f32':
            xs = [float(np.float32(x)) for x in xs]
        if dim == 2 and ydt == 'f32':
            ys = [float(np.float32(y)) for y in ys]
        if dim == 2 and ydt == 'int':
            ys = [float(j + 1) for j in range(len(ys))]
        npdt = {'f64': np.float64, 'f32': np.float32, 'int': np.int64}
        grid = [xs] if dim == 1 else [xs, ys]
        kinds = ['arr1', 'f1', 'f1n'] if dim == 1 else ['arr2', 'f2']
        mode, pat = gen_patterns(rng, dim)
        dts = ['f64'] * 6 + ['f32', 'int', 'int']
        fields = {k: gen_field(rng, b, dim, grid, kinds, pat[k], dtype=rng.choice(dts))
                  for k, b in (('ne', case['ne']), ('te', case['te']), ('nd', case['nD'] or case['ne'] * 0.02), ('dens', case['dens']))}
        spfields = [[gen_field(rng, case['ne'] * rng.uniform(0.001, 0.03), dim, grid, kinds, rng.choice(['affine', 'flat', 'random', 'steps']),
                               dtype=rng.choice(dts))
                     for _ in range(rng.randint(2, 4))] for _ in range(rng.randint(1, 2))]
        single = any(f.get('dtype') == 'f32' for f in list(fields.values()) + [f for sp in spfields for f in sp])
        stol = 1e-6 if single else 1e-9
        vals = {k: field_values(f, grid) for k, f in fields.items()}
        spvals = [[field_values(f, grid) for f in sp] for sp in spfields]
        fv = np.array(xs, dtype=npdt[xdt]) if dim == 1 else (np.array(xs, dtype=npdt[xdt]), np.array(ys, dtype=npdt[ydt]))
        ctx.count('coordinate-dtype:%s' % (xdt if dim == 1 else xdt + '+' + ydt))
        ne_o, te_o, nd_o, dens_o = (make_rep(env, fields[k], grid)[0] for k in ('ne', 'te', 'nd', 'dens'))
        nd_arg = nd_o if case['donor'] else None
        species, sphow = build_species(env, rng, spfields, grid, dim)
        for h in sphow:
            ctx.count('species:' + h.split(':')[0] + (':' + h.split(':')[1] if h.startswith('dict') else ''))
        ctx.count('profile-mode:match:' + mode)
        desc = dict(kind='entry-agreement', dim=dim, grid=grid, fields=fields, species_fields=spfields, species_given_as=sphow,
                    mode=mode, case=case)
        pts = [(x,) for x in xs] if dim == 1 else [(x, y) for x in xs for y in ys]
        Z = case['Z']

        def point(k):
            nd_k = vals['nd'][k] if case['donor'] else 0.0
            return dict(case, ne=vals['ne'][k], te=vals['te'][k], nD=nd_k, dens=vals['dens'][k],
                        species=[[v[k] for v in sp] for sp in spvals])
        # ---- point-by-point scalar calls: the reference for everything below
        ref = {'frac': [], 'fd': [], 'mn': []}
        for k in range(len(pts)):
            cs = point(k)
            for which in ref:
                ref[which].append(scalar_call(env, case, which, cs['ne'], cs['te'], cs['nD'], case['donor'], dens=cs['dens'], species=cs['species']))
        # ---- direct match_plasma_neutrality: K per index, S per index
        watched = dict(free_variable=fv, n_species=species, n_e=ne_o, t_e=te_o, tcx_donor_n=nd_arg)
        before = {k_: snapshot(v_) for k_, v_ in watched.items()}
        st, r = guarded(ib.match_plasma_neutrality, env.Mock(case), el, species, ne_o, te_o, donor, nd_arg, case['dq'], free_variable=fv)
        caps = list(CAP)
        changed = [k_ for k_, v_ in watched.items() if snapshot(v_) != before[k_]]
        ctx.case(key=('match-profile', dim, case['Z'], case['donor'], mode, tuple(sphow), it),
                 sample=dict(stream='match-profile', dim=dim, Z=Z, mode=mode, species_given_as=sphow, donor=case['donor']) if rng.random() < 0.1 else None)
        ctx.count('profile:match_plasma_neutrality:dim%d' % dim)
        if st != 'ok':
            ctx.fail(SIG_NOTERM if st == 'timeout-lsq' else 'C09:match_plasma_neutrality:%s' % ('timeout' if st == 'timeout' else 'raised-' + st),
                     'match_plasma_neutrality (profile level, species given as %r) %s: %s' % (sphow, st, r), desc)
            continue
        if changed:
            ctx.fail('C09:match_plasma_neutrality:modifies-input:%s' % '+'.join(changed),
                     'match_plasma_neutrality changed its argument(s) %r in place (species given as %r)' % (changed, sphow), desc)
        direct = np.stack([np.asarray(r[z], dtype=float).reshape(-1) for z in range(Z + 1)], axis=1)
        for k in range(len(pts)):
            cs = point(k)
            lines.append(point_lines(cs)[3])
            todo.append((cs, direct[k].tolist(), desc, k, caps[k] if len(caps) == len(pts) else None, single))
        if all(v is not None for v in ref['mn']):
            refmn = np.array(ref['mn'])
            sc = float(np.max(np.abs(refmn))) or 1.0
            dev = float(np.max(np.abs(direct - refmn))) / sc
            if not dev <= stol:
                k = int(np.argmax(np.max(np.abs(direct - refmn), axis=1)))
                ctx.count('S-fail:C09:match_plasma_neutrality:differs-from-scalar-call')
                ctx.fail('C09:match_plasma_neutrality:differs-from-scalar-call',
                         'match_plasma_neutrality (dim %d, species given as %r, profile mode %s) at index %d differs by %.3g (relative to the '
                         'largest density) from the call with scalar n_e=%.6g, T_e=%.6g, n_D=%.6g and the same species densities' % (
                             dim, sphow, mode, k, dev, point(k)['ne'], point(k)['te'], point(k)['nD']), dict(index=k, **desc))
        # ---- derived entry points at the knots against the scalar references
        checks = []
        A = (env.Mock(case), el)
        if npt < 2:
            pass                     # interpolators and equilibrium maps need at least two knots
        elif dim == 1:
            checks += [('interpolators1d_match_plasma_neutrality', 'mn',
                        lambda: ib.interpolators1d_match_plasma_neutrality(*A, fv, species, ne_o, te_o, donor, nd_arg, case['dq']), lambda f, pt: f(pt[0])),
                       ('interpolators1d_fractional', 'frac',
                        lambda: ib.interpolators1d_fractional(*A, fv, ne_o, te_o, donor, nd_arg, case['dq']), lambda f, pt: f(pt[0])),
                       ('interpolators1d_from_elementdensity', 'fd',
                        lambda: ib.interpolators1d_from_elementdensity(*A, fv, dens_o, ne_o, te_o, donor, nd_arg, case['dq']), lambda f, pt: f(pt[0]))]
        else:
            def _axi():
                return ib.abundance_axisymmetric_mapper(
                    ib.interpolators2d_match_plasma_neutrality(*A, fv, species, ne_o, te_o, donor, nd_arg, case['dq']))
            checks += [('interpolators2d_match_plasma_neutrality', 'mn',
                        lambda: ib.interpolators2d_match_plasma_neutrality(*A, fv, species, ne_o, te_o, donor, nd_arg, case['dq']), lambda f, pt: f(pt[0], pt[1])),
                       ('interpolators2d_fractional', 'frac',
                        lambda: ib.interpolators2d_fractional(*A, fv, ne_o, te_o, donor, nd_arg, case['dq']), lambda f, pt: f(pt[0], pt[1])),
                       ('interpolators2d_from_elementdensity', 'fd',
                        lambda: ib.interpolators2d_from_elementdensity(*A, fv, dens_o, ne_o, te_o, donor, nd_arg, case['dq']), lambda f, pt: f(pt[0], pt[1])),
                       # (r, z) knots reached as (x, y, z) = (r cos a, r sin a, z)
                       ('abundance_axisymmetric_mapper', 'mn', _axi, lambda f, pt: f(pt[0] * math.cos(0.7), pt[0] * math.sin(0.7), pt[1]))]
        for name, which, mk, ev in checks:
            if any(v is None for v in ref[which]):
                continue
            st, fm = guarded(mk)
            ctx.count('entry:' + name)
            if st != 'ok':
                ctx.fail(SIG_NOTERM if st == 'timeout-lsq' else 'C09:%s:%s' % (name, 'timeout' if st == 'timeout' else 'raised-' + st), '%s: %s %s' % (name, st, fm), desc)
                continue
            rf = np.array(ref[which])
            sc = float(np.max(np.abs(rf))) or 1.0
            dev = max(abs(ev(fm[z], pt) - rf[k][z]) for k, pt in enumerate(pts) for z in range(Z + 1)) / sc
            ctx.case(key=(name, dim, case['Z'], mode, it))
            if not dev <= max(stol, 1e-7 if name == 'abundance_axisymmetric_mapper' else 1e-9):
                ctx.count('S-fail:C09:%s:differs-from-scalar-call' % name)
                ctx.fail('C09:%s:differs-from-scalar-call' % name,
                         '%s at the knots differs from point-by-point scalar calls of %s by %.3g (relative to the largest value; profile mode %s, '
                         'species given as %r)' % (name, {'mn': 'match_plasma_neutrality', 'frac': 'fractional_abundance', 'fd': 'from_elementdensity'}[which],
                                                   dev, mode, sphow), desc)
        # ---- equilibrium maps (1-D profiles over psi_n)
        if dim == 1 and npt >= 2 and (it % 2 == 0 or it < 4):
            _equilibrium_checks(ctx, env, case, el, donor, fv, ne_o, te_o, nd_arg, dens_o, species, desc, Interpolator1DArray, ref, mode, stol)
    if lines:
        outs = ctx.driver(lines)
        for (cs, impl, desc, k, rec, single), o in zip(todo, outs):
            mod = [b2f(t) for t in o.split()]
            sc = max(max(abs(x) for x in mod), 1e-300) * _mn_amplification(mod)
            ctx.traces += 1
            ctx.count('K:mn-profile')
            if len(mod) != len(impl) or not all(abs(x - y) <= (1e-6 if single else K_TOL) * sc for x, y in zip(mod, impl)):
                sdev = solver_deviation(rec)
                if sdev is not None and sdev > K_TOL / 2:
                    ctx.count('K-excused:lsq_linear-deviation')
                else:
                    ctx.disagreements += 1
                    ctx.broke('correspondence', 'C09 stream mn-profile', dict(index=k, model=mod, implementation=impl, **desc))
            elif not mn_charge_agrees(mod, impl, 1e-5 if single else 1e-9):
                ctx.disagreements += 1
                ctx.broke('correspondence', 'C09 stream mn-profile', dict(note='charge of the matched element differs', index=k, model=mod, implementation=impl, **desc))
            _oracle_match_only(ctx, cs, impl, desc, k, rec, single)


def _oracle_match_only(ctx, cs, n, desc, k, rec=None, single=False):
    Z = cs['Z']
    S, A, C = rates_at(cs, cs['ne'], cs['te'])
    d = cs['nD'] / cs['ne']
    if any(math.isnan(x) for x in n) or min(n) < 0:
        ctx.fail('C09:match_plasma_neutrality:negative-density', 'profile index %d: min density %r' % (k, min(n)), dict(index=k, **desc))
        return
    pb = neutrality_problem(cs['species'], cs['ne'], n, 1e-5 if single else 1e-9)
    if pb:
        ctx.fail('C09:match_plasma_neutrality:neutrality', 'profile index %d: %s' % (k, pb), dict(index=k, **desc))
    if sum(n) > 0:
        tot = sum(n)
        for tag, text in check_fractions([x / tot for x in n], S, A, C, d, cs['donor']):
            if tag in ('range', 'sum'):
                continue
            sig = 'C09:match_plasma_neutrality:' + tag
            if tag == 'balance' and solver_at_fault(rec, S, A, C, d, cs['donor']):
                sig = SIG_INACC
            ctx.count('S-fail:' + sig)
            ctx.fail(sig, 'match_plasma_neutrality, profile index %d (n_e=%.4g, n_D=%.4g): %s' % (k, cs['ne'], cs['nD'], text), dict(index=k, **desc))


def _equilibrium_checks(ctx, env, case, el, donor, psin, ne_o, te_o, nd_arg, dens_o, species, desc, Interp, ref, mode, stol=1e-9):
    """equilibrium_map3d_* at points inside the LCFS against the interpolation (linear; cubic for the matching variant, which
    hands map3d a (psi, values) pair) of point-by-point scalar calls of the direct entry points at the psi_n knots"""
    ib = env.ib
    eq = env.equilibrium()
    Z = case['Z']
    rng = ctx.rng
    ax = eq.magnetic_axis
    pts = [(ax.x * math.cos(0.4), ax.x * math.sin(0.4), ax.y, eq.psi_normalised(ax.x, ax.y))]      # psi_n ~ 0: the first knot
    while len(pts) < 5:
        r = ax.x + rng.uniform(-0.6, 0.6)
        z = ax.y + rng.uniform(-0.8, 0.8)
        if eq.inside_lcfs(r, z) > 0.5 and 0.02 < eq.psi_normalised(r, z) < 0.98:
            ang = rng.uniform(0, 2 * math.pi)
            pts.append((r * math.cos(ang), r * math.sin(ang), z, eq.psi_normalised(r, z)))
    trio = [
        ('equilibrium_map3d_fractional', 'frac', 'fractional_abundance', 'linear',
         lambda: ib.equilibrium_map3d_fractional(env.Mock(case), el, eq, psin, ne_o, te_o, donor, nd_arg, case['dq'])),
        ('equilibrium_map3d_from_elementdensity', 'fd', 'from_elementdensity', 'linear',
         lambda: ib.equilibrium_map3d_from_elementdensity(env.Mock(case), el, eq, psin, dens_o, ne_o, te_o, donor, nd_arg, case['dq'])),
        ('equilibrium_map3d_match_plasma_neutrality', 'mn', 'match_plasma_neutrality', 'cubic',
         lambda: ib.equilibrium_map3d_match_plasma_neutrality(env.Mock(case), el, eq, psin, species, ne_o, te_o, donor, nd_arg, case['dq'])),
    ]
    for name, which, direct_name, order, mk in trio:
        if any(v is None for v in ref[which]):
            continue
        st, m = guarded(mk)
        ctx.count('entry:' + name)
        ctx.case(key=(name, case['Z'], case['donor'], mode, f2b(case['ne'])))
        if st != 'ok':
            ctx.fail(SIG_NOTERM if st == 'timeout-lsq' else 'C09:%s:%s' % (name, 'timeout' if st == 'timeout' else 'raised-' + st), '%s: %s %s' % (name, st, m), desc)
            continue
        rf = np.array(ref[which])
        sc = float(np.max(np.abs(rf))) or 1.0
        dev = 0.0
        for z in range(Z + 1):
            itp = Interp(np.asarray(psin, dtype=float), np.ascontiguousarray(rf[:, z]), order, 'none', 0)
            for (x, y, zz, ps) in pts:
                dev = max(dev, abs(m[z](x, y, zz) - itp(ps)) / sc)
        if not dev <= stol:
            ctx.count('S-fail:C09:%s:differs-from-scalar-call' % name)
            ctx.fail('C09:%s:differs-from-scalar-call' % name,
                     '%s differs from the %s interpolation over psi_n of point-by-point scalar calls of %s by %.3g (relative to the largest '
                     'value; psi_n grid of %d points %r, profile mode %s)' % (name, order, direct_name, dev, len(psin), [float(x) for x in psin], mode), desc)


# ---------------------------------------------------------------------------------------------------------------
# extreme regimes (almost neutral / almost stripped elements, n_e over 14 decades, species carrying 0 .. >100 % of n_e,
# exact zeros in individual rates)
# ---------------------------------------------------------------------------------------------------------------
def gen_extreme_case(rng, i):
    Z = rng.choice([1, 1, 1, 2, 2, 3, 6])
    base = 10 ** rng.uniform(-15, -13)
    regime = ['neutral', 'stripped', 'neutral-zeros', 'moderate'][i % 4]
    s = [base * rng.uniform(0.5, 2) for _ in range(Z)]
    a = [base * rng.uniform(0.5, 2) for _ in range(Z)]
    c = [base * rng.uniform(0.5, 2) for _ in range(Z)]
    if regime.startswith('neutral'):
        # cold, recombining: ionisation of the neutral 6 .. 14 decades below recombination -> mean charge 1e-6 .. 1e-14
        s[0] = a[0] * 10 ** (-rng.uniform(6, 14))
    elif regime == 'stripped':
        f = 10 ** rng.uniform(3, 7)
        s = [v * f for v in s]
    zero = []
    if regime == 'neutral-zeros' or rng.random() < 0.25:
        # exact zeros: no ionisation above some charge k >= 1, individual CX rates switched off
        if Z >= 2:
            k = rng.randint(1, Z - 1)
            for z in range(k, Z):
                s[z] = 0.0
            zero.append('S[%d:]' % k)
        j = rng.randrange(Z)
        c[j] = 0.0
        zero.append('C[%d]' % (j + 1))
    ne = 10 ** rng.uniform(10, 24)
    te = 10 ** rng.uniform(-1, 4)
    donor = rng.random() < 0.5
    nD = ne * 10 ** rng.uniform(-6, 0) if donor else 0.0
    if regime.startswith('neutral') and donor:
        nD = ne * 10 ** rng.uniform(-6, -2)
    share = rng.choice(['none', 'small', 'almost-all', 'almost-all-9', 'exactly-all', 'slightly-more', 'more'])
    frac = {'none': 0.0, 'small': rng.uniform(0.01, 0.5), 'almost-all': 1 - 1e-3, 'almost-all-9': 1 - 1e-9, 'exactly-all': 1.0,
            'slightly-more': 1 + 1e-9, 'more': 1.5}[share]
    species = []
    if share != 'none':
        if share == 'exactly-all':
            species = [[0.0, ne / 2.0, ne / 4.0]]          # 1*(n_e/2) + 2*(n_e/4) = n_e exactly
        else:
            w = [rng.uniform(0.1, 1) for _ in range(rng.randint(1, 3))]
            tot = sum((i + 1) * x for i, x in enumerate(w))
            species = [[ne * rng.uniform(0, 0.1)] + [ne * frac * x / tot for x in w]]
    return dict(Z=Z, s=s, a=a, c=c, p=0.0, q=0.0, ne=ne, te=te, nD=nD, donor=donor, dq=rng.choice([0, 1]),
                donor_el=rng.choice(['hydrogen', 'deuterium', 'helium']), dens=ne * 10 ** rng.uniform(-6, -1), species=species,
                family='extreme', regime=regime, share=share, zeros=zero, isotope=False)


def run_extreme(ctx, env, n):
    cases = [gen_extreme_case(ctx.rng, i) for i in range(n)]
    for c in cases:
        ctx.count('extreme:regime:' + c['regime'])
        ctx.count('extreme:species-share:' + c['share'])
        if c['zeros']:
            ctx.count('extreme:exact-zero-rates')
    _LIMIT[0] = WIDE_LIMIT          # these tables are wide: the known non-terminating lsq_linear case may occur
    try:
        ctx.extra['extreme_stream_problems'] = run_point_cases(ctx, env, cases, 'extreme')
    finally:
        _LIMIT[0] = CALL_LIMIT


# ---------------------------------------------------------------------------------------------------------------
# call sequences on shared provider objects: every entry point is a pure function of its arguments
# ---------------------------------------------------------------------------------------------------------------
SEQ_ENTRIES = ['fractional_abundance', 'from_elementdensity', 'match_plasma_neutrality',
               'interpolators1d_fractional', 'interpolators1d_from_elementdensity', 'interpolators1d_match_plasma_neutrality',
               'interpolators2d_fractional', 'interpolators2d_from_elementdensity', 'interpolators2d_match_plasma_neutrality',
               'equilibrium_map3d_fractional', 'equilibrium_map3d_from_elementdensity', 'equilibrium_map3d_match_plasma_neutrality']
SEQ_XS = [0.0, 1.05]          # minimal two-point grid; the 2-D form uses 2 x 2
SEQ_YS = [0.1, 0.7]
SEQ_EQ_POINTS = None


def _seq_eq_points(env):
    global SEQ_EQ_POINTS
    if SEQ_EQ_POINTS is None:
        eq = env.equilibrium()
        ax = eq.magnetic_axis
        pts = []
        for dr, dz in ((0.1, 0.0), (0.25, 0.2), (-0.2, -0.3), (0.35, -0.1)):
            r, z = ax.x + dr, ax.y + dz
            if eq.inside_lcfs(r, z) > 0.5:
                pts.append((r * math.cos(0.3), r * math.sin(0.3), z))
        SEQ_EQ_POINTS = pts
    return SEQ_EQ_POINTS


def seq_call(env, provider, step):
    """one public call described by `step` on `provider`; returns (status, array [index, charge] | message)"""
    ib = env.ib
    case = step['case']
    el = env.element(case)
    donor = env.donor(case)
    entry, form = step['entry'], step['form']
    dq = case['dq']
    pts = step['points']                      # list of dicts ne, te, nD, dens, species (one per index)
    arr = lambda key: np.array([p_[key] for p_ in pts])      # noqa
    if form == 'scalar':
        ne, te, nd, dens = pts[0]['ne'], pts[0]['te'], pts[0]['nD'], pts[0]['dens']
        species = [np.array(sp, dtype=float).reshape(-1, 1) for sp in pts[0]['species']]
        fv = None
    elif form == 'arr1':
        ne, te, nd, dens = arr('ne'), arr('te'), arr('nD'), arr('dens')
        species = [np.array([[p_['species'][j][zc] for p_ in pts] for zc in range(len(pts[0]['species'][j]))]) for j in range(len(pts[0]['species']))]
        fv = np.array(SEQ_XS)
    else:
        shp = (len(SEQ_XS), len(SEQ_YS))
        ne, te, nd, dens = (arr(k_).reshape(shp) for k_ in ('ne', 'te', 'nD', 'dens'))
        species = [np.array([np.array([p_['species'][j][zc] for p_ in pts]).reshape(shp) for zc in range(len(pts[0]['species'][j]))])
                   for j in range(len(pts[0]['species']))]
        fv = (np.array(SEQ_XS), np.array(SEQ_YS))
    nd_arg = nd if case['donor'] else None
    Z = case['Z']
    if entry == 'fractional_abundance':
        st, r = guarded(ib.fractional_abundance, provider, el, ne, te, donor, nd_arg, dq)
    elif entry == 'from_elementdensity':
        st, r = guarded(ib.from_elementdensity, provider, el, dens, ne, te, donor, nd_arg, dq)
    elif entry == 'match_plasma_neutrality':
        st, r = guarded(ib.match_plasma_neutrality, provider, el, species, ne, te, donor, nd_arg, dq)
    elif entry.startswith('interpolators'):
        fn = getattr(ib, entry)
        mid = {'fractional': (), 'from_elementdensity': (dens,), 'match_plasma_neutrality': (species,)}[entry.split('_', 1)[1]]
        st, r = guarded(fn, provider, el, fv, *mid, ne, te, donor, nd_arg, dq)
        if st == 'ok':
            if form == 'arr1':
                r = {z: np.array([f(x) for x in SEQ_XS]) for z, f in r.items()}
            else:
                r = {z: np.array([[f(x, y) for y in SEQ_YS] for x in SEQ_XS]) for z, f in r.items()}
    else:
        fn = getattr(ib, entry)
        mid = {'fractional': (), 'from_elementdensity': (dens,), 'match_plasma_neutrality': (species,)}[entry.split('_', 2)[2]]
        st, r = guarded(fn, provider, el, env.equilibrium(), fv, *mid, ne, te, donor, nd_arg, dq)
        if st == 'ok':
            r = {z: np.array([f(*pt) for pt in _seq_eq_points(env)]) for z, f in r.items()}
    if st != 'ok':
        return st, r
    if sorted(r.keys()) != list(range(Z + 1)):
        return 'bad-keys', str(list(r.keys()))
    return 'ok', np.stack([np.asarray(r[z], dtype=float).reshape(-1) for z in range(Z + 1)], axis=1)


def gen_sequence(rng, tables_by_provider):
    """a sequence of public calls in which consecutive calls differ in few arguments (donor species, donor charge, donor
    density, receiver element, provider object, entry point), including the exact pairs H -> He and He -> H"""
    els = sorted(tables_by_provider[0].keys())
    steps = []
    cur = dict(prov=0, el=rng.choice(els), donor=True, donor_el='hydrogen', dq=0, entry=rng.choice(SEQ_ENTRIES), seed=rng.random())
    L = rng.randint(4, 8)
    for i in range(L):
        if i > 0:
            for what in rng.sample(['donor_el', 'dq', 'el', 'prov', 'entry', 'seed', 'donor'], rng.choice([1, 1, 2])):
                if what == 'donor_el':
                    cur['donor_el'] = rng.choice([d for d in DONOR_FACTOR if d != cur['donor_el']])
                    cur['donor'] = True
                elif what == 'dq':
                    cur['dq'] = 1 - cur['dq']
                elif what == 'el':
                    cur['el'] = rng.choice([e for e in els if e != cur['el']])
                elif what == 'prov':
                    cur['prov'] = 1 - cur['prov']
                elif what == 'entry':
                    cur['entry'] = rng.choice(SEQ_ENTRIES)
                elif what == 'seed':
                    cur['seed'] = rng.random()
                else:
                    cur['donor'] = not cur['donor']
            if rng.random() < 0.5:
                cur['entry'] = rng.choice(SEQ_ENTRIES)
        import random
        r2 = random.Random(cur['seed'])             # the plasma point(s): unchanged unless `seed` was redrawn
        tab = tables_by_provider[cur['prov']][cur['el']]
        case = dict(tab, donor=cur['donor'], donor_el=cur['donor_el'], dq=cur['dq'], species=[], isotope=False)
        entry = cur['entry']
        if entry.startswith('interpolators1d') or entry.startswith('equilibrium'):
            form = 'arr1'
        elif entry.startswith('interpolators2d'):
            form = 'arr2'
        else:
            form = r2.choice(['scalar', 'arr1', 'arr2'])
        npts = {'scalar': 1, 'arr1': len(SEQ_XS), 'arr2': len(SEQ_XS) * len(SEQ_YS)}[form]
        ne0, te0 = 10 ** r2.uniform(17, 21), 10 ** r2.uniform(0, 4)
        pts = []
        for k in range(npts):
            ne = ne0 * r2.uniform(0.5, 2)
            pts.append(dict(ne=ne, te=te0 * r2.uniform(0.5, 2), nD=(ne * 10 ** r2.uniform(-3, 0) if cur['donor'] else 0.0),
                            dens=ne * r2.uniform(1e-4, 1e-2), species=[[ne * r2.uniform(0, 0.05), ne * r2.uniform(0, 0.05)]]))
        steps.append(dict(case=case, entry=entry, form=form, points=pts, provider=cur['prov'], element=cur['el']))
    return steps


def run_sequences(ctx, env, n):
    """standing oracle: the k-th call on provider objects shared with all earlier calls equals the same call on fresh provider
    objects (S), and the stateless model (K, per index; equilibrium maps: S only)"""
    rng = ctx.rng
    lines, todo = [], []
    for it in range(n):
        names = ['hydrogen', 'helium', rng.choice(['carbon', 'neon', 'lithium'])]
        zof = {e.name: e.atomic_number for e in env.elements}
        tables = []
        for _ in range(2):
            tb = {}
            for nm in names:
                c = gen_point_case(rng, Z=zof[nm])
                tb[nm] = {k: c[k] for k in ('Z', 's', 'a', 'c', 'p', 'q')}
            tables.append(tb)
        shared = [env.Mock(None, tables=t) for t in tables]
        steps = gen_sequence(rng, tables)
        if it == 0:      # the two exact orders of the donor pair on one provider, everything else equal
            base = steps[0]
            mk = lambda d_el, dq_: dict(base, case=dict(base['case'], donor=True, donor_el=d_el, dq=dq_),          # noqa
                                        points=[dict(p_, nD=p_['ne'] * 0.1) for p_ in base['points']])
            steps = [mk('hydrogen', 0), mk('helium', 0), mk('hydrogen', 0), mk('deuterium', 0), mk('hydrogen', 1), mk('helium', 1)] + steps
        hist = []
        for k, step in enumerate(steps):
            case = step['case']
            desc_step = dict(entry=step['entry'], form=step['form'], provider=step['provider'], element=step['element'], donor=case['donor'],
                             donor_el=case['donor_el'], donor_charge=case['dq'])
            hist.append(desc_step)
            st, res = seq_call(env, shared[step['provider']], step)
            st2, fresh = seq_call(env, env.Mock(None, tables=tables[step['provider']]), step)
            ctx.case(key=('sequence', it, k, step['entry'], case['donor_el'], case['dq'], step['element'], step['provider']),
                     sample=dict(stream='sequence', history=list(hist)) if (k == len(steps) - 1 and rng.random() < 0.3) else None)
            ctx.count('sequence:' + step['entry'])
            desc = dict(kind='sequence', tables=tables, history=list(hist), step=step)
            if st != st2 or (st == 'ok' and res.shape != fresh.shape):
                ctx.fail('C09:%s:call-on-shared-provider:status' % step['entry'],
                         'call %d of a sequence: %s on the shared provider, %s on a fresh one; history %r' % (k, st, st2, hist), desc)
                continue
            if st != 'ok':
                if st.startswith('timeout'):
                    ctx.fail(SIG_NOTERM if st == 'timeout-lsq' else 'C09:%s:timeout' % step['entry'], 'sequence call: no result', desc)
                else:
                    ctx.fail('C09:%s:raised-%s:sequence' % (step['entry'], st), 'sequence call raised %s: %s' % (st, res), desc)
                continue
            sc = float(np.max(np.abs(fresh))) or 1.0
            dev = float(np.max(np.abs(res - fresh))) / sc
            if not dev <= 1e-12:
                ctx.count('S-fail:shared-provider')
                prev = hist[-2] if len(hist) > 1 else None
                ctx.fail('C09:%s:depends-on-earlier-calls' % step['entry'],
                         '%s (element %s, donor %s, donor charge %d, provider %d) returns something else after earlier calls on the same '
                         'provider object than on a fresh provider: max difference %.3g (relative to the largest value); previous call: %r'
                         % (step['entry'], step['element'], case['donor_el'] if case['donor'] else None, case['dq'], step['provider'], dev, prev), desc)
            if not step['entry'].startswith('equilibrium'):
                which = 3 if 'match' in step['entry'] else (2 if 'from_elementdensity' in step['entry'] else 1)
                for j, p_ in enumerate(step['points']):
                    cs = dict(case, ne=p_['ne'], te=p_['te'], nD=p_['nD'], dens=p_['dens'], species=p_['species'])
                    lines.append(point_lines(cs)[which])
                    todo.append((cs, res[j].tolist(), which, desc, j))
    if lines:
        outs = ctx.driver(lines)
        for (cs, impl, which, desc, j), o in zip(todo, outs):
            mod = [b2f(t) for t in o.split()]
            sc = {1: 1.0, 2: cs['dens'], 3: max(max(abs(x) for x in mod), 1e-300) * _mn_amplification(mod)}[which]
            ctx.traces += 1
            ctx.count('K:sequence')
            if len(mod) != len(impl) or not all(abs(x - y) <= K_TOL * sc for x, y in zip(mod, impl)) or (which == 3 and not mn_charge_agrees(mod, impl)):
                ctx.disagreements += 1
                ctx.broke('correspondence', 'C09 stream sequence', dict(index=j, model=mod, implementation=impl, **desc))


# ---------------------------------------------------------------------------------------------------------------
# corpus / replay / run
# ---------------------------------------------------------------------------------------------------------------
def run_point_cases(ctx, env, cases, stream, compare=True):
    lines = []
    for c in cases:
        lines += point_lines(c)
    outs = ctx.driver(lines) if (lines and compare) else []
    mnd = ctx.driver([mnd_line(c) for c in cases]) if (cases and compare) else []
    nprob = 0
    for i, c in enumerate(cases):
        out = exec_point_frac_only(env, c) if c.get('family') == 'wide' else exec_point(env, c)
        key = (stream, c['Z'], c['donor'], c['nD'] > 0, bool(c['p'] or c['q']), c.get('family'), f2b(c['ne']))
        ctx.case(key=key, sample=dict(stream=stream, Z=c['Z'], donor=c['donor'], n_e=c['ne'], t_e=c['te'], n_D=c['nD'],
                                      family=c.get('family'), s=c['s'][:3], a=c['a'][:3], c=c['c'][:3], species=c['species'])
                 if ctx.rng.random() < 0.02 else None)
        ctx.count('point:%s:Z%02d' % (stream, c['Z']))
        ctx.count('point:%s:%s' % (stream, 'donor' if c['donor'] else 'no-donor'))
        if compare:
            compare_point(ctx, c, out, outs[4 * i:4 * i + 4], stream)
            # the model's own dictionary normalisation (`dictToArray`, insertion order as given) against the same call
            st_, v_ = out['mn']
            if st_ == 'ok' and c['species']:
                mod = [b2f(t) for t in mnd[i].split()]
                sc = max(max(abs(x) for x in mod), 1e-300) * _mn_amplification(mod)
                ctx.traces += 1
                ctx.count('K:mnd')
                if len(mod) != len(v_) or not all(abs(x - y) <= K_TOL * sc for x, y in zip(mod, v_)) or not mn_charge_agrees(mod, v_):
                    caps = out.get('cap_mn') or []
                    sdev = solver_deviation(caps[0]) if len(caps) == 1 else None
                    if sdev is not None and sdev > K_TOL / 2:
                        ctx.count('K-excused:lsq_linear-deviation')
                    else:
                        ctx.disagreements += 1
                        ctx.broke('correspondence', 'C09 stream mnd', dict(line=mnd_line(c)[:300], model=mod, implementation=v_, case=c))
        nprob += oracle_point(ctx, c, out, stream)
    return nprob


def load_corpus():
    res = []
    for p in sorted(glob.glob(os.path.join(VERIF, 'corpus', 'C09', '*.json'))):
        d = json.load(open(p))
        res.append((os.path.basename(p), d))
    return res


def run(ctx):
    ctx.rule = ('point cases: element Z in 1..18 (or deuterium), rate tables drawn log-uniformly within +-1 decade or from an ADAS-like '
                'monotone family (total range <= 1.5 decades), constant or (n_e,T_e)-dependent, n_e in 1e17..1e21, T_e in 1..1e4, donor '
                'present/absent, n_D/n_e in 1e-4..1 (or 0), donor charge 0/1, 0-3 other species (12% exceeding n_e); profile cases: every '
                'combination of scalar / 1-D / 2-D ndarray / Function1D (python and raysect-native) / Function2D (+free variable, tuple or list) '
                'for n_e, T_e, n_D (or absent) and element density through the direct, interpolator and equilibrium-mapped entry points, in the '
                'modes affine / scan (exactly one of n_e, T_e, n_D varies, the others constant) / steps (piecewise constant, repeated coordinates), '
                'integer-typed T_e, numpy scalars; species as ndarray or {charge: profile} dicts in ascending / descending / ions-first / shuffled '
                'insertion order with int or numpy-int keys, in a list or tuple; every profile index compared with the model and with a scalar call; '
                'malformed shape combinations; a wide-range stream (rates over 6-10 decades) for the least-squares solver; corpus first; '
                'distinct = (stream, entry point, Z, donor, representations, n_e bit pattern); non-trivial = the implementation was actually '
                'called and its numbers were checked by the oracle')
    ctx.trusted += ['scipy.optimize.lsq_linear is a parameter of the model (SolverSpec: zero-residual point inside the bounds when one exists); '
                    'its convergence is observed, not proved (wide-range stream)',
                    'raysect Interpolator1DArray/2DArray, EFITEquilibrium.map3d, AxisymmetricMapper (compared against, not modelled)',
                    'harness/translators/ionbalance.py (syntactic; its table is validated by the fd/mn correspondence streams)']
    ctx.assumptions += ['rates are positive and finite; n_e > 0; n_D >= 0',
                        'correspondence tolerance %.0e absolute on fractions (relative to the element density for densities); oracle threshold %.0e' % (K_TOL, S_TOL)]
    refuted = None
    # 1. translator
    flags, problems, changed = tr.run()
    ctx.extra['generated_flags'] = flags
    if problems:
        ctx.broke('translator', 'coef_tcx selection not recognised in ionisation_balance.py', problems)
    # 2. T
    ctx.lean_check(['Cherab.Props.C09'], 'Cherab/Audit/C09.lean')
    if ctx.tier == 'thorough':
        import subprocess
        from harness.vlib.util import LEAN
        r = subprocess.run(['lake', 'env', 'leanchecker', 'Cherab.Props.C09'], cwd=LEAN, stdout=subprocess.PIPE,
                           stderr=subprocess.STDOUT, text=True, timeout=1800)
        ctx.extra['leanchecker'] = 'ok' if r.returncode == 0 else 'failed'
        if r.returncode != 0:
            ctx.broke('theorem', 'leanchecker Cherab.Props.C09', r.stdout[-1500:])
    if not problems and not (flags.get('fd') and flags.get('mn')):
        # for the current tree `entry_points_agree_current_tree` is the *refutation*: the model discards a supplied coef_tcx.
        refuted = dict(kind='theorem', name='entry_points_agree (refuted for the tree as it is: entry_points_agree_current_tree = DisagreeSomewhere)',
                       detail='generated flags %r: _from_element_density_point / _match_element_density_point discard the coef_tcx passed by '
                              '_from_elementdensity / _match_plasma_neutrality; Lean witness Z=1, all rates 1, n_e=n_D=1' % flags)
        ctx.broken.append(refuted)
        ctx.log('BROKEN theorem', refuted['name'], refuted['detail'])
    env = _Env.get()
    # 3. corpus first
    for name, d in load_corpus():
        ctx.count('corpus')
        if 'spec' in d:
            pc = build_profile(env, d['spec'])
            ctx.case(key=('corpus', name))
            check_profile(ctx, env, pc, ctx.driver([pc['line']])[0], compare=not d.get('oracle_only'))
        else:
            run_point_cases(ctx, env, [d['case']], 'corpus:' + name, compare=not d.get('oracle_only'))
    # 4. the Lean witness replayed on the implementation (all rates 1e-14 instead of 1 to stay in a physical range)
    wit = dict(Z=1, s=[1e-14], a=[1e-14], c=[1e-14], p=0.0, q=0.0, ne=1e19, te=10.0, nD=1e19, donor=True, dq=0, dens=1e17,
               species=[], family='witness', isotope=False)
    run_point_cases(ctx, env, [wit], 'witness')
    # 5. point stream
    cases = [gen_point_case(ctx.rng, Z=(i % 18) + 1 if i < 36 else None) for i in range(ctx.n(150, 8000))]
    run_point_cases(ctx, env, cases, 'point')
    # 6. profile stream, malformed combinations, derived entry points
    run_profiles(ctx, env, ctx.n(120, 4000))
    run_malformed(ctx, env)
    run_malformed_density(ctx, env, ctx.n(40, 400))
    run_layouts(ctx, env, ctx.n(36, 600))
    run_entry_agreement(ctx, env, ctx.n(24, 300))
    run_extreme(ctx, env, ctx.n(80, 2000))
    run_sequences(ctx, env, ctx.n(12, 150))
    # 7. solver robustness on wide-range rate tables (S only)
    wide = [gen_point_case(ctx.rng, wide=True) for _ in range(ctx.n(40, 500))]
    for c in wide:
        c['donor'] = False
        c['nD'] = 0.0
        c['species'] = []
    nw = 0
    for c in wide:
        out = exec_point_frac_only(env, c)
        ctx.case(key=('wide', c['Z'], f2b(c['ne'])))
        ctx.count('point:wide')
        nw += oracle_point(ctx, c, out, 'wide')
    ctx.extra['wide_stream_failures'] = nw
    # the refuted theorem is explained by a failing input listed in known_findings.json (if the main author lists it)
    if refuted is not None and any(k['signature'].endswith(':donor-cx-rates-discarded') for k in ctx.known_hits) \
            and not any(f['signature'].endswith(':donor-cx-rates-discarded') for f in ctx.failing):
        refuted['explained_by_known'] = True


def exec_point_frac_only(env, case):
    """wide-range stream: only fractional_abundance, with the short time limit"""
    ad = env.Mock(case)
    _LIMIT[0] = WIDE_LIMIT
    try:
        st, r = guarded(env.ib.fractional_abundance, ad, env.element(case), case['ne'], case['te'],
                        tcx_donor=env.donor(case),
                        tcx_donor_n=case['nD'] if case['donor'] else None, tcx_donor_charge=case['dq'])
    finally:
        _LIMIT[0] = CALL_LIMIT
    return dict(frac=(st, _vec(r, case['Z']) if st == 'ok' else r), cap=list(CAP), queries=list(ad.queries),
                fd=('skip', None), mn=('skip', None), limit=WIDE_LIMIT)


def replay(ctx, path):
    r = json.load(open(path))
    print(json.dumps({k: r[k] for k in r if k != 'broken'}, indent=1, default=str)[:3000])
    rp = r.get('replay') or {}
    env = _Env.get()
    if rp.get('kind') == 'point' and 'case' in rp:
        n = run_point_cases(ctx, env, [rp['case']], 'replay', compare=False)
        print('replay: %d problem(s) reproduced on the current tree' % n)
        return ctx.finish()
    if rp.get('kind') == 'profile' and 'spec' in rp:
        n = check_profile(ctx, env, build_profile(env, rp['spec']), None, compare=False)
        ctx.case(key=('replay', 'profile'))
        print('replay: %d problem(s) reproduced on the current tree' % n)
        return ctx.finish()
    run(ctx)
    return ctx.finish()
