import Cherab.Props.C06TableAdd
open Cherab.Props.C06Table
#print axioms add_matches_update
