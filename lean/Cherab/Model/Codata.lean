/-
Hand-written reference values, CODATA 2018 (NIST SP 961, May 2019; https://physics.nist.gov/cuu/Constants/Table/allascii.txt
of the 2018 adjustment).  Written from the published table, NOT from cherab's source.  Mathlib-free.

`Dec m e` denotes the decimal `m · 10^e`.  Since the 2019 SI, `e`, `h`, `c` are exact by definition; the others are
measured and listed with all published digits (standard uncertainty in the comment, in units of the last digits).
-/
namespace Cherab.Codata

structure Dec where
  mant : Nat
  exp10 : Int
  deriving DecidableEq, Repr

/-- elementary charge, C — exact (SI definition) -/
def elementaryCharge : Dec := ⟨1602176634, -28⟩          -- 1.602 176 634 e-19
/-- speed of light in vacuum, m/s — exact -/
def speedOfLight : Dec := ⟨299792458, 0⟩
/-- Planck constant, J s (= J/Hz) — exact -/
def planck : Dec := ⟨662607015, -42⟩                      -- 6.626 070 15 e-34
/-- atomic mass constant, kg: 1.660 539 066 60(50) e-27 -/
def atomicMass : Dec := ⟨166053906660, -38⟩
/-- classical electron radius, m: 2.817 940 3262(13) e-15 -/
def electronClassicalRadius : Dec := ⟨28179403262, -25⟩
/-- electron mass, kg: 9.109 383 7015(28) e-31 -/
def electronMass : Dec := ⟨91093837015, -41⟩
/-- Rydberg constant times hc in eV: 13.605 693 122 994(26) -/
def rydbergEv : Dec := ⟨13605693122994, -12⟩
/-- vacuum electric permittivity, F/m: 8.854 187 8128(13) e-12 -/
def vacuumPermittivity : Dec := ⟨88541878128, -22⟩
/-- Bohr magneton in eV/T: 5.788 381 8060(17) e-5 -/
def bohrMagnetonEv : Dec := ⟨57883818060, -15⟩
/-- standard uncertainty of the Bohr magneton in eV/T: 0.000 000 0017 e-5 -/
def bohrMagnetonEvUnc : Dec := ⟨17, -15⟩

/-- Euler–Mascheroni constant to 16 decimals (gaunt.pyx `EULER_GAMMA`): 0.5772156649015329 -/
def eulerGamma : Dec := ⟨5772156649015329, -16⟩

end Cherab.Codata
