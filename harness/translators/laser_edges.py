"""C18 translator: /repo's laser profile / spectrum classes (.pyx) -> lean/Cherab/Gen/LaserEdges.lean

Purely syntactic (indentation / regex scanner; Cython is not Python, `ast` cannot parse it).  For each of the six
classes of the property (and their bases LaserProfile / LaserSpectrum, which are inlined) it extracts

* every property setter: the guard it starts with, the `self._f = rhs` writes (in order, rhs classified against the
  short list of right-hand sides the Lean interpreter understands), and the refresh calls it performs
  (`self._function_changed()`, `self.notifier.notify()`, `self._update_cache()`, `self.set_energy_density_function(`);
* every getter (`@property` and `cpdef ... get_*`) and the field it returns;
* the fields read by the rebuild code (`_function_changed`, or `_update_cache` closed over the `self.m(...)` calls it
  makes, resolved most-derived-first), minus the fields the rebuild itself assigns;
* which of those fields the rebuilt inner function validates as `> 0` in *its* constructor (math_functions.pyx);
* the two properties `generate_geometry` passes to `generate_segmented_cylinder`, resolved to fields;
* the constructor as a list of operations (field initialisations, setter calls, base-class constructor inlined);
* SPEED_OF_LIGHT from cherab/core/utility/constants.pyx.

Anything it does not recognise becomes an `unknown` entry, which makes the `tables_understood` theorem fail rather
than being silently dropped.
"""
import os
import re

REPO = '/repo'
FILES = {
    'profile_base': 'cherab/core/laser/profile.pyx',
    'spectrum_base': 'cherab/core/laser/laserspectrum.pyx',
    'profile': 'cherab/core/model/laser/profile.pyx',
    'spectrum': 'cherab/core/model/laser/laserspectrum.pyx',
    'math': 'cherab/core/model/laser/math_functions.pyx',
    'constants': 'cherab/core/utility/constants.pyx',
}
PROFILES = ['UniformEnergyDensity', 'ConstantBivariateGaussian', 'TrivariateGaussian', 'GaussianBeamAxisymmetric']
SPECTRA = ['ConstantSpectrum', 'GaussianSpectrum']

RHS = {
    'value': 'value',
    'self._pulse_length * SPEED_OF_LIGHT': 'timesC',
    '1 / value': 'recip',
    '1 / (value * sqrt(2 * M_PI))': 'gaussNorm',
    '1 / (value * M_SQRT2)': 'gaussCdfNorm',
}
REFRESH = [
    (re.compile(r'^self\._function_changed\(\)$'), 'functionChanged'),
    (re.compile(r'^self\.notifier\.notify\(\)$'), 'notify'),
    (re.compile(r'^self\._update_cache\(\)$'), 'updateCache'),
    (re.compile(r'^self\.set_energy_density_function\((\w+)\)$'), 'setEnergyFn'),
]


# ------------------------------------------------------------------------------------------------ scanner
def strip_code(src):
    """remove docstrings and comments, keep line structure"""
    src = re.sub(r'("""|\'\'\')(.*?)\1', lambda m: '\n' * m.group(0).count('\n'), src, flags=re.S)
    out = []
    for line in src.split('\n'):
        # no '#' inside string literals in the statements we care about; error messages may contain none either
        i = line.find('#')
        if i >= 0 and line[:i].count('"') % 2 == 0 and line[:i].count("'") % 2 == 0:
            line = line[:i]
        out.append(line.rstrip())
    return out


def logical_lines(lines):
    """join continuation lines (open brackets); returns list of (indent, text, lineno)"""
    res = []
    buf = ''
    depth = 0
    start = 0
    for no, line in enumerate(lines, 1):
        if not line.strip() and not buf:
            continue
        if not buf:
            start = no
            buf = line
        else:
            buf += ' ' + line.strip()
        depth = buf.count('(') + buf.count('[') + buf.count('{') - buf.count(')') - buf.count(']') - buf.count('}')
        if depth <= 0 and not buf.rstrip().endswith('\\'):
            ind = len(buf) - len(buf.lstrip())
            res.append((ind, re.sub(r'\s+', ' ', buf.strip()), start))
            buf = ''
    return res


_CLASS = re.compile(r'^(?:cdef\s+)?class\s+(\w+)\s*(?:\(([\w\.]*)\))?\s*:')
_DEF = re.compile(r'^(def|cpdef|cdef)\s+(?:[\w\[\]:\.\*]+\s+)*?(\w+)\s*\((.*)\)\s*(?:except.*)?:$')


def parse_classes(path):
    """-> {class: dict(base=, methods=[dict(name, kind, decorators, params, body=[(indent,text,line)], line)])}"""
    ll = logical_lines(strip_code(open(os.path.join(REPO, path)).read()))
    classes = {}
    cur = None
    meth = None
    decos = []
    for ind, text, no in ll:
        m = _CLASS.match(text) if ind == 0 else None
        if m:
            cur = dict(base=m.group(2) or '', methods=[], file=path, line=no)
            classes[m.group(1)] = cur
            meth = None
            decos = []
            continue
        if ind == 0:
            cur = None
            meth = None
            continue
        if cur is None:
            continue
        if ind == 4:
            if text.startswith('@'):
                decos.append(text[1:])
                meth = None
                continue
            d = _DEF.match(text)
            if d:
                meth = dict(name=d.group(2), kind=d.group(1), decorators=decos, params=_params(d.group(3)), body=[], line=no)
                cur['methods'].append(meth)
                decos = []
                continue
            meth = None           # class-level statement (cdef: block etc.)
            decos = []
            continue
        if meth is not None and ind >= 8:
            meth['body'].append((ind, text, no))
    return classes


def _params(s):
    out = []
    depth = 0
    cur = ''
    for ch in s:
        if ch in '([':
            depth += 1
        if ch in ')]':
            depth -= 1
        if ch == ',' and depth == 0:
            out.append(cur)
            cur = ''
        else:
            cur += ch
    if cur.strip():
        out.append(cur)
    res = []
    for p in out:
        p = p.strip()
        default = None
        if '=' in p:
            p, default = [t.strip() for t in p.split('=', 1)]
        name = p.split()[-1]
        res.append((name, default))
    return res


# --------------------------------------------------------------------------------------------- extraction
def _mro(classes, name):
    out = []
    while name in classes:
        out.append(name)
        name = classes[name]['base']
    return out


def _find_method(classes, cls, name, want_deco=None):
    for c in _mro(classes, cls):
        for m in classes[c]['methods']:
            if m['name'] == name and (want_deco is None or want_deco in m['decorators']):
                return c, m
    return None, None


_ASSIGN = re.compile(r'^self\.(_\w+)\s*=\s*(.+)$')
_FIELD = re.compile(r'self\.(_\w+)\b(?!\s*\()')
_SELFCALL = re.compile(r'self\.(\w+)\s*\(')
_SELFPROP = re.compile(r'self\.([a-z]\w*)\b(?!\s*[\(\.])')


def setter_row(m):
    pname = m['params'][1][0] if len(m['params']) > 1 else 'value'
    body = m['body']
    guard, guard_line = 'none', None
    writes, refresh, unknown = [], [], []
    i = 0
    first_write_line = None
    first_refresh_line = None
    order_ok = True
    while i < len(body):
        ind, text, no = body[i]
        text_v = re.sub(r'\b%s\b' % re.escape(pname), 'value', text)
        if re.match(r'^if value <= 0\s*:$', text_v) and i + 1 < len(body) and body[i + 1][1].startswith('raise ValueError'):
            guard, guard_line = 'positive', no
            i += 2
            continue
        if text_v == 'self._check_wavelength_validity(value, self.max_wavelength)':
            guard, guard_line = 'rangeMin', no
            i += 1
            continue
        if text_v == 'self._check_wavelength_validity(self.min_wavelength, value)':
            guard, guard_line = 'rangeMax', no
            i += 1
            continue
        a = _ASSIGN.match(text_v)
        if a:
            rhs = RHS.get(a.group(2).strip(), 'unknown')
            writes.append((a.group(1), rhs, a.group(2).strip()))
            if first_write_line is None:
                first_write_line = no
            if first_refresh_line is not None:
                order_ok = False
            i += 1
            continue
        hit = False
        for rx, nm in REFRESH:
            if rx.match(text_v):
                refresh.append(nm)
                if first_refresh_line is None:
                    first_refresh_line = no
                hit = True
                break
        if hit:
            i += 1
            continue
        if re.match(r'^funct = Constant3D\(value\)$', text_v):     # UniformEnergyDensity: local later passed to set_energy_density_function
            i += 1
            continue
        unknown.append(text)
        i += 1
    guard_first = guard == 'none' or first_write_line is None or guard_line < first_write_line
    if unknown or not order_ok:
        guard = 'unknown'
    return dict(guard=guard, guardFirst=guard_first, writes=writes, refresh=refresh, unknown=unknown, line=m['line'])


def fields_read(classes, cls, method, seen=None):
    """fields read by `method` of `cls` (resolved through the MRO), closed over self.m(...) calls and self.prop reads;
    returns (reads, writes)"""
    seen = seen if seen is not None else set()
    owner, m = _find_method(classes, cls, method)
    if m is None or (owner, method) in seen:
        return [], []
    seen.add((owner, method))
    reads, writes = [], []
    for ind, text, no in m['body']:
        a = _ASSIGN.match(text)
        rhs_text = text
        if a:
            if a.group(1) not in writes:
                writes.append(a.group(1))
            rhs_text = a.group(2)
        elif re.match(r'^self\.\w+\s*=', text):
            rhs_text = text.split('=', 1)[1]
        for f in _FIELD.findall(rhs_text):
            if f not in reads and f not in writes:
                reads.append(f)
        for p in _SELFPROP.findall(rhs_text):
            _, g = _find_method(classes, cls, p, 'property')
            if g is not None:
                fld = getter_field(g)
                if fld and fld not in reads and fld not in writes:
                    reads.append(fld)
        for callee in _SELFCALL.findall(rhs_text):
            r2, w2 = fields_read(classes, cls, callee, seen)
            for f in r2:
                if f not in reads and f not in writes:
                    reads.append(f)
    return reads, writes


def getter_field(m):
    if len(m['body']) == 1:
        r = re.match(r'^return self\.(_\w+)$', m['body'][0][1])
        if r:
            return r.group(1)
    return None


def inner_positive(classes_math, ctor_call):
    """`Inner3D(self._a, self._b)` -> fields among the arguments whose inner setter starts with a positivity guard"""
    m = re.match(r'^(\w+)\((.*)\)$', ctor_call)
    if not m or m.group(1) not in classes_math:
        return None
    inner = m.group(1)
    args = [a.strip() for a in m.group(2).split(',')]
    _, init = _find_method(classes_math, inner, '__init__')
    params = [p for p, _ in init['params'][1:]]
    pos = []
    for p, a in zip(params, args):
        _, st = _find_method(classes_math, inner, p, p + '.setter')
        if st is None:
            continue
        vn = st['params'][1][0] if len(st['params']) > 1 else 'value'
        b = st['body']
        guarded = (len(b) >= 2 and re.match(r'^if %s <= 0\s*:$' % re.escape(vn), b[0][1]) is not None
                   and b[1][1].startswith('raise ValueError'))
        fa = re.match(r'^self\.(_\w+)$', a)
        if guarded and fa:
            pos.append(fa.group(1))
    return pos


_LIT = re.compile(r'^(\d*)\.?(\d*)(?:[eE]([+-]?\d+))?$')


def literal(s):
    """decimal literal -> (mantissa, negative-exponent) with value = mantissa * 10^-e ; None if not a plain literal"""
    s = s.strip()
    m = _LIT.match(s)
    if not m or not (m.group(1) or m.group(2)):
        return None
    ip, fp, ex = m.group(1) or '', m.group(2) or '', int(m.group(3) or 0)
    mant = int((ip + fp) or '0')
    e = len(fp) - ex
    if e < 0:
        mant *= 10 ** (-e)
        e = 0
    return mant, e


def ctor_ops(classes, cls, argmap=None, depth=0):
    owner, init = _find_method(classes, cls, '__init__')
    if init is None:
        return [], []
    params = [p for p, _ in init['params'][1:]]
    argmap = argmap or {p: p for p in params}
    ops = []
    for ind, text, no in init['body']:
        m = re.match(r'^super\(\)\.__init__\((.*)\)$', text)
        if m:
            base = classes[owner]['base']
            if base in classes:
                _, binit = _find_method(classes, base, '__init__')
                bparams = [p for p, _ in binit['params'][1:]]
                bargs = [a.strip() for a in m.group(1).split(',')] if m.group(1).strip() else []
                sub, _ = ctor_ops(classes, base, {bp: argmap.get(a, a) for bp, a in zip(bparams, bargs)}, depth + 1)
                ops += sub
            continue
        a = _ASSIGN.match(text)
        if a:
            rhs = a.group(2).strip()
            lit = literal(rhs)
            if lit is not None:
                ops.append(('init', a.group(1), lit))
            elif rhs in argmap:
                ops.append(('initArg', a.group(1), argmap[rhs]))
            else:
                ops.append(('other', text))
            continue
        s = re.match(r'^self\.([a-z]\w*)\s*=\s*(\w+)$', text)
        if s and _find_method(classes, cls, s.group(1), s.group(1) + '.setter')[1] is not None and s.group(2) in argmap:
            ops.append(('set', s.group(1), argmap[s.group(2)]))
            continue
        c = re.match(r'^self\._check_wavelength_validity\((\w+), (\w+)\)$', text)
        if c and c.group(1) in argmap and c.group(2) in argmap:
            ops.append(('checkRange', argmap[c.group(1)], argmap[c.group(2)]))
            continue
        if re.match(r'^self\.(set_polarization|set_pointing_function)\(', text) or text == 'self.notifier = Notifier()':
            ops.append(('other', text))
            continue
        ops.append(('unknown', text))
    return ops, params


BINPSD = {
    ('return 0.5 * (self.evaluate(wavelength_lower) + self.evaluate(wavelength_upper))',): 'trapezoid',
    ('val_lower = erf((wavelength_lower - self._mean) * self._norm_cdf)',
     'val_upper = erf((wavelength_upper - self._mean) * self._norm_cdf)',
     'return 0.5 * (val_upper - val_lower) / self._delta_wavelength'): 'gaussErf',
    ('return 1.0 / (self._max_wavelength - self._min_wavelength)',): 'constDensity',
}
EVALKIND = {
    ('if self._min_wavelength <= x <= self._max_wavelength:', 'return 1.0 / (self._max_wavelength - self._min_wavelength)',
     'else:', 'return 0'): 'constStep',
    ('return self._normalisation * exp(-0.5 * ((x - self._mean) * self._recip_stddev) ** 2)',): 'gauss',
}


def body_key(m):
    """statements of a method body without cdef declaration blocks"""
    out = []
    for ind, text, no in m['body']:
        if text.startswith('cdef') or re.match(r'^(double|int|Py_ssize_t)\s+[\w, ]+$', text):
            continue
        out.append(text)
    return tuple(out)


def extract():
    cp = parse_classes(FILES['profile_base'])
    cp.update(parse_classes(FILES['profile']))
    cs = parse_classes(FILES['spectrum_base'])
    cs.update(parse_classes(FILES['spectrum']))
    cm = parse_classes(FILES['math'])
    table = []
    for cls in PROFILES + SPECTRA:
        classes = cp if cls in PROFILES else cs
        if cls not in classes:
            continue
        setters, getters = [], []
        seen_s, seen_g = set(), set()
        for c in _mro(classes, cls):
            for m in classes[c]['methods']:
                sd = [d for d in m['decorators'] if d.endswith('.setter')]
                if sd and m['name'] not in seen_s:
                    seen_s.add(m['name'])
                    row = setter_row(m)
                    row.update(prop=m['name'], owner=c)
                    setters.append(row)
                elif 'property' in m['decorators'] and m['name'] not in seen_g:
                    seen_g.add(m['name'])
                    getters.append(dict(name=m['name'], field=getter_field(m) or '?', isProperty=True, owner=c, line=m['line']))
                elif m['kind'] == 'cpdef' and m['name'].startswith('get_') and len(m['params']) == 1 and m['name'] not in seen_g:
                    seen_g.add(m['name'])
                    getters.append(dict(name=m['name'], field=getter_field(m) or '?', isProperty=False, owner=c, line=m['line']))
        # rebuild
        rebuild_reads, rebuild_pos = [], []
        if cls in PROFILES:
            _, fc = _find_method(classes, cls, '_function_changed')
            if fc is not None:
                rebuild_reads, w = fields_read(classes, cls, '_function_changed')
                for ind, text, no in fc['body']:
                    a = re.match(r'^self\._distribution = (.+)$', text)
                    if a:
                        rebuild_pos = inner_positive(cm, a.group(1).strip())
                        if rebuild_pos is None:
                            rebuild_pos = ['?']
            else:
                # the energy function is built inside a setter from the value it stores
                for s in setters:
                    if 'setEnergyFn' in s['refresh']:
                        rebuild_reads += [f for f, r, _ in s['writes'] if r == 'value']
        else:
            rebuild_reads, w = fields_read(classes, cls, '_update_cache')
        # geometry
        geom = []
        _, gg = _find_method(classes, cls, 'generate_geometry')
        if gg is not None and cls in PROFILES:
            for ind, text, no in gg['body']:
                g = re.match(r'^return generate_segmented_cylinder\(self\.(\w+), self\.(\w+)\)$', text)
                if g:
                    for p in g.groups():
                        _, gm = _find_method(classes, cls, p, 'property')
                        geom.append(getter_field(gm) if gm else '?')
                else:
                    geom.append('?')
        binpsd, evalkind = 'none', 'none'
        if cls in SPECTRA:
            _, bm = _find_method(classes, cls, '_get_bin_power_spectral_density')
            binpsd = BINPSD.get(body_key(bm), 'unknown') if bm else 'unknown'
            _, em = _find_method(classes, cls, 'evaluate')
            evalkind = EVALKIND.get(body_key(em), 'unknown') if em else 'unknown'
        ops, params = ctor_ops(classes, cls)
        _, init_m = _find_method(classes, cls, '__init__')
        defaults = {n: d for n, d in (init_m['params'][1:] if init_m else []) if d is not None}
        table.append(dict(name=cls, isSpectrum=cls in SPECTRA, binPsd=binpsd, evaluate=evalkind, setters=setters, getters=getters,
                          rebuildReads=rebuild_reads, rebuildPositive=rebuild_pos, geometryReads=geom,
                          ctorArgs=params, ctorDefaults=defaults, ctor=ops, file=classes[cls]['file'], line=classes[cls]['line']))
    src = open(os.path.join(REPO, FILES['constants'])).read()
    m = re.search(r'SPEED_OF_LIGHT\s*=\s*([0-9.eE+-]+)', src)
    c = literal(m.group(1)) if m else None
    return dict(classes=table, speed_of_light=c, speed_of_light_text=m.group(1) if m else None)


# -------------------------------------------------------------------------------------------------- emit
def _s(x):
    return '"%s"' % x


def _list(xs):
    return '[' + ', '.join(xs) + ']'


def emit(t):
    L = []
    L.append('/- GENERATED by harness/translators/laser_edges.py from /repo (do not edit). -/')
    L.append('import Cherab.Model.Laser')
    L.append('namespace Cherab.Gen.LaserEdges')
    L.append('open Cherab.Laser')
    L.append('')
    c = t['speed_of_light']
    L.append('/-- SPEED_OF_LIGHT = %s (cherab/core/utility/constants.pyx) as mantissa, negative decimal exponent -/' % t['speed_of_light_text'])
    L.append('def speedOfLight : Nat × Nat := (%d, %d)' % (c if c else (0, 0)))
    L.append('')
    names = []
    for k in t['classes']:
        nm = 'cls' + k['name']
        names.append(nm)
        L.append('/-- %s (%s:%d) -/' % (k['name'], k['file'], k['line']))
        L.append('def %s : Cls where' % nm)
        L.append('  name := %s' % _s(k['name']))
        L.append('  isSpectrum := %s' % ('true' if k['isSpectrum'] else 'false'))
        L.append('  binPsd := BinPsd.%s' % k['binPsd'])
        L.append('  evaluate := EvalKind.%s' % k['evaluate'])
        L.append('  setters := [')
        rows = []
        for s in k['setters']:
            ws = _list(['(%s, Rhs.%s)' % (_s(f), r) for f, r, _ in s['writes']])
            rf = _list(['Refresh.%s' % r for r in s['refresh']])
            cm = '    -- %s.%s (line %d): ' % (s['owner'], s['prop'], s['line']) + '; '.join('%s = %s' % (f, txt) for f, _, txt in s['writes'])
            if s['unknown']:
                cm += '   UNRECOGNISED: ' + ' | '.join(s['unknown'])
            rows.append(cm + '\n    { prop := %s, guard := Guard.%s, guardFirst := %s, writes := %s, refresh := %s }'
                        % (_s(s['prop']), s['guard'], 'true' if s['guardFirst'] else 'false', ws, rf))
        L.append(',\n'.join(rows) + ']')
        L.append('  getters := [')
        L.append(',\n'.join('    -- %s line %d\n    { name := %s, field := %s, isProperty := %s }'
                            % (g['owner'], g['line'], _s(g['name']), _s(g['field']), 'true' if g['isProperty'] else 'false')
                            for g in k['getters']) + ']')
        L.append('  rebuildReads := %s' % _list([_s(f) for f in k['rebuildReads']]))
        L.append('  rebuildPositive := %s' % _list([_s(f) for f in k['rebuildPositive']]))
        L.append('  geometryReads := %s' % _list([_s(f) for f in k['geometryReads']]))
        L.append('  ctorArgs := %s' % _list([_s(f) for f in k['ctorArgs']]))
        ops = []
        for o in k['ctor']:
            if o[0] == 'init':
                ops.append('CtorOp.init %s %d %d' % (_s(o[1]), o[2][0], o[2][1]))
            elif o[0] == 'initArg':
                ops.append('CtorOp.initArg %s %s' % (_s(o[1]), _s(o[2])))
            elif o[0] == 'set':
                ops.append('CtorOp.set %s %s' % (_s(o[1]), _s(o[2])))
            elif o[0] == 'checkRange':
                ops.append('CtorOp.checkRange %s %s' % (_s(o[1]), _s(o[2])))
            elif o[0] == 'other':
                ops.append('CtorOp.other %s' % _s(o[1].replace('"', "'")))
            else:
                ops.append('CtorOp.unknown %s' % _s(o[1].replace('"', "'")))
        L.append('  ctor := [\n    ' + ',\n    '.join(ops) + ']')
        L.append('')
    L.append('def profiles : List Cls := %s' % _list(['cls' + k['name'] for k in t['classes'] if not k['isSpectrum']]))
    L.append('def spectra : List Cls := %s' % _list(['cls' + k['name'] for k in t['classes'] if k['isSpectrum']]))
    L.append('def classes : List Cls := profiles ++ spectra')
    L.append('')
    L.append('end Cherab.Gen.LaserEdges')
    return '\n'.join(L) + '\n'


def generate():
    """regenerate the Lean table; returns (table, changed)"""
    from harness.vlib import lean
    from harness.vlib.util import LEAN
    t = extract()
    changed = lean.write_if_changed(os.path.join(LEAN, 'Cherab', 'Gen', 'LaserEdges.lean'), emit(t))
    return t, changed


if __name__ == '__main__':
    import json
    import sys
    t = extract()
    if len(sys.argv) > 1 and sys.argv[1] == '--lean':
        print(emit(t))
    else:
        print(json.dumps(t, indent=1))
