import Cherab.Drv.Proto
import Cherab.Model.LineShape
open Cherab.Drv Cherab.LineShape

/-! C02 driver: the definitions of `Cherab.Model.LineShape` at `Float`.

`erfF` is the driver's own error function (libm's `erf` is not reachable from Lean): positive-term series
`erf x = 2/√π · e^{−x²} · Σ 2ⁿ x^{2n+1}/(2n+1)!!` below 2.5, Laplace continued fraction for `erfc` above.
The harness compares it with `math.erf` on 10⁴ points on every run. -/

def twoOverSqrtPi : Float := 1.1283791670955126
def oneOverSqrtPi : Float := 0.5641895835477563

def erfSeries (x : Float) : Float := Id.run do
  let x2 := 2.0 * x * x
  let mut term := x
  let mut sum := x
  for n in [0:200] do
    term := term * x2 / (2.0 * n.toFloat + 3.0)
    sum := sum + term
    if term < 1e-18 * sum then break
  return twoOverSqrtPi * Float.exp (-(x * x)) * sum

def erfcCF (x : Float) : Float := Id.run do
  let mut t := x
  for i in [0:120] do
    let k := (120 - i).toFloat
    t := x + (0.5 * k) / t
  return oneOverSqrtPi * Float.exp (-(x * x)) / t

def erfF (x : Float) : Float :=
  if x.isNaN then x else
  let ax := x.abs
  let v := if ax < 2.5 then erfSeries ax else if ax < 6.0 then 1.0 - erfcCF ax else 1.0
  if x < 0.0 then -v else v

def floorI (x : Float) : Int := (Float.floor x).toInt64.toInt
def ceilI (x : Float) : Int := (Float.ceil x).toInt64.toInt

def fns : Fns Float :=
  { sqrt := Float.sqrt, pow := Float.pow, exp := Float.exp, log := Float.log, erf := erfF,
    floorI := floorI, ceilI := ceilI, sqrt2 := 1.41421356237309504880 }

def K : Consts Float := consts

structure St where
  cutG : Float := 10.0
  cutL : Float := 50.0
  normC : Float := 1.0
  rtol : Float := 1e-5
  rules : List (List (Float × Float)) := []
  tab : List (List (Float × Float)) := []          -- roots_legendre(k), k = 1 … (index k-1)
  gq : GQ Float := { minO := 1, maxO := 1, rtol := 1e-5, roots := [], weights := [] }
  objI : Bool := false                             -- line shapes integrate with the GaussianQuadrature object `gq`
  exact : Bool := false                            -- reference mode: exact (closed-form) bin integral, no clipping
  cdf : Bool := false                              -- post-fix variant of add_lorentzian_line (notes/fixes/C02-1.diff)
  gtab : List (Float × Float × Float) := []        -- (wavelength, x, cumulative) supplied by the harness

/-- the integrator handed to `add_lorentzian_line`: `GaussianQuadrature` over `StarkFunction` -/
def lookupG (st : St) (wl x : Float) : Float :=
  match st.gtab.find? (fun p => p.1.toBits == wl.toBits && p.2.1.toBits == x.toBits) with
  | some p => p.2.2
  | none => 0.0 / 0.0

def tableOf (st : St) (k : Nat) : List (Float × Float) := if k = 0 then [] else st.tab.getD (k - 1) []

def gqState (g : GQ Float) : String := s!"{g.minO} {g.maxO} {fF g.rtol}"

def starkI (st : St) : Float → Float → Float → Float → Float :=
  fun wl fwhm a b =>
    if st.objI then gqEval (starkFunction fns st.normC wl fwhm) st.gq a b
    else if st.exact then (1.0 / st.normC) * (lookupG st wl b - lookupG st wl a)
    else if st.cdf then
      -- the patched bin integral: closed-form cumulative, clipped at the cut-offs
      (1.0 / st.normC) * (lookupG st wl (minv b (wl + st.cutL * fwhm)) - lookupG st wl (maxv a (wl - st.cutL * fwhm)))
    else gaussQuad (starkFunction fns st.normC wl fwhm) st.rtol st.rules a b

def parseTriples : Nat → List Float → List (Float × Float × Float)
  | 0, _ => []
  | k + 1, a :: b :: c :: t => (a, b, c) :: parseTriples k t
  | _, _ => []

def parseRules : Nat → List String → List (List (Float × Float))
  | 0, _ => []
  | k + 1, ts =>
    match ts with
    | [] => []
    | n :: rest =>
      let n := pN n
      let roots := (rest.take n).map pF
      let ws := ((rest.drop n).take n).map pF
      (roots.zip ws) :: parseRules k (rest.drop (2 * n))

def parseSpec (ts : List String) : Spec Float :=
  match ts with
  | mn :: mx :: dl :: bins :: rest =>
    { mn := pF mn, mx := pF mx, dl := pF dl, bins := pN bins, samples := (rest.take (pN bins)).map pF }
  | _ => { mn := 0, mx := 0, dl := 1, bins := 0, samples := [] }

def parsePol (s : String) : Pol := if s == "pi" then Pol.pi else if s == "sigma" then Pol.sigma else Pol.no

def parseEnv (f : List Float) : Env Float :=
  match f with
  | [wl, aw, ts, vx, vy, vz, dx, dy, dz, bx, b_y, bz, ne, te] =>
    { wl := wl, aw := aw, ts := ts, vel := (vx, vy, vz), dir := (dx, dy, dz), b := (bx, b_y, bz), ne := ne, te := te }
  | _ => { wl := 0, aw := 1, ts := 0, vel := (0, 0, 0), dir := (1, 0, 0), b := (0, 0, 0), ne := 0, te := 0 }

def parsePairs : Nat → List Float → List (Float × Float)
  | 0, _ => []
  | k + 1, a :: b :: t => (a, b) :: parsePairs k t
  | _, _ => []

/-- `n (wl ratio)*n` → pairs and the remaining tokens -/
def takeTable (ts : List String) : List (Float × Float) × List String :=
  match ts with
  | [] => ([], [])
  | n :: rest =>
    let n := pN n
    (parsePairs n ((rest.take (2 * n)).map pF), rest.drop (2 * n))

def run (st : St) (cs : List (Comp Float)) (sp : Spec Float) : String :=
  fFs (addComps fns (starkI st) st.cutG st.cutL cs sp).samples

def polyEval (cs : List Float) (x : Float) : Float := cs.foldr (fun c acc => c + x * acc) 0.0

def step (st : St) (ts : List String) : St × String :=
  match ts with
  | ["cfg", cg, cl, nc, rt] => ({ st with cutG := pF cg, cutL := pF cl, normC := pF nc, rtol := pF rt }, "ok")
  | "rules" :: k :: rest => ({ st with rules := parseRules (pN k) rest }, "ok")
  | "zn" :: rest =>
      -- ZeemanStructure.evaluate: normalised (wavelength, ratio) table, wavelengths first then ratios (numpy 2xN layout)
      let (tab, _) := takeTable rest
      let t := zeemanNormalise tab
      (st, fFs (t.map (·.1) ++ t.map (·.2)))
  | "gqtab" :: k :: rest => ({ st with tab := parseRules (pN k) rest }, "ok")
  | ["gqnew", mn, mx, rt] =>
      let g := gqNew (tableOf st) (pN mn) (pN mx) (pF rt)
      ({ st with gq := g }, gqState g)
  | ["gqset", what, v] =>
      let op : GQOp Float := if what == "min" then .setMin (pI v) else if what == "max" then .setMax (pI v) else .setRtol (pF v)
      let (g, raised) := gqSet (tableOf st) st.gq op
      ({ st with gq := g }, s!"{fB raised} {gqState g}")
  | ["obji", b] => ({ st with objI := pB b }, "ok")
  | "gqe" :: "poly" :: a :: b :: cs => (st, fF (gqEval (polyEval (cs.map pF)) st.gq (pF a) (pF b)))
  | ["gqe", "stark", a, b, x0, fw] => (st, fF (gqEval (starkFunction fns st.normC (pF x0) (pF fw)) st.gq (pF a) (pF b)))
  | ["gqe", "exp", a, b, k] => (st, fF (gqEval (fun x => Float.exp (pF k * x)) st.gq (pF a) (pF b)))
  | ["gqe", "runge", a, b, k] => (st, fF (gqEval (fun x => 1.0 / (1.0 + pF k * x * x)) st.gq (pF a) (pF b)))
  | ["mode", m] => ({ st with cdf := m == "cdf", exact := m == "exact" }, "ok")
  | "llx" :: r :: wl :: fw :: rest =>
      -- reference: the same add_lorentzian_line model with the *exact* bin integral (cumulative values from the harness)
      let sp := parseSpec rest
      let (tab, _) := takeTable (rest.drop (4 + sp.bins))
      let G : Float → Float := fun x =>
        match tab.find? (fun p => p.1.toBits == x.toBits) with
        | some p => p.2
        | none => 0.0 / 0.0
      let I : Float → Float → Float → Float → Float := fun _ _ a b => (1.0 / st.normC) * (G b - G a)
      (st, fFs (addLorentzianLine fns I st.cutL (pF r) (pF wl) (pF fw) sp).samples)
  | "gtab" :: n :: rest => ({ st with gtab := parseTriples (pN n) (rest.map pF) }, "ok")
  | "mc" :: pol :: r :: rest =>
      -- the Lorentzian components StarkBroadenedLine hands to add_lorentzian_line: "rad wl width" each
      let e := parseEnv ((rest.take 14).map pF)
      match rest.drop 14 with
      | [c, a, b] =>
          let cs := (starkComps fns K (pF c) (pF a) (pF b) (parsePol pol) (pF r) e).filter (·.lor)
          (st, fFs (cs.flatMap fun c => [c.rad, c.wl, c.width]))
      | _ => (st, "bad-op")
  | ["erf", x] => (st, fF (erfF (pF x)))
  | ["consts"] => (st, fFs [K.amu, K.echarge, K.c, K.hc, K.muB, (starkSplittingFactor : Float), sigma2fwhm fns])
  | ["coef"] => (st, fFs ((fwhmPolyGauss : List Float) ++ fwhmPolyLorentz ++ weightPoly))
  | "gl" :: r :: wl :: sg :: rest =>
      (st, fFs (addGaussianLine fns st.cutG (pF r) (pF wl) (pF sg) (parseSpec rest)).samples)
  | "ll" :: r :: wl :: fw :: rest =>
      (st, fFs (addLorentzianLine fns (starkI st) st.cutL (pF r) (pF wl) (pF fw) (parseSpec rest)).samples)
  | "llc" :: r :: wl :: fw :: rest =>
      -- post-fix variant: the cumulative values are supplied by the harness (scipy hyp2f1) for every abscissa the
      -- model can ask for (bin edges and the two cut-offs), keyed by bit pattern
      let sp := parseSpec rest
      let (tab, _) := takeTable (rest.drop (4 + sp.bins))
      let G : Float → Float → Float → Float := fun _ _ x =>
        match tab.find? (fun p => p.1.toBits == x.toBits) with
        | some p => p.2
        | none => 0.0 / 0.0
      (st, fFs (addLorentzianLineCdf fns G st.normC st.cutL (pF r) (pF wl) (pF fw) sp).samples)
  | ["range", cut, wl, w, mn, mx, dl, bins] =>
      let sp : Spec Float := { mn := pF mn, mx := pF mx, dl := pF dl, bins := pN bins, samples := [] }
      match lineRange fns (pF cut) (pF wl) (pF w) sp with
      | none => (st, "none")
      | some (a, b) => (st, s!"{a} {b}")
  | "gq" :: "poly" :: a :: b :: cs => (st, fF (gaussQuad (polyEval (cs.map pF)) st.rtol st.rules (pF a) (pF b)))
  | ["gq", "stark", a, b, x0, fw] =>
      (st, fF (gaussQuad (starkFunction fns st.normC (pF x0) (pF fw)) st.rtol st.rules (pF a) (pF b)))
  | ["gq", "exp", a, b, k] => (st, fF (gaussQuad (fun x => Float.exp (pF k * x)) st.rtol st.rules (pF a) (pF b)))
  | ["gq", "runge", a, b, k] =>
      (st, fF (gaussQuad (fun x => 1.0 / (1.0 + pF k * x * x)) st.rtol st.rules (pF a) (pF b)))
  | ["sf", x0, fw, x] => (st, fF (starkFunction fns st.normC (pF x0) (pF fw) (pF x)))
  | "m" :: name :: pol :: r :: rest =>
      let e := parseEnv ((rest.take 14).map pF)
      let rest := rest.drop 14
      let pol := parsePol pol
      let r := pF r
      match name with
      | "gauss" => (st, run st (gaussianLineComps fns K r e) (parseSpec rest))
      | "zt" => (st, run st (zeemanTripletComps fns K pol r e) (parseSpec rest))
      | "mult" =>
          let (tab, rest) := takeTable rest
          (st, run st (multipletComps fns K tab r e) (parseSpec rest))
      | "pz" =>
          match rest with
          | al :: be :: ga :: rest => (st, run st (paramZeemanComps fns K (pF al) (pF be) (pF ga) pol r e) (parseSpec rest))
          | _ => (st, "bad-op")
      | "zm" =>
          let (tpi, rest) := takeTable rest
          let (tsp, rest) := takeTable rest
          let (tsm, rest) := takeTable rest
          (st, run st (zeemanMultipletComps fns K tpi tsp tsm pol r e) (parseSpec rest))
      | "stark" =>
          match rest with
          | c :: a :: b :: rest => (st, run st (starkComps fns K (pF c) (pF a) (pF b) pol r e) (parseSpec rest))
          | _ => (st, "bad-op")
      | _ => (st, "bad-op")
  | "mse" :: r :: rest =>
      match (rest.take 19).map pF with
      | [wl, te, ne, en, bx, b_y, bz, px, py, pz, ox, oy, oz, mass, temp, s2p, s1s0, p2p3, p4p3] =>
          let e : BeamEnv Float :=
            { wl := wl, te := te, ne := ne, energy := en, b := (bx, b_y, bz), beamDir := (px, py, pz),
              obsDir := (ox, oy, oz), mass := mass, temp := temp, s2p := s2p, s1s0 := s1s0, p2p3 := p2p3, p4p3 := p4p3 }
          (st, run st (mseComps fns K (pF r) e) (parseSpec (rest.drop 19)))
      | _ => (st, "bad-op")
  | _ => (st, "bad-op")

def main : IO UInt32 := do
  loop step (← IO.getStdin) (← IO.getStdout) ({} : St)
  return 0
