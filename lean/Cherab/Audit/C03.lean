import Cherab.Props.C03
open Cherab.Props.C03
#print axioms line_zero_guards
