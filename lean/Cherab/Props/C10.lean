import Cherab.Lemmas.RayTransfer
import Mathlib.Algebra.BigOperators.Group.List.Lemmas
import Mathlib.Algebra.BigOperators.Group.Finset.Piecewise
import Mathlib.Algebra.Order.Ring.Rat
import Mathlib.Tactic.NormNum.OfScientific
import Mathlib.Tactic.NormNum.Basic

/-!
# C10 — ray-transfer matrices account for the whole chord and respect voxel maps

Property theorems over `Cherab/Model/RayTransfer.lean`.

Clauses of the property sentence and the theorems that carry them:

* "entries sum to the length of the chord inside the active cells" — `runlength_refines_naive`,
  `integrate_closed_form`, `total_is_chord`, `total_is_length`;
* "each cell's entry differs from the exact chord length in that cell by at most two integration steps" —
  `midpoint_count_error` (one interval of ray ∩ cell: `≤ dt`), `cell_entry_error`, `dt_bounds` (`dt < 1.5·step < 2·step`),
  `cart_cell_convex` (a box cell meets the ray in one interval): full strength for boxes;
  `multi_interval_error_partial` (`m` intervals: `≤ m·dt`), `three_intervals_exceed_two_dt`, `coarse_step_witness`,
  `dt_lt_step_fixed`, `two_interval_cell_two_steps_fixed`, `ring_at_most_two_intervals`: what holds / fails for
  non-convex cylindrical cells;
* "cells outside the mask or mapped to -1 receive nothing" — `inactive_get_nothing`, `mapFromMask_false`;
* "with a voxel map that merges cells, each source's entry equals the sum of the entries of its cells under the
  one-source-per-cell map" — `merge_is_sum`;
* "cylindrical grids repeat with the stated angular period" — `phi_periodic`, `phi_index_in_range`;
* mechanisms: `mask_map_bijective`, `bins_mapFromMask`, `bins_bounds_sources`, `cart_index_in_range`,
  `box_upper_inside_grid`, `cyl_r_index_in_range`.

`sqrt`, `atan2`, `fmod` and the C cast `<int>` are parameters (`TruncSpec`, `FmodSpec`).
-/
namespace Cherab.Props.C10
set_option linter.unusedSectionVars false
set_option linter.unusedVariables false
open Cherab.RayTransfer

/-! ## run-length accumulator = naive per-sample specification (any commutative monoid) -/
section monoid
variable {α : Type} [AddCommMonoid α]

/-- The loop of `integrate` (two-level run-length accumulation with `res` / `isource_current`, final flush) computes
exactly "add `dt` to the source of the cell of every sample whose source is `> -1`", whenever every sample cell is
inside the voxel map and every source fits the spectrum (otherwise the compiled code raises `IndexError`). -/
theorem runlength_refines_naive (look : Cell → Option Int) (bins : Nat) (dt : α) (spec : Int → α)
    (cells : List Cell) (h0 : look (-1, -1, -1) = none)
    (hall : ∀ c ∈ cells, ∃ s, look c = some s ∧ s < (bins : Int)) :
    accumulate look bins dt spec cells = some (naive look dt spec cells) := by
  obtain ⟨a', hf, hi, hfl⟩ := fold_refines look bins dt h0 cells (Acc.init spec) (inv_init look bins spec) hall
  have hinit : flushF (Acc.init spec) = spec := by
    funext j; simp [flushF, Acc.init]
  unfold accumulate
  rw [hf, Option.bind_some, flush_eq bins a' hi.2, hfl, hinit]

/-- the bounds-checked voxel-map lookup satisfies the side condition on the initial `(-1,-1,-1)` -/
theorem vmap_look_init (m : VMap) : m.look (-1, -1, -1) = none := by
  simp [VMap.look]

/-- closed form of an entry: `dt` times the number of samples whose cell maps to that source -/
theorem entry_closed_form (look : Cell → Option Int) (dt : α) (spec : Int → α) (cells : List Cell) (j : Int) :
    naive look dt spec cells j =
      spec j + (if j > -1 then (cells.countP fun c => look c = some j) • dt else 0) :=
  naive_closed look dt cells spec j

/-- cells outside the mask / mapped to a negative index, and sources none of whose cells is sampled, receive nothing -/
theorem inactive_get_nothing (look : Cell → Option Int) (dt : α) (spec : Int → α) (cells : List Cell) (j : Int)
    (h : j ≤ -1 ∨ ∀ c ∈ cells, look c ≠ some j) : naive look dt spec cells j = spec j := by
  rw [entry_closed_form]
  rcases h with h | h
  · have : ¬ j > -1 := by omega
    simp [this]
  · have : (cells.countP fun c => decide (look c = some j)) = 0 := by
      rw [List.countP_eq_zero]; intro c hc; simpa using h c hc
    simp [this]

/-- `emission_function` (the path used with any other volume integrator): exactly one unit goes to the source of the point's
cell, nothing to any other bin, nothing at all for an inactive cell -/
theorem emit_adds_unit {β : Type} [AddCommMonoid β] [One β] (look : Cell → Option Int) (bins : Nat) (spec : Int → β)
    (c : Cell) (s : Int) (hc : look c = some s) (hs : s < (bins : Int)) :
    emit look bins spec c = some (if s < 0 then spec else bump spec s 1) := by
  unfold emit write
  rw [hc]
  by_cases h : s < 0 <;> simp [h, hs]

/-- sum over the bins of `bump` -/
theorem sum_bump (bins : Nat) (spec : Int → α) (s : Int) (v : α) (h1 : s > -1) (h2 : s < (bins : Int)) :
    (Finset.range bins).sum (fun j => bump spec s v (j : Int)) = (Finset.range bins).sum (fun j => spec (j : Int)) + v := by
  obtain ⟨n, rfl⟩ : ∃ n : Nat, s = (n : Int) := ⟨s.toNat, by omega⟩
  have hb : ∀ j : Nat, bump spec (n : Int) v (j : Int) = spec (j : Int) + (if j = n then v else 0) := by
    intro j
    unfold bump
    by_cases h : j = n
    · subst h; simp
    · have : (j : Int) ≠ (n : Int) := by omega
      simp [h, this]
  simp only [hb, Finset.sum_add_distrib]
  congr 1
  rw [Finset.sum_ite_eq']
  have : n ∈ Finset.range bins := by rw [Finset.mem_range]; omega
  simp [this]

/-- is the sample's cell mapped to a light source? -/
def activeCell (look : Cell → Option Int) (c : Cell) : Bool :=
  match look c with
  | some s => decide (s > -1)
  | none => false

/-- Σ entries = Σ initial spectrum + `dt`·#{samples in active cells} -/
theorem total_is_chord (look : Cell → Option Int) (bins : Nat) (dt : α) (cells : List Cell)
    (hall : ∀ c ∈ cells, ∃ s, look c = some s ∧ s < (bins : Int)) :
    ∀ spec : Int → α, (Finset.range bins).sum (fun j => naive look dt spec cells (j : Int)) =
      (Finset.range bins).sum (fun j => spec (j : Int)) + (cells.countP (activeCell look)) • dt := by
  induction cells with
  | nil => intro spec; simp [naive]
  | cons c cs ih =>
    intro spec
    obtain ⟨s, hc, hs⟩ := hall c (by simp)
    have hcons : naive look dt spec (c :: cs) =
        naive look dt (if s > -1 then bump spec s dt else spec) cs := by
      simp only [naive, List.foldl_cons, hc]
    rw [hcons, ih (fun c' hc' => hall c' (by simp [hc']))]
    by_cases h1 : s > -1
    · have hact : activeCell look c = true := by simp [activeCell, hc, h1]
      simp only [h1, if_true, List.countP_cons, hact]
      rw [sum_bump bins spec s dt h1 hs, add_assoc]
      congr 1
      simp [add_nsmul, one_nsmul, add_comm]
    · have hact : activeCell look c = false := by simp [activeCell, hc, h1]
      simp [h1, hact]

theorem sum_map_nsmul {β : Type} (l : List β) (f : β → Nat) (dt : α) :
    (l.map f).sum • dt = (l.map fun x => f x • dt).sum := by
  induction l with
  | nil => simp
  | cons x xs ih => simp only [List.map_cons, List.sum_cons, add_nsmul, ih]

/-- merged voxel map: the entry of source `s` is the sum, over the distinct sampled cells mapped to `s`, of the entries
those cells receive under a one-source-per-cell map (`idf` injective on the sampled cells, all active) -/
theorem merge_is_sum (m ident : Cell → Option Int) (idf : Cell → Int) (dt : α) (cells : List Cell) (s : Int)
    (hs : s > -1) (hid : ∀ c ∈ cells, ident c = some (idf c) ∧ idf c > -1)
    (hinj : ∀ c ∈ cells, ∀ c' ∈ cells, idf c = idf c' → c = c') :
    naive m dt (fun _ => 0) cells s =
      ((cells.dedup.filter fun c => m c = some s).map fun c => naive ident dt (fun _ => 0) cells (idf c)).sum := by
  have hterm : ∀ c ∈ cells.dedup.filter (fun c => m c = some s),
      naive ident dt (fun _ => 0) cells (idf c) = (cells.count c) • dt := by
    intro c hc
    have hc' : c ∈ cells := List.mem_dedup.mp (List.mem_filter.mp hc).1
    rw [entry_closed_form]
    simp only [(hid c hc').2, if_true, zero_add]
    congr 1
    rw [List.count_eq_countP]
    apply List.countP_congr
    intro c2 hc2
    simp only [decide_eq_true_eq, beq_iff_eq]
    rw [(hid c2 hc2).1]
    constructor
    · intro h; exact (hinj c2 hc2 c hc' (Option.some.inj h))
    · intro h; rw [h]
  rw [List.map_congr_left hterm, entry_closed_form]
  simp only [hs, if_true, zero_add]
  rw [← List.sum_map_count_dedup_filter_eq_countP (fun c => decide (m c = some s)) cells]
  convert sum_map_nsmul _ _ dt

end monoid

/-! ## voxel map from mask, bins -/

theorem mapFromMask_length (mask : List Bool) : (mapFromMask mask).length = mask.length :=
  mapFromMaskAux_length mask 0

/-- a True cell gets the number of True cells that precede it in C order; a False cell gets `-1` -/
theorem mapFromMask_get (mask : List Bool) (i : Nat) (h : i < mask.length) :
    (mapFromMask mask)[i]'(by rw [mapFromMask_length]; exact h) =
      if mask[i] then (((mask.take i).count true : Nat) : Int) else -1 := by
  unfold mapFromMask
  rw [mapFromMaskAux_get mask 0 i h]; simp

theorem mapFromMask_false (mask : List Bool) (i : Nat) (h : i < mask.length) (hm : mask[i] = false) :
    (mapFromMask mask)[i]'(by rw [mapFromMask_length]; exact h) = -1 := by
  rw [mapFromMask_get mask i h]; simp [hm]

theorem count_take_lt (mask : List Bool) (i : Nat) (h : i < mask.length) (hm : mask[i] = true) :
    (mask.take i).count true < mask.count true := by
  have hsplit : mask = mask.take i ++ mask[i] :: mask.drop (i + 1) := by
    rw [List.getElem_cons_drop, List.take_append_drop]
  conv_rhs => rw [hsplit]
  rw [List.count_append, hm, List.count_cons_self]; omega

theorem count_take_strict (mask : List Bool) (i j : Nat) (hij : i < j) (hj : j ≤ mask.length) (hm : mask[i]'(by omega) = true) :
    (mask.take i).count true < (mask.take j).count true := by
  have hi : i < (mask.take j).length := by rw [List.length_take]; omega
  have h1 : (mask.take j).take i = mask.take i := by rw [List.take_take]; congr 1; omega
  have h2 : (mask.take j)[i] = true := by rw [List.getElem_take]; exact hm
  have := count_take_lt (mask.take j) i hi h2
  rwa [h1] at this

/-- `_map_from_mask` numbers the True cells `0 … k-1` bijectively and in C order (`k` = number of True cells) -/
theorem mask_map_bijective (mask : List Bool) :
    -- every True cell gets an index in `[0, k)`
    (∀ i (h : i < mask.length), mask[i] = true →
      0 ≤ (mapFromMask mask)[i]'(by rw [mapFromMask_length]; exact h) ∧
      (mapFromMask mask)[i]'(by rw [mapFromMask_length]; exact h) < (mask.count true : Int)) ∧
    -- order preserving, hence injective
    (∀ i j (hi : i < mask.length) (hj : j < mask.length), mask[i] = true → mask[j] = true → i < j →
      (mapFromMask mask)[i]'(by rw [mapFromMask_length]; exact hi) < (mapFromMask mask)[j]'(by rw [mapFromMask_length]; exact hj)) ∧
    -- onto `[0, k)`
    (∀ s : Nat, s < mask.count true → ∃ i, ∃ h : i < mask.length, mask[i] = true ∧
      (mapFromMask mask)[i]'(by rw [mapFromMask_length]; exact h) = (s : Int)) := by
  refine ⟨?_, ?_, ?_⟩
  · intro i h hm
    rw [mapFromMask_get mask i h]; simp only [hm, if_true]
    exact ⟨by omega, by exact_mod_cast count_take_lt mask i h hm⟩
  · intro i j hi hj hmi hmj hij
    rw [mapFromMask_get mask i hi, mapFromMask_get mask j hj]; simp only [hmi, hmj, if_true]
    exact_mod_cast count_take_strict mask i j hij (by omega) hmi
  · -- the s-th True cell exists: induction on the mask
    intro s hs
    suffices H : ∀ (mask : List Bool) (s : Nat), s < mask.count true →
        ∃ i, ∃ h : i < mask.length, mask[i] = true ∧ (mask.take i).count true = s by
      obtain ⟨i, h, hm, hc⟩ := H mask s hs
      refine ⟨i, h, hm, ?_⟩
      rw [mapFromMask_get mask i h]; simp [hm, hc]
    intro mask
    induction mask with
    | nil => intro s hs; simp at hs
    | cons b bs ih =>
      intro s hs
      cases b with
      | true =>
        cases s with
        | zero => exact ⟨0, by simp, by simp, by simp⟩
        | succ s =>
          have : s < bs.count true := by simpa using hs
          obtain ⟨i, h, hm, hc⟩ := ih s this
          exact ⟨i + 1, by simpa using h, by simpa using hm, by simp [List.take_succ_cons, hc]⟩
      | false =>
        have : s < bs.count true := by simpa using hs
        obtain ⟨i, h, hm, hc⟩ := ih s this
        exact ⟨i + 1, by simpa using h, by simpa using hm, by simp [List.take_succ_cons, hc]⟩

theorem foldl_max_ge (vs : List Int) : ∀ v : Int, v ≤ vs.foldl max v ∧ ∀ x ∈ vs, x ≤ vs.foldl max v := by
  induction vs with
  | nil => intro v; simp
  | cons x xs ih =>
    intro v
    obtain ⟨h1, h2⟩ := ih (max v x)
    refine ⟨le_trans (le_max_left v x) h1, ?_⟩
    intro y hy
    rcases List.mem_cons.mp hy with rfl | hy
    · exact le_trans (le_max_right v y) h1
    · exact h2 y hy

/-- `bins = voxel_map.max() + 1` exceeds every source index: the spectrum write can not go out of bounds -/
theorem bins_bounds_sources (vm : List Int) (b : Int) (h : bins vm = some b) : ∀ v ∈ vm, v < b := by
  cases vm with
  | nil => simp [bins] at h
  | cons v vs =>
    simp only [bins, Option.some.injEq] at h
    obtain ⟨h1, h2⟩ := foldl_max_ge vs v
    intro x hx
    rcases List.mem_cons.mp hx with rfl | hx
    · omega
    · have := h2 x hx; omega

theorem foldl_max_mem (vs : List Int) : ∀ v : Int, vs.foldl max v = v ∨ vs.foldl max v ∈ vs := by
  induction vs with
  | nil => intro v; simp
  | cons x xs ih =>
    intro v
    rcases ih (max v x) with h | h
    · rcases max_choice v x with h' | h'
      · left; rw [List.foldl_cons, h, h']
      · right; rw [List.foldl_cons, h, h']; simp
    · right; rw [List.foldl_cons]; exact List.mem_cons_of_mem _ h

theorem mem_mapFromMaskAux (mask : List Bool) : ∀ (k : Nat) (x : Int), x ∈ mapFromMaskAux mask k →
    x = -1 ∨ ((k : Int) ≤ x ∧ x < ((k + mask.count true : Nat) : Int)) := by
  induction mask with
  | nil => intro k x hx; simp [mapFromMaskAux] at hx
  | cons b bs ih =>
    intro k x hx
    cases b with
    | true =>
      simp only [mapFromMaskAux, List.mem_cons] at hx
      rcases hx with rfl | hx
      · right; simp
      · rcases ih (k + 1) x hx with h | h
        · left; exact h
        · right; simp only [List.count_cons_self]; push_cast at h ⊢; omega
    | false =>
      simp only [mapFromMaskAux, List.mem_cons] at hx
      rcases hx with rfl | hx
      · left; rfl
      · rcases ih k x hx with h | h
        · left; exact h
        · right; simpa using h

/-- with a mask, `bins` is the number of True cells -/
theorem bins_mapFromMask (mask : List Bool) (hne : mask ≠ []) :
    bins (mapFromMask mask) = some (mask.count true : Int) := by
  have hlen : 0 < mask.length := List.length_pos_of_ne_nil hne
  cases hmm : mapFromMask mask with
  | nil =>
    have := mapFromMask_length mask; rw [hmm] at this; simp at this; omega
  | cons v vs =>
    simp only [bins, Option.some.injEq]
    have hmemall : ∀ x ∈ v :: vs, x = -1 ∨ (0 ≤ x ∧ x < (mask.count true : Int)) := by
      intro x hx
      have := mem_mapFromMaskAux mask 0 x (by unfold mapFromMask at hmm; rw [hmm]; exact hx)
      simpa using this
    obtain ⟨h1, h2⟩ := foldl_max_ge vs v
    -- upper bound: the maximum is a member, hence ≤ k - 1
    have hmaxmem : vs.foldl max v ∈ v :: vs := by
      rcases foldl_max_mem vs v with h | h
      · rw [h]; simp
      · exact List.mem_cons_of_mem _ h
    have hub : vs.foldl max v ≤ (mask.count true : Int) - 1 := by
      rcases hmemall _ hmaxmem with h | h <;> omega
    -- lower bound: if there is a True cell, the index k-1 occurs
    by_cases hk : mask.count true = 0
    · have : vs.foldl max v = -1 := by
        rcases hmemall _ hmaxmem with h | h
        · exact h
        · omega
      rw [this, hk]; simp
    · obtain ⟨i, hi, hm, hv⟩ := (mask_map_bijective mask).2.2 (mask.count true - 1) (by omega)
      have hmem : ((mask.count true - 1 : Nat) : Int) ∈ v :: vs := by
        rw [← hmm, ← hv]; exact List.getElem_mem _
      have := (fun x hx => (show x ≤ vs.foldl max v from by
        rcases List.mem_cons.mp hx with rfl | hx
        · exact h1
        · exact h2 x hx)) _ hmem
      omega

/-- the `mask` getter inverts `_map_from_mask` -/
theorem maskOf_mapFromMask (mask : List Bool) : maskOf (mapFromMask mask) = mask := by
  unfold mapFromMask
  suffices H : ∀ (mask : List Bool) (k : Nat), maskOf (mapFromMaskAux mask k) = mask from H mask 0
  intro mask
  induction mask with
  | nil => intro k; rfl
  | cons b bs ih =>
    intro k
    cases b with
    | true =>
      have : ((k : Int) > -1) := by omega
      simp only [mapFromMaskAux, maskOf, List.map_cons, this, decide_true]
      congr 1; exact ih (k + 1)
    | false =>
      simp only [mapFromMaskAux, maskOf, List.map_cons]
      congr 1; exact ih k

/-! ## sampling: step, midpoints, index arithmetic (ordered field with floor) -/
section field
variable {α : Type} [Field α] [LinearOrder α] [IsStrictOrderedRing α] [FloorRing α]

/-- the C cast `<int>x`: truncation towards zero -/
def TruncSpec (trunc : α → Int) : Prop :=
  ∀ x : α, (0 ≤ x → trunc x = ⌊x⌋) ∧ (x < 0 → trunc x = ⌈x⌉)

/-- the truncation specified by `TruncSpec` exists -/
theorem truncSpec_witness : TruncSpec (fun x : α => if 0 ≤ x then ⌊x⌋ else ⌈x⌉) := by
  intro x; constructor
  · intro h; simp [h]
  · intro h; simp [not_le.mpr h]

theorem trunc_mono (trunc : α → Int) (ht : TruncSpec trunc) {x y : α} (h : x ≤ y) : trunc x ≤ trunc y := by
  rcases le_or_gt 0 x with hx | hx
  · rw [(ht x).1 hx, (ht y).1 (le_trans hx h)]; exact Int.floor_le_floor h
  · rcases le_or_gt 0 y with hy | hy
    · rw [(ht x).2 hx, (ht y).1 hy]
      have h1 : ⌈x⌉ ≤ 0 := Int.ceil_le.mpr (by simpa using hx.le)
      have h2 : (0 : Int) ≤ ⌊y⌋ := Int.floor_nonneg.mpr hy
      omega
    · rw [(ht x).2 hx, (ht y).2 hy]; exact Int.ceil_le_ceil h

/-- `n = max(min_samples, <int>(length/step) + extra)`, `dt = length/n` (`extra = 0` on the tree as it is, `1` with the
proposed fix): `n·dt = length` and `dt < 1.5·step` (so less than two integration steps) for every path length. -/
theorem dt_bounds (trunc : α → Int) (ht : TruncSpec trunc) (extra ms : Int) (length step : α)
    (hex : 0 ≤ extra) (hms : 2 ≤ ms) (hstep : 0 < step) (hlen : 0 ≤ length) :
    2 ≤ nSamples trunc extra ms length step ∧
    (((nSamples trunc extra ms length step).toNat : Nat) : α) * dtOf length (nSamples trunc extra ms length step) = length ∧
    2 * dtOf length (nSamples trunc extra ms length step) < 3 * step ∧
    dtOf length (nSamples trunc extra ms length step) < 2 * step := by
  set n := nSamples trunc extra ms length step with hn
  have hn2 : 2 ≤ n := le_trans hms (le_max_left _ _)
  have hq : 0 ≤ length / step := div_nonneg hlen hstep.le
  have hfl : ⌊length / step⌋ ≤ n := by
    have : ⌊length / step⌋ + extra ≤ n := by
      rw [hn]; unfold nSamples; rw [(ht _).1 hq]; exact le_max_right _ _
    omega
  have hNcast : ((n.toNat : Nat) : α) = ((n : Int) : α) := by
    have : ((n.toNat : Nat) : Int) = n := Int.toNat_of_nonneg (by omega)
    rw [← Int.cast_natCast, this]
  have hN2 : (2 : α) ≤ ((n : Int) : α) := by exact_mod_cast hn2
  have hNpos : (0 : α) < ((n : Int) : α) := by linarith
  have hlt : length / step < ((n : Int) : α) + 1 := by
    have h1 := Int.lt_floor_add_one (length / step)
    have h2 : ((⌊length / step⌋ : Int) : α) ≤ ((n : Int) : α) := by exact_mod_cast hfl
    linarith
  have hlen_lt : length < (((n : Int) : α) + 1) * step := by
    rwa [div_lt_iff₀ hstep] at hlt
  have hdt : dtOf length n = length / ((n : Int) : α) := by unfold dtOf; rw [hNcast]
  refine ⟨hn2, ?_, ?_, ?_⟩
  · rw [hdt, hNcast]; field_simp
  · rw [hdt, mul_div_assoc', div_lt_iff₀ hNpos]
    nlinarith
  · rw [hdt, div_lt_iff₀ hNpos]
    nlinarith

/-- with the proposed fix (`extra = 1`, i.e. `n = max(min_samples, <int>(length/step) + 1)`) the actual step never
exceeds the requested one: `dt < step` for every positive path length (`dt = 0` for a zero path) -/
theorem dt_lt_step_fixed (trunc : α → Int) (ht : TruncSpec trunc) (ms : Int) (length step : α)
    (hms : 2 ≤ ms) (hstep : 0 < step) (hlen : 0 ≤ length) :
    dtOf length (nSamples trunc 1 ms length step) < step := by
  set n := nSamples trunc 1 ms length step with hn
  have hn2 : 2 ≤ n := le_trans hms (le_max_left _ _)
  have hq : 0 ≤ length / step := div_nonneg hlen hstep.le
  have hfl : ⌊length / step⌋ + 1 ≤ n := by
    rw [hn]; unfold nSamples; rw [(ht _).1 hq]; exact le_max_right _ _
  have hNcast : ((n.toNat : Nat) : α) = ((n : Int) : α) := by
    have : ((n.toNat : Nat) : Int) = n := Int.toNat_of_nonneg (by omega)
    rw [← Int.cast_natCast, this]
  have hN2 : (2 : α) ≤ ((n : Int) : α) := by exact_mod_cast hn2
  have hNpos : (0 : α) < ((n : Int) : α) := by linarith
  have hlt : length / step < ((n : Int) : α) := by
    have h1 := Int.lt_floor_add_one (length / step)
    have h2 : ((⌊length / step⌋ + 1 : Int) : α) ≤ ((n : Int) : α) := by exact_mod_cast hfl
    push_cast at h2
    linarith
  have hlen_lt : length < ((n : Int) : α) * step := by
    rwa [div_lt_iff₀ hstep] at hlt
  unfold dtOf
  rw [hNcast, div_lt_iff₀ hNpos]
  linarith

/-! ### midpoints in an interval -/

theorem midpoint_eq (dt : α) (k : Nat) : midpoint dt k = ((k : α) + 1 / 2) * dt := by
  unfold midpoint; norm_num

/-- Number of sample midpoints `(k+½)dt`, `k < n`, falling into a set that lies between the open and the closed interval
with end points `a ≤ b` inside the path `[0, n·dt]` (i.e. any kind of interval), times `dt`, differs from the
interval's length by at most `dt`. -/
theorem midpoint_count_error (dt a b : α) (n : Nat) (P : α → Bool) (hdt : 0 < dt) (hab : a ≤ b) (ha : 0 ≤ a)
    (hb : b ≤ n * dt) (hin : ∀ t, a < t → t < b → P t = true) (hout : ∀ t, P t = true → a ≤ t ∧ t ≤ b) :
    |(((List.range n).countP fun k => P (midpoint dt k) : Nat) : α) * dt - (b - a)| ≤ dt := by
  set A : α := a / dt - 1 / 2 with hA
  set B : α := b / dt - 1 / 2 with hB
  have hAB : A ≤ B := by
    have : a / dt ≤ b / dt := div_le_div_of_nonneg_right hab hdt.le
    linarith
  have hA0 : -(1 / 2 : α) ≤ A := by
    have : 0 ≤ a / dt := div_nonneg ha hdt.le
    linarith
  have hBn : B ≤ (n : α) - 1 / 2 := by
    have : b / dt ≤ n := by rw [div_le_iff₀ hdt]; exact hb
    linarith
  -- translation of the four comparisons to integers
  have e1 : ∀ k : Nat, a < midpoint dt k ↔ ⌊A⌋ + 1 ≤ (k : Int) := by
    intro k
    rw [midpoint_eq, Int.add_one_le_iff, Int.floor_lt, hA, sub_lt_iff_lt_add, div_lt_iff₀ hdt]
    push_cast; constructor <;> intro h <;> linarith
  have e2 : ∀ k : Nat, midpoint dt k < b ↔ (k : Int) < ⌈B⌉ := by
    intro k
    rw [midpoint_eq, Int.lt_ceil, hB, lt_sub_iff_add_lt, lt_div_iff₀ hdt]
    push_cast; constructor <;> intro h <;> linarith
  have e3 : ∀ k : Nat, a ≤ midpoint dt k ↔ ⌈A⌉ ≤ (k : Int) := by
    intro k
    rw [midpoint_eq, Int.ceil_le, hA, sub_le_iff_le_add, div_le_iff₀ hdt]
    push_cast; constructor <;> intro h <;> linarith
  have e4 : ∀ k : Nat, midpoint dt k ≤ b ↔ (k : Int) < ⌊B⌋ + 1 := by
    intro k
    rw [midpoint_eq, Int.lt_add_one_iff, Int.le_floor, hB, le_sub_iff_add_le, le_div_iff₀ hdt]
    push_cast; constructor <;> intro h <;> linarith
  -- integer bounds
  have hfA : -1 ≤ ⌊A⌋ := by
    rw [Int.le_floor]; push_cast; linarith
  have hcA : 0 ≤ ⌈A⌉ := by
    have : (-1 : Int) < ⌈A⌉ := by rw [Int.lt_ceil]; push_cast; linarith
    omega
  have hcB : ⌈B⌉ ≤ (n : Int) := by
    rw [Int.ceil_le]; push_cast; linarith
  have hfB : -1 ≤ ⌊B⌋ := by
    rw [Int.le_floor]; push_cast; linarith
  set cnt := (List.range n).countP fun k => P (midpoint dt k) with hcnt
  -- lower bound on the count
  have hlow : (List.range n).countP (fun k => decide ((⌊A⌋ + 1).toNat ≤ k ∧ k < (⌈B⌉).toNat)) ≤ cnt := by
    apply List.countP_mono_left
    intro k _ hk
    simp only [decide_eq_true_eq] at hk
    apply hin
    · rw [e1]; omega
    · rw [e2]; omega
  have hupp : cnt ≤ (List.range n).countP (fun k => decide ((⌈A⌉).toNat ≤ k ∧ k < (⌊B⌋ + 1).toNat)) := by
    apply List.countP_mono_left
    intro k _ hk
    obtain ⟨h1, h2⟩ := hout _ hk
    rw [e3] at h1; rw [e4] at h2
    simp only [decide_eq_true_eq]
    omega
  rw [countP_range_Ico] at hlow hupp
  have hlowZ : ⌈B⌉ - ⌊A⌋ - 1 ≤ (cnt : Int) := by omega
  have huppZ : (cnt : Int) ≤ max (⌊B⌋ + 1 - ⌈A⌉) 0 := by omega
  have hlowR : B - A - 1 ≤ (cnt : α) := by
    have h1 : ((⌈B⌉ - ⌊A⌋ - 1 : Int) : α) ≤ ((cnt : Int) : α) := by exact_mod_cast hlowZ
    have h2 := Int.le_ceil B
    have h3 := Int.floor_le A
    push_cast at h1
    linarith
  have huppR : (cnt : α) ≤ B - A + 1 := by
    have h1 : ((cnt : Int) : α) ≤ ((max (⌊B⌋ + 1 - ⌈A⌉) 0 : Int) : α) := by exact_mod_cast huppZ
    have h2 := Int.floor_le B
    have h3 := Int.le_ceil A
    rcases max_choice (⌊B⌋ + 1 - ⌈A⌉) 0 with hm | hm
    · rw [hm] at h1; push_cast at h1; linarith
    · rw [hm] at h1; push_cast at h1; linarith
  have hBA : (B - A) * dt = b - a := by
    rw [hA, hB]; field_simp; ring
  rw [abs_le]
  constructor
  · have : (B - A - 1) * dt ≤ (cnt : α) * dt := mul_le_mul_of_nonneg_right hlowR hdt.le
    nlinarith
  · have : (cnt : α) * dt ≤ (B - A + 1) * dt := mul_le_mul_of_nonneg_right huppR hdt.le
    nlinarith

/-- an interval of the ray: membership test and end points -/
structure Piece (α : Type) where
  mem : α → Bool
  lo : α
  hi : α

/-- `P` lies between the open and the closed interval `[lo, hi] ⊆ [0, L]` -/
def Piece.ok (I : Piece α) (L : α) : Prop :=
  I.lo ≤ I.hi ∧ 0 ≤ I.lo ∧ I.hi ≤ L ∧ (∀ t, I.lo < t → t < I.hi → I.mem t = true) ∧
    (∀ t, I.mem t = true → I.lo ≤ t ∧ t ≤ I.hi)

theorem countP_or_disjoint {β : Type} (p q : β → Bool) (l : List β) (h : ∀ x ∈ l, ¬ (p x = true ∧ q x = true)) :
    l.countP (fun x => p x || q x) = l.countP p + l.countP q := by
  induction l with
  | nil => simp
  | cons x xs ih =>
    have hx := h x (by simp)
    rw [List.countP_cons, List.countP_cons, List.countP_cons, ih (fun y hy => h y (by simp [hy]))]
    cases hp : p x <;> cases hq : q x <;> simp_all <;> omega

/-- A set that is the union of `m` pairwise disjoint intervals of the ray (a ring cell crossed twice, the periodic
copies of a sector): `dt`·#samples differs from the total chord by at most `m·dt`.

PARTIAL with respect to the property sentence ("at most two integration steps" per cell): for `m ≥ 3` the bound `m·dt`
exceeds two steps and is attained up to ε (`three_intervals_exceed_two_dt`), so the literal clause is false for cells
met in three or more intervals (finding `C10:cyl:cell-error-exceeds-two-steps:multi-interval`); for `m = 2` it gives
`2·dt < 3·step` on the tree as it is (`coarse_step_witness`) and `2·dt < 2·step` with the proposed fix
(`two_interval_cell_two_steps_fixed`). For `m = 1` (every box cell, `cart_cell_convex`) it is `midpoint_count_error`. -/
theorem multi_interval_error_partial (dt : α) (n : Nat) (hdt : 0 < dt) :
    ∀ (Is : List (Piece α)), (∀ I ∈ Is, I.ok (n * dt)) →
      Is.Pairwise (fun I J => ∀ t, ¬ (I.mem t = true ∧ J.mem t = true)) →
      |(((List.range n).countP fun k => Is.any fun I => I.mem (midpoint dt k) : Nat) : α) * dt -
          (Is.map fun I => I.hi - I.lo).sum| ≤ (Is.length : α) * dt := by
  intro Is
  induction Is with
  | nil => intro _ _; simp
  | cons I Js ih =>
    intro hok hpw
    obtain ⟨hIJ, hpw'⟩ := List.pairwise_cons.mp hpw
    have hI := hok I (by simp)
    have h1 := midpoint_count_error dt I.lo I.hi n I.mem hdt hI.1 hI.2.1 hI.2.2.1 hI.2.2.2.1 hI.2.2.2.2
    have h2 := ih (fun J hJ => hok J (by simp [hJ])) hpw'
    have hsplit : ((List.range n).countP fun k => (I :: Js).any fun J => J.mem (midpoint dt k)) =
        ((List.range n).countP fun k => I.mem (midpoint dt k)) +
        ((List.range n).countP fun k => Js.any fun J => J.mem (midpoint dt k)) := by
      have := countP_or_disjoint (fun k => I.mem (midpoint dt k)) (fun k => Js.any fun J => J.mem (midpoint dt k))
        (List.range n) (by
          intro k _ ⟨hk1, hk2⟩
          rw [List.any_eq_true] at hk2
          obtain ⟨J, hJ, hJm⟩ := hk2
          exact hIJ J hJ _ ⟨hk1, hJm⟩)
      rw [← this]; simp [List.any_cons]
    rw [hsplit]
    simp only [List.map_cons, List.sum_cons, List.length_cons]
    push_cast
    have habs := abs_add_le
      ((((List.range n).countP fun k => I.mem (midpoint dt k) : Nat) : α) * dt - (I.hi - I.lo))
      ((((List.range n).countP fun k => Js.any fun J => J.mem (midpoint dt k) : Nat) : α) * dt -
        (Js.map fun I => I.hi - I.lo).sum)
    calc _ = |(((List.range n).countP fun k => I.mem (midpoint dt k) : Nat) : α) * dt - (I.hi - I.lo) +
              ((((List.range n).countP fun k => Js.any fun J => J.mem (midpoint dt k) : Nat) : α) * dt -
                (Js.map fun I => I.hi - I.lo).sum)| := by congr 1; ring
      _ ≤ _ := habs
      _ ≤ dt + (Js.length : α) * dt := add_le_add h1 h2
      _ = _ := by ring

/-- With the proposed fix (`extra = 1`) a cell met in at most two intervals (every cell of a non-periodic cylindrical grid)
is within two integration steps, as the property sentence says. -/
theorem two_interval_cell_two_steps_fixed (trunc : α → Int) (ht : TruncSpec trunc) (ms : Int) (length step : α)
    (hms : 2 ≤ ms) (hstep : 0 < step) (hlen : 0 < length) (Is : List (Piece α)) (hm : Is.length ≤ 2)
    (hok : ∀ I ∈ Is, I.ok length)
    (hpw : Is.Pairwise (fun I J => ∀ t, ¬ (I.mem t = true ∧ J.mem t = true))) :
    let n := nSamples trunc 1 ms length step
    let dt := dtOf length n
    |(((List.range n.toNat).countP fun k => Is.any fun I => I.mem (midpoint dt k) : Nat) : α) * dt -
        (Is.map fun I => I.hi - I.lo).sum| ≤ 2 * step := by
  intro n dt
  obtain ⟨hn2, hnd, _, _⟩ := dt_bounds trunc ht 1 ms length step (by omega) hms hstep hlen.le
  have hlt := dt_lt_step_fixed trunc ht ms length step hms hstep hlen.le
  have hNpos : (0 : α) < ((n.toNat : Nat) : α) := by
    have : 0 < n.toNat := by
      have : 2 ≤ n := hn2
      omega
    exact_mod_cast this
  have hdt : 0 < dt := by
    have : ((n.toNat : Nat) : α) * dt = length := hnd
    by_contra hc
    have : ((n.toNat : Nat) : α) * dt ≤ 0 := mul_nonpos_of_nonneg_of_nonpos hNpos.le (not_lt.mp hc)
    linarith
  have h := multi_interval_error_partial dt n.toNat hdt Is (fun I hI => by
    have : ((n.toNat : Nat) : α) * dt = length := hnd
    rw [this]; exact hok I hI) hpw
  have hm' : (Is.length : α) ≤ 2 := by exact_mod_cast hm
  have : (Is.length : α) * dt ≤ 2 * step := by
    have hdts : dt < step := hlt
    nlinarith [show (0 : α) ≤ Is.length from by positivity]
  linarith

/-- On the tree as it is (`extra = 0`) the actual step can exceed the requested one: length 1, step 2/5 gives `n = 2`,
`dt = 1/2` — this is why two-interval cells can miss the two-step bound at coarse steps. -/
theorem coarse_step_witness :
    let trunc : ℚ → Int := fun x => if 0 ≤ x then ⌊x⌋ else ⌈x⌉
    nSamples trunc 0 2 1 (2 / 5) = 2 ∧ (2 / 5 : ℚ) < dtOf 1 (nSamples trunc 0 2 1 (2 / 5)) := by
  have h : nSamples (fun x : ℚ => if 0 ≤ x then ⌊x⌋ else ⌈x⌉) 0 2 1 (2 / 5) = 2 := by
    unfold nSamples
    have : ⌊(1 : ℚ) / (2 / 5)⌋ = 2 := by rw [Int.floor_eq_iff]; norm_num
    norm_num [this]
  refine ⟨h, ?_⟩
  rw [h]; unfold dtOf
  have : ((2 : Int).toNat : ℚ) = 2 := by
    have : (2 : Int).toNat = 2 := rfl
    rw [this]; norm_num
  rw [this]; norm_num

/-- The `m·dt` bound is tight: three short intervals around the midpoints 1/2, 5/2, 9/2 (dt = 1, n = 6) each catch a sample;
the entry is 3 while the chord is 3/100 — an error of 2.97 > 2·dt.  No per-cell bound of two steps can hold for a
sampling integrator on cells met in three or more intervals. -/
theorem three_intervals_exceed_two_dt :
    let Is : List (Piece ℚ) := [⟨fun t => decide (49 / 100 ≤ t ∧ t ≤ 1 / 2), 49 / 100, 1 / 2⟩,
      ⟨fun t => decide (249 / 100 ≤ t ∧ t ≤ 5 / 2), 249 / 100, 5 / 2⟩,
      ⟨fun t => decide (449 / 100 ≤ t ∧ t ≤ 9 / 2), 449 / 100, 9 / 2⟩]
    (2 : ℚ) * 1 < |(((List.range 6).countP fun k => Is.any fun I => I.mem (midpoint (1 : ℚ) k) : Nat) : ℚ) * 1 -
        (Is.map fun I => I.hi - I.lo).sum| := by
  decide +kernel

/-! ### the whole `integrate` -/

/-- Closed form of `integrate` (either geometry): when no index leaves the voxel map, bin `j` receives `dt` times the
number of sample midpoints whose cell is mapped to `j`; the early return leaves the spectrum untouched. -/
theorem integrate_closed_form (cellOf : α → α → α → Cell) (trunc : α → Int) (sqrt : α → α)
    (look : Cell → Option Int) (nbins : Nat) (extra : Int) (step : α) (ms : Int) (spec : Int → α) (s : Seg α) (p : Plan α)
    (hp : plan trunc sqrt extra step ms s = some p) (h0 : look (-1, -1, -1) = none)
    (hall : ∀ c ∈ sampleCells cellOf s p, ∃ src, look c = some src ∧ src < (nbins : Int)) :
    integrateWith cellOf trunc sqrt look nbins extra step ms spec s =
      some fun j => spec j + (if j > -1 then
        (((List.range p.n.toNat).countP fun it => decide (look (cellOf (s.sx + p.ux * midpoint p.dt it)
          (s.sy + p.uy * midpoint p.dt it) (s.sz + p.uz * midpoint p.dt it)) = some j) : Nat) : α) * p.dt else 0) := by
  unfold integrateWith
  rw [hp]
  simp only
  rw [runlength_refines_naive look nbins p.dt spec _ h0 hall]
  congr 1
  funext j
  rw [entry_closed_form]
  congr 1
  by_cases hj : j > -1
  · simp only [hj, if_true, nsmul_eq_mul]
    congr 2
    unfold sampleCells
    rw [List.countP_map]
    rfl
  · simp [hj]

/-- Headline bound for one cell / source: if the set of path parameters `t` whose cell is mapped to `j` is one interval
`[a, b]` of the path (open, closed or half-open), the entry exceeds the initial value by the chord `b - a` up to `dt`. -/
theorem cell_entry_error (cellOf : α → α → α → Cell) (trunc : α → Int) (sqrt : α → α)
    (look : Cell → Option Int) (nbins : Nat) (extra : Int) (step : α) (ms : Int) (spec : Int → α) (s : Seg α) (p : Plan α)
    (hp : plan trunc sqrt extra step ms s = some p) (h0 : look (-1, -1, -1) = none)
    (hall : ∀ c ∈ sampleCells cellOf s p, ∃ src, look c = some src ∧ src < (nbins : Int))
    (j : Int) (hj : j > -1) (a b : α) (hdt : 0 < p.dt) (hab : a ≤ b) (ha : 0 ≤ a) (hb : b ≤ (p.n.toNat : α) * p.dt)
    (hin : ∀ t, a < t → t < b → look (cellOf (s.sx + p.ux * t) (s.sy + p.uy * t) (s.sz + p.uz * t)) = some j)
    (hout : ∀ t, look (cellOf (s.sx + p.ux * t) (s.sy + p.uy * t) (s.sz + p.uz * t)) = some j → a ≤ t ∧ t ≤ b) :
    ∃ out, integrateWith cellOf trunc sqrt look nbins extra step ms spec s = some out ∧
      |out j - spec j - (b - a)| ≤ p.dt := by
  refine ⟨_, integrate_closed_form cellOf trunc sqrt look nbins extra step ms spec s p hp h0 hall, ?_⟩
  simp only [hj, if_true, add_sub_cancel_left]
  exact midpoint_count_error p.dt a b p.n.toNat
    (fun t => decide (look (cellOf (s.sx + p.ux * t) (s.sy + p.uy * t) (s.sz + p.uz * t)) = some j))
    hdt hab ha hb (fun t h1 h2 => by simpa using hin t h1 h2) (fun t h => hout t (by simpa using h))

/-- all traversed cells active: the entries add up to the path length exactly (`n·dt = length`) -/
theorem total_is_length (look : Cell → Option Int) (bins : Nat) (length : α) (cells : List Cell)
    (hne : cells ≠ []) (hall : ∀ c ∈ cells, ∃ s, look c = some s ∧ s > -1 ∧ s < (bins : Int)) :
    (Finset.range bins).sum (fun j => naive look (length / (cells.length : α)) (fun _ => 0) cells (j : Int)) = length := by
  rw [total_is_chord look bins _ cells (fun c hc => by obtain ⟨s, h1, _, h3⟩ := hall c hc; exact ⟨s, h1, h3⟩)]
  have hact : cells.countP (activeCell look) = cells.length := by
    rw [List.countP_eq_length]
    intro c hc
    obtain ⟨s, h1, h2, _⟩ := hall c hc
    simp [activeCell, h1, h2]
  have hlen : (cells.length : α) ≠ 0 := by
    have : 0 < cells.length := List.length_pos_of_ne_nil hne
    exact_mod_cast this.ne'
  rw [hact, nsmul_eq_mul]
  simp only [Finset.sum_const_zero, zero_add]
  field_simp

/-! ### composition: the property clauses for the whole `integrate` (proof-deepening pass) -/

/-- path length as `integrate` computes it -/
def segLength (sqrt : α → α) (s : Seg α) : α :=
  sqrt ((s.ex - s.sx) * (s.ex - s.sx) + (s.ey - s.sy) * (s.ey - s.sy) + (s.ez - s.sz) * (s.ez - s.sz))

/-- what `plan` returns when the path is not skipped -/
theorem plan_spec (trunc : α → Int) (sqrt : α → α) (extra : Int) (step : α) (ms : Int) (s : Seg α) (p : Plan α)
    (hp : plan trunc sqrt extra step ms s = some p) :
    ¬ (segLength sqrt s < 0.1 * step) ∧ p.n = nSamples trunc extra ms (segLength sqrt s) step ∧
      p.dt = dtOf (segLength sqrt s) p.n := by
  unfold plan at hp
  simp only at hp
  split_ifs at hp with h
  have := Option.some.inj hp
  subst this
  exact ⟨h, rfl, rfl⟩

/-- **Σ of the matrix entries of one ray segment = path length**, for every sample count (any step, any `min_samples ≥ 2`,
either rounding rule), every grid shape and every voxel map that maps all traversed cells to sources: the entries a
segment contributes add up to its length exactly (`n·dt = length`). -/
theorem integrate_total_is_length (cellOf : α → α → α → Cell) (trunc : α → Int) (ht : TruncSpec trunc) (sqrt : α → α)
    (hsq : ∀ x, 0 ≤ sqrt x) (look : Cell → Option Int) (nbins : Nat) (extra : Int) (hex : 0 ≤ extra) (step : α)
    (hstep : 0 < step) (ms : Int) (hms : 2 ≤ ms) (spec : Int → α) (s : Seg α) (p : Plan α)
    (hp : plan trunc sqrt extra step ms s = some p) (h0 : look (-1, -1, -1) = none)
    (hall : ∀ c ∈ sampleCells cellOf s p, ∃ src, look c = some src ∧ src > -1 ∧ src < (nbins : Int)) :
    ∃ out, integrateWith cellOf trunc sqrt look nbins extra step ms spec s = some out ∧
      (Finset.range nbins).sum (fun j => out (j : Int)) =
        (Finset.range nbins).sum (fun j => spec (j : Int)) + segLength sqrt s := by
  obtain ⟨_, hn, hdt⟩ := plan_spec trunc sqrt extra step ms s p hp
  have hall' : ∀ c ∈ sampleCells cellOf s p, ∃ src, look c = some src ∧ src < (nbins : Int) := fun c hc => by
    obtain ⟨src, h1, _, h3⟩ := hall c hc; exact ⟨src, h1, h3⟩
  refine ⟨naive look p.dt spec (sampleCells cellOf s p), ?_, ?_⟩
  · unfold integrateWith; rw [hp]; exact runlength_refines_naive look nbins p.dt spec _ h0 hall'
  · rw [total_is_chord look nbins p.dt _ hall' spec]
    congr 1
    have hact : (sampleCells cellOf s p).countP (activeCell look) = (sampleCells cellOf s p).length := by
      rw [List.countP_eq_length]
      intro c hc
      obtain ⟨src, h1, h2, _⟩ := hall c hc
      simp [activeCell, h1, h2]
    have hlen : (sampleCells cellOf s p).length = p.n.toNat := by simp [sampleCells]
    obtain ⟨_, hnd, _, _⟩ := dt_bounds trunc ht extra ms (segLength sqrt s) step hex hms hstep (hsq _)
    rw [hact, hlen, nsmul_eq_mul, hdt, hn]
    exact hnd

/-- **One interval of ray ∩ cell ⇒ within two integration steps** (strictly), for the whole `integrate`, any sample
count: every box cell (`cart_cell_convex`) and every cylindrical cell met once.  The multi-interval counterpart is false:
`three_intervals_exceed_two_dt`. -/
theorem integrate_cell_two_steps (cellOf : α → α → α → Cell) (trunc : α → Int) (ht : TruncSpec trunc) (sqrt : α → α)
    (hsq : ∀ x, 0 ≤ sqrt x) (look : Cell → Option Int) (nbins : Nat) (extra : Int) (hex : 0 ≤ extra) (step : α)
    (hstep : 0 < step) (ms : Int) (hms : 2 ≤ ms) (spec : Int → α) (s : Seg α) (p : Plan α)
    (hp : plan trunc sqrt extra step ms s = some p) (h0 : look (-1, -1, -1) = none)
    (hall : ∀ c ∈ sampleCells cellOf s p, ∃ src, look c = some src ∧ src < (nbins : Int))
    (j : Int) (hj : j > -1) (a b : α) (hab : a ≤ b) (ha : 0 ≤ a) (hb : b ≤ segLength sqrt s)
    (hin : ∀ t, a < t → t < b → look (cellOf (s.sx + p.ux * t) (s.sy + p.uy * t) (s.sz + p.uz * t)) = some j)
    (hout : ∀ t, look (cellOf (s.sx + p.ux * t) (s.sy + p.uy * t) (s.sz + p.uz * t)) = some j → a ≤ t ∧ t ≤ b) :
    ∃ out, integrateWith cellOf trunc sqrt look nbins extra step ms spec s = some out ∧
      |out j - spec j - (b - a)| < 2 * step := by
  obtain ⟨hshort, hn, hdt⟩ := plan_spec trunc sqrt extra step ms s p hp
  obtain ⟨hn2, hnd, _, hlt⟩ := dt_bounds trunc ht extra ms (segLength sqrt s) step hex hms hstep (hsq _)
  rw [← hn] at hnd hlt hn2
  rw [← hdt] at hnd hlt
  have hLpos : 0 < segLength sqrt s := by
    have : (0 : α) < 0.1 * step := by norm_num; exact hstep
    exact lt_of_lt_of_le this (not_lt.mp hshort)
  have hNpos : (0 : α) < ((p.n.toNat : Nat) : α) := by
    have : 0 < p.n.toNat := by omega
    exact_mod_cast this
  have hdtpos : 0 < p.dt := by
    by_contra hc
    have : ((p.n.toNat : Nat) : α) * p.dt ≤ 0 := mul_nonpos_of_nonneg_of_nonpos hNpos.le (not_lt.mp hc)
    linarith
  obtain ⟨out, ho, hb'⟩ := cell_entry_error cellOf trunc sqrt look nbins extra step ms spec s p hp h0 hall j hj a b hdtpos hab ha
    (by rw [hnd]; exact hb) hin hout
  exact ⟨out, ho, lt_of_le_of_lt hb' hlt⟩

/-! ### index arithmetic -/

/-- a coordinate inside the grid gives an index inside the voxel map -/
theorem cart_index_in_range (trunc : α → Int) (ht : TruncSpec trunc) (x dx : α) (nx : Nat) (hdx : 0 < dx)
    (hx0 : 0 ≤ x) (hx1 : x < nx * dx) : 0 ≤ trunc (x / dx) ∧ trunc (x / dx) < (nx : Int) := by
  have hq : 0 ≤ x / dx := div_nonneg hx0 hdx.le
  rw [(ht _).1 hq]
  refine ⟨Int.floor_nonneg.mpr hq, ?_⟩
  rw [Int.floor_lt]; push_cast
  rwa [div_lt_iff₀ hdx]

/-- truncation also absorbs a slightly negative coordinate (rounding at the lower face, which is not shrunk) -/
theorem cart_index_negative_side (trunc : α → Int) (ht : TruncSpec trunc) (x dx : α) (hdx : 0 < dx)
    (hx0 : -dx < x) (hx1 : x < 0) : trunc (x / dx) = 0 := by
  have hq : x / dx < 0 := div_neg_of_neg_of_pos hx1 hdx
  rw [(ht _).2 hq]
  have h1 : (-1 : α) < x / dx := by rw [lt_div_iff₀ hdx]; linarith
  have : ⌈x / dx⌉ ≤ 0 := Int.ceil_le.mpr (by push_cast; linarith)
  have : (-1 : Int) < ⌈x / dx⌉ := Int.lt_ceil.mpr (by push_cast; linarith)
  omega

/-- the upper corner of the bounding `Box` (`xmax - 1e-5·dx`) lies strictly inside the grid -/
theorem box_upper_inside_grid (xmax ymax zmax : α) (nx ny nz : Nat) (hx : 0 < xmax) (hy : 0 < ymax) (hz : 0 < zmax)
    (hnx : 0 < nx) (hny : 0 < ny) (hnz : 0 < nz) :
    let g := boxGeom xmax ymax zmax nx ny nz
    0 < g.dx ∧ 0 < g.dy ∧ 0 < g.dz ∧ g.ux < nx * g.dx ∧ g.uy < ny * g.dy ∧ g.uz < nz * g.dz ∧
      0 < g.ux ∧ 0 < g.uy ∧ 0 < g.uz := by
  have cx : (0 : α) < nx := by exact_mod_cast hnx
  have cy : (0 : α) < ny := by exact_mod_cast hny
  have cz : (0 : α) < nz := by exact_mod_cast hnz
  have hdx : 0 < xmax / nx := div_pos hx cx
  have hdy : 0 < ymax / ny := div_pos hy cy
  have hdz : 0 < zmax / nz := div_pos hz cz
  have ex : (nx : α) * (xmax / nx) = xmax := by field_simp
  have ey : (ny : α) * (ymax / ny) = ymax := by field_simp
  have ez : (nz : α) * (zmax / nz) = zmax := by field_simp
  have lx : xmax / nx ≤ xmax := by rw [div_le_iff₀ cx]; nlinarith [show (1 : α) ≤ nx from by exact_mod_cast hnx]
  have ly : ymax / ny ≤ ymax := by rw [div_le_iff₀ cy]; nlinarith [show (1 : α) ≤ ny from by exact_mod_cast hny]
  have lz : zmax / nz ≤ zmax := by rw [div_le_iff₀ cz]; nlinarith [show (1 : α) ≤ nz from by exact_mod_cast hnz]
  simp only [boxGeom]
  refine ⟨hdx, hdy, hdz, ?_, ?_, ?_, ?_, ?_, ?_⟩
  · rw [ex]; norm_num; nlinarith
  · rw [ey]; norm_num; nlinarith
  · rw [ez]; norm_num; nlinarith
  · norm_num; nlinarith
  · norm_num; nlinarith
  · norm_num; nlinarith

/-- radial index of a point between the two bounding cylinders -/
theorem cyl_r_index_in_range (trunc : α → Int) (ht : TruncSpec trunc) (r rmin dr : α) (nr : Nat) (hdr : 0 < dr)
    (h0 : rmin ≤ r) (h1 : r < rmin + nr * dr) :
    0 ≤ trunc ((r - rmin) / dr) ∧ trunc ((r - rmin) / dr) < (nr : Int) := by
  have := cart_index_in_range trunc ht (r - rmin) dr nr hdr (by linarith) (by linarith)
  exact this

/-- Along a straight line the Cartesian cell index is monotone in each coordinate, so the set of path parameters lying
in a given box cell is convex: a box cell meets the ray in ONE interval. -/
theorem cart_cell_convex (trunc : α → Int) (ht : TruncSpec trunc) (dx dy dz : α) (hdx : 0 < dx) (hdy : 0 < dy)
    (hdz : 0 < dz) (sx sy sz ux uy uz : α) (c : Cell) (t1 t2 t3 : α) (h12 : t1 ≤ t2) (h23 : t2 ≤ t3)
    (h1 : cartCell trunc dx dy dz (sx + ux * t1) (sy + uy * t1) (sz + uz * t1) = c)
    (h3 : cartCell trunc dx dy dz (sx + ux * t3) (sy + uy * t3) (sz + uz * t3) = c) :
    cartCell trunc dx dy dz (sx + ux * t2) (sy + uy * t2) (sz + uz * t2) = c := by
  have axis : ∀ (s u d : α) (i : Int), 0 < d → trunc ((s + u * t1) / d) = i → trunc ((s + u * t3) / d) = i →
      trunc ((s + u * t2) / d) = i := by
    intro s u d i hd e1 e3
    rcases le_total 0 u with hu | hu
    · have a : (s + u * t1) / d ≤ (s + u * t2) / d :=
        div_le_div_of_nonneg_right (by nlinarith) hd.le
      have b : (s + u * t2) / d ≤ (s + u * t3) / d :=
        div_le_div_of_nonneg_right (by nlinarith) hd.le
      have := trunc_mono trunc ht a; have := trunc_mono trunc ht b; omega
    · have a : (s + u * t2) / d ≤ (s + u * t1) / d :=
        div_le_div_of_nonneg_right (by nlinarith) hd.le
      have b : (s + u * t3) / d ≤ (s + u * t2) / d :=
        div_le_div_of_nonneg_right (by nlinarith) hd.le
      have := trunc_mono trunc ht a; have := trunc_mono trunc ht b; omega
  obtain ⟨c1, c2, c3⟩ := c
  simp only [cartCell, Prod.mk.injEq] at h1 h3 ⊢
  exact ⟨axis sx ux dx c1 hdx h1.1 h3.1, axis sy uy dy c2 hdy h1.2.1 h3.2.1, axis sz uz dz c3 hdz h1.2.2 h3.2.2⟩

/-! ### ring cells: at most two intervals -/

/-- squared distance from the axis along the path -/
def rsq (sx sy ux uy t : α) : α := (sx + ux * t) * (sx + ux * t) + (sy + uy * t) * (sy + uy * t)

/-- the squared radius is a convex function of the path parameter: its sub-level sets are convex -/
theorem rsq_sublevel_convex (sx sy ux uy K t1 t2 t3 : α) (h12 : t1 ≤ t2) (h23 : t2 ≤ t3)
    (h1 : rsq sx sy ux uy t1 < K) (h3 : rsq sx sy ux uy t3 < K) : rsq sx sy ux uy t2 < K := by
  unfold rsq at *
  rcases eq_or_lt_of_le (le_trans h12 h23) with h13 | h13
  · have : t2 = t1 := le_antisymm (by rw [h13]; exact h23) h12
    rw [this]; exact h1
  · have key : (t3 - t1) * ((sx + ux * t2) * (sx + ux * t2) + (sy + uy * t2) * (sy + uy * t2)) ≤
        (t3 - t2) * ((sx + ux * t1) * (sx + ux * t1) + (sy + uy * t1) * (sy + uy * t1)) +
        (t2 - t1) * ((sx + ux * t3) * (sx + ux * t3) + (sy + uy * t3) * (sy + uy * t3)) := by
      have hid : (t3 - t2) * ((sx + ux * t1) * (sx + ux * t1) + (sy + uy * t1) * (sy + uy * t1)) +
          (t2 - t1) * ((sx + ux * t3) * (sx + ux * t3) + (sy + uy * t3) * (sy + uy * t3)) -
          (t3 - t1) * ((sx + ux * t2) * (sx + ux * t2) + (sy + uy * t2) * (sy + uy * t2)) =
          (ux * ux + uy * uy) * ((t2 - t1) * (t3 - t2) * (t3 - t1)) := by ring
      have hnn : 0 ≤ (ux * ux + uy * uy) * ((t2 - t1) * (t3 - t2) * (t3 - t1)) := by
        apply mul_nonneg
        · nlinarith [mul_self_nonneg ux, mul_self_nonneg uy]
        · apply mul_nonneg (mul_nonneg _ _) _ <;> linarith
      linarith
    have hpos : 0 < t3 - t1 := by linarith
    have hub : (t3 - t2) * ((sx + ux * t1) * (sx + ux * t1) + (sy + uy * t1) * (sy + uy * t1)) +
        (t2 - t1) * ((sx + ux * t3) * (sx + ux * t3) + (sy + uy * t3) * (sy + uy * t3)) ≤ (t3 - t1) * K := by
      have a1 : (t3 - t2) * ((sx + ux * t1) * (sx + ux * t1) + (sy + uy * t1) * (sy + uy * t1)) ≤ (t3 - t2) * K :=
        mul_le_mul_of_nonneg_left h1.le (by linarith)
      have a2 : (t2 - t1) * ((sx + ux * t3) * (sx + ux * t3) + (sy + uy * t3) * (sy + uy * t3)) ≤ (t2 - t1) * K :=
        mul_le_mul_of_nonneg_left h3.le (by linarith)
      linarith
    by_contra hc
    have hge : K ≤ (sx + ux * t2) * (sx + ux * t2) + (sy + uy * t2) * (sy + uy * t2) := not_lt.mp hc
    -- strictness: one of the two end terms is strictly below
    rcases eq_or_lt_of_le h12 with e | l
    · rw [← e] at hge; linarith
    · have a1 : (t3 - t2) * ((sx + ux * t1) * (sx + ux * t1) + (sy + uy * t1) * (sy + uy * t1)) ≤ (t3 - t2) * K :=
        mul_le_mul_of_nonneg_left h1.le (by linarith)
      have a2 : (t2 - t1) * ((sx + ux * t3) * (sx + ux * t3) + (sy + uy * t3) * (sy + uy * t3)) < (t2 - t1) * K :=
        mul_lt_mul_of_pos_left h3 (by linarith)
      have : (t3 - t1) * K ≤ (t3 - t1) * ((sx + ux * t2) * (sx + ux * t2) + (sy + uy * t2) * (sy + uy * t2)) :=
        mul_le_mul_of_nonneg_left hge hpos.le
      linarith

/-- A ring `lo ≤ r² < hi` meets a straight path in at most two intervals: the pattern in – out – in – out – in is
impossible.  (With a convex φ-sector, `dphi ≤ 180°`, and a z-slab, a cell of a grid whose period is 360° is therefore met
in at most two intervals; the periodic copies of a sector are what produces three or more.) -/
theorem ring_at_most_two_intervals (sx sy ux uy lo hi t1 t2 t3 t4 t5 : α)
    (h12 : t1 ≤ t2) (h23 : t2 ≤ t3) (h34 : t3 ≤ t4) (h45 : t4 ≤ t5)
    (i1 : lo ≤ rsq sx sy ux uy t1 ∧ rsq sx sy ux uy t1 < hi)
    (o2 : ¬ (lo ≤ rsq sx sy ux uy t2 ∧ rsq sx sy ux uy t2 < hi))
    (i3 : lo ≤ rsq sx sy ux uy t3 ∧ rsq sx sy ux uy t3 < hi)
    (o4 : ¬ (lo ≤ rsq sx sy ux uy t4 ∧ rsq sx sy ux uy t4 < hi))
    (i5 : lo ≤ rsq sx sy ux uy t5 ∧ rsq sx sy ux uy t5 < hi) : False := by
  -- t2 and t4 are inside the outer circle (convexity), hence inside the inner one
  have b2 : rsq sx sy ux uy t2 < hi := rsq_sublevel_convex sx sy ux uy hi t1 t2 t3 h12 h23 i1.2 i3.2
  have b4 : rsq sx sy ux uy t4 < hi := rsq_sublevel_convex sx sy ux uy hi t3 t4 t5 h34 h45 i3.2 i5.2
  have c2 : rsq sx sy ux uy t2 < lo := by
    by_contra h; exact o2 ⟨not_lt.mp h, b2⟩
  have c4 : rsq sx sy ux uy t4 < lo := by
    by_contra h; exact o4 ⟨not_lt.mp h, b4⟩
  have c3 : rsq sx sy ux uy t3 < lo := rsq_sublevel_convex sx sy ux uy lo t2 t3 t4 h23 h34 c2 c4
  linarith [i3.1]

/-! ### angular period -/

/-- C99 `fmod` contract for a positive modulus -/
def FmodSpec (fmod : α → α → α) : Prop :=
  ∀ x p : α, 0 < p → (∃ k : ℤ, fmod x p = x - k * p) ∧ |fmod x p| < p ∧ (0 ≤ x → 0 ≤ fmod x p)

theorem fmod_unique (fmod : α → α → α) (hf : FmodSpec fmod) (x p : α) (k : ℤ) (hp : 0 < p) (hx : 0 ≤ x)
    (hx' : 0 ≤ x + k * p) : fmod (x + k * p) p = fmod x p := by
  obtain ⟨⟨k1, e1⟩, a1, n1⟩ := hf x p hp
  obtain ⟨⟨k2, e2⟩, a2, n2⟩ := hf (x + k * p) p hp
  have b1 := (abs_lt.mp a1).2
  have b2 := (abs_lt.mp a2).2
  have c1 := n1 hx
  have c2 := n2 hx'
  -- difference is an integer multiple of p lying in (-p, p)
  have hd : fmod (x + k * p) p - fmod x p = ((k - k2 + k1 : ℤ) : α) * p := by
    rw [e1, e2]; push_cast; ring
  set m : ℤ := k - k2 + k1 with hm
  have hm1 : (m : α) * p < p := by rw [← hd]; linarith
  have hm2 : -p < (m : α) * p := by rw [← hd]; linarith
  have hlt : (m : α) < 1 := by
    by_contra hc
    have : p ≤ (m : α) * p := by nlinarith [not_lt.mp hc]
    linarith
  have hgt : (-1 : α) < m := by
    by_contra hc
    have : (m : α) * p ≤ -p := by nlinarith [not_lt.mp hc]
    linarith
  have : m = 0 := by
    have a : m < 1 := by exact_mod_cast hlt
    have b : -1 < m := by exact_mod_cast hgt
    omega
  rw [this] at hd; simp at hd; linarith

/-- The φ index repeats with the stated period: adding any whole number of periods to the angle (as a rotation of the
ray about the axis by the period does, modulo 360 = N·period) leaves the cell index unchanged. -/
theorem phi_periodic (trunc : α → Int) (fmod : α → α → α) (hf : FmodSpec fmod) (nphi : Nat) (dphi period phi : α)
    (k : ℤ) (hp : 0 < period) (h1 : 0 ≤ phi + 360) (h2 : 0 ≤ phi + k * period + 360) :
    phiIndex trunc fmod nphi dphi period (phi + k * period) = phiIndex trunc fmod nphi dphi period phi := by
  unfold phiIndex
  split_ifs
  · rfl
  · have e : phi + k * period + 360.0 = (phi + 360.0) + k * period := by ring
    have h360 : (360.0 : α) = 360 := by norm_num
    rw [e, fmod_unique fmod hf (phi + 360.0) period k hp (by rw [h360]; exact h1) (by rw [h360]; linarith)]

/-- … and the index stays inside the voxel map: `0 ≤ iphi < nphi` when `period = nphi·dphi` -/
theorem phi_index_in_range (trunc : α → Int) (ht : TruncSpec trunc) (fmod : α → α → α) (hf : FmodSpec fmod)
    (nphi : Nat) (dphi period phi : α) (hn : 0 < nphi) (hd : 0 < dphi) (hper : period = nphi * dphi)
    (h1 : 0 ≤ phi + 360) :
    0 ≤ phiIndex trunc fmod nphi dphi period phi ∧ phiIndex trunc fmod nphi dphi period phi < (nphi : Int) := by
  unfold phiIndex
  split_ifs with h
  · omega
  · have hp : 0 < period := by rw [hper]; exact mul_pos (by exact_mod_cast hn) hd
    have h360 : (360.0 : α) = 360 := by norm_num
    obtain ⟨_, a1, n1⟩ := hf (phi + 360.0) period hp
    have b1 := (abs_lt.mp a1).2
    have c1 := n1 (by rw [h360]; exact h1)
    exact cart_index_in_range trunc ht _ dphi nphi hd c1 (by rw [← hper]; exact b1)

end field

/-! ## histories: setters and pipelines as state machines (proof-deepening pass) -/

/-- the emitter's three copies of the map agree: what `integrate` reads is what the getters show, `bins = max + 1` -/
def EmitterConsistent (st : EmitterState) : Prop :=
  st.mv = st.vmap ∧ st.nbins = bins st.vmap ∧ st.vmap.length = ncells st.shape

theorem apply_voxelMap_bad (st : EmitterState) (sh : Nat × Nat × Nat) (data : List Int)
    (h : sh ≠ st.shape ∨ data.length ≠ ncells sh) : st.apply (MapOp.voxelMap sh data) = (st, false) := by
  simp only [EmitterState.apply]; rw [if_pos h]

theorem apply_voxelMap_ok (st : EmitterState) (sh : Nat × Nat × Nat) (data : List Int)
    (h : ¬ (sh ≠ st.shape ∨ data.length ≠ ncells sh)) :
    st.apply (MapOp.voxelMap sh data) = ({ st with vmap := data, mv := data, nbins := bins data }, true) := by
  simp only [EmitterState.apply]; rw [if_neg h]

theorem apply_mask_bad (st : EmitterState) (sh : Nat × Nat × Nat) (data : List Bool)
    (h : sh ≠ st.shape ∨ data.length ≠ ncells sh) : st.apply (MapOp.mask sh data) = (st, false) := by
  simp only [EmitterState.apply]; rw [if_pos h]

theorem apply_mask_ok (st : EmitterState) (sh : Nat × Nat × Nat) (data : List Bool)
    (h : ¬ (sh ≠ st.shape ∨ data.length ≠ ncells sh)) :
    st.apply (MapOp.mask sh data) =
      ({ st with vmap := mapFromMask data, mv := mapFromMask data, nbins := bins (mapFromMask data) }, true) := by
  simp only [EmitterState.apply]; rw [if_neg h]

/-- a rejected map write (wrong shape / size) leaves the emitter exactly as it was -/
theorem emitter_rejected_write_unchanged (st : EmitterState) (op : MapOp) (h : (st.apply op).2 = false) :
    (st.apply op).1 = st := by
  cases op with
  | voxelMap sh data =>
    by_cases hc : sh ≠ st.shape ∨ data.length ≠ ncells sh
    · rw [apply_voxelMap_bad st sh data hc]
    · rw [apply_voxelMap_ok st sh data hc] at h; cases h
  | mask sh data =>
    by_cases hc : sh ≠ st.shape ∨ data.length ≠ ncells sh
    · rw [apply_mask_bad st sh data hc]
    · rw [apply_mask_ok st sh data hc] at h; cases h

/-- an accepted map write installs the assigned map everywhere at once (no stale memoryview, no stale `bins`) -/
theorem emitter_accepted_write (st : EmitterState) (op : MapOp) (h : (st.apply op).2 = true) :
    EmitterConsistent (st.apply op).1 ∧ (st.apply op).1.shape = st.shape ∧
      (st.apply op).1.mv = (match op with | .voxelMap _ d => d | .mask _ d => mapFromMask d) := by
  cases op with
  | voxelMap sh data =>
    by_cases hc : sh ≠ st.shape ∨ data.length ≠ ncells sh
    · rw [apply_voxelMap_bad st sh data hc] at h; cases h
    · rw [apply_voxelMap_ok st sh data hc]
      push Not at hc
      exact ⟨⟨rfl, rfl, by show data.length = ncells st.shape; rw [hc.2, hc.1]⟩, rfl, rfl⟩
  | mask sh data =>
    by_cases hc : sh ≠ st.shape ∨ data.length ≠ ncells sh
    · rw [apply_mask_bad st sh data hc] at h; cases h
    · rw [apply_mask_ok st sh data hc]
      push Not at hc
      exact ⟨⟨rfl, rfl, by show (mapFromMask data).length = ncells st.shape; rw [mapFromMask_length, hc.2, hc.1]⟩, rfl, rfl⟩

theorem emitter_apply_shape (st : EmitterState) (op : MapOp) : (st.apply op).1.shape = st.shape := by
  cases hb : (st.apply op).2 with
  | false => rw [emitter_rejected_write_unchanged st op hb]
  | true => exact (emitter_accepted_write st op hb).2.1

/-- **for every history of map writes (accepted or rejected, in any order) the emitter stays consistent**: the map the
integrator reads, the `voxel_map` / `mask` getters and `bins` never drift apart (round-3 stale-memoryview class, round-4
rejected-write class) -/
theorem emitter_history_consistent (st : EmitterState) (h : EmitterConsistent st) (ops : List MapOp) :
    EmitterConsistent (st.run ops) ∧ (st.run ops).shape = st.shape := by
  induction ops generalizing st with
  | nil => exact ⟨h, rfl⟩
  | cons op ops ih =>
    have hrun : st.run (op :: ops) = (st.apply op).1.run ops := rfl
    rw [hrun]
    cases hb : (st.apply op).2 with
    | false =>
      rw [emitter_rejected_write_unchanged st op hb]
      exact ih st h
    | true =>
      obtain ⟨hc, hs, _⟩ := emitter_accepted_write st op hb
      obtain ⟨h1, h2⟩ := ih (st.apply op).1 hc
      exact ⟨h1, by rw [h2, hs]⟩

theorem emitter_history_shape (st : EmitterState) (ops : List MapOp) : (st.run ops).shape = st.shape := by
  induction ops generalizing st with
  | nil => rfl
  | cons op ops ih =>
    have hrun : st.run (op :: ops) = (st.apply op).1.run ops := rfl
    rw [hrun, ih, emitter_apply_shape]

theorem emitter_new_consistent (sh : Nat × Nat × Nat) : EmitterConsistent (EmitterState.new sh) := by
  refine ⟨rfl, rfl, ?_⟩
  show (mapFromMask (List.replicate (ncells sh) true)).length = ncells sh
  rw [mapFromMask_length, List.length_replicate]

/-- the last accepted write decides the map: after any history, a final accepted `voxel_map` assignment gives exactly
the state of a fresh emitter that received that map (history independence = the S oracle of the setter stream) -/
theorem emitter_last_write_wins (st : EmitterState) (ops : List MapOp) (sh : Nat × Nat × Nat) (data : List Int)
    (hsh : sh = st.shape) (hlen : data.length = ncells sh) :
    (st.run (ops ++ [MapOp.voxelMap sh data])) = ((EmitterState.new sh).apply (MapOp.voxelMap sh data)).1 := by
  have hrun : st.run (ops ++ [MapOp.voxelMap sh data]) = ((st.run ops).apply (MapOp.voxelMap sh data)).1 := by
    unfold EmitterState.run; rw [List.foldl_append]; rfl
  have hs2 := emitter_history_shape st ops
  rw [hrun, apply_voxelMap_ok (st.run ops) sh data (by push Not; exact ⟨by rw [hs2, hsh], hlen⟩),
    apply_voxelMap_ok (EmitterState.new sh) sh data (by push Not; exact ⟨rfl, hlen⟩)]
  show ({ st.run ops with vmap := data, mv := data, nbins := bins data } : EmitterState) =
    { EmitterState.new sh with vmap := data, mv := data, nbins := bins data }
  have : (EmitterState.new sh).shape = sh := rfl
  rw [EmitterState.mk.injEq]
  exact ⟨by rw [hs2, this, hsh], rfl, rfl, rfl⟩

section field2
variable {α : Type} [Field α] [LinearOrder α] [IsStrictOrderedRing α]

/-- the integrator is usable: positive step, at least two samples (the hypotheses of `dt_bounds`) -/
def IntegValid (st : IntegState α) : Prop := 0 < st.step ∧ 2 ≤ st.minSamples

/-- a rejected `step` / `min_samples` write leaves the integrator exactly as it was (round-4 class) -/
theorem integ_rejected_write_unchanged (st : IntegState α) (op : IntegOp α) (h : (st.apply op).isOk = false) :
    (st.apply op).state = st := by
  cases op with
  | step v =>
    simp only [IntegState.apply, IntegState.setStep] at h ⊢
    split_ifs at h ⊢ with hc
    · rfl
    · simp [Outcome.isOk] at h
  | minSamples v =>
    simp only [IntegState.apply, IntegState.setMinSamples] at h ⊢
    split_ifs at h ⊢ with hc
    · rfl
    · simp [Outcome.isOk] at h

/-- a write is rejected exactly when the value is invalid -/
theorem integ_write_rejected_iff (st : IntegState α) (op : IntegOp α) :
    (st.apply op).isOk = false ↔ (match op with | .step v => v ≤ 0 | .minSamples v => v < 2) := by
  cases op with
  | step v =>
    simp only [IntegState.apply, IntegState.setStep]
    split_ifs with hc <;> simp [Outcome.isOk, hc]
  | minSamples v =>
    simp only [IntegState.apply, IntegState.setMinSamples]
    split_ifs with hc <;> simp [Outcome.isOk, hc]

/-- **for every history of writes inside try/except the integrator stays valid**, so `dt_bounds` / `dt_lt_step_fixed`
apply to every `integrate` call that follows, whatever was attempted before -/
theorem integ_history_valid (st : IntegState α) (h : IntegValid st) (ops : List (IntegOp α)) : IntegValid (st.run ops) := by
  induction ops generalizing st with
  | nil => exact h
  | cons op ops ih =>
    unfold IntegState.run
    rw [List.foldl_cons]
    apply ih
    cases op with
    | step v =>
      simp only [IntegState.apply, IntegState.setStep]
      split_ifs with hc
      · exact h
      · exact ⟨not_le.mp hc, h.2⟩
    | minSamples v =>
      simp only [IntegState.apply, IntegState.setMinSamples]
      split_ifs with hc
      · exact h
      · exact ⟨h.1, not_lt.mp hc⟩

/-- `observe()` starts from `initialise`, which overwrites every field: the pipeline after an observe does not depend on
what the pipeline went through before -/
theorem pipe0D_observe_history_independent (p q : Pipe0D α) (bins : Nat) (rs : List (List α × Nat)) :
    p.observe bins rs = q.observe bins rs := rfl

/-- **repeated observe on one pipeline = fresh pipeline** (round-3/4 sample-counter class), for every history -/
theorem pipe0D_repeated_observe_eq_fresh (hist : List (Nat × List (List α × Nat))) (bins : Nat)
    (rs : List (List α × Nat)) :
    (hist.foldl (fun p h => p.observe h.1 h.2) Pipe0D.new).observe bins rs = Pipe0D.new.observe bins rs := rfl

theorem pipe1D_repeated_observe_eq_fresh (hist : List (Nat × Nat × Nat × List (Nat × List α))) (px ps bins : Nat)
    (rs : List (Nat × List α)) :
    (hist.foldl (fun p h => p.observe h.1 h.2.1 h.2.2.1 h.2.2.2) Pipe1D.new).observe px ps bins rs =
      Pipe1D.new.observe px ps bins rs := rfl

theorem pipe0D_fold (rs : List (List α × Nat)) : ∀ q : Pipe0D α,
    (rs.foldl (fun q r => q.update r.1 r.2) q).samples = q.samples + (rs.map Prod.snd).sum ∧
    (rs.foldl (fun q r => q.update r.1 r.2) q).matrix = rs.foldl (fun m r => List.zipWith (· + ·) m r.1) q.matrix := by
  induction rs with
  | nil => intro q; simp
  | cons r rs ih =>
    intro q
    obtain ⟨h1, h2⟩ := ih (q.update r.1 r.2)
    simp only [List.foldl_cons, List.map_cons, List.sum_cons]
    exact ⟨by rw [h1]; simp [Pipe0D.update]; ring, by rw [h2]; rfl⟩

/-- what an observe leaves in the 0D pipeline: the bin-wise sum of the packed results divided by the total number of
samples of THIS observe -/
theorem pipe0D_observe_is_mean (p : Pipe0D α) (bins : Nat) (rs : List (List α × Nat)) :
    (p.observe bins rs).samples = (rs.map Prod.snd).sum ∧
    (p.observe bins rs).matrix =
      (rs.foldl (fun m r => List.zipWith (· + ·) m r.1) (List.replicate bins 0)).map
        (· / (((rs.map Prod.snd).sum : Nat) : α)) := by
  obtain ⟨h1, h2⟩ := pipe0D_fold rs (p.initialise bins)
  have h1' : (rs.foldl (fun q r => q.update r.1 r.2) (p.initialise bins)).samples = (rs.map Prod.snd).sum := by
    rw [h1]; simp [Pipe0D.initialise]
  have h2' : (rs.foldl (fun q r => q.update r.1 r.2) (p.initialise bins)).matrix =
      rs.foldl (fun m r => List.zipWith (· + ·) m r.1) (List.replicate bins 0) := by
    rw [h2]; rfl
  refine ⟨h1', ?_⟩
  show List.map _ _ = _
  rw [h2', h1']

end field2

/-- non-vacuity: wrong-shape write rejected, right-shape write accepted, and the state machine is consistent after both -/
example : ((EmitterState.new (2, 1, 1)).apply (MapOp.voxelMap (1, 2, 1) [0, 0])).2 = false ∧
    ((EmitterState.new (2, 1, 1)).apply (MapOp.voxelMap (2, 1, 1) [3, -1])).2 = true ∧
    ((EmitterState.new (2, 1, 1)).run [MapOp.voxelMap (1, 2, 1) [0, 0], MapOp.mask (2, 1, 1) [false, true]]).mv = [-1, 0] := by
  decide

example : ((⟨1 / 10, 2⟩ : IntegState ℚ).run [IntegOp.step 0, IntegOp.step (-1), IntegOp.minSamples 1, IntegOp.step (1 / 2)]).step = 1 / 2 ∧
    ((⟨1 / 10, 2⟩ : IntegState ℚ).apply (IntegOp.step 0)).isOk = false := by
  decide +kernel

/-- second observe with 3 samples after a first one with 2: the mean is over 3, not 5 -/
example : (((Pipe0D.new : Pipe0D ℚ).observe 1 [([4], 2)]).observe 1 [([6], 3)]).matrix = [2] := by
  decide +kernel

/-! ## non-vacuity -/

/-- a 2×1×1 grid, second cell inactive: samples in cells 0,0,1,0 with dt = 1/4 — the accumulator and the naive spec agree
and give 3/4 to source 0 -/
example :
    let look : Cell → Option Int := fun c => if c = (0, 0, 0) then some 0 else if c = (1, 0, 0) then some (-1) else none
    (accumulate look 1 (1 / 4 : ℚ) (fun _ => 0) [(0, 0, 0), (0, 0, 0), (1, 0, 0), (0, 0, 0)]).map (fun f => f 0)
      = some (3 / 4) := by
  decide +kernel

example : mapFromMask [true, false, true, true, false] = [0, -1, 1, 2, -1] := by decide
example : bins (mapFromMask [true, false, true, true, false]) = some 3 := by decide

/-- `TruncSpec` and `FmodSpec` are satisfiable, `dt_bounds` is not vacuous: length 1, step 0.3 → n = 3, dt = 1/3 -/
example : nSamples (fun x : ℚ => if 0 ≤ x then ⌊x⌋ else ⌈x⌉) 0 2 1 (3 / 10) = 3 := by
  unfold nSamples
  have : ⌊(1 : ℚ) / (3 / 10)⌋ = 3 := by rw [Int.floor_eq_iff]; norm_num
  norm_num [this]

/-- a sandwiched interval: midpoints 1/8, 3/8, 5/8, 7/8 of [0,1] in [1/4, 3/4): two of them, 2·(1/4) = 1/2 exactly -/
example : ((List.range 4).countP fun k => decide ((1 / 4 : ℚ) ≤ midpoint (1 / 4) k ∧ midpoint (1 / 4 : ℚ) k < 3 / 4)) = 2 := by
  simp only [midpoint]; norm_num [List.range_succ]

/-- non-vacuity of `integrate_total_is_length` / `integrate_cell_two_steps`: a 2×1×1 box of unit cells, the ray along x
through both cells, step 1 (rule with `extra = 1`: n = 3, dt = 2/3): entries 2/3 and 4/3, total 2 = path length, each within
dt of the unit chord -/
example :
    let trunc : ℚ → Int := fun x => if 0 ≤ x then ⌊x⌋ else ⌈x⌉
    let sqrt : ℚ → ℚ := fun x => if x = 4 then 2 else 0
    let look : Cell → Option Int := fun c => if c = (0, 0, 0) then some 0 else if c = (1, 0, 0) then some 1 else none
    (integrateCart trunc sqrt look 2 1 1 1 1 1 2 (fun _ => 0) ⟨0, 1 / 2, 1 / 2, 2, 1 / 2, 1 / 2⟩).map (fun f => (f 0, f 1))
      = some (2 / 3, 4 / 3) := by
  decide +kernel

end Cherab.Props.C10
