"""C13 — function wrappers and samplers are exact pointwise compositions.

T  lean/Cherab/Props/C13.lean over lean/Cherab/Model/Wrappers.lean
K  every wrapper is driven around a *recording* Python callable; the arguments the wrapped callable received
   and the wrapper's result are compared with the Lean model (native driver, same definitions at Float)
S  direct oracles on the implementation (no model): inner periodic argument in [0, period) and congruent,
   clamp/swizzle/slice reference compositions, crossing-number point-in-polygon, numpy-free linspace formula.
"""
import math

import numpy as np

from harness.vlib.util import f2b, b2f, fs, close, call

EDGE = [0.0, -0.0, 5e-324, -5e-324, 1e-20, -1e-20, 1e-300, -1e-300, 1.0, -1.0, 0.5, -0.5, 2.0, -2.0, 3.0, -3.0,
        1e300, -1e300, 1e15 + 0.5, -(1e15 + 0.5), 360.0, -360.0, 720.0, 179.99999999999997, -180.0, 180.0]


class Rec:
    """recording callable; returns a value that depends injectively-enough on its arguments"""

    def __init__(self, vector=False):
        self.calls = []
        self.vector = vector
        self.ret = None

    def __call__(self, *a):
        self.calls.append(tuple(float(x) for x in a))
        if self.ret is not None:
            return self.ret
        if self.vector:
            from raysect.core import Vector3D
            return Vector3D(1.0 + 0.25 * len(self.calls), -0.5, 2.0)
        return 1.0 + 0.5 * len(self.calls)


def rnd_float(rng):
    k = rng.random()
    if k < 0.35:
        return rng.choice(EDGE)
    if k < 0.7:
        return rng.uniform(-10, 10)
    if k < 0.85:
        return rng.uniform(-1, 1) * 10 ** rng.randint(-12, 12)
    return float(rng.randint(-8, 8))


def rnd_period(rng):
    return rng.choice([1.0, 2.0, 0.5, 360.0, 2 * math.pi, 1e-3, 3.0, 0.1, 7.25, 1e6, rng.uniform(0.01, 50)])


def polygon(rng, scale=1.0, offset=(0.0, 0.0)):
    """random simple (star-shaped) polygon, either orientation, random start vertex; optionally scaled and moved far
    from the origin (polygons that are small compared with their distance from the origin, short closing edges)"""
    n = rng.randint(3, 10)
    cx, cy = rng.uniform(-2, 2), rng.uniform(-2, 2)
    angs = sorted(rng.uniform(0, 2 * math.pi) for _ in range(n))
    # keep angular gaps below pi so the star-shaped polygon is simple and contains its centre
    angs = [2 * math.pi * (i + rng.uniform(0.1, 0.9)) / n for i in range(n)]
    vs = [(cx + r * math.cos(a), cy + r * math.sin(a)) for a, r in ((a, rng.uniform(0.3, 2.0)) for a in angs)]
    if rng.random() < 0.3:
        # a very short closing edge: last vertex close to (but distinct from) the first one
        t = rng.choice([1e-3, 1e-5, 1e-7])
        vs[-1] = (vs[0][0] + t * (vs[-1][0] - vs[0][0]), vs[0][1] + t * (vs[-1][1] - vs[0][1]))
    vs = [(offset[0] + scale * x, offset[1] + scale * y) for x, y in vs]
    k = rng.randrange(n)
    vs = vs[k:] + vs[:k]
    if rng.random() < 0.5:
        vs.reverse()
    return vs


def crossing(px, py, vs):
    c = 0
    n = len(vs)
    for i in range(n):
        (x1, y1), (x2, y2) = vs[i], vs[(i + 1) % n]
        if (y1 > py) != (y2 > py):
            if px < (x2 - x1) * (py - y1) / (y2 - y1) + x1:
                c += 1
    return c % 2 == 1


def edge_distance(px, py, vs):
    d = 1e300
    n = len(vs)
    for i in range(n):
        (x1, y1), (x2, y2) = vs[i], vs[(i + 1) % n]
        dx, dy = x2 - x1, y2 - y1
        t = max(0.0, min(1.0, ((px - x1) * dx + (py - y1) * dy) / (dx * dx + dy * dy)))
        d = min(d, math.hypot(px - x1 - t * dx, py - y1 - t * dy))
    return d


def gen_cases(ctx, n):
    """returns list of dict(kind, line, obs, oracle, desc) -- obs: what the implementation did"""
    import cherab.core.math as cm
    from raysect.core import Vector3D
    rng = ctx.rng
    cases = []

    def add(kind, line, obs, oracle, desc, key=None, tol=False):
        cases.append(dict(kind=kind, line=line, obs=obs, oracle=oracle, desc=desc, tol=tol))
        ctx.count(kind)
        ctx.case(key=(kind, key if key is not None else line), sample=dict(kind=kind, input=desc) if rng.random() < 0.01 else None)

    # every ordered pair of Swizzle3D shapes, nested (27 x 27): f must receive x[outer[inner[i]]]
    import itertools
    shapes = list(itertools.product(range(3), repeat=3))
    xyz = (1.25, -2.5, 7.0)
    for s_in in shapes:
        for s_out in shapes:
            rec = Rec()
            st, res = call(cm.Swizzle3D(cm.Swizzle3D(rec, s_in), s_out), *xyz)
            want = tuple(xyz[s_out[s_in[i]]] for i in range(3))
            if not (st == 'ok' and rec.calls and _same(rec.calls[-1], want)):
                ctx.fail('C13:nested:Swizzle3D>Swizzle3D', 'Swizzle3D(Swizzle3D(f, %r), %r)%r: f got %r, want %r'
                         % (s_in, s_out, xyz, rec.calls[-1:] if rec.calls else st, want), dict(kind='nested-swizzle', inner=s_in, outer=s_out))
                break
    ctx.count('nested-swizzle-pairs', len(shapes) ** 2)
    ctx.case(key=('nested-swizzle-exhaustive',))

    for it in range(n):
        # ---------------- periodic (scalar + vector, 1-3 D) -----------------------------------------------
        p = rnd_period(rng)
        x = rnd_float(rng)
        if rng.random() < 0.3:
            x = p * rng.randint(-5, 5)           # exact multiples of the period
        if rng.random() < 0.1:
            x = -abs(rng.choice([5e-324, 1e-20, 1e-17, 1e-300])) * rng.choice([1, p])
        elif rng.random() < 0.1:
            # tiny positive arguments (far below one ulp of the period) and arguments just inside the base cell
            x = rng.choice([5e-324, 1e-300, 1e-20, 1e-17, 2.5e-16, 0.3, 0.999999]) * rng.choice([1, p])
        dim = rng.choice([1, 2, 3])
        vec = rng.random() < 0.3
        rec = Rec(vector=vec)
        ps = [p] + [rng.choice([0.0, rnd_period(rng)]) for _ in range(dim - 1)]
        xs = [x] + [rnd_float(rng) for _ in range(dim - 1)]
        cls = getattr(cm, ('VectorPeriodicTransform%dD' if vec else 'PeriodicTransform%dD') % dim)
        st, w = call(cls, rec, *ps)
        if st != 'ok':
            ctx.fail('C13:periodic:ctor', 'constructor rejected positive period %r: %s' % (ps, w), dict(ps=ps))
            continue
        st, res = call(w, *xs)
        inner = rec.calls[-1] if rec.calls else None
        for d in range(dim):
            m = math.fmod(xs[d], ps[d]) if ps[d] != 0 else 0.0
            line = 'remf %s %s %s' % (f2b(xs[d]), f2b(ps[d]), f2b(m))
            ok = True
            why = ''
            if st != 'ok' or inner is None:
                ok, why = False, 'raised ' + str(st)
            elif ps[d] > 0:
                a = inner[d]
                if not (0.0 <= a < ps[d]):
                    ok, why = False, 'inner argument %r not in [0, %r)' % (a, ps[d])
                elif abs(xs[d] / ps[d]) < 1e12:
                    q = (xs[d] - a) / ps[d]
                    # fmod is exact; the test itself rounds: (x - a) to within ulp(x), the quotient to within eps*|q|
                    tol = 2.0 * math.ulp(xs[d]) / ps[d] + 8.0 * 2.220446049250313e-16 * abs(q) + 1e-9
                    if abs(q - round(q)) > tol:
                        ok, why = False, 'inner argument %r not congruent to %r mod %r' % (a, xs[d], ps[d])
                if ok:
                    # the mathematically mapped argument, exactly: x - k*p is representable for x >= 0 (it is fmod(x, p));
                    # for x < 0 it is fmod(x, p) + p, which may need one rounding (and may round to p, equivalent to 0)
                    if xs[d] >= 0:
                        if a != m:
                            ok, why = False, 'inner argument %r is not the exact image %r of %r mod %r' % (a, m, xs[d], ps[d])
                    elif m == 0:
                        if a != 0:
                            ok, why = False, 'inner argument %r is not the exact image 0 of %r mod %r' % (a, xs[d], ps[d])
                    else:
                        from fractions import Fraction
                        e = Fraction(m) + Fraction(ps[d])
                        u = Fraction(math.ulp(ps[d]))
                        if not (abs(Fraction(a) - e) <= u or (a == 0 and Fraction(ps[d]) - e <= u)):
                            ok, why = False, 'inner argument %r is more than one ulp from the exact image of %r mod %r' % (a, xs[d], ps[d])
            else:
                if inner[d] != xs[d] and not (math.isnan(inner[d]) and math.isnan(xs[d])):
                    ok, why = False, 'zero period must pass the argument through'
            sig = ('C13:periodic:inner-argument-range' if 'not in [0' in why else
                   'C13:periodic:inner-argument-not-exact-image' if 'exact image' in why else 'C13:periodic:' + why[:40])
            add('periodic%dD%s' % (dim, 'v' if vec else ''), line, [inner[d]] if inner else st,
                (ok, sig, why), dict(cls=cls.__name__, periods=ps, args=xs, axis=d),
                key=(f2b(xs[d]), f2b(ps[d])))
        # bad periods are rejected
        if it % 25 == 0:
            bad = [-1.0] + [1.0] * (dim - 1)
            st2, _ = call(cls, rec, *bad)
            if st2 != 'ValueError':
                ctx.fail('C13:periodic:negative-period-accepted', '%s accepted period %r' % (cls.__name__, bad), dict(ps=bad))

        # ---------------- clamp input / output ------------------------------------------------------------
        dim = rng.choice([1, 2, 3])
        lo = sorted([(rnd_float(rng), rnd_float(rng)) for _ in range(dim)])
        bounds = []
        for a, b in lo:
            a, b = (a, b) if a < b else (b, a)
            if not a < b:
                a, b = -1.0, 1.0
            if rng.random() < 0.2:
                a = -math.inf
            if rng.random() < 0.2:
                b = math.inf
            bounds.append((a, b))
        xs = [rnd_float(rng) for _ in range(dim)]
        rec = Rec()
        flat = [v for ab in bounds for v in ab]
        w = getattr(cm, 'ClampInput%dD' % dim)(rec, *flat)
        st, res = call(w, *xs)
        for d in range(dim):
            a, b = bounds[d]
            ref = min(max(xs[d], a), b)
            got = rec.calls[-1][d]
            add('clampin%dD' % dim, 'clamp %s %s %s' % (f2b(xs[d]), f2b(a), f2b(b)), [got],
                (got == ref, 'C13:clampinput', 'got %r want %r' % (got, ref)), dict(bounds=bounds, args=xs, axis=d))
        rec = Rec()
        a, b = bounds[0]
        v = rnd_float(rng)
        rec.ret = v
        w = getattr(cm, 'ClampOutput%dD' % dim)(rec, a, b)
        st, res = call(w, *xs)
        add('clampout%dD' % dim, 'clamp %s %s %s' % (f2b(v), f2b(a), f2b(b)), [res] if st == 'ok' else st,
            (st == 'ok' and res == min(max(v, a), b) and rec.calls[-1] == tuple(xs), 'C13:clampoutput',
             'value %r bounds %r got %r, inner args %r vs %r' % (v, (a, b), res, rec.calls[-1:], xs)),
            dict(value=v, bounds=(a, b), args=xs))
        if it % 25 == 0:
            st2, _ = call(cm.ClampInput1D, rec, 1.0, 1.0)
            st3, _ = call(cm.ClampOutput1D, rec, 2.0, 1.0)
            if st2 != 'ValueError' or st3 != 'ValueError':
                ctx.fail('C13:clamp:bad-bounds-accepted', 'min >= max accepted', {})

        # ---------------- swizzle / slice / isomapper ------------------------------------------------------
        x, y, z = rnd_float(rng), rnd_float(rng), rnd_float(rng)
        shape = tuple(rng.randint(0, 2) for _ in range(3))
        rec = Rec()
        w = cm.Swizzle3D(rec, shape)
        st, res = call(w, x, y, z)
        ref = tuple((x, y, z)[s] for s in shape)
        add('swizzle3', 'swz3 %d %d %d %s' % (shape + (fs([x, y, z]),)), list(rec.calls[-1]) if rec.calls else st,
            (bool(rec.calls) and _same(rec.calls[-1], ref), 'C13:swizzle3', 'shape %r got %r' % (shape, rec.calls[-1:])),
            dict(shape=shape, args=(x, y, z)), key=shape)
        rec = Rec()
        st, res = call(cm.Swizzle2D(rec), x, y)
        if not (rec.calls and _same(rec.calls[-1], (y, x))):
            ctx.fail('C13:swizzle2', 'Swizzle2D passed %r for (%r,%r)' % (rec.calls[-1:], x, y), dict(x=x, y=y))
        if it % 25 == 0:
            st2, _ = call(cm.Swizzle3D, rec, (0, 1, 3))
            if st2 != 'ValueError':
                ctx.fail('C13:swizzle3:bad-shape-accepted', 'shape (0,1,3) accepted', {})
        # ---------------- nested wrappers: the composition must be the composition of the argument maps --------------
        def _rem(a, p_):
            if p_ == 0:
                return a
            r_ = math.fmod(a, p_)
            if r_ < 0:
                r_ += p_
                if r_ >= p_:
                    r_ = 0.0
            return r_
        depth = rng.randint(2, 3)
        rec = Rec()
        w = rec
        maps = []                                  # innermost first
        descr = []
        for _d in range(depth):
            kind = rng.choice(['swizzle', 'swizzle', 'clamp', 'periodic'])
            if kind == 'swizzle':
                sh = tuple(rng.randint(0, 2) for _ in range(3))
                w = cm.Swizzle3D(w, sh)
                maps.append((lambda sh: lambda a: tuple(a[i] for i in sh))(sh))
                descr.append(('Swizzle3D', sh))
            elif kind == 'clamp':
                lo = [rng.uniform(-5, 0) for _ in range(3)]
                hi = [l + rng.uniform(0.5, 5) for l in lo]
                w = cm.ClampInput3D(w, lo[0], hi[0], lo[1], hi[1], lo[2], hi[2])
                maps.append((lambda lo, hi: lambda a: tuple(min(max(a[i], lo[i]), hi[i]) for i in range(3)))(lo, hi))
                descr.append(('ClampInput3D', lo, hi))
            else:
                ps3 = [rng.choice([0.0, 1.0, 2.5, 360.0]) for _ in range(3)]
                if not any(ps3):
                    ps3[0] = 1.0
                w = cm.PeriodicTransform3D(w, *ps3)
                maps.append((lambda ps3: lambda a: tuple(_rem(a[i], ps3[i]) for i in range(3)))(ps3))
                descr.append(('PeriodicTransform3D', ps3))
        a0 = (rng.uniform(-8, 8), rng.uniform(-8, 8), rng.uniform(-8, 8))
        st, res = call(w, *a0)
        want = a0
        for m_ in reversed(maps):                  # the outermost wrapper sees the caller's arguments first
            want = m_(want)
        ctx.count('nested-depth-%d' % depth)
        ctx.case(key=('nested', tuple(d[0] for d in descr), tuple(d[1] if d[0] == 'Swizzle3D' else None for d in descr)))
        if not (st == 'ok' and rec.calls and _same(rec.calls[-1], want)):
            ctx.fail('C13:nested:' + '>'.join(d[0] for d in reversed(descr)),
                     'nested wrappers (outermost first) %r at %r: innermost function got %r, composition of the maps gives %r'
                     % (list(reversed(descr)), a0, rec.calls[-1:] if rec.calls else st, want),
                     dict(kind='nested', wrappers=list(reversed(descr)), args=a0))

        ax = rng.randint(0, 2)
        v = rnd_float(rng)
        rec = Rec()
        st, res = call(cm.Slice3D(rec, rng.choice([ax, 'xyz'[ax], 'XYZ'[ax]]), v), x, y)
        ref = [(v, x, y), (x, v, y), (x, y, v)][ax]
        add('slice3', 'slice3 %d %s' % (ax, fs([v, x, y])), list(rec.calls[-1]) if rec.calls else st,
            (bool(rec.calls) and _same(rec.calls[-1], ref), 'C13:slice3', 'axis %d got %r' % (ax, rec.calls[-1:])),
            dict(axis=ax, value=v, args=(x, y)), key=ax)
        ax2 = rng.randint(0, 1)
        rec = Rec()
        st, res = call(cm.Slice2D(rec, rng.choice([ax2, 'xy'[ax2]]), v), x)
        ref = [(v, x), (x, v)][ax2]
        add('slice2', 'slice2 %d %s' % (ax2, fs([v, x])), list(rec.calls[-1]) if rec.calls else st,
            (bool(rec.calls) and _same(rec.calls[-1], ref), 'C13:slice2', 'axis %d got %r' % (ax2, rec.calls[-1:])),
            dict(axis=ax2, value=v, args=(x,)), key=ax2)
        rec2, rec1 = Rec(), Rec()
        inner_v = rnd_float(rng)
        rec2.ret = inner_v
        st, res = call(cm.IsoMapper3D(rec2, rec1), x, y, z)
        okiso = st == 'ok' and _same(rec2.calls[-1], (x, y, z)) and _same(rec1.calls[-1], (inner_v,)) and res == 1.5
        if not okiso:
            ctx.fail('C13:isomapper3', 'IsoMapper3D: f got %r, g got %r, result %r' % (rec2.calls[-1:], rec1.calls[-1:], res), dict(args=(x, y, z)))
        rec2, rec1 = Rec(), Rec()
        rec2.ret = inner_v
        st, res = call(cm.IsoMapper2D(rec2, rec1), x, y)
        if not (st == 'ok' and _same(rec2.calls[-1], (x, y)) and _same(rec1.calls[-1], (inner_v,)) and res == 1.5):
            ctx.fail('C13:isomapper2', 'IsoMapper2D: f got %r, g got %r, result %r' % (rec2.calls[-1:], rec1.calls[-1:], res), dict(args=(x, y)))
        ctx.case(key=('iso', f2b(inner_v)))

        # ---------------- axisymmetric / cylindrical (scalar + vector) --------------------------------------
        if abs(x) < 1e150 and abs(y) < 1e150:
            rec = Rec()
            st, res = call(cm.AxisymmetricMapper(rec), x, y, z)
            r = math.sqrt(x * x + y * y)
            add('axisym', 'axi ' + fs([x, y, z]), list(rec.calls[-1]) if rec.calls else st,
                (bool(rec.calls) and _same(rec.calls[-1], (r, z)), 'C13:axisymmetric', 'got %r want %r' % (rec.calls[-1:], (r, z))),
                dict(args=(x, y, z)))
            rec = Rec()
            st, res = call(cm.CylindricalTransform(rec), x, y, z)
            phi = math.atan2(y, x)
            add('cyl', 'cyl ' + fs([x, y, z]), list(rec.calls[-1]) if rec.calls else st,
                (bool(rec.calls) and _same(rec.calls[-1], (r, phi, z)), 'C13:cylindrical', 'got %r want %r' % (rec.calls[-1:], (r, phi, z))),
                dict(args=(x, y, z)))
            # vectors: rotated by the toroidal angle
            for cls, nm in ((cm.VectorAxisymmetricMapper, 'vaxi'), (cm.VectorCylindricalTransform, 'vcyl')):
                rec = Rec(vector=True)
                vin = (rnd_float(rng) if abs(x) < 1e6 else 1.0, rng.uniform(-2, 2), rng.uniform(-2, 2))
                if abs(vin[0]) > 1e100:
                    vin = (1.0, vin[1], vin[2])
                rec.ret = Vector3D(*vin)
                st, res = call(cls(rec), x, y, z)
                if st != 'ok':
                    ctx.fail('C13:%s:raised' % nm, '%s raised %s at %r' % (cls.__name__, st, (x, y, z)), dict(args=(x, y, z)))
                    continue
                want_args = (r, z) if nm == 'vaxi' else (r, phi, z)
                deg = phi / math.pi * 180
                c, s = math.cos(math.radians(deg)), math.sin(math.radians(deg))
                got = [res.x, res.y, res.z]
                ref = [c * vin[0] - s * vin[1], s * vin[0] + c * vin[1], vin[2]]
                scale = max(abs(t) for t in vin)
                okv = _same(rec.calls[-1], want_args) and all(abs(g - w_) <= 1e-12 * scale for g, w_ in zip(got, ref))
                add(nm, 'rotz ' + fs([c, s] + list(vin)), got,
                    (okv, 'C13:' + nm, 'args %r want %r; vector %r want %r' % (rec.calls[-1], want_args, got, ref)),
                    dict(args=(x, y, z), vector=vin), tol=True)

        # ---------------- vector wrappers must not modify the vector object the wrapped function returns ------------
        if it % 5 == 0:
            for cls, nm in ((cm.VectorAxisymmetricMapper, 'vaxi'), (cm.VectorCylindricalTransform, 'vcyl')):
                shared = Vector3D(rng.uniform(-2, 2), rng.uniform(-2, 2), rng.uniform(-2, 2))
                keep = (shared.x, shared.y, shared.z)
                rec = Rec(vector=True)
                rec.ret = shared
                w = cls(rec)
                pts = [(rng.uniform(-3, 3), rng.uniform(-3, 3), rng.uniform(-1, 1)) for _ in range(3)] + [(-1.5, 0.0, 0.2), (-2.0, -0.0, 0.1)]
                for (px, py, pz) in pts:
                    st, res = call(w, px, py, pz)
                    if st != 'ok':
                        ctx.fail('C13:%s:raised' % nm, '%s raised %s at %r' % (cls.__name__, st, (px, py, pz)), dict(args=(px, py, pz)))
                        break
                    phi = math.atan2(py, px)
                    c_, s_ = math.cos(phi), math.sin(phi)
                    ref = (c_ * keep[0] - s_ * keep[1], s_ * keep[0] + c_ * keep[1], keep[2])
                    got = (res.x, res.y, res.z)
                    if (shared.x, shared.y, shared.z) != keep:
                        ctx.fail('C13:%s:modifies-wrapped-functions-vector' % nm,
                                 '%s changed the Vector3D object returned by the wrapped function: %r -> %r' % (cls.__name__, keep, (shared.x, shared.y, shared.z)),
                                 dict(points=pts, vector=keep))
                        break
                    if any(abs(g - r_) > 1e-12 * max(1.0, max(abs(t) for t in keep)) for g, r_ in zip(got, ref)):
                        ctx.fail('C13:%s:repeated-evaluation' % nm,
                                 '%s at %r after earlier evaluations returned %r, the rotated vector is %r' % (cls.__name__, (px, py, pz), got, ref),
                                 dict(points=pts, vector=keep))
                        break
                ctx.case(key=(nm + '-shared-vector', f2b(keep[0])))

        # ---------------- polygon mask -------------------------------------------------------------------------
        if it % 4 == 0:
            sc = rng.choice([1.0, 1.0, 1e-3, 1e3, 5.0])
            off = rng.choice([(0.0, 0.0), (0.0, 0.0), (1e3 * sc, -2e3 * sc), (1e6 * sc, 1e6 * sc), (-3e5 * sc, 10.0 * sc)])
            vs = polygon(rng, sc, off)
            ctx.count('mask-polygon-scale-%g-offset-ratio-%g' % (sc, abs(off[0]) / sc))
            # the vertices come in every representation the docstring allows ("an Nx2 numpy array or a suitably sized
            # sequence"); the mask must not follow later edits of the caller's object, nor modify it
            import numpy as np
            rep = rng.choice(['list-of-tuples', 'list-of-lists', 'tuple-of-tuples', 'c-array', 'f-array', 'view'])
            if rep == 'list-of-tuples':
                arg = list(vs)
            elif rep == 'list-of-lists':
                arg = [list(v) for v in vs]
            elif rep == 'tuple-of-tuples':
                arg = tuple(vs)
            elif rep == 'c-array':
                arg = np.array(vs, dtype=np.float64)
            elif rep == 'f-array':
                arg = np.asfortranarray(np.array(vs, dtype=np.float64))
            else:
                buf = np.full((len(vs) + 4, 5), 7.5)
                buf[2:-2, 1:3] = vs
                arg = buf[2:-2, 1:3]
            ctx.count('mask-vertices-as-' + rep)
            before = np.array(arg, dtype=np.float64).copy()
            st, mask = call(cm.PolygonMask2D, arg)
            if st == 'ok' and not np.array_equal(np.array(arg, dtype=np.float64), before):
                ctx.fail('C13:mask:modifies-callers-vertices', 'PolygonMask2D changed the vertices object (%s) it was given' % rep,
                         dict(vertices=vs, representation=rep))
            if st == 'ok':
                # the caller recycles its object
                if isinstance(arg, np.ndarray):
                    arg[:] = arg[::-1].copy() * 0.5 + 3.0
                elif isinstance(arg, list):
                    if isinstance(arg[0], list):
                        for v_ in arg:
                            v_[0], v_[1] = 0.0, 0.0
                    arg.reverse(); arg.pop()
            if st != 'ok':
                ctx.fail('C13:mask:ctor', 'PolygonMask2D rejected a simple polygon (%s): %s' % (rep, mask), dict(vertices=vs, representation=rep))
            else:
                for _ in range(6):
                    px, py = off[0] + sc * rng.uniform(-4.5, 4.5), off[1] + sc * rng.uniform(-4.5, 4.5)
                    if edge_distance(px, py, vs) < 1e-6 * sc + 1e-9 * max(abs(off[0]), abs(off[1])):
                        ctx.count('mask-guard-band-skipped')
                        continue
                    got = mask(px, py)
                    ref = crossing(px, py, vs)
                    add('mask', 'poly %s %s' % (fs([px, py]), fs([c_ for v_ in vs for c_ in v_])), int(got),
                        (got == (1.0 if ref else 0.0), 'C13:mask', 'point %r polygon %r (given as %s, recycled by the caller afterwards): mask %r, crossing-number %r' % ((px, py), vs, rep, got, ref)),
                        dict(point=(px, py), vertices=vs, representation=rep), key=(f2b(px), len(vs)))
            _mask_listings(ctx, cm, rng, add, vs, sc, off)

        # ---------------- samplers -----------------------------------------------------------------------------
        if it % 4 == 1:
            n1, n2, n3 = rng.randint(1, 7), rng.randint(1, 5), rng.randint(1, 4)
            a1, a2, a3 = sorted([rnd_s(rng), rnd_s(rng)]), sorted([rnd_s(rng), rnd_s(rng)]), sorted([rnd_s(rng), rnd_s(rng)])
            rec = Rec()
            st, out = call(cm.sample3d, rec, (a1[0], a1[1], n1), (a2[0], a2[1], n2), (a3[0], a3[1], n3))
            if st != 'ok':
                ctx.fail('C13:sample3d:raised', 'sample3d raised %s' % st, dict(ranges=(a1, n1, a2, n2, a3, n3)))
            else:
                X, Y, Z, V = out
                okorder = True
                idx = 0
                for i in range(n1):
                    for j in range(n2):
                        for k in range(n3):
                            if not (_same(rec.calls[idx], (X[i], Y[j], Z[k])) and V[i, j, k] == 1.0 + 0.5 * (idx + 1)):
                                okorder = False
                            idx += 1
                if not okorder or V.shape != (n1, n2, n3):
                    ctx.fail('C13:sample3d:index-order', 'sample3d entry [i,j,k] is not f(x_i,y_j,z_k)', dict(ranges=(a1, n1, a2, n2, a3, n3)))
                for (arr, (lo_, hi_), nn, nm) in ((X, a1, n1, 'x'), (Y, a2, n2, 'y'), (Z, a3, n3, 'z')):
                    for i in range(nn):
                        ref = lo_ if nn == 1 else (hi_ if i == nn - 1 else lo_ + i * (hi_ - lo_) / (nn - 1))
                        okg = abs(arr[i] - ref) <= 1e-12 * max(abs(lo_), abs(hi_), 1e-300) and (i not in (0, nn - 1) or arr[i] == ref)
                        add('grid', 'lin %s %d %d' % (fs([lo_, hi_]), nn, i), [float(arr[i])],
                            (okg, 'C13:sampler:grid', 'axis %s: linspace(%r,%r,%d)[%d] = %r want %r' % (nm, lo_, hi_, nn, i, arr[i], ref)),
                            dict(range=(lo_, hi_, nn), i=i), key=(f2b(lo_), f2b(hi_), nn, i), tol=True)
            # 1d / 2d / points / grid / vector variants: index order against the recorded call sequence
            _sampler_variants(ctx, cm, rng)
    _round6_cases(ctx, cm, rng, add, max(40, n // 3))
    return cases


# ------------------------------------------------------------------------------------------------------------------
# round 6: validation ladders, whole sampler entry points, nested wrappers
# ------------------------------------------------------------------------------------------------------------------
_AXIS_CODE = ((' x ', 1), (' y ', 2), (' z ', 3), ('period_x', 1), ('period_y', 2), ('period_z', 3))


def _ladder_code(st, msg):
    """which raise of a constructor ladder fired: 0 = accepted, k = k-th raise (axis named in the message)"""
    if st == 'ok':
        return '0'
    if st != 'ValueError':
        return st
    for pat, k in _AXIS_CODE:
        if pat in msg:
            return str(k)
    return '1'


def _sample_code(dim, st, msg):
    if st != 'ValueError':
        return st
    low = msg.lower()
    grp = 0 if 'range must be a tuple' in low else 1 if 'can not be greater' in low else 2 if 'number of' in low else None
    if grp is None:
        return 'ValueError?' + msg[:40]
    if dim == 1:
        return 'E %d' % (grp + 1)
    ax = None
    for i, nm in enumerate('xyz'):
        if low.startswith(nm + ' range') or ('minimum %s range' % nm) in low or ('number of %s samples' % nm) in low:
            ax = i
    if ax is None:
        return 'ValueError?' + msg[:40]
    return 'E %d' % (grp * dim + ax + 1)


def _round6_cases(ctx, cm, rng, add, n):
    nan, inf = float('nan'), math.inf

    def bound_pair():
        k = rng.random()
        a, b = sorted([rnd_float(rng), rnd_float(rng)])
        if k < 0.55:
            if not a < b:
                a, b = -1.0, 1.0
            return a, b
        if k < 0.7:
            return b, a                      # reversed (or equal)
        if k < 0.8:
            return a, a                      # equal: must be rejected (min >= max)
        if k < 0.85:
            return rng.choice([(0.0, -0.0), (-0.0, 0.0), (5e-324, 0.0), (0.0, 5e-324)])
        if k < 0.92:
            return rng.choice([(-inf, inf), (inf, -inf), (-inf, -inf), (inf, inf), (a, inf), (-inf, b)])
        return rng.choice([(nan, b), (a, nan), (nan, nan)])

    for it in range(n):
        # ---- clamp constructors ---------------------------------------------------------------------------
        dim = rng.choice([1, 2, 3])
        bs = [bound_pair() for _ in range(dim)]
        flat = [v for ab in bs for v in ab]
        st, w = call(getattr(cm, 'ClampInput%dD' % dim), Rec(), *flat)
        add('clampin-ctor%dD' % dim, '%s %s' % (('cctor', 'cctor2', 'cctor3')[dim - 1], fs(flat)),
            _ladder_code(st, w if st != 'ok' else ''), (True, '', ''), dict(cls='ClampInput%dD' % dim, bounds=bs),
            key=tuple(f2b(v) for v in flat))
        st, w = call(getattr(cm, 'ClampOutput%dD' % dim), Rec(), *bs[0])
        add('clampout-ctor', 'cctor %s' % fs(list(bs[0])), _ladder_code(st, w if st != 'ok' else ''), (True, '', ''),
            dict(cls='ClampOutput%dD' % dim, bounds=bs[0]), key=('o', dim) + tuple(f2b(v) for v in bs[0]))
        # an accepted ClampInput must deliver arguments inside the box (clampInput3_checked)
        # ---- periodic constructors ------------------------------------------------------------------------
        dim = rng.choice([1, 2, 3])
        vec = rng.random() < 0.4
        ps = [rng.choice([rnd_period(rng), rnd_period(rng), 0.0, -0.0, -1.0, -5e-324, 5e-324, -rnd_period(rng), nan, inf, -inf])
              for _ in range(dim)]
        cls = getattr(cm, ('VectorPeriodicTransform%dD' if vec else 'PeriodicTransform%dD') % dim)
        st, w = call(cls, Rec(vector=vec), *ps)
        add('periodic-ctor%dD%s' % (dim, 'v' if vec else ''), 'pctor%d %s' % (dim, fs(ps)),
            _ladder_code(st, w if st != 'ok' else ''), (True, '', ''), dict(cls=cls.__name__, periods=ps),
            key=(vec,) + tuple(f2b(v) for v in ps))

        # ---- sampler entry points: ladder + axes + call order ------------------------------------------------
        dim = rng.choice([1, 2, 3])
        vec = dim > 1 and rng.random() < 0.3
        rngs = []
        for _ in range(dim):
            a, b = sorted([rnd_s(rng), rnd_s(rng)])
            k = rng.random()
            if k < 0.12 and a != b:
                a, b = b, a
            elif k < 0.2:
                b = a
            cnt = rng.choice([1, 2, 3, 4, 5]) if rng.random() < 0.8 else rng.choice([0, -1, -7])
            ln = 3 if rng.random() < 0.85 else rng.choice([2, 4])
            rngs.append((a, b, cnt, ln))
        tuples = [((a, b, c) if ln == 3 else (a, b) if ln == 2 else (a, b, c, 0)) for a, b, c, ln in rngs]
        rec = Rec(vector=vec)
        fn = getattr(cm, ('samplevector%dd' if vec else 'sample%dd') % dim)
        st, out = call(fn, rec, *tuples)
        line = 'samp%d %s %s %s' % (dim, ' '.join(str(r[3]) for r in rngs), fs([v for r in rngs for v in r[:2]]),
                                    ' '.join(str(r[2]) for r in rngs))
        if st == 'ok':
            obs = [float(v) for ax in out[:dim] for v in ax] + [float(c) for cl in rec.calls for c in cl]
            shape_ok = tuple(out[dim].shape[:dim]) == tuple(r[2] for r in rngs)
            oracle = (shape_ok, 'C13:sample%dd:shape' % dim, 'value array shape %r for ranges %r' % (out[dim].shape, tuples))
        else:
            obs = _sample_code(dim, st, out)
            # a rejected range must not have evaluated the function at all (sample*_rejected)
            oracle = (True, '', '')
            if rec.calls:
                ctx.count('sampler-evaluated-before-rejecting')
        add('sample%dd-entry%s' % (dim, 'v' if vec else ''), line, obs, oracle, dict(fn=fn.__name__, ranges=tuples),
            key=(vec,) + tuple((f2b(a), f2b(b), c, ln) for a, b, c, ln in rngs), tol=True)

        # ---- nested wrappers -------------------------------------------------------------------------------------
        p = rnd_period(rng)
        x = rnd_float(rng) if rng.random() < 0.7 else p * rng.randint(-5, 5)
        mn, mx = sorted([rng.uniform(-3, 3), rng.uniform(-3, 3)])
        if not mn < mx:
            mn, mx = -1.0, 1.0
        inner = []

        def g(t, inner=inner):
            inner.append(t)
            return 2.0 * t - 1.0
        st, res = call(cm.ClampOutput1D(cm.PeriodicTransform1D(g, p), mn, mx), x)
        okc = st == 'ok' and len(inner) == 1 and 0.0 <= inner[0] < p and res == min(max(2.0 * inner[0] - 1.0, mn), mx)
        add('nested:clampout>periodic', 'coper %s' % fs([x, p, math.fmod(x, p), mn, mx]), [res] if st == 'ok' else st,
            (okc, 'C13:nested:ClampOutput1D>PeriodicTransform1D', 'x=%r p=%r bounds %r: inner %r result %r' % (x, p, (mn, mx), inner, res)),
            dict(x=x, period=p, bounds=(mn, mx)), key=(f2b(x), f2b(p)))

        pz = rnd_period(rng)
        x, y, z = rnd_float(rng), rnd_float(rng), rnd_float(rng)
        if rng.random() < 0.3:
            z = pz * rng.randint(-4, 4)
        if abs(x) < 1e150 and abs(y) < 1e150:
            rec = Rec()
            st, res = call(cm.AxisymmetricMapper(cm.PeriodicTransform2D(rec, 0.0, pz)), x, y, z)
            r = math.sqrt(x * x + y * y)
            got = rec.calls[-1] if rec.calls else None
            oka = got is not None and got[0] == r and 0.0 <= got[1] < pz
            add('nested:axisym>periodic', 'axper %s' % fs([x, y, z, pz, math.fmod(z, pz)]), list(got) if got else st,
                (oka, 'C13:nested:AxisymmetricMapper>PeriodicTransform2D', 'args %r pz %r: f got %r, want (%r, z mod pz)' % ((x, y, z), pz, got, r)),
                dict(args=(x, y, z), period_z=pz), key=(f2b(x), f2b(y), f2b(z), f2b(pz)))

        bs = []
        for _ in range(3):
            a, b = sorted([rnd_float(rng), rnd_float(rng)])
            if not a < b:
                a, b = -1.0, 1.0
            bs.append((a, b))
        flat = [v for ab in bs for v in ab]
        axis = rng.randint(0, 2)
        v, x, y = rnd_float(rng), rnd_float(rng), rnd_float(rng)
        rec = Rec()
        st, res = call(cm.Slice3D(cm.ClampInput3D(rec, *flat), rng.choice([axis, 'xyz'[axis], 'XYZ'[axis]]), v), x, y)
        full = [x, y]
        full.insert(axis, v)
        ref = tuple(min(max(full[d], bs[d][0]), bs[d][1]) for d in range(3))
        got = rec.calls[-1] if rec.calls else None
        add('nested:slice>clampin', 'slci %d %s' % (axis, fs([v, x, y] + flat)), list(got) if got else st,
            (got is not None and _same(got, ref), 'C13:nested:Slice3D>ClampInput3D', 'axis %d value %r args %r bounds %r: f got %r want %r' % (axis, v, (x, y), bs, got, ref)),
            dict(axis=axis, value=v, args=(x, y), bounds=bs), key=(axis, f2b(v), f2b(x), f2b(y)))


def _mask_listings(ctx, cm, rng, add, vs, sc, off):
    """round 6 (seeded changes): the same closed polygon listed from EVERY start vertex and in both orientations must give
    the same mask, equal to the crossing-number spec of the polygon, at the same points.  Test points: random points
    of the polygon's bounding box (computed here from the generated vertices, never read from the object) and points
    just inside each extreme vertex (max-x, min-x, max-y, min-y), where a wrong extent / bounding box / start-vertex
    special case shows."""
    n = len(vs)
    guard = 1e-6 * sc + 1e-9 * max(abs(off[0]), abs(off[1]))
    xs_, ys_ = [v[0] for v in vs], [v[1] for v in vs]
    pts = [(rng.uniform(min(xs_), max(xs_)), rng.uniform(min(ys_), max(ys_))) for _ in range(4)]
    extreme = {max(range(n), key=lambda i: vs[i][0]), min(range(n), key=lambda i: vs[i][0]),
               max(range(n), key=lambda i: vs[i][1]), min(range(n), key=lambda i: vs[i][1])}
    for i in sorted(extreme):
        (ax, ay), (bx, by), (qx, qy) = vs[i - 1], vs[i], vs[(i + 1) % n]
        mx_, my_ = 0.5 * (ax + qx), 0.5 * (ay + qy)
        for t in (0.03, 0.15, 0.4):
            pts.append((bx + t * (mx_ - bx), by + t * (my_ - by)))
            # and just outside the vertex, on the other side
        pts.append((bx - 0.05 * (mx_ - bx), by - 0.05 * (my_ - by)))
    pts = [p_ for p_ in pts if edge_distance(p_[0], p_[1], vs) >= guard]
    if not pts:
        return
    refs = [crossing(px, py, vs) for px, py in pts]
    ctx.count('mask-listing-points-inside', sum(refs))
    ctx.count('mask-listing-points-outside', len(refs) - sum(refs))
    for rev in (False, True):
        for k in range(n):
            lst = vs[k:] + vs[:k]
            if rev:
                lst = lst[::-1]
            st, mask = call(cm.PolygonMask2D, [tuple(v) for v in lst])
            if st != 'ok':
                ctx.fail('C13:mask:ctor', 'PolygonMask2D rejected a listing of a simple polygon: %s' % mask, dict(vertices=lst))
                return
            ctx.count('mask-listings')
            is_extreme_start = (k in extreme) if not rev else ((k - 1) % n in extreme)
            for j, ((px, py), ref) in enumerate(zip(pts, refs)):
                st, got = call(mask, px, py)
                want = 1.0 if ref else 0.0
                if st != 'ok' or got != want:
                    ctx.fail('C13:mask:depends-on-vertex-listing',
                             'polygon %r listed from vertex %d%s as %r: mask(%r, %r) = %r, crossing number of the polygon says %r '
                             '(the other listings of the same polygon are checked at the same point)'
                             % (vs, k, ' reversed' if rev else '', lst, px, py, got, want),
                             dict(kind='mask-listing', vertices=lst, point=(px, py), base=vs, start=k, reversed=rev))
                    return
            # K: the crossing-number model on this very listing (theorems inPolygon_listing / _rotate / _reverse)
            j = rng.randrange(len(pts))
            px, py = pts[j]
            # the model is evaluated on the listing; its guard band is the same polygon's
            add('mask-listing', 'poly %s %s' % (fs([px, py]), fs([c_ for v_ in lst for c_ in v_])), int(refs[j]),
                (True, '', ''), dict(point=(px, py), vertices=lst, start=k, reversed=rev),
                key=('listing', f2b(px), k, rev, is_extreme_start))


def rnd_s(rng):
    return rng.choice([0.0, 1.0, -1.0, rng.uniform(-5, 5), rng.uniform(-1e3, 1e3)])


def _sampler_variants(ctx, cm, rng):
    from raysect.core import Vector3D
    n1, n2 = rng.randint(1, 6), rng.randint(1, 5)
    a1, a2 = sorted([rnd_s(rng), rnd_s(rng)]), sorted([rnd_s(rng), rnd_s(rng)])
    rec = Rec()
    x, v = cm.sample1d(rec, (a1[0], a1[1], n1))
    if not all(_same(rec.calls[i], (x[i],)) and v[i] == 1.0 + 0.5 * (i + 1) for i in range(n1)) or len(x) != n1:
        ctx.fail('C13:sample1d:index-order', 'sample1d order', dict(range=(a1, n1)))
    rec = Rec()
    x, y, v = cm.sample2d(rec, (a1[0], a1[1], n1), (a2[0], a2[1], n2))
    ok = v.shape == (n1, n2) and all(_same(rec.calls[i * n2 + j], (x[i], y[j])) and v[i, j] == 1.0 + 0.5 * (i * n2 + j + 1)
                                     for i in range(n1) for j in range(n2))
    if not ok:
        ctx.fail('C13:sample2d:index-order', 'sample2d entry [i,j] is not f(x_i,y_j)', dict(ranges=(a1, n1, a2, n2)))
    xs = [rnd_s(rng) for _ in range(n1)]
    ys = [rnd_s(rng) for _ in range(n2)]
    zs = [rnd_s(rng) for _ in range(3)]
    rec = Rec()
    v = cm.sample2d_grid(rec, xs, ys)
    ok = v.shape == (n1, n2) and all(_same(rec.calls[i * n2 + j], (xs[i], ys[j])) and v[i, j] == 1.0 + 0.5 * (i * n2 + j + 1)
                                     for i in range(n1) for j in range(n2))
    if not ok:
        ctx.fail('C13:sample2d_grid:index-order', 'sample2d_grid order', dict(xs=xs, ys=ys))
    rec = Rec()
    v = cm.sample3d_grid(rec, xs, ys, zs)
    ok = v.shape == (n1, n2, 3) and all(_same(rec.calls[(i * n2 + j) * 3 + k], (xs[i], ys[j], zs[k])) and v[i, j, k] == 1.0 + 0.5 * ((i * n2 + j) * 3 + k + 1)
                                        for i in range(n1) for j in range(n2) for k in range(3))
    if not ok:
        ctx.fail('C13:sample3d_grid:index-order', 'sample3d_grid order', dict(xs=xs, ys=ys, zs=zs))
    pts3 = [(rnd_s(rng), rnd_s(rng), rnd_s(rng)) for _ in range(n1)]
    rec = Rec()
    v = cm.sample3d_points(rec, pts3)
    if not all(_same(rec.calls[i], pts3[i]) and v[i] == 1.0 + 0.5 * (i + 1) for i in range(n1)):
        ctx.fail('C13:sample3d_points:order', 'sample3d_points order', dict(points=pts3))
    pts2 = [p[:2] for p in pts3]
    rec = Rec()
    v = cm.sample2d_points(rec, pts2)
    if not all(_same(rec.calls[i], pts2[i]) and v[i] == 1.0 + 0.5 * (i + 1) for i in range(n1)):
        ctx.fail('C13:sample2d_points:order', 'sample2d_points order', dict(points=pts2))
    rec = Rec()
    v = cm.sample1d_points(rec, xs)
    if not all(_same(rec.calls[i], (xs[i],)) and v[i] == 1.0 + 0.5 * (i + 1) for i in range(n1)):
        ctx.fail('C13:sample1d_points:order', 'sample1d_points order', dict(points=xs))
    # vector samplers
    rec = Rec(vector=True)
    x, y, v = cm.samplevector2d(rec, (a1[0], a1[1], n1), (a2[0], a2[1], n2))
    ok = v.shape == (n1, n2, 3) and all(_same(rec.calls[i * n2 + j], (x[i], y[j])) and tuple(v[i, j]) == (1.0 + 0.25 * (i * n2 + j + 1), -0.5, 2.0)
                                        for i in range(n1) for j in range(n2))
    if not ok:
        ctx.fail('C13:samplevector2d:index-order', 'samplevector2d order', dict(ranges=(a1, n1, a2, n2)))
    rec = Rec(vector=True)
    x, y, z, v = cm.samplevector3d(rec, (a1[0], a1[1], n1), (a2[0], a2[1], n2), (0.0, 1.0, 2))
    ok = v.shape == (n1, n2, 2, 3) and all(_same(rec.calls[(i * n2 + j) * 2 + k], (x[i], y[j], z[k])) and tuple(v[i, j, k]) == (1.0 + 0.25 * ((i * n2 + j) * 2 + k + 1), -0.5, 2.0)
                                           for i in range(n1) for j in range(n2) for k in range(2))
    if not ok:
        ctx.fail('C13:samplevector3d:index-order', 'samplevector3d order', dict(ranges=(a1, n1, a2, n2)))
    rec = Rec(vector=True)
    v = cm.samplevector2d_grid(rec, xs, ys)
    ok = v.shape == (n1, n2, 3) and all(_same(rec.calls[i * n2 + j], (xs[i], ys[j])) for i in range(n1) for j in range(n2))
    rec = Rec(vector=True)
    v2 = cm.samplevector3d_grid(rec, xs, ys, zs)
    ok = ok and v2.shape == (n1, n2, 3, 3) and all(_same(rec.calls[(i * n2 + j) * 3 + k], (xs[i], ys[j], zs[k])) for i in range(n1) for j in range(n2) for k in range(3))
    rec = Rec(vector=True)
    v3 = cm.samplevector2d_points(rec, pts2)
    ok = ok and all(_same(rec.calls[i], pts2[i]) for i in range(n1))
    rec = Rec(vector=True)
    v4 = cm.samplevector3d_points(rec, pts3)
    ok = ok and all(_same(rec.calls[i], pts3[i]) and tuple(v4[i]) == (1.0 + 0.25 * (i + 1), -0.5, 2.0) for i in range(n1))
    if not ok:
        ctx.fail('C13:samplevector_grid_points:order', 'vector grid/points samplers order', dict(xs=xs, ys=ys, zs=zs))
    # returned arrays belong to the caller: editing them must not influence later calls
    for nm_, f_, args_ in (('sample1d', cm.sample1d, ((a1[0], a1[1], n1),)),
                           ('sample2d', cm.sample2d, ((a1[0], a1[1], n1), (a1[0], a1[1], n1))),
                           ('sample3d', cm.sample3d, ((a1[0], a1[1], n1), (a2[0], a2[1], n2), (a1[0], a1[1], n1))),
                           ('samplevector2d', cm.samplevector2d, ((a1[0], a1[1], n1), (a2[0], a2[1], n2)))):
        vec = nm_.startswith('samplevector')
        first = f_(Rec(vector=vec), *args_)
        copies = [np.array(a_, copy=True) for a_ in first]
        for a_ in first:
            try:
                a_ *= 3.0
                a_ += 1.0
            except ValueError:
                pass                        # read-only result arrays are fine
        second = f_(Rec(vector=vec), *args_)
        if not all(np.array_equal(c_, b_) for c_, b_ in zip(copies, second)):
            ctx.fail('C13:%s:result-aliases-shared-state' % nm_,
                     '%s%r: after the caller edited the arrays returned by the first call, a second identical call returns different grids/values' % (nm_, args_),
                     dict(sampler=nm_, ranges=args_))
    ctx.case(key=('samplers', n1, n2))
    # invalid ranges rejected
    for bad in ((1.0, 0.0, 3), (0.0, 1.0, 0)):
        st, _ = call(cm.sample1d, Rec(), bad)
        if st != 'ValueError':
            ctx.fail('C13:sample1d:bad-range-accepted', 'range %r accepted' % (bad,), dict(range=bad))


def _same(a, b):
    if len(a) != len(b):
        return False
    for x, y in zip(a, b):
        x = float(x); y = float(y)
        if math.isnan(x) and math.isnan(y):
            continue
        if x != y or math.copysign(1, x) != math.copysign(1, y) and not (x == 0 and y == 0):
            return False
    return True


def run(ctx):
    ctx.rule = ('random + edge arguments (negative, +-0, subnormal, exact multiples of the period, 1e300, atan2 branch cut) for every '
                'wrapper class of cherab.core.math; a case is distinct by (wrapper kind, argument bit patterns / selector); '
                'non-trivial = the wrapped recording callable was actually invoked')
    ctx.trusted += ['C fmod/sqrt/atan2/cos/sin are parameters of the model (FmodSpec stated in Props/C13.lean); the driver is fed libm fmod values',
                    'raysect triangulate2d/Discrete2DMesh, Vector3D.transform, numpy.linspace (compared, not modelled beyond the formula)']
    ctx.assumptions += ['finite arguments; polygon test points keep 1e-6 distance from edges (guard band, counted)']
    ctx.lean_check(['Cherab.Props.C13'], 'Cherab/Audit/C13.lean')
    ctx.lean_check(['Cherab.Props.C13Ctor'], 'Cherab/Audit/C13Ctor.lean')

    cases = gen_cases(ctx, ctx.n(400, 6000))
    outs = ctx.driver([c['line'] for c in cases])
    ctx.traces = len(cases)
    for c, o in zip(cases, outs):
        obs = c['obs']
        if isinstance(obs, list):
            try:
                mod = [b2f(t) for t in o.split()]
            except ValueError:
                mod = o
            if c['tol']:
                agree = isinstance(mod, list) and len(mod) == len(obs) and all(close(a, b, 1e-12, 1e-300) or abs(a - b) <= 1e-12 * max(1.0, max(abs(t) for t in obs)) for a, b in zip(mod, obs))
            else:
                agree = isinstance(mod, list) and _same(mod, obs)
        else:
            agree = str(obs) == o
        ok, sig, why = c['oracle']
        if not agree:
            ctx.disagreements += 1
            ctx.count('disagreement:' + c['kind'])
            ctx.broke('correspondence', 'C13 stream ' + c['kind'], dict(line=c['line'], model=o, implementation=str(obs), input=c['desc']))
        if not ok:
            ctx.fail(sig, c['kind'] + ': ' + why, c['desc'])


def replay(ctx, path):
    import json
    r = json.load(open(path))
    print(json.dumps(r, indent=1)[:2000])
    run(ctx)
    return ctx.finish()
