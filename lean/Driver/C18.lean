import Cherab.Drv.Proto
import Cherab.Model.Laser
import Cherab.Gen.LaserEdges
open Cherab.Drv Cherab.Laser

/-! C18 driver: the model of `Cherab/Model/Laser.lean` at `Float`, interpreting the generated class tables.

stateful protocol (one object at a time):
  new <Class> <arg> <bits> …      -> ok | ValueError | …          (runCtor)
  set <prop> <bits>               -> ok | ValueError | noSuchSetter
  dens <x> <y> <z>                -> bits                          (get_energy_density)
  get <getter>                    -> bits | none
  getl <getter>                   -> bits … | none                 (array getters)
  eval <x>                        -> bits                          (spectrum(x))
  geom                            -> n z0 h r … | ValueError       (generate_geometry)
  notified                        -> count of notifier.notify() calls
  dup ; swap                      -> ok   (second object slot: copy of the current object / exchange the two)
stateless:
  erf <x> ; seg <r> <L> ; pow c|d|g <lo> <hi> <n> [<mean> <stddev>] ; specc <lo> <hi> <n> ; specg <lo> <hi> <n> <mean> <stddev>
-/

def sqrtPi : Float := Float.sqrt 3.141592653589793

/-- erf by the all-positive series 2/√π·x·e^{-x²}·Σ (2x²)^n/(2n+1)!! for |x| < 2.5, by the erfc continued fraction
beyond (checked against libm on every run by the harness) -/
def erfF (x : Float) : Float :=
  let a := x.abs
  if a != a then x else
  let r :=
    if a < 2.5 then
      let x2 := 2.0 * a * a
      let rec go (k : Nat) (n : Float) (term acc : Float) : Float :=
        match k with
        | 0 => acc
        | k + 1 =>
          let term' := term * x2 / (2.0 * n + 1.0)
          go k (n + 1.0) term' (acc + term')
      2.0 / sqrtPi * a * Float.exp (-(a * a)) * go 120 1.0 1.0 1.0
    else if a > 6.5 then 1.0
    else
      let rec cf (k : Nat) (t : Float) : Float :=
        match k with
        | 0 => t
        | k + 1 => cf k (a + ((k + 1).toFloat / 2.0) / t)
      1.0 - Float.exp (-(a * a)) / (sqrtPi * cf 200 a)
  if x < 0 then -r else r

/-- exact C `fmod` for `a ≥ 0`, `b > 0`: subtract the largest `b·2^k ≤ a` (each subtraction is exact by Sterbenz) -/
partial def fmodPos (a b : Float) : Float :=
  if !(a >= b) then a else
    let rec up (t : Float) : Float := if t * 2.0 <= a then up (t * 2.0) else t
    fmodPos (a - up b) b

/-- CPython `float_floor_div` for positive operands: `mod = fmod(a, b); div = (a - mod) / b; floor(div)` with the
half-way correction — the exact floor of the real quotient, unlike `floor(a / b)` (e.g. `10.0 // 0.1 = 99`) -/
def pyFloorDiv (a b : Float) : Int :=
  if a > 0.0 && b > 0.0 && a < 1e300 && b < 1e300 then
    let m := fmodPos a b
    let d := (a - m) / b
    let f := Float.floor d
    let f := if d - f > 0.5 then f + 1.0 else f
    f.toInt64.toInt
  else (Float.floor (a / b)).toInt64.toInt

def extF : Ext Float :=
  { c := lit Cherab.Gen.LaserEdges.speedOfLight.1 Cherab.Gen.LaserEdges.speedOfLight.2
    pi := 3.141592653589793
    sqrt := Float.sqrt
    exp := Float.exp
    erf := erfF
    floorDiv := pyFloorDiv
    toNat := fun x => x.toUInt64.toNat }

def resS : Res → String
  | .ok => "ok" | .valueError => "ValueError" | .noSuchSetter => "noSuchSetter" | .notUnderstood => "notUnderstood"

def segS : Option (List (Seg Float)) → String
  | none => "ValueError"
  | some l => toString l.length ++ (l.foldl (fun s g => s ++ " " ++ fFs [g.z0, g.height, g.radius]) "")

abbrev St := Option (Cls × Obj Float)

def argMap : List String → String → Float
  | k :: v :: rest, a => if k == a then pF v else argMap rest a
  | _, _ => 0.0

def step1 (st : St) (ts : List String) : St × String :=
  match ts with
  | "new" :: cls :: kv =>
    match Cherab.Gen.LaserEdges.classes.find? (fun t => t.name == cls) with
    | none => (none, "noSuchClass")
    | some t =>
      let (o, r) := runCtor extF t (argMap kv)
      (some (t, o), resS r)
  | ["erf", x] => (st, fF (erfF (pF x)))
  -- subscriptions: "subs <n profiles> <l> <p> <l> <p> …" -> for every profile the lasers registered on its notifier
  | "subs" :: np :: rest =>
    let rec pairs : List String → List (Nat × Nat)
      | l :: p :: t => (pN l, pN p) :: pairs t
      | _ => []
    let sc := attachAll emptyScene (pairs rest)
    (st, "|".intercalate ((List.range (pN np)).map fun p => ",".intercalate ((sc.subs p).map toString)) ++ "|")
  | ["seg", r, l] => (st, segS (generateSegmentedCylinder extF (pF r) (pF l)))
  | ["specc", lo, hi, n] =>
    let (lo, hi, n) := (pF lo, pF hi, pN n)
    (st, fFs (wavelengths lo hi n ++ psdList (trapezoidPsd (constEval lo hi)) lo hi n))
  | ["specg", lo, hi, n, mean, sd] =>
    let (lo, hi, n, mean, sd) := (pF lo, pF hi, pN n, pF mean, pF sd)
    let k := evalRhs extF .gaussCdfNorm sd
    (st, fFs (wavelengths lo hi n ++ psdList (gaussBinPsd erfF mean k (delta lo hi n)) lo hi n))
  -- per-bin power (`power_mv`, what the scattering models read): "pow <kind> lo hi n [mean sd]"
  | ["pow", "c", lo, hi, n] =>
    let (lo, hi, n) := (pF lo, pF hi, pN n)
    (st, fFs (powerList (trapezoidPsd (constEval lo hi)) lo hi n))
  | ["pow", "d", lo, hi, n] =>
    let (lo, hi, n) := (pF lo, pF hi, pN n)
    (st, fFs (powerList (fun _ _ => 1.0 / (hi - lo)) lo hi n))
  | ["pow", "g", lo, hi, n, mean, sd] =>
    let (lo, hi, n, mean, sd) := (pF lo, pF hi, pN n, pF mean, pF sd)
    let k := evalRhs extF .gaussCdfNorm sd
    (st, fFs (powerList (gaussBinPsd erfF mean k (delta lo hi n)) lo hi n))
  | ["specd", lo, hi, n] =>
    let (lo, hi, n) := (pF lo, pF hi, pN n)
    (st, fFs (wavelengths lo hi n ++ psdList (fun _ _ => 1.0 / (hi - lo)) lo hi n))
  | _ =>
    match st with
    | none => (st, "noObject")
    | some (t, o) =>
      match ts with
      | ["set", p, v] =>
        let (o', r) := setProp extF t o p (pF v)
        (some (t, o'), resS r)
      | ["dens", x, y, z] => (st, fF (energyDensity extF t o (pF x) (pF y) (pF z)))
      | ["get", g] => (st, match getter extF t o g with | some v => fF v | none => "none")
      | ["getl", g] => (st, match getterList extF t o g with | some l => fFs l | none => "none")
      | ["eval", x] => (st, fF (specEvaluate extF t o (pF x)))
      | ["geom"] => (st, segS (geometry extF t o))
      | ["notified"] => (st, toString o.notified)
      | _ => (st, "bad-op")

/-- two object slots (current, other): `dup` copies the current object into the other slot (in the model an object is a
value, so a copy / deepcopy / pickle round trip is the same value and later assignments cannot alias), `swap` exchanges -/
def step2 (st : St × St) (ts : List String) : (St × St) × String :=
  match ts with
  | ["dup"] => ((st.1, st.1), "ok")
  | ["swap"] => ((st.2, st.1), "ok")
  | _ => let (s', o) := step1 st.1 ts; ((s', st.2), o)

/-! polarised profile slot (round 6):
  pnew <Class> <px> <py> <pz> <arg> <bits> …  -> ok | ValueError | ZeroDivisionError | …   (prunCtor)
  pset <prop> <bits> ; ppol <px> <py> <pz>    -> ok | ValueError | ZeroDivisionError | noSuchSetter
  pget <x> <y> <z>                            -> bits bits bits | none                      (get_polarization)
  pdens <x> <y> <z> ; pgeom ; pnotified       -> as dens / geom / notified on the polarised object
  norm <px> <py> <pz>                         -> bits bits bits | ZeroDivisionError         (Vector3D.normalise) -/
abbrev PSt := Option (Cls × PObj Float)

def presS : PRes → String
  | .ok => "ok" | .valueError => "ValueError" | .zeroDivision => "ZeroDivisionError" | .noSuchSetter => "noSuchSetter"
  | .notUnderstood => "notUnderstood"

def v3S : Option (V3 Float) → String
  | none => "none"
  | some v => fFs [v.x, v.y, v.z]

def stepP (st : PSt) (ts : List String) : Option (PSt × String) :=
  match ts with
  | "pnew" :: cls :: px :: py :: pz :: kv =>
    match Cherab.Gen.LaserEdges.classes.find? (fun t => t.name == cls) with
    | none => some (none, "noSuchClass")
    | some t =>
      let (o, r) := prunCtor extF t (argMap kv) { x := pF px, y := pF py, z := pF pz }
      some (some (t, o), presS r)
  | ["norm", px, py, pz] =>
    some (st, match normalise extF { x := pF px, y := pF py, z := pF pz } with
      | none => "ZeroDivisionError" | some v => fFs [v.x, v.y, v.z])
  | ["pset", p, v] =>
    match st with
    | none => some (st, "noObject")
    | some (t, o) => let (o', r) := pstep extF t o (.set p (pF v)); some (some (t, o'), presS r)
  | ["ppol", px, py, pz] =>
    match st with
    | none => some (st, "noObject")
    | some (t, o) => let (o', r) := pstep extF t o (.pol { x := pF px, y := pF py, z := pF pz }); some (some (t, o'), presS r)
  | ["pget", x, y, z] =>
    match st with
    | none => some (st, "noObject")
    | some (_, o) => some (st, v3S (getPolarization o (pF x) (pF y) (pF z)))
  | ["pdens", x, y, z] =>
    match st with
    | none => some (st, "noObject")
    | some (t, o) => some (st, fF (energyDensity extF t o.obj (pF x) (pF y) (pF z)))
  | ["pgeom"] =>
    match st with
    | none => some (st, "noObject")
    | some (t, o) => some (st, segS (geometry extF t o.obj))
  | ["pnotified"] =>
    match st with
    | none => some (st, "noObject")
    | some (_, o) => some (st, toString o.obj.notified)
  | _ => none

def step (st : (St × St) × PSt) (ts : List String) : ((St × St) × PSt) × String :=
  match stepP st.2 ts with
  | some (p', o) => ((st.1, p'), o)
  | none => let (s', o) := step2 st.1 ts; ((s', st.2), o)

def main : IO UInt32 := do
  loop step (← IO.getStdin) (← IO.getStdout) (((none, none), none) : (St × St) × PSt)
  return 0
