import Cherab.Model.BeamDensity
import Cherab.Lemmas.BeamDensity
import Cherab.Lemmas.Gaussian
import Cherab.Lemmas.BeamTrapezoid
import Mathlib.Algebra.Order.Floor.Ring
import Mathlib.Algebra.Order.Floor.Semiring
import Mathlib.Algebra.Order.Ring.Rat
import Mathlib.Analysis.SpecialFunctions.Sqrt
import Mathlib.Analysis.SpecialFunctions.Exp

/-!
# C04 — beam density conserves particles, decays monotonically, follows its envelope

Property theorems only (helpers are in `Cherab/Lemmas/BeamDensity.lean`).  `sqrt`, `exp`, `tan`-values, `π`, `ceil` are
parameters of the model; the hypotheses used about them are spelled out in each statement and are discharged for
`Real.sqrt`, `Real.exp`, `Nat.ceil` in the ℝ-instances at the end.

Clause map of the property sentence:
* "integrated over the cross-section … equals the particle rate P/(E m) divided by the speed times exp(−∫S/v)":
  `cross_section_integral` (ℝ, the Gaussian integral is proved, not assumed) + `source_flux` +
  `flux_at_nodes_partial` (discretised integral: the code's cumulative trapezoid — partial, see there) +
  `uniform_plasma_exact_at_nodes` (exact law where the trapezoid is exact);
* "S is the documented composite stopping coefficient": `beamStopping_documented`;
* "without stopping the flux is the same at every z for any divergence": `no_stopping_constant_flux`,
  `cross_section_flux_no_stopping`;
* "on-axis density never increases with z": `cumtrapz_monotone`, `line_density_antitone`, `on_axis_density_antitone`;
* "zero before the source, beyond the length, outside the clamp radius": `density_zero_outside`;
* "direction is a unit vector whose streamlines keep x/σx, y/σy constant": `direction_unit`,
  `direction_streamline`, `streamline_invariant_x/y`, `envelope_is_streamline`.
-/
namespace Cherab.Props.C04
set_option linter.unusedSectionVars false
set_option linter.unusedVariables false
open Cherab.BeamDensity Cherab.Lemmas.BeamDensity

variable {α : Type} [Field α] [LinearOrder α] [IsStrictOrderedRing α]

/-! ## the composite stopping coefficient -/

/-- `_beam_stopping` computes the documented `S = Σ_i Z_i n_i S_i(E_int,i , (Σ_j Z_j² n_j)/Z_i , T_i)` with
`E_int,i = |v_beam − v_i|² / (2e/amu)`. -/
theorem beamStopping_documented (sqrt : α → α) (cf : α) (bv : Vec α) (ts : List (Target α)) :
    beamStopping sqrt cf bv ts =
      (ts.map fun s => (s.charge : α) * s.n *
        s.rate ((vlen sqrt (vsub bv s.v)) ^ 2 / cf)
               ((ts.map fun j => (j.charge : α) ^ 2 * j.n).sum / (s.charge : α)) s.t).sum := by
  unfold beamStopping
  rw [foldl_add_eq_sum, zero_add]
  congr 1
  apply List.map_congr_left
  intro s _
  have hds : densitySum ts = (ts.map fun j => (j.charge : α) ^ 2 * j.n).sum := by
    unfold densitySum
    rw [foldl_add_eq_sum, zero_add]
    congr 1
    apply List.map_congr_left
    intro j _
    push_cast; ring
  simp only [stoppingTerm, rateArgs, evAmuToMSInv, hds]
  rw [pow_two, mul_comm s.n]

/-- non-negative partial rates and densities give a non-negative stopping coefficient -/
theorem beamStopping_nonneg (sqrt : α → α) (cf : α) (bv : Vec α) (ts : List (Target α))
    (hn : ∀ s ∈ ts, 0 ≤ s.n) (hr : ∀ s ∈ ts, ∀ e n t, 0 ≤ s.rate e n t) :
    0 ≤ beamStopping sqrt cf bv ts := by
  rw [beamStopping_documented]
  apply List.sum_nonneg
  intro v hv
  obtain ⟨s, hs, rfl⟩ := List.mem_map.mp hv
  have := hn s hs
  have := hr s hs ((vlen sqrt (vsub bv s.v)) ^ 2 / cf)
    ((ts.map fun j => (j.charge : α) ^ 2 * j.n).sum / (s.charge : α)) s.t
  positivity

/-- vanishing partial rates give `S = 0` -/
theorem beamStopping_zero (sqrt : α → α) (cf : α) (bv : Vec α) (ts : List (Target α))
    (hr : ∀ s ∈ ts, ∀ e n t, s.rate e n t = 0) : beamStopping sqrt cf bv ts = 0 := by
  rw [beamStopping_documented]
  apply List.sum_eq_zero
  intro v hv
  obtain ⟨s, hs, rfl⟩ := List.mem_map.mp hv
  rw [hr s hs]; ring

/-- a neutral species (Z = 0) contributes nothing whatever its rate returns (over a field; in floats the code
multiplies `0 · S_i(E, ±inf|nan, T)`, which is 0 only for a finite rate value — see notes/C04.md) -/
theorem neutral_term_zero (sqrt : α → α) (cf : α) (bv : Vec α) (ds : α) (s : Target α) (h : s.charge = 0) :
    stoppingTerm sqrt cf bv ds s = 0 := by
  simp [stoppingTerm, h]

/-! ## sample points -/

theorem sample_count_ge_four (ceilNat : α → Nat) (length step : α) : 4 ≤ sampleCount ceilNat length step :=
  le_max_right _ _

/-- the spacing of the sample points never exceeds the requested step -/
theorem sample_spacing_le_step [FloorRing α] (length step : α) (hs : 0 < step) (hl : 0 ≤ length) :
    length / ((sampleCount (fun x => ⌈x⌉₊) length step - 1 : Nat) : α) ≤ step := by
  set n := sampleCount (fun x : α => ⌈x⌉₊) length step with hn
  have h4 : 4 ≤ n := sample_count_ge_four _ _ _
  have h1 : 1 + ⌈length / step⌉₊ ≤ n := le_max_left _ _
  have hc : length / step ≤ ((n - 1 : Nat) : α) := by
    have : ⌈length / step⌉₊ ≤ n - 1 := by omega
    exact le_trans (Nat.le_ceil _) (by exact_mod_cast this)
  have hpos : (0 : α) < ((n - 1 : Nat) : α) := by
    have : 0 < n - 1 := by omega
    exact_mod_cast this
  rw [div_le_iff₀ hpos]
  have := (div_le_iff₀ hs).mp hc
  linarith

theorem node_formula (length : α) (n i : Nat) (hn : 2 ≤ n) (hi : i < n) :
    node length n i = (i : α) * (length / ((n - 1 : Nat) : α)) := by
  unfold node
  have hpos : (0 : α) < ((n - 1 : Nat) : α) := by
    have : 0 < n - 1 := by omega
    exact_mod_cast this
  split_ifs with h1 h2
  · omega
  · rw [h2]; field_simp
  · ring

/-- first sample at the source, last at the beam length, strictly increasing in between -/
theorem node_first (length : α) (n : Nat) (hn : 2 ≤ n) : node length n 0 = 0 := by
  rw [node_formula length n 0 hn (by omega)]; simp

theorem node_last (length : α) (n : Nat) (hn : 2 ≤ n) : node length n (n - 1) = length := by
  unfold node
  rw [if_neg (by omega), if_pos rfl]

theorem nodes_increasing (length : α) (n : Nat) (hn : 2 ≤ n) (hl : 0 < length) :
    (nodes length n).Pairwise (· < ·) := by
  unfold nodes
  rw [List.pairwise_map]
  have hpos : (0 : α) < ((n - 1 : Nat) : α) := by
    have : 0 < n - 1 := by omega
    exact_mod_cast this
  have hstep : 0 < length / ((n - 1 : Nat) : α) := div_pos hl hpos
  refine List.Pairwise.imp_of_mem ?_ List.pairwise_lt_range
  intro i j hi hj hij
  rw [node_formula length n i hn (List.mem_range.mp hi), node_formula length n j hn (List.mem_range.mp hj)]
  exact mul_lt_mul_of_pos_right (by exact_mod_cast hij) hstep

/-- every sample point lies on the beam: `0 ≤ z_k ≤ length` -/
theorem nodes_in_range (length : α) (n : Nat) (hn : 2 ≤ n) (hl : 0 < length) :
    ∀ z ∈ nodes length n, 0 ≤ z ∧ z ≤ length := by
  intro z hz
  unfold nodes at hz
  obtain ⟨i, hi, rfl⟩ := List.mem_map.mp hz
  have hi' := List.mem_range.mp hi
  have hpos : (0 : α) < ((n - 1 : Nat) : α) := by
    have : 0 < n - 1 := by omega
    exact_mod_cast this
  rw [node_formula length n i hn hi']
  have hstep : 0 < length / ((n - 1 : Nat) : α) := div_pos hl hpos
  constructor
  · positivity
  · have hle : (i : α) ≤ ((n - 1 : Nat) : α) := by
      have : i ≤ n - 1 := by omega
      exact_mod_cast this
    calc (i : α) * (length / ((n - 1 : Nat) : α)) ≤ ((n - 1 : Nat) : α) * (length / ((n - 1 : Nat) : α)) :=
          mul_le_mul_of_nonneg_right hle hstep.le
      _ = length := by field_simp

/-! ## monotone decay -/

/-- non-negative integrand on sorted abscissae ⇒ non-decreasing, non-negative cumulative trapezoid sums -/
theorem cumtrapz_monotone (pts : List (α × α)) (hx : pts.Pairwise (fun a b => a.1 ≤ b.1))
    (hy : ∀ p ∈ pts, 0 ≤ p.2) : (cumtrapz pts).Pairwise (· ≤ ·) ∧ ∀ c ∈ cumtrapz pts, 0 ≤ c := by
  cases pts with
  | nil => simp [cumtrapz]
  | cons p rest =>
      obtain ⟨x0, y0⟩ := p
      simp only [cumtrapz, List.pairwise_cons, List.mem_cons]
      refine ⟨⟨fun c hc => cumtrapzFrom_ge rest 0 x0 y0 hx hy c hc, cumtrapzFrom_sorted rest 0 x0 y0 hx hy⟩, ?_⟩
      rintro c (rfl | hc)
      · exact le_refl _
      · exact cumtrapzFrom_ge rest 0 x0 y0 hx hy c hc

/-- hypotheses about the beam and the external functions used by the decay theorems -/
structure Decay (exp : α → α) (n0 speed : α) : Prop where
  exp_mono : ∀ a b, a ≤ b → exp a ≤ exp b
  exp_nonneg : ∀ a, 0 ≤ exp a
  n0_nonneg : 0 ≤ n0
  speed_pos : 0 < speed

/-- the attenuation samples are non-negative and never increase along the axis -/
theorem attenuate_antitone (exp : α → α) (n0 speed : α) (h : Decay exp n0 speed) (cum : List α)
    (hc : cum.Pairwise (· ≤ ·)) :
    (attenuate exp n0 speed cum).Pairwise (fun a b => b ≤ a) ∧ ∀ f ∈ attenuate exp n0 speed cum, 0 ≤ f := by
  unfold attenuate
  constructor
  · rw [List.pairwise_map]
    refine hc.imp ?_
    intro a b hab
    apply mul_le_mul_of_nonneg_left _ h.n0_nonneg
    apply h.exp_mono
    rw [div_le_div_iff_of_pos_right h.speed_pos]
    linarith
  · intro f hf
    obtain ⟨c, _, rfl⟩ := List.mem_map.mp hf
    exact mul_nonneg h.n0_nonneg (h.exp_nonneg _)

/-- the knots handed to the interpolator by `_calc_attenuation`, for given stopping coefficients -/
def lineKnots (exp : α → α) (n0 speed : α) (zs ss : List α) : List (α × α) :=
  zs.zip (attenuate exp n0 speed (cumtrapz (zs.zip ss)))

theorem calcAttenuation_eq (sqrt exp : α → α) (echarge amu energy power mass : α) (dir : Vec α) (zs : List α)
    (targets : List (List (Target α))) :
    calcAttenuation sqrt exp echarge amu energy power mass dir zs targets =
      lineKnots exp (sourceDensity sqrt echarge amu energy power mass) (beamSpeed sqrt echarge amu energy) zs
        (targets.map (beamStopping sqrt (evAmuFactor echarge amu)
          (beamVelocity sqrt dir (beamSpeed sqrt echarge amu energy)))) := rfl

theorem lineKnots_sorted (exp : α → α) (n0 speed : α) (h : Decay exp n0 speed) (zs ss : List α)
    (hz : zs.Pairwise (· < ·)) (hs : ∀ s ∈ ss, 0 ≤ s) :
    (lineKnots exp n0 speed zs ss).Pairwise (fun a b => a.1 < b.1) ∧
    (lineKnots exp n0 speed zs ss).Pairwise (fun a b => b.2 ≤ a.2) ∧
    ∀ p ∈ lineKnots exp n0 speed zs ss, 0 ≤ p.2 := by
  have hx : (zs.zip ss).Pairwise (fun a b => a.1 ≤ b.1) :=
    (pairwise_zip_fst (· < ·) zs ss hz).imp (fun h => le_of_lt h)
  have hy : ∀ p ∈ zs.zip ss, 0 ≤ p.2 := fun p hp => hs p.2 (List.of_mem_zip (a := p.1) (b := p.2) hp).2
  obtain ⟨hc, _⟩ := cumtrapz_monotone (zs.zip ss) hx hy
  obtain ⟨ha, hn⟩ := attenuate_antitone exp n0 speed h _ hc
  exact ⟨pairwise_zip_fst _ _ _ hz, pairwise_zip_snd _ _ _ ha,
    fun p hp => hn p.2 (List.of_mem_zip (a := p.1) (b := p.2) hp).2⟩

/-- **line density never increases**: for non-negative stopping coefficients the interpolated line density is
antitone in z (wherever the interpolator returns a value, extrapolation margin included) and non-negative. -/
theorem line_density_antitone (exp : α → α) (n0 speed range : α) (h : Decay exp n0 speed) (zs ss : List α)
    (hz : zs.Pairwise (· < ·)) (hs : ∀ s ∈ ss, 0 ≤ s) (z z' a b : α) (hzz : z ≤ z')
    (ha : interpEval range (lineKnots exp n0 speed zs ss) z = some a)
    (hb : interpEval range (lineKnots exp n0 speed zs ss) z' = some b) : b ≤ a ∧ 0 ≤ b := by
  obtain ⟨h1, h2, h3⟩ := lineKnots_sorted exp n0 speed h zs ss hz hs
  generalize lineKnots exp n0 speed zs ss = knots at *
  cases knots with
  | nil => simp [interpEval] at ha
  | cons p rest =>
      obtain ⟨x0, f0⟩ := p
      have hk : Knots x0 f0 rest := ⟨h1, h2⟩
      have hf0 : 0 ≤ f0 := h3 (x0, f0) (by simp)
      simp only [interpEval] at ha hb
      by_cases c1 : z < x0
      · rw [if_pos c1] at ha
        by_cases c2 : z' < x0
        · rw [if_pos c2] at hb
          split_ifs at ha hb
          simp only [Option.some.injEq] at ha hb
          subst ha; subst hb
          exact ⟨le_refl _, hf0⟩
        · rw [if_neg c2] at hb
          split_ifs at ha hb
          simp only [Option.some.injEq] at ha hb
          subst ha; subst hb
          exact ⟨interpFrom_le_first rest x0 f0 z' hk (not_lt.mp c2), interpFrom_ge 0 rest x0 f0 z' hk h3 (not_lt.mp c2)⟩
      · have c2 : ¬ z' < x0 := not_lt.mpr (le_trans (not_lt.mp c1) hzz)
        rw [if_neg c1] at ha
        rw [if_neg c2] at hb
        split_ifs at ha hb
        simp only [Option.some.injEq] at ha hb
        subst ha; subst hb
        exact ⟨interpFrom_antitone rest x0 f0 z z' hk hzz, interpFrom_ge 0 rest x0 f0 z' hk h3 (not_lt.mp c2)⟩

/-! ## upper bound (proof-deepening pass) -/

/-- **the attenuated line density never exceeds the source value** `n0 = P/(E m e)/v`, for non-negative stopping
coefficients over an arbitrary strictly increasing node list -/
theorem line_density_le_source (exp : α → α) (n0 speed range : α) (h : Decay exp n0 speed) (hexp : exp 0 = 1)
    (zs ss : List α) (hz : zs.Pairwise (· < ·)) (hs : ∀ s ∈ ss, 0 ≤ s) (z a : α)
    (ha : interpEval range (lineKnots exp n0 speed zs ss) z = some a) : a ≤ n0 := by
  obtain ⟨h1, h2, h3⟩ := lineKnots_sorted exp n0 speed h zs ss hz hs
  have hfirst : ∀ p, (lineKnots exp n0 speed zs ss).head? = some p → p.2 = n0 := by
    intro p hp
    cases zs with
    | nil => simp [lineKnots] at hp
    | cons z0 zs =>
      cases ss with
      | nil => simp [lineKnots, cumtrapz, attenuate] at hp
      | cons s0 ss =>
        simp only [lineKnots, List.zip_cons_cons, cumtrapz, attenuate, List.map_cons, List.head?_cons,
          Option.some.injEq] at hp
        rw [← hp]; simp [hexp]
  generalize lineKnots exp n0 speed zs ss = knots at *
  cases knots with
  | nil => simp [interpEval] at ha
  | cons p rest =>
      obtain ⟨x0, f0⟩ := p
      have hf0 : f0 = n0 := hfirst (x0, f0) rfl
      have hk : Knots x0 f0 rest := ⟨h1, h2⟩
      simp only [interpEval] at ha
      split_ifs at ha with c1 c2 c3 <;> simp only [Option.some.injEq] at ha
      · rw [← ha, hf0]
      · rw [← ha, ← hf0]; exact interpFrom_le_first rest x0 f0 z hk (not_lt.mp c1)

example : ∃ a : ℚ, interpEval (0 : ℚ) (lineKnots (fun _ => (1 : ℚ)) 3 2 [0, 1, 2] [1, 5, 0]) (1 / 2) = some a ∧ a ≤ 3 :=
  ⟨3, by norm_num [lineKnots, cumtrapz, cumtrapzFrom, attenuate, interpEval, interpFrom, lastX, linear1d], le_refl _⟩

/-! ## conservation -/

/-- `_source_density · v = P / (E m e)`: the flux at the source is the particle rate -/
theorem source_flux (sqrt : α → α) (echarge amu energy power mass : α) (hv : beamSpeed sqrt echarge amu energy ≠ 0) :
    sourceDensity sqrt echarge amu energy power mass * beamSpeed sqrt echarge amu energy
      = power / (energy * mass * echarge) := by
  unfold sourceDensity particleRate evToJ
  field_simp

/-- the beam speed is `√(2 E e / amu)` -/
theorem beam_speed_formula (sqrt : α → α) (echarge amu energy : α) :
    beamSpeed sqrt echarge amu energy = sqrt (energy * (2 * echarge / amu)) := by
  simp [beamSpeed, evAmuToMS, evAmuFactor, two_lit]

/-- **discretised conservation law** (partial: the property's `exp(−∫₀ᶻ S/v)` with the integral replaced by the code's
cumulative trapezoid sum `c_k` over the sample points): at every sample point the interpolated line density is
`n0 · exp(−c_k / v)` exactly, i.e. flux `= P/(E m e) · exp(−c_k/v)`.  The distance between `c_k` and `∫₀^{z_k} S` is
the trapezoid error, bounded in S (harness) by `h²/12 · z · max|S''|` with `h ≤ step` (`sample_spacing_le_step`). -/
theorem flux_at_nodes_partial (exp : α → α) (n0 speed range : α) (hr : 0 ≤ range) (zs ss : List α)
    (hz : zs.Pairwise (· < ·)) :
    ∀ q ∈ zs.zip (cumtrapz (zs.zip ss)),
      interpEval range (lineKnots exp n0 speed zs ss) q.1 = some (n0 * exp (-q.2 / speed)) := by
  intro q hq
  have hmem : (q.1, n0 * exp (-q.2 / speed)) ∈ lineKnots exp n0 speed zs ss := by
    unfold lineKnots attenuate
    rw [List.zip_map_right]
    exact List.mem_map.mpr ⟨q, hq, rfl⟩
  have h1 : (lineKnots exp n0 speed zs ss).Pairwise (fun a b => a.1 < b.1) := pairwise_zip_fst _ _ _ hz
  generalize lineKnots exp n0 speed zs ss = knots at *
  cases knots with
  | nil => simp at hmem
  | cons p rest =>
      obtain ⟨x0, f0⟩ := p
      have hx0 : x0 ≤ q.1 := by
        rw [List.mem_cons] at hmem
        rcases hmem with h | h
        · rw [Prod.mk.injEq] at h; rw [h.1]
        · exact ((List.pairwise_cons.mp h1).1 _ h).le
      have hlast := le_lastX rest x0 f0 h1 _ hmem
      simp only [interpEval]
      rw [if_neg (not_lt.mpr hx0), if_neg (by simp only [not_lt]; linarith)]
      exact congrArg some (interpFrom_knot rest x0 f0 h1 _ hmem)

/-- in a uniform plasma (`S ≡ S₀` on the axis) the trapezoid is exact: at every sample point the line density is the
property's `n0 · exp(−S₀ (z − z₀)/v)` -/
theorem uniform_plasma_exact_at_nodes (exp : α → α) (n0 speed range s0 z0 : α) (hr : 0 ≤ range) (zs : List α)
    (hz : (z0 :: zs).Pairwise (· < ·)) :
    ∀ z ∈ z0 :: zs,
      interpEval range (lineKnots exp n0 speed (z0 :: zs) ((z0 :: zs).map fun _ => s0)) z
        = some (n0 * exp (-(s0 * (z - z0)) / speed)) := by
  intro z hzm
  have key : ∀ q ∈ (z0 :: zs).zip (cumtrapz ((z0 :: zs).zip ((z0 :: zs).map fun _ => s0))), q.2 = s0 * (q.1 - z0) := by
    intro q hq
    simp only [List.map_cons, List.zip_cons_cons, cumtrapz, List.mem_cons] at hq
    rcases hq with rfl | hq
    · simp
    · have hc := cumtrapzFrom_const s0 (zs.zip (zs.map fun _ => s0))
        (fun p hp => by
          have := (List.of_mem_zip (a := p.1) (b := p.2) hp).2
          simp only [List.mem_map] at this
          obtain ⟨_, _, h⟩ := this
          exact h.symm) 0 z0 q
      have hfst : (zs.zip (zs.map fun _ => s0)).map Prod.fst = zs := by
        rw [List.map_fst_zip]; simp
      rw [hfst] at hc
      rw [hc hq]; ring
  have hlen : (cumtrapz ((z0 :: zs).zip ((z0 :: zs).map fun _ => s0))).length = (z0 :: zs).length := by
    rw [cumtrapz_length]; simp
  obtain ⟨i, hi, rfl⟩ := List.getElem_of_mem hzm
  have hq : ((z0 :: zs)[i], (cumtrapz ((z0 :: zs).zip ((z0 :: zs).map fun _ => s0)))[i]'(by rw [hlen]; exact hi)) ∈
      (z0 :: zs).zip (cumtrapz ((z0 :: zs).zip ((z0 :: zs).map fun _ => s0))) := by
    rw [List.mem_iff_getElem]
    exact ⟨i, by simp only [List.length_zip, hlen]; simpa using hi, by simp⟩
  have := flux_at_nodes_partial exp n0 speed range hr (z0 :: zs) ((z0 :: zs).map fun _ => s0) hz _ hq
  rw [this, key _ hq]

/-- **no stopping ⇒ constant flux**: if the stopping coefficient vanishes at every sample point the line density
equals `n0` at every z of the interpolation domain, hence flux `= n0 · v = P/(E m e)` at every z.  Divergence does not
enter: the line density does not depend on it, and the cross-section integral of the density equals the line density
for every `σx, σy > 0` (`cross_section_integral`). -/
theorem no_stopping_constant_flux (exp : α → α) (n0 speed range : α) (hexp : exp 0 = 1) (zs ss : List α)
    (hs : ∀ s ∈ ss, s = 0) (z a : α) (ha : interpEval range (lineKnots exp n0 speed zs ss) z = some a) :
    a = n0 := by
  have hcum : ∀ c ∈ cumtrapz (zs.zip ss), c = 0 := by
    cases hzs : zs.zip ss with
    | nil => simp [cumtrapz]
    | cons p rest =>
        obtain ⟨x0, y0⟩ := p
        have hall : ∀ p ∈ (x0, y0) :: rest, p.2 = 0 := by
          intro p hp; rw [← hzs] at hp
          exact hs p.2 (List.of_mem_zip (a := p.1) (b := p.2) hp).2
        have hy0 : y0 = 0 := hall (x0, y0) (by simp)
        subst hy0
        intro c hc
        simp only [cumtrapz, List.mem_cons] at hc
        rcases hc with rfl | hc
        · rfl
        · obtain ⟨i, hi, rfl⟩ := List.getElem_of_mem hc
          have hlen := cumtrapzFrom_length rest (0 : α) x0 0
          have hmem : ((rest.map Prod.fst)[i]'(by simp; omega), (cumtrapzFrom 0 x0 0 rest)[i]) ∈
              (rest.map Prod.fst).zip (cumtrapzFrom 0 x0 0 rest) := by
            rw [List.mem_iff_getElem]
            exact ⟨i, by simp only [List.length_zip, List.length_map]; omega, by simp⟩
          have := cumtrapzFrom_const 0 rest (fun p hp => hall p (List.mem_cons_of_mem _ hp)) 0 x0 _ hmem
          simpa using this
  have hknots : ∀ p ∈ lineKnots exp n0 speed zs ss, p.2 = n0 := by
    intro p hp
    have := (List.of_mem_zip (a := p.1) (b := p.2) hp).2
    unfold attenuate at this
    obtain ⟨c, hc, h⟩ := List.mem_map.mp this
    rw [← h, hcum c hc]; simp [hexp]
  generalize lineKnots exp n0 speed zs ss = knots at *
  cases knots with
  | nil => simp [interpEval] at ha
  | cons p rest =>
      obtain ⟨x0, f0⟩ := p
      have hf0 : f0 = n0 := hknots (x0, f0) (by simp)
      subst hf0
      simp only [interpEval] at ha
      split_ifs at ha <;> simp only [Option.some.injEq] at ha
      · exact ha.symm
      · rw [← ha]; exact interpFrom_const f0 rest x0 z (fun p hp => hknots p (List.mem_cons_of_mem _ hp))

/-! ## factorisation, support -/

/-- hypotheses about `sqrt`, `exp`, `π` used for the envelope -/
structure Env (sqrt exp : α → α) (pi : α) : Prop where
  sqrt_pos : ∀ s, 0 < s → 0 < sqrt s
  sqrt_mono : ∀ a b, a ≤ b → sqrt a ≤ sqrt b
  exp_nonneg : ∀ a, 0 ≤ exp a
  pi_pos : 0 < pi

theorem sigmaZ_pos (sqrt exp : α → α) (pi : α) (h : Env sqrt exp pi) (sigma tandiv z : α) (hs : 0 < sigma) :
    0 < sigmaZ sqrt sigma tandiv z := by
  unfold sigmaZ
  apply h.sqrt_pos
  have : 0 ≤ z * tandiv * (z * tandiv) := mul_self_nonneg _
  have : 0 < sigma * sigma := mul_pos hs hs
  linarith

/-- the envelope widens monotonically away from the source -/
theorem sigmaZ_mono (sqrt exp : α → α) (pi : α) (h : Env sqrt exp pi) (sigma tandiv z z' : α) (hz : 0 ≤ z) (hzz : z ≤ z') :
    sigmaZ sqrt sigma tandiv z ≤ sigmaZ sqrt sigma tandiv z' := by
  unfold sigmaZ
  apply h.sqrt_mono
  have h1 : z * z ≤ z' * z' := mul_le_mul hzz hzz hz (le_trans hz hzz)
  have h2 : 0 ≤ tandiv * tandiv := mul_self_nonneg _
  nlinarith [mul_le_mul_of_nonneg_right h1 h2]

theorem gaussianSample_nonneg (sqrt exp : α → α) (pi : α) (h : Env sqrt exp pi) (sx sy x y : α) (hx : 0 < sx) (hy : 0 < sy) :
    0 ≤ gaussianSample exp pi sx sy x y := by
  unfold gaussianSample
  rw [two_lit]
  have := h.exp_nonneg (-0.5 * normRadiusSqr sx sy x y)
  have := h.pi_pos
  positivity

/-- **density = line density(z) × g(x, y, z)** with `g ≥ 0` the bivariate Gaussian of widths `σx(z), σy(z)`, wherever
the point is inside the z-range and not clamped away -/
theorem density_factorises (sqrt exp : α → α) (pi sigma tanx tany length : α) (clamp : Bool) (clampSqr : α)
    (line : α → Option α) (x y z : α) (hz : 0 ≤ z ∧ z ≤ length)
    (hc : clamp = false ∨ normRadiusSqr (sigmaZ sqrt sigma tanx z) (sigmaZ sqrt sigma tany z) x y ≤ clampSqr) :
    beamDensity sqrt exp pi sigma tanx tany length clamp clampSqr line x y z =
      (line z).map fun l => l * gaussianSample exp pi (sigmaZ sqrt sigma tanx z) (sigmaZ sqrt sigma tany z) x y := by
  unfold beamDensity attDensity
  rw [if_neg (by simp only [not_or, not_lt]; exact hz)]
  rcases hc with hc | hc
  · simp [hc]
  · simp [not_lt.mpr hc]

/-- **zero outside**: before the source, beyond the beam length and — with clamping on — outside the clamp radius -/
theorem density_zero_outside (sqrt exp : α → α) (pi sigma tanx tany length : α) (clamp : Bool) (clampSqr : α)
    (line : α → Option α) (x y z : α)
    (h : z < 0 ∨ length < z ∨
      (clamp = true ∧ clampSqr < normRadiusSqr (sigmaZ sqrt sigma tanx z) (sigmaZ sqrt sigma tany z) x y)) :
    beamDensity sqrt exp pi sigma tanx tany length clamp clampSqr line x y z = some 0 := by
  unfold beamDensity attDensity
  by_cases hz : z < 0 ∨ z > length
  · rw [if_pos hz]
  · rw [if_neg hz]
    rcases h with h | h | ⟨hc, hr⟩
    · exact absurd (Or.inl h) hz
    · exact absurd (Or.inr h) hz
    · simp [hc, hr]

/-- **on-axis density never increases with z** (full pipeline: cumulative trapezoid, attenuation, interpolation,
Gaussian peak `1/(2π σx σy)`), for non-negative stopping coefficients -/
theorem on_axis_density_antitone (sqrt exp : α → α) (pi n0 speed range sigma tanx tany length clampSqr : α) (clamp : Bool)
    (hd : Decay exp n0 speed) (he : Env sqrt exp pi) (hsig : 0 < sigma) (hcl : 0 ≤ clampSqr)
    (zs ss : List α) (hzs : zs.Pairwise (· < ·)) (hs : ∀ s ∈ ss, 0 ≤ s)
    (z z' a b : α) (h0 : 0 ≤ z) (hzz : z ≤ z') (hl : z' ≤ length)
    (ha : beamDensity sqrt exp pi sigma tanx tany length clamp clampSqr
            (interpEval range (lineKnots exp n0 speed zs ss)) 0 0 z = some a)
    (hb : beamDensity sqrt exp pi sigma tanx tany length clamp clampSqr
            (interpEval range (lineKnots exp n0 speed zs ss)) 0 0 z' = some b) : b ≤ a := by
  have hr0 : ∀ sx sy : α, normRadiusSqr sx sy 0 0 = 0 := by intro sx sy; simp [normRadiusSqr]
  rw [density_factorises _ _ _ _ _ _ _ _ _ _ _ _ _ ⟨h0, le_trans hzz hl⟩ (Or.inr (by rw [hr0]; exact hcl))] at ha
  rw [density_factorises _ _ _ _ _ _ _ _ _ _ _ _ _ ⟨le_trans h0 hzz, hl⟩ (Or.inr (by rw [hr0]; exact hcl))] at hb
  obtain ⟨l, hl1, rfl⟩ := Option.map_eq_some_iff.mp ha
  obtain ⟨l', hl2, rfl⟩ := Option.map_eq_some_iff.mp hb
  obtain ⟨hll, hl'0⟩ := line_density_antitone exp n0 speed range hd zs ss hzs hs z z' l l' hzz hl1 hl2
  have hsx := sigmaZ_pos sqrt exp pi he sigma tanx z hsig
  have hsy := sigmaZ_pos sqrt exp pi he sigma tany z hsig
  have hmx := sigmaZ_mono sqrt exp pi he sigma tanx z z' h0 hzz
  have hmy := sigmaZ_mono sqrt exp pi he sigma tany z z' h0 hzz
  have hpi := he.pi_pos
  have he0 := he.exp_nonneg (-0.5 * (0 : α))
  unfold gaussianSample
  rw [hr0, hr0, two_lit]
  have hden : 2 * pi * sigmaZ sqrt sigma tanx z * sigmaZ sqrt sigma tany z
      ≤ 2 * pi * sigmaZ sqrt sigma tanx z' * sigmaZ sqrt sigma tany z' := by
    have hsx' := sigmaZ_pos sqrt exp pi he sigma tanx z' hsig
    have hsy' := sigmaZ_pos sqrt exp pi he sigma tany z' hsig
    apply mul_le_mul _ hmy hsy.le (by positivity)
    exact mul_le_mul_of_nonneg_left hmx (by positivity)
  have hg : exp (-0.5 * 0) / (2 * pi * sigmaZ sqrt sigma tanx z' * sigmaZ sqrt sigma tany z')
      ≤ exp (-0.5 * 0) / (2 * pi * sigmaZ sqrt sigma tanx z * sigmaZ sqrt sigma tany z) :=
    div_le_div_of_nonneg_left he0 (by positivity) hden
  have hsx' := sigmaZ_pos sqrt exp pi he sigma tanx z' hsig
  have hsy' := sigmaZ_pos sqrt exp pi he sigma tany z' hsig
  exact mul_le_mul hll hg (div_nonneg he0 (by positivity)) (le_trans hl'0 hll)

/-- **the whole pipeline** (`Beam.density` on a fresh beam: stopping coefficients from the species samples, attenuation
table on the `linspace` nodes, interpolator with its 1e-9 margin, z-range clamp, Gaussian): on-axis density never
increases with z, for every plasma with non-negative densities and partial rates -/
theorem full_on_axis_antitone (sqrt exp : α → α) (pi echarge amu energy power mass : α) (dir : Vec α)
    (sigma tanx tany length clampSqr : α) (n : Nat) (clamp : Bool) (targets : List (List (Target α)))
    (hd : Decay exp (sourceDensity sqrt echarge amu energy power mass) (beamSpeed sqrt echarge amu energy))
    (he : Env sqrt exp pi) (hsig : 0 < sigma) (hcl : 0 ≤ clampSqr) (hn : 2 ≤ n) (hL : 0 < length)
    (htn : ∀ ts ∈ targets, ∀ s ∈ ts, 0 ≤ s.n) (htr : ∀ ts ∈ targets, ∀ s ∈ ts, ∀ e m t, 0 ≤ s.rate e m t)
    (z z' a b : α) (h0 : 0 ≤ z) (hzz : z ≤ z') (hl : z' ≤ length)
    (ha : beamDensityFull sqrt exp pi echarge amu energy power mass dir sigma tanx tany length n clamp clampSqr targets 0 0 z = some a)
    (hb : beamDensityFull sqrt exp pi echarge amu energy power mass dir sigma tanx tany length n clamp clampSqr targets 0 0 z' = some b) :
    b ≤ a := by
  unfold beamDensityFull at ha hb
  simp only [calcAttenuation_eq] at ha hb
  refine on_axis_density_antitone sqrt exp pi _ _ _ sigma tanx tany length clampSqr clamp hd he hsig hcl
    (nodes length n) _ (nodes_increasing length n hn hL) ?_ z z' a b h0 hzz hl ha hb
  intro s hs
  obtain ⟨ts, hts, rfl⟩ := List.mem_map.mp hs
  exact beamStopping_nonneg sqrt _ _ ts (htn ts hts) (htr ts hts)

/-- … and it vanishes before the source, beyond the length and outside the clamp radius -/
theorem full_zero_outside (sqrt exp : α → α) (pi echarge amu energy power mass : α) (dir : Vec α)
    (sigma tanx tany length clampSqr : α) (n : Nat) (clamp : Bool) (targets : List (List (Target α))) (x y z : α)
    (h : z < 0 ∨ length < z ∨
      (clamp = true ∧ clampSqr < normRadiusSqr (sigmaZ sqrt sigma tanx z) (sigmaZ sqrt sigma tany z) x y)) :
    beamDensityFull sqrt exp pi echarge amu energy power mass dir sigma tanx tany length n clamp clampSqr targets x y z = some 0 := by
  unfold beamDensityFull
  exact density_zero_outside sqrt exp pi sigma tanx tany length clamp clampSqr _ x y z h

/-! ## direction field -/

/-- `sqrt` contract used for the direction -/
def SqrtSpec (sqrt : α → α) : Prop := ∀ s, 0 ≤ s → sqrt s * sqrt s = s ∧ 0 ≤ sqrt s

theorem normSqr_vnormalise (sqrt : α → α) (hs : SqrtSpec sqrt) (a : Vec α) (ha : 0 < normSqr a) :
    normSqr (vnormalise sqrt a) = 1 := by
  obtain ⟨h1, h2⟩ := hs (normSqr a) ha.le
  have hne : sqrt (normSqr a) ≠ 0 := by
    intro h0; rw [h0] at h1; simp at h1; exact absurd h1.symm (ne_of_gt ha)
  unfold vnormalise
  simp only []
  have : normSqr ((a.1 * (1 / sqrt (normSqr a)), a.2.1 * (1 / sqrt (normSqr a)), a.2.2 * (1 / sqrt (normSqr a))) : Vec α)
      = normSqr a / (sqrt (normSqr a) * sqrt (normSqr a)) := by
    simp only [normSqr]; field_simp
  rw [this, h1]; exact div_self (ne_of_gt ha)

/-- **the direction is a unit vector** everywhere -/
theorem direction_unit (sqrt : α → α) (hs : SqrtSpec sqrt) (sigma tanx tany x y z : α) :
    normSqr (beamDirection sqrt sigma tanx tany x y z) = 1 := by
  unfold beamDirection
  split_ifs with h
  · simp [normSqr]
  · apply normSqr_vnormalise sqrt hs
    have hz : 0 < z := not_le.mp h
    unfold directionRaw normSqr
    simp only []
    have := mul_pos hz hz
    nlinarith [mul_self_nonneg (x * (z * z * tanx * tanx) / (sigma * sigma + z * z * tanx * tanx)),
      mul_self_nonneg (y * (z * z * tany * tany) / (sigma * sigma + z * z * tany * tany))]

/-- **slope of the direction field**: for z > 0, `e_x/e_z = x · z tan²αx / σx(z)²` (and likewise in y), which is
`x · σx'(z)/σx(z)` because `σx σx' = z tan²αx` — see `streamline_invariant_x` for the calculus statement -/
theorem direction_streamline (sqrt : α → α) (hs : SqrtSpec sqrt) (sigma tanx tany x y z : α) (hz : 0 < z) (hsig : 0 < sigma) :
    let d := beamDirection sqrt sigma tanx tany x y z
    d.1 / d.2.2 = x * (z * tanx ^ 2) / (sigma ^ 2 + (z * tanx) ^ 2) ∧
    d.2.1 / d.2.2 = y * (z * tany ^ 2) / (sigma ^ 2 + (z * tany) ^ 2) ∧ 0 < d.2.2 := by
  have hraw : 0 < normSqr (directionRaw sigma tanx tany x y z) := by
    unfold directionRaw normSqr; simp only []
    have := mul_pos hz hz
    nlinarith [mul_self_nonneg (x * (z * z * tanx * tanx) / (sigma * sigma + z * z * tanx * tanx)),
      mul_self_nonneg (y * (z * z * tany * tany) / (sigma * sigma + z * z * tany * tany))]
  obtain ⟨h1, h2⟩ := hs _ hraw.le
  have hne : sqrt (normSqr (directionRaw sigma tanx tany x y z)) ≠ 0 := by
    intro h0; rw [h0] at h1; simp at h1; exact absurd h1.symm (ne_of_gt hraw)
  have hpos : 0 < sqrt (normSqr (directionRaw sigma tanx tany x y z)) := lt_of_le_of_ne h2 (Ne.symm hne)
  have hsx : 0 < sigma * sigma + z * z * tanx * tanx := by
    have : 0 ≤ z * z * tanx * tanx := by
      have : z * z * tanx * tanx = (z * tanx) * (z * tanx) := by ring
      rw [this]; exact mul_self_nonneg _
    have := mul_pos hsig hsig; linarith
  have hsy : 0 < sigma * sigma + z * z * tany * tany := by
    have : 0 ≤ z * z * tany * tany := by
      have : z * z * tany * tany = (z * tany) * (z * tany) := by ring
      rw [this]; exact mul_self_nonneg _
    have := mul_pos hsig hsig; linarith
  have hsx' : sigma ^ 2 + (z * tanx) ^ 2 ≠ 0 := by
    have : sigma ^ 2 + (z * tanx) ^ 2 = sigma * sigma + z * z * tanx * tanx := by ring
    rw [this]; exact ne_of_gt hsx
  have hsy' : sigma ^ 2 + (z * tany) ^ 2 ≠ 0 := by
    have : sigma ^ 2 + (z * tany) ^ 2 = sigma * sigma + z * z * tany * tany := by ring
    rw [this]; exact ne_of_gt hsy
  simp only [beamDirection, if_neg (not_le.mpr hz), vnormalise]
  set t := sqrt (normSqr (directionRaw sigma tanx tany x y z)) with ht
  simp only [directionRaw]
  refine ⟨?_, ?_, ?_⟩
  · field_simp
  · field_simp
  · positivity


/-! ## one-zero divergence; frame independence (proof-deepening pass) -/

/-- **one-zero divergence (sheet beam)**: with zero divergence in x the direction has no x-component anywhere — the
streamlines keep x itself (σx is constant) — whatever the y divergence; and symmetrically -/
theorem direction_sheet_x (sqrt : α → α) (sigma tany x y z : α) :
    (beamDirection sqrt sigma 0 tany x y z).1 = 0 := by
  unfold beamDirection
  split_ifs <;> simp [vnormalise, directionRaw]

theorem direction_sheet_y (sqrt : α → α) (sigma tanx x y z : α) :
    (beamDirection sqrt sigma tanx 0 x y z).2.1 = 0 := by
  unfold beamDirection
  split_ifs <;> simp [vnormalise, directionRaw]

example : (beamDirection (fun x : ℚ => x) 1 0 1 5 7 2).1 = 0 := direction_sheet_x _ _ _ _ _ _

/-- a linear isometry of velocity space: the rotation part of a rigid change of the plasma frame -/
structure IsRotation (R : Vec α → Vec α) : Prop where
  sub : ∀ a b, R (vsub a b) = vsub (R a) (R b)
  scale : ∀ a s, R (vscale a s) = vscale (R a) s
  norm : ∀ a, normSqr (R a) = normSqr a

/-- the same species sample seen from the rotated frame -/
def rotateTarget (R : Vec α → Vec α) (s : Target α) : Target α := { s with v := R s.v }

/-- **frame independence of the stopping coefficient**: rotating the plasma frame (beam velocity and every bulk
velocity by the same linear isometry) leaves `S` unchanged — only `|v_beam − v_i|` enters -/
theorem beamStopping_frame_independent (sqrt : α → α) (cf : α) (R : Vec α → Vec α) (hR : IsRotation R) (bv : Vec α)
    (ts : List (Target α)) :
    beamStopping sqrt cf (R bv) (ts.map (rotateTarget R)) = beamStopping sqrt cf bv ts := by
  rw [beamStopping_documented, beamStopping_documented, List.map_map, List.map_map]
  congr 1
  apply List.map_congr_left
  intro s _
  have hsum : (List.map ((fun j : Target α => (j.charge : α) ^ 2 * j.n) ∘ rotateTarget R) ts)
      = List.map (fun j : Target α => (j.charge : α) ^ 2 * j.n) ts := List.map_congr_left (fun j _ => rfl)
  simp only [Function.comp, rotateTarget, vlen, ← hR.sub, hR.norm, hsum]

theorem beamVelocity_rotate (sqrt : α → α) (R : Vec α → Vec α) (hR : IsRotation R) (dir : Vec α) (speed : α) :
    beamVelocity sqrt (R dir) speed = R (beamVelocity sqrt dir speed) := by
  have hn : ∀ a : Vec α, vnormalise sqrt a = vscale a (1 / sqrt (normSqr a)) := fun a => rfl
  unfold beamVelocity
  rw [hn, hn, hR.norm, hR.scale, hR.scale]

/-- **frame independence of the attenuation table** (hence of `Beam.density`): a rigid change of the plasma frame —
translation only moves the sample points, whose sampled values are what the model receives; rotation acts on the axis
direction and on the bulk velocities — does not change the line-density knots -/
theorem calcAttenuation_frame_independent (sqrt exp : α → α) (echarge amu energy power mass : α) (R : Vec α → Vec α)
    (hR : IsRotation R) (dir : Vec α) (zs : List α) (targets : List (List (Target α))) :
    calcAttenuation sqrt exp echarge amu energy power mass (R dir) zs (targets.map (List.map (rotateTarget R)))
      = calcAttenuation sqrt exp echarge amu energy power mass dir zs targets := by
  simp only [calcAttenuation_eq, List.map_map]
  congr 2
  funext ts
  simp only [Function.comp, beamVelocity_rotate sqrt R hR]
  exact beamStopping_frame_independent sqrt _ R hR _ ts

-- non-vacuity: quarter turn about the z axis over ℚ
example : IsRotation (fun v : Vec ℚ => (-v.2.1, v.1, v.2.2)) :=
  ⟨fun a b => by simp [vsub]; ring, fun a s => by simp [vscale], fun a => by simp [normSqr]; ring⟩


/-! ## ℝ-instances: the hypotheses hold for `Real.sqrt`, `Real.exp`, `π`; cross-section integral; streamlines -/

section RealInst
open MeasureTheory

theorem decay_real (n0 speed : ℝ) (h0 : 0 ≤ n0) (hv : 0 < speed) : Decay Real.exp n0 speed :=
  ⟨fun _ _ h => Real.exp_le_exp.mpr h, fun a => (Real.exp_pos a).le, h0, hv⟩

theorem env_real : Env Real.sqrt Real.exp Real.pi :=
  ⟨fun _ hs => Real.sqrt_pos.mpr hs, fun _ _ h => Real.sqrt_le_sqrt h, fun a => (Real.exp_pos a).le, Real.pi_pos⟩

theorem sqrtSpec_real : SqrtSpec Real.sqrt := fun s hs => ⟨Real.mul_self_sqrt hs, Real.sqrt_nonneg s⟩

theorem gaussianSample_real (sx sy x y : ℝ) (hx : 0 < sx) (hy : 0 < sy) :
    gaussianSample Real.exp Real.pi sx sy x y =
      (Real.exp (-(1 / (2 * sx ^ 2)) * x ^ 2) * Real.exp (-(1 / (2 * sy ^ 2)) * y ^ 2)) * (1 / (2 * Real.pi * sx * sy)) := by
  unfold gaussianSample normRadiusSqr
  rw [← Real.exp_add, two_lit, half_lit]
  have : -(1 / 2 : ℝ) * (x / sx * (x / sx) + y / sy * (y / sy)) = -(1 / (2 * sx ^ 2)) * x ^ 2 + -(1 / (2 * sy ^ 2)) * y ^ 2 := by
    field_simp
    ring
  rw [this, mul_one_div]

/-- **the cross-section Gaussian is normalised** over ℝ² for all widths (proved from Mathlib's Gaussian integral) -/
theorem gaussian_cross_section_unit (sx sy : ℝ) (hx : 0 < sx) (hy : 0 < sy) :
    ∫ p : ℝ × ℝ, gaussianSample Real.exp Real.pi sx sy p.1 p.2 = 1 := by
  simp_rw [gaussianSample_real sx sy _ _ hx hy]
  rw [integral_mul_const, Cherab.Lemmas.gauss2d sx sy hx hy]
  have := Real.pi_pos
  field_simp

/-- **conservation across the beam**: with clamping off, the density integrated over the cross-section at any z of the
beam equals the line density there — for every divergence (σx(z), σy(z) > 0 is all that is used) -/
theorem cross_section_integral (sigma tanx tany length clampSqr : ℝ) (line : ℝ → Option ℝ) (z l : ℝ)
    (hsig : 0 < sigma) (hz : 0 ≤ z ∧ z ≤ length) (hl : line z = some l) :
    ∫ p : ℝ × ℝ, (beamDensity Real.sqrt Real.exp Real.pi sigma tanx tany length false clampSqr line p.1 p.2 z).getD 0 = l := by
  have hsx := sigmaZ_pos Real.sqrt Real.exp Real.pi env_real sigma tanx z hsig
  have hsy := sigmaZ_pos Real.sqrt Real.exp Real.pi env_real sigma tany z hsig
  simp_rw [density_factorises Real.sqrt Real.exp Real.pi sigma tanx tany length false clampSqr line _ _ z hz (Or.inl rfl), hl]
  simp only [Option.map_some, Option.getD_some]
  rw [integral_const_mul, gaussian_cross_section_unit _ _ hsx hsy, mul_one]

/-- flux through the cross-section at a sample point (partial in the same sense as `flux_at_nodes_partial`):
`v ∬ n dx dy = P/(E m e) · exp(−c_k/v)` -/
theorem cross_section_flux_at_nodes_partial (echarge amu energy power mass sigma tanx tany length clampSqr range : ℝ)
    (hr : 0 ≤ range) (hsig : 0 < sigma) (zs ss : List ℝ) (hzs : zs.Pairwise (· < ·))
    (hv : beamSpeed Real.sqrt echarge amu energy ≠ 0) :
    ∀ q ∈ zs.zip (cumtrapz (zs.zip ss)), 0 ≤ q.1 → q.1 ≤ length →
      (∫ p : ℝ × ℝ, (beamDensity Real.sqrt Real.exp Real.pi sigma tanx tany length false clampSqr
          (interpEval range (lineKnots Real.exp (sourceDensity Real.sqrt echarge amu energy power mass)
            (beamSpeed Real.sqrt echarge amu energy) zs ss)) p.1 p.2 q.1).getD 0) * beamSpeed Real.sqrt echarge amu energy
        = power / (energy * mass * echarge) * Real.exp (-q.2 / beamSpeed Real.sqrt echarge amu energy) := by
  intro q hq h0 hl
  rw [cross_section_integral sigma tanx tany length clampSqr _ q.1 _ hsig ⟨h0, hl⟩
    (flux_at_nodes_partial Real.exp _ _ range hr zs ss hzs q hq)]
  rw [← source_flux Real.sqrt echarge amu energy power mass hv]
  ring

/-- **no stopping: the flux through every cross-section is the particle rate, for any divergence** -/
theorem cross_section_flux_no_stopping (echarge amu energy power mass sigma tanx tany length clampSqr range : ℝ)
    (hsig : 0 < sigma) (zs ss : List ℝ) (hs : ∀ s ∈ ss, s = 0) (hv : beamSpeed Real.sqrt echarge amu energy ≠ 0)
    (z a : ℝ) (hz : 0 ≤ z ∧ z ≤ length)
    (ha : interpEval range (lineKnots Real.exp (sourceDensity Real.sqrt echarge amu energy power mass)
            (beamSpeed Real.sqrt echarge amu energy) zs ss) z = some a) :
    (∫ p : ℝ × ℝ, (beamDensity Real.sqrt Real.exp Real.pi sigma tanx tany length false clampSqr
        (interpEval range (lineKnots Real.exp (sourceDensity Real.sqrt echarge amu energy power mass)
          (beamSpeed Real.sqrt echarge amu energy) zs ss)) p.1 p.2 z).getD 0) * beamSpeed Real.sqrt echarge amu energy
      = power / (energy * mass * echarge) := by
  rw [cross_section_integral sigma tanx tany length clampSqr _ z a hsig hz ha,
    no_stopping_constant_flux Real.exp _ _ range Real.exp_zero zs ss hs z a ha]
  exact source_flux Real.sqrt echarge amu energy power mass hv

/-- the same for the whole pipeline on a fresh beam (clamping off): at every `linspace` sample point
`v ∬ Beam.density dx dy = P/(E m e) · exp(−c_k / v)` with `c_k` the cumulative trapezoid of the documented `S` -/
theorem full_cross_section_flux_partial (echarge amu energy power mass sigma tanx tany length clampSqr : ℝ)
    (dir : Vec ℝ) (n : Nat) (targets : List (List (Target ℝ))) (hn : 2 ≤ n) (hL : 0 < length) (hsig : 0 < sigma)
    (hv : beamSpeed Real.sqrt echarge amu energy ≠ 0) :
    ∀ q ∈ (nodes length n).zip (cumtrapz ((nodes length n).zip
        (targets.map (beamStopping Real.sqrt (evAmuFactor echarge amu)
          (beamVelocity Real.sqrt dir (beamSpeed Real.sqrt echarge amu energy)))))),
      (∫ p : ℝ × ℝ, (beamDensityFull Real.sqrt Real.exp Real.pi echarge amu energy power mass dir sigma tanx tany
          length n false clampSqr targets p.1 p.2 q.1).getD 0) * beamSpeed Real.sqrt echarge amu energy
        = power / (energy * mass * echarge) * Real.exp (-q.2 / beamSpeed Real.sqrt echarge amu energy) := by
  intro q hq
  have hz := nodes_in_range length n hn hL q.1 (List.of_mem_zip (a := q.1) (b := q.2) hq).1
  unfold beamDensityFull
  simp only [calcAttenuation_eq]
  exact cross_section_flux_at_nodes_partial echarge amu energy power mass sigma tanx tany length clampSqr 1e-9
    (by norm_num) hsig (nodes length n) _ (nodes_increasing length n hn hL) hv q hq hz.1 hz.2

/-- **conservation with an explicit error bound** (closes the gap of `flux_at_nodes_partial` for C² stopping profiles):
on the code's own sample grid `z_k = k h`, `h = L/(n−1)`, the interpolated line density at every sample point is
`n0 · exp(−c/v)` with `|c − ∫₀^{z_k} S| ≤ |z_k|³ ζ / (12 k²) = z_k h² ζ / 12`, `ζ` a bound of `|S''|`. -/
theorem flux_error_bound (exp : ℝ → ℝ) (n0 speed range length ζ : ℝ) (S : ℝ → ℝ) (n k : ℕ)
    (hr : 0 ≤ range) (hn : 2 ≤ n) (hL : 0 < length) (hk0 : 0 < k) (hk : k < n)
    (hf : ContDiffOn ℝ 2 S (Set.uIcc 0 (0 + k * (length / ((n - 1 : ℕ) : ℝ)))))
    (hb : ∀ x, |iteratedDerivWithin 2 S (Set.uIcc 0 (0 + k * (length / ((n - 1 : ℕ) : ℝ)))) x| ≤ ζ) :
    ∃ c, interpEval range (lineKnots exp n0 speed (nodes length n) ((nodes length n).map S))
          (k * (length / ((n - 1 : ℕ) : ℝ))) = some (n0 * exp (-c / speed)) ∧
      |c - ∫ x in (0 : ℝ)..(0 + k * (length / ((n - 1 : ℕ) : ℝ))), S x|
        ≤ |k * (length / ((n - 1 : ℕ) : ℝ))| ^ 3 * ζ / (12 * k ^ 2) := by
  set h := length / ((n - 1 : ℕ) : ℝ) with hh
  obtain ⟨m, rfl⟩ : ∃ m, n = m + 1 := ⟨n - 1, by omega⟩
  have hz : nodes length (m + 1) = (List.range (m + 1)).map (fun i : ℕ => (0 : ℝ) + i * h) := by
    unfold nodes
    apply List.map_congr_left
    intro i hi
    rw [node_formula length (m + 1) i hn (List.mem_range.mp hi), zero_add]
  have hpts : (nodes length (m + 1)).zip ((nodes length (m + 1)).map S)
      = (List.range (m + 1)).map (fun i : ℕ => ((0 : ℝ) + i * h, S (0 + i * h))) := by
    rw [hz, List.map_map, List.zip_map']
    rfl
  obtain ⟨c, hc, hbound⟩ := cumtrapz_error_bound S 0 h ζ m k hk0 (by omega) hf hb
  refine ⟨c, ?_, hbound⟩
  have hq : ((0 : ℝ) + k * h, c) ∈ (nodes length (m + 1)).zip (cumtrapz ((nodes length (m + 1)).zip ((nodes length (m + 1)).map S))) := by
    rw [hpts]
    apply List.mem_of_getElem? (i := k)
    rw [List.getElem?_zip_eq_some]
    refine ⟨?_, hc⟩
    rw [hz, List.getElem?_map, List.getElem?_range hk]
    rfl
  have := flux_at_nodes_partial exp n0 speed range hr (nodes length (m + 1)) ((nodes length (m + 1)).map S)
    (nodes_increasing length (m + 1) hn hL) _ hq
  simpa using this

-- non-vacuity: constant stopping profile S ≡ 7 (ζ = 0: the rule is exact), 5 nodes on [0, 2], third node
example : ∃ c, interpEval 0 (lineKnots Real.exp 3 2 (nodes 2 5) ((nodes 2 5).map fun _ => (7 : ℝ))) ((2 : ℕ) * ((2 : ℝ) / ((5 - 1 : ℕ) : ℝ)))
      = some (3 * Real.exp (-c / 2)) ∧
    |c - ∫ x in (0 : ℝ)..(0 + (2 : ℕ) * ((2 : ℝ) / ((5 - 1 : ℕ) : ℝ))), (7 : ℝ)| ≤ |(2 : ℕ) * ((2 : ℝ) / ((5 - 1 : ℕ) : ℝ))| ^ 3 * 0 / (12 * (2 : ℕ) ^ 2) := by
  apply flux_error_bound Real.exp 3 2 0 2 0 (fun _ => (7 : ℝ)) 5 2 (le_refl _) (by norm_num) (by norm_num) (by norm_num) (by norm_num)
  · exact contDiffOn_const
  · intro x
    rw [iteratedDerivWithin_const]; simp

/-- derivative of the envelope width: `σ'(z) = z tan²α / σ(z)` -/
theorem sigmaZ_hasDerivAt (sigma t z : ℝ) (hs : 0 < sigma) :
    HasDerivAt (fun z => sigmaZ Real.sqrt sigma t z) (z * t ^ 2 / sigmaZ Real.sqrt sigma t z) z := by
  unfold sigmaZ
  have hin : HasDerivAt (fun z : ℝ => sigma * sigma + z * t * (z * t)) (2 * z * t ^ 2) z := by
    have h1 : HasDerivAt (fun z : ℝ => z * t) t z := by simpa using (hasDerivAt_id z).mul_const t
    have h2 : HasDerivAt (fun z : ℝ => sigma * sigma + z * t * (z * t)) (t * (z * t) + z * t * t) z :=
      (h1.mul h1).const_add (sigma * sigma)
    exact h2.congr_deriv (by ring)
  have hpos : 0 < sigma * sigma + z * t * (z * t) := by
    have := mul_pos hs hs
    have := mul_self_nonneg (z * t)
    linarith
  have := hin.sqrt (ne_of_gt hpos)
  convert this using 1
  field_simp

/-- **streamlines keep x/σx(z) constant**: along any curve `X(z)` whose slope is the x-slope `e_x/e_z` of the returned
direction field, the normalised coordinate `X(z)/σx(z)` has zero derivative (z > 0). -/
theorem streamline_invariant_x (sigma tanx tany y z : ℝ) (X : ℝ → ℝ) (hz : 0 < z) (hs : 0 < sigma)
    (hX : HasDerivAt X ((beamDirection Real.sqrt sigma tanx tany (X z) y z).1 /
        (beamDirection Real.sqrt sigma tanx tany (X z) y z).2.2) z) :
    HasDerivAt (fun z => X z / sigmaZ Real.sqrt sigma tanx z) 0 z := by
  rw [(direction_streamline Real.sqrt sqrtSpec_real sigma tanx tany (X z) y z hz hs).1] at hX
  have hsx := sigmaZ_pos Real.sqrt Real.exp Real.pi env_real sigma tanx z hs
  have hd := hX.div (sigmaZ_hasDerivAt sigma tanx z hs) (ne_of_gt hsx)
  have hsq : sigmaZ Real.sqrt sigma tanx z * sigmaZ Real.sqrt sigma tanx z = sigma ^ 2 + (z * tanx) ^ 2 := by
    unfold sigmaZ
    rw [Real.mul_self_sqrt (add_nonneg (mul_self_nonneg _) (mul_self_nonneg _))]; ring
  have hne : sigma ^ 2 + (z * tanx) ^ 2 ≠ 0 := by rw [← hsq]; exact ne_of_gt (mul_pos hsx hsx)
  have h0 : (X z * (z * tanx ^ 2) / (sigma ^ 2 + (z * tanx) ^ 2) * sigmaZ Real.sqrt sigma tanx z -
        X z * (z * tanx ^ 2 / sigmaZ Real.sqrt sigma tanx z)) / sigmaZ Real.sqrt sigma tanx z ^ 2 = 0 := by
    rw [div_eq_zero_iff]; left
    rw [← hsq]
    field_simp
    ring
  rw [h0] at hd
  exact hd

theorem streamline_invariant_y (sigma tanx tany x z : ℝ) (Y : ℝ → ℝ) (hz : 0 < z) (hs : 0 < sigma)
    (hY : HasDerivAt Y ((beamDirection Real.sqrt sigma tanx tany x (Y z) z).2.1 /
        (beamDirection Real.sqrt sigma tanx tany x (Y z) z).2.2) z) :
    HasDerivAt (fun z => Y z / sigmaZ Real.sqrt sigma tany z) 0 z := by
  rw [(direction_streamline Real.sqrt sqrtSpec_real sigma tanx tany x (Y z) z hz hs).2.1] at hY
  have hsy := sigmaZ_pos Real.sqrt Real.exp Real.pi env_real sigma tany z hs
  have hd := hY.div (sigmaZ_hasDerivAt sigma tany z hs) (ne_of_gt hsy)
  have hsq : sigmaZ Real.sqrt sigma tany z * sigmaZ Real.sqrt sigma tany z = sigma ^ 2 + (z * tany) ^ 2 := by
    unfold sigmaZ
    rw [Real.mul_self_sqrt (add_nonneg (mul_self_nonneg _) (mul_self_nonneg _))]; ring
  have hne : sigma ^ 2 + (z * tany) ^ 2 ≠ 0 := by rw [← hsq]; exact ne_of_gt (mul_pos hsy hsy)
  have h0 : (Y z * (z * tany ^ 2) / (sigma ^ 2 + (z * tany) ^ 2) * sigmaZ Real.sqrt sigma tany z -
        Y z * (z * tany ^ 2 / sigmaZ Real.sqrt sigma tany z)) / sigmaZ Real.sqrt sigma tany z ^ 2 = 0 := by
    rw [div_eq_zero_iff]; left
    rw [← hsq]
    field_simp
    ring
  rw [h0] at hd
  exact hd

/-- conversely the envelope curves `x = c σx(z)` are tangent to the direction field -/
theorem envelope_is_streamline (sigma tanx tany c y z : ℝ) (hz : 0 < z) (hs : 0 < sigma) :
    HasDerivAt (fun z => c * sigmaZ Real.sqrt sigma tanx z)
      ((beamDirection Real.sqrt sigma tanx tany (c * sigmaZ Real.sqrt sigma tanx z) y z).1 /
        (beamDirection Real.sqrt sigma tanx tany (c * sigmaZ Real.sqrt sigma tanx z) y z).2.2) z := by
  rw [(direction_streamline Real.sqrt sqrtSpec_real sigma tanx tany _ y z hz hs).1]
  have hsx := sigmaZ_pos Real.sqrt Real.exp Real.pi env_real sigma tanx z hs
  have hsq : sigmaZ Real.sqrt sigma tanx z * sigmaZ Real.sqrt sigma tanx z = sigma ^ 2 + (z * tanx) ^ 2 := by
    unfold sigmaZ
    rw [Real.mul_self_sqrt (add_nonneg (mul_self_nonneg _) (mul_self_nonneg _))]; ring
  have h0 : c * sigmaZ Real.sqrt sigma tanx z * (z * tanx ^ 2) / (sigma ^ 2 + (z * tanx) ^ 2)
      = c * (z * tanx ^ 2 / sigmaZ Real.sqrt sigma tanx z) := by
    rw [← hsq]
    field_simp
  rw [h0]
  exact (sigmaZ_hasDerivAt sigma tanx z hs).const_mul c

end RealInst

/-! ## non-vacuity: the hypotheses are satisfiable and the objects non-trivial -/

section Examples

example : Decay Real.exp 3 2 := decay_real 3 2 (by norm_num) (by norm_num)
example : Env Real.sqrt Real.exp Real.pi := env_real
example : SqrtSpec Real.sqrt := sqrtSpec_real

-- cumulative trapezoid of a non-negative integrand on an uneven grid
example : cumtrapz [((0 : ℚ), (2 : ℚ)), (1, 4), (3, 0)] = [0, 3, 7] := by
  norm_num [cumtrapz, cumtrapzFrom]

-- sample count: L/step integer, L < step, generic
example : sampleCount (fun x : ℚ => ⌈x⌉₊) 2 (1 / 4) = 9 := by
  have : ⌈(2 : ℚ) / (1 / 4)⌉₊ = 8 := by rw [show (2 : ℚ) / (1 / 4) = ((8 : ℕ) : ℚ) by norm_num, Nat.ceil_natCast]
  simp only [sampleCount, this]; rfl
example : sampleCount (fun x : ℚ => ⌈x⌉₊) 1 3 = 4 := by
  have : ⌈(1 : ℚ) / 3⌉₊ = 1 := by rw [Nat.ceil_eq_iff (by norm_num)]; norm_num
  simp only [sampleCount, this]; rfl
example : nodes (2 : ℚ) 5 = [0, 1 / 2, 1, 3 / 2, 2] := by
  norm_num [nodes, node, List.range, List.range.loop]

-- two species, distinct charges: S = Σ Z n S_i(…, Σ Z² n / Z_i, …) with S_i returning its density argument
example : beamStopping (fun x : ℚ => x) 1 (0, 0, 0)
    [⟨1, 2, 0, (0, 0, 0), fun _ n _ => n⟩, ⟨2, 3, 0, (0, 0, 0), fun _ n _ => n⟩] = 70 := by
  norm_num [beamStopping, densitySum, stoppingTerm, rateArgs, List.foldl]

-- interpolator: inside a bin, on the last knot, in the extrapolation margin, outside
example : interpEval (1 / 10 : ℚ) [(0, 4), (1, 2), (2, 1)] (3 / 2) = some (3 / 2) := by
  norm_num [interpEval, interpFrom, lastX, linear1d]
example : interpEval (1 / 10 : ℚ) [(0, 4), (1, 2), (2, 1)] 2 = some 1 := by
  norm_num [interpEval, interpFrom, lastX, linear1d]
example : interpEval (1 / 10 : ℚ) [(0, 4), (1, 2), (2, 1)] (41 / 20) = some 1 := by
  norm_num [interpEval, interpFrom, lastX, linear1d]
example : interpEval (1 / 10 : ℚ) [(0, 4), (1, 2), (2, 1)] 3 = none := by
  norm_num [interpEval, interpFrom, lastX, linear1d]

-- un-normalised direction off axis: slope x z tan² / (σ² + z² tan²)
example : directionRaw (1 : ℚ) 1 0 2 3 1 = (1, 0, 1) := by
  norm_num [directionRaw]

-- clamp on: outside the radius the density is zero although the line density is 5
example : beamDensity (fun x : ℚ => x) (fun _ => 1) 3 1 0 0 10 true 4 (fun _ => some 5) 3 0 1 = some 0 := by
  norm_num [beamDensity, attDensity, sigmaZ, normRadiusSqr]
-- … and inside it is line density × Gaussian sample
example : beamDensity (fun x : ℚ => x) (fun _ => 1) 3 1 0 0 10 true 4 (fun _ => some 5) 1 0 1 = some (5 / 6) := by
  norm_num [beamDensity, attDensity, sigmaZ, normRadiusSqr, gaussianSample]

end Examples

end Cherab.Props.C04
