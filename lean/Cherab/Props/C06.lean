import Cherab.Model.Repository

namespace Cherab.Props.C06
open Cherab.Repository

theorem placeholder : (alookup 1 ([] : List (Nat × Nat))) = none := rfl
end Cherab.Props.C06
