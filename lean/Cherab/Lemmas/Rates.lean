import Cherab.Model.Rates
import Mathlib.Tactic.Ring
import Mathlib.Tactic.Linarith
import Mathlib.Tactic.FieldSimp
import Mathlib.Tactic.Positivity
import Mathlib.Algebra.Order.Field.Basic
import Mathlib.Data.List.Pairwise
import Mathlib.Analysis.SpecialFunctions.Log.Base
import Mathlib.Analysis.SpecialFunctions.Pow.Real

/-!
# C07 — specifications of the external functions, well-formedness of tables, helper lemmas

Definitions and lemmas used by `Cherab/Props/C07.lean` (kept in the same namespace).  `ExtSpec` is the contract of
`10 ** x`, the two `log10`s and raysect's array interpolators; `lookup_spec` / `realExt_spec` show that the contract is
satisfiable (over ℝ with `10 ^ x`, `Real.logb 10` and a knot-lookup interpolant).
-/
namespace Cherab.Props.C07
set_option linter.unusedSectionVars false
set_option linter.unusedVariables false
open Cherab.Rates Cherab.Rates.Policy Classical

variable {α : Type} [Field α] [LinearOrder α] [IsStrictOrderedRing α]

/-- strictly increasing knots (raysect rejects anything else) -/
def Sorted (xs : List α) : Prop := xs.Pairwise (· < ·)


/-- `p` lies below the first / above the last knot -/
def Below (xs : List α) (p : α) : Prop := ∃ a ∈ xs.head?, p < a

def Above (xs : List α) (p : α) : Prop := ∃ b ∈ xs.getLast?, b < p

def Within (xs : List α) (p : α) : Prop := (∀ a ∈ xs.head?, a ≤ p) ∧ (∀ b ∈ xs.getLast?, p ≤ b)


def Valid1 (xs fs : List α) : Prop := 2 ≤ xs.length ∧ fs.length = xs.length ∧ Sorted xs

def Valid2 (xs ys : List α) (f : List (List α)) : Prop :=
  2 ≤ xs.length ∧ 2 ≤ ys.length ∧ Sorted xs ∧ Sorted ys ∧ f.length = xs.length ∧ ∀ r ∈ f, r.length = ys.length

def Valid3 (xs ys zs : List α) (f : List (List (List α))) : Prop :=
  2 ≤ xs.length ∧ 2 ≤ ys.length ∧ 2 ≤ zs.length ∧ Sorted xs ∧ Sorted ys ∧ Sorted zs ∧ f.length = xs.length ∧
    (∀ pl ∈ f, pl.length = ys.length) ∧ ∀ pl ∈ f, ∀ r ∈ pl, r.length = zs.length


/-- contract of the external functions.  Nothing is assumed about values *between* knots (raysect's cubic). -/
structure ExtSpec (E : Ext α) : Prop where
  pow_log : ∀ y, 0 < y → E.pow10 (E.logc y) = y
  pow_pos : ∀ x, 0 < E.pow10 x
  pow_add : ∀ a b, E.pow10 (a + b) = E.pow10 a * E.pow10 b
  logc_mono : ∀ x y, 0 < x → x < y → E.logc x < E.logc y
  i1_knot : ∀ (k : Extrap) (xs fs : List α) (i : Nat) (x v : α), Valid1 xs fs → xs[i]? = some x → fs[i]? = some v → E.i1 k xs fs x = some v
  i1_within : ∀ (k : Extrap) (xs fs : List α) (p : α), Valid1 xs fs → Within xs p → (E.i1 k xs fs p).isSome
  i1_outside : ∀ (xs fs : List α) (p : α), Valid1 xs fs → Below xs p ∨ Above xs p → E.i1 Extrap.none xs fs p = none
  i1_extrap : ∀ (k : Extrap) (xs fs : List α) (p : α), Valid1 xs fs → k ≠ Extrap.none → (E.i1 k xs fs p).isSome
  i2_knot : ∀ (k : Extrap) (xs ys : List α) (f : List (List α)) (i j : Nat) (x y : α) (row : List α) (v : α), Valid2 xs ys f → xs[i]? = some x → ys[j]? = some y → f[i]? = some row →
    row[j]? = some v → E.i2 k xs ys f x y = some v
  i2_within : ∀ (k : Extrap) (xs ys : List α) (f : List (List α)) (p q : α), Valid2 xs ys f → Within xs p → Within ys q → (E.i2 k xs ys f p q).isSome
  i2_outside : ∀ (xs ys : List α) (f : List (List α)) (p q : α), Valid2 xs ys f → Below xs p ∨ Above xs p ∨ Below ys q ∨ Above ys q →
    E.i2 Extrap.none xs ys f p q = none
  i2_extrap : ∀ (k : Extrap) (xs ys : List α) (f : List (List α)) (p q : α), Valid2 xs ys f → k ≠ Extrap.none → (E.i2 k xs ys f p q).isSome
  i3_knot : ∀ (k : Extrap) (xs ys zs : List α) (f : List (List (List α))) (i j l : Nat) (x y z : α)
    (pl : List (List α)) (row : List α) (v : α), Valid3 xs ys zs f → xs[i]? = some x → ys[j]? = some y →
    zs[l]? = some z → f[i]? = some pl → pl[j]? = some row → row[l]? = some v → E.i3 k xs ys zs f x y z = some v
  i3_within : ∀ (k : Extrap) (xs ys zs : List α) (f : List (List (List α))) (p q r : α), Valid3 xs ys zs f → Within xs p → Within ys q → Within zs r →
    (E.i3 k xs ys zs f p q r).isSome
  i3_outside : ∀ (xs ys zs : List α) (f : List (List (List α))) (p q r : α), Valid3 xs ys zs f →
    Below xs p ∨ Above xs p ∨ Below ys q ∨ Above ys q ∨ Below zs r ∨ Above zs r →
    E.i3 Extrap.none xs ys zs f p q r = none
  i3_extrap : ∀ (k : Extrap) (xs ys zs : List α) (f : List (List (List α))) (p q r : α), Valid3 xs ys zs f → k ≠ Extrap.none → (E.i3 k xs ys zs f p q r).isSome


/-- positive, strictly increasing axis -/
def Axis (xs : List α) : Prop := Sorted xs ∧ ∀ x ∈ xs, 0 < x


theorem sorted_map_logc {E : Ext α} (S : ExtSpec E) {xs : List α} (h : Axis xs) : Sorted (xs.map E.logc) := by
  unfold Sorted
  rw [List.pairwise_map]
  exact h.1.imp_of_mem fun {a b} ha hb hab => S.logc_mono a b (h.2 a ha) hab


theorem head_map_logc (E : Ext α) (xs : List α) : (xs.map E.logc).head? = xs.head?.map E.logc := by
  cases xs <;> simp


theorem getLast_map_logc (E : Ext α) (xs : List α) : (xs.map E.logc).getLast? = xs.getLast?.map E.logc := by
  simp [List.getLast?_map]


/-- a well-formed table: what `repository.update_*` accepts plus raysect's monotonicity and the property's
"positive rate tables" -/
structure WF2 (t : Table2 α) : Prop where
  ne : Axis t.ne
  te : Axis t.te
  rows : t.rate.length = t.ne.length
  cols : ∀ r ∈ t.rate, r.length = t.te.length
  pos : ∀ r ∈ t.rate, ∀ y ∈ r, 0 < y


theorem conv_pos (cf : α) (wl : Option α) (hcf : 0 < cf) (hwl : ∀ w ∈ wl, 0 < w) (y : α) (hy : 0 < y) :
    0 < conv cf wl y := by
  unfold conv
  cases wl with
  | none => simpa using hy
  | some w =>
    have hw : 0 < w := hwl w rfl
    simp only [photonToJ]
    positivity


theorem valid2_of_wf {E : Ext α} (S : ExtSpec E) {t : Table2 α} (h : WF2 t) (g : α → α)
    (h1 : 2 ≤ t.ne.length) (h2 : 2 ≤ t.te.length) :
    Valid2 (t.ne.map E.logc) (t.te.map E.logc) (t.rate.map fun row => row.map g) := by
  refine ⟨by simpa using h1, by simpa using h2, sorted_map_logc S h.ne, sorted_map_logc S h.te, by simpa using h.rows, ?_⟩
  intro r hr
  obtain ⟨r', hr', rfl⟩ := List.mem_map.mp hr
  simpa using h.cols r' hr'


/-- the two `log10`s agree (true of real numbers; **not** of NumPy's SIMD `log10` vs libm's `log10`) -/
def LogAgree (E : Ext α) : Prop := ∀ x, 0 < x → E.loge x = E.logc x


structure WF3 (t : Table3 α) : Prop where
  ne : Axis t.ne
  te : Axis t.te
  td : Axis t.td
  planes : t.rate.length = t.ne.length
  rows : ∀ pl ∈ t.rate, pl.length = t.te.length
  cols : ∀ pl ∈ t.rate, ∀ r ∈ pl, r.length = t.td.length
  pos : ∀ pl ∈ t.rate, ∀ r ∈ pl, ∀ y ∈ r, 0 < y


theorem valid3_of_wf {E : Ext α} (S : ExtSpec E) {t : Table3 α} (h : WF3 t) (g : α → α)
    (h1 : 2 ≤ t.ne.length) (h2 : 2 ≤ t.te.length) (h3 : 2 ≤ t.td.length) :
    Valid3 (t.ne.map E.logc) (t.te.map E.logc) (t.td.map E.logc)
      (t.rate.map fun pl => pl.map fun row => row.map g) := by
  refine ⟨by simpa using h1, by simpa using h2, by simpa using h3, sorted_map_logc S h.ne, sorted_map_logc S h.te,
    sorted_map_logc S h.td, by simpa using h.planes, ?_, ?_⟩
  · intro pl hpl
    obtain ⟨pl', hpl', rfl⟩ := List.mem_map.mp hpl
    simpa using h.rows pl' hpl'
  · intro pl hpl r hr
    obtain ⟨pl', hpl', rfl⟩ := List.mem_map.mp hpl
    obtain ⟨r', hr', rfl⟩ := List.mem_map.mp hr
    simpa using h.cols pl' hpl' r' hr'


structure WFB (b : BeamTable α) : Prop where
  e : Axis b.e
  n : Axis b.n
  t : Axis b.t
  e1 : 1 ≤ b.e.length
  n1 : 1 ≤ b.n.length
  t2 : 2 ≤ b.t.length
  rows : b.sen.length = b.e.length
  cols : ∀ r ∈ b.sen, r.length = b.n.length
  stl : b.st.length = b.t.length
  pos : ∀ r ∈ b.sen, ∀ y ∈ r, 0 < y
  stpos : ∀ y ∈ b.st, 0 < y
  sref : 0 < b.sref


theorem headD_of_getElem?_zero {β : Type} {l : List β} {a d : β} (h : l[0]? = some a) : l.headD d = a := by
  cases l with
  | nil => simp at h
  | cons x xs => simpa using h


theorem idx_zero_of_length_one {β : Type} {l : List β} {i : Nat} {a : β} (h : l[i]? = some a) (hl : l.length = 1) :
    i = 0 := by
  obtain ⟨hi, _⟩ := List.getElem?_eq_some_iff.mp h
  omega


theorem beamCtorOk_of_wf {b : BeamTable α} (h : WFB b) : beamCtorOk b = true := by
  have h1 := h.e1; have h2 := h.n1; have h3 := h.t2
  have he : (b.e.length == 0) = false := by rw [beq_eq_false_iff_ne]; omega
  have hn : (b.n.length == 0) = false := by rw [beq_eq_false_iff_ne]; omega
  simp only [beamCtorOk, he, hn, Bool.not_false, Bool.and_true, decide_eq_true_eq]
  exact h3


theorem valid1_t {E : Ext α} (S : ExtSpec E) {b : BeamTable α} (h : WFB b) :
    Valid1 (b.t.map E.logc) (b.logSt E) :=
  ⟨by simpa using h.t2, by simp [BeamTable.logSt, h.stl], sorted_map_logc S h.t⟩


structure WFC (c : CXTable α) : Prop where
  eb : Axis c.eb
  ti : Sorted c.ti
  ni : Sorted c.ni
  z : Sorted c.z
  b : Sorted c.b
  leb : c.qeb.length = c.eb.length ∧ 1 ≤ c.eb.length
  lti : c.qti.length = c.ti.length ∧ 1 ≤ c.ti.length
  lni : c.qni.length = c.ni.length ∧ 1 ≤ c.ni.length
  lz : c.qz.length = c.z.length ∧ 1 ≤ c.z.length
  lb : c.qb.length = c.b.length ∧ 1 ≤ c.b.length
  pos : (∀ y ∈ c.qeb, 0 < y) ∧ (∀ y ∈ c.qti, 0 < y) ∧ (∀ y ∈ c.qni, 0 < y) ∧ (∀ y ∈ c.qz, 0 < y) ∧ (∀ y ∈ c.qb, 0 < y)
  qref : 0 < c.qref


theorem interpOrConst_at_knot {E : Ext α} (S : ExtSpec E) (k : Extrap) (x q : List α) (i : Nat) (p v : α)
    (hs : Sorted x) (hl : q.length = x.length) (h1 : 1 ≤ x.length) (hx : x[i]? = some p) (hq : q[i]? = some v) :
    interpOrConst E k x q p = some v := by
  unfold interpOrConst
  split_ifs with c
  · exact S.i1_knot _ _ _ i _ _ ⟨by omega, hl, hs⟩ hx hq
  · have : q.length = 1 := by omega
    have hi := idx_zero_of_length_one hq this
    subst hi
    exact congrArg some (headD_of_getElem?_zero hq)


theorem clampMul_pos {r f : α} (hr : 0 < r) (hf : 0 < f) : clampMul r f = some (r * f) := by
  unfold clampMul
  simp only []
  rw [if_neg (not_le.mpr (mul_pos hr hf))]


theorem clampMul_some_pos {r f x : α} (h : clampMul r f = some x) : 0 < x := by
  unfold clampMul at h
  simp only [] at h
  split_ifs at h with c
  cases h
  exact not_le.mp c


theorem interpOrConst_extrap {E : Ext α} (S : ExtSpec E) (k : Extrap) (hk : k ≠ Extrap.none) (x q : List α) (p : α)
    (hs : Sorted x) (hl : q.length = x.length) : (interpOrConst E k x q p).isSome := by
  unfold interpOrConst
  split_ifs with c
  · exact S.i1_extrap _ _ _ _ ⟨by omega, hl, hs⟩ hk
  · rfl


theorem uniform_unpack {sigs : List NullSig} {a : Accessor} (hu : Uniform sigs a = true) :
    a.recognised = true ∧ a.handlerStd = true ∧ a.caught = ["RuntimeError"] ∧
    nullArity sigs a.nullClass a.nullArgs.length = true ∧
    (∀ x ∈ a.getArgs, ∀ p, x = Src.raw p → a.species.contains p = false) ∧
    (∀ p ∈ a.species, Src.elem p ∈ a.getArgs) ∧ a.extrapolateFlag = true := by
  simp only [Uniform, Bool.and_eq_true] at hu
  obtain ⟨⟨⟨⟨⟨⟨⟨hr, hh⟩, hc⟩, hn⟩, hg1⟩, hg2⟩, _⟩, he⟩ := hu
  refine ⟨hr, hh, eq_of_beq hc, hn, ?_, ?_, he⟩
  · intro x hx p hp
    have := List.all_eq_true.mp hg1 x hx
    subst hp
    simpa using this
  · intro p hp
    have := List.all_eq_true.mp hg2 p hp
    simpa using this


theorem mem_not_below {xs : List α} (hs : Sorted xs) {x : α} (hx : x ∈ xs) : ¬ Below xs x := by
  rintro ⟨a, ha, hlt⟩
  cases xs with
  | nil => simp at ha
  | cons b tl =>
    simp only [List.head?_cons, Option.mem_def, Option.some.injEq] at ha
    subst ha
    rcases List.mem_cons.mp hx with h | h
    · subst h; exact lt_irrefl _ hlt
    · exact lt_asymm ((List.pairwise_cons.mp hs).1 x h) hlt


theorem mem_not_above {xs : List α} (hs : Sorted xs) {x : α} (hx : x ∈ xs) : ¬ Above xs x := by
  rintro ⟨b, hb, hlt⟩
  obtain ⟨ys, rfl⟩ := List.getLast?_eq_some_iff.mp hb
  have hp := (List.pairwise_append.mp hs).2.2
  rcases List.mem_append.mp hx with h | h
  · exact lt_asymm (hp x h b (by simp)) hlt
  · have : x = b := by simpa using h
    subst this; exact lt_irrefl _ hlt


theorem within_not_outside {xs : List α} {p : α} (h : Within xs p) : ¬ (Below xs p ∨ Above xs p) := by
  rintro (⟨a, ha, hlt⟩ | ⟨b, hb, hlt⟩)
  · exact absurd (h.1 a ha) (not_le.mpr hlt)
  · exact absurd (h.2 b hb) (not_le.mpr hlt)


theorem sorted_nodup {xs : List α} (hs : Sorted xs) : xs.Nodup :=
  List.Pairwise.imp (fun h => ne_of_lt h) hs


theorem idxOf_knot {xs : List α} (hs : Sorted xs) {i : Nat} {x : α} (hx : xs[i]? = some x) : xs.idxOf x = i := by
  obtain ⟨hi, rfl⟩ := List.getElem?_eq_some_iff.mp hx
  exact (sorted_nodup hs).idxOf_getElem i hi


noncomputable def li1 (k : Extrap) (xs fs : List α) (p : α) : Option α :=
  if Below xs p ∨ Above xs p then (if k = Extrap.none then none else some 0)
  else some ((fs[xs.idxOf p]?).getD 0)


noncomputable def li2 (k : Extrap) (xs ys : List α) (f : List (List α)) (p q : α) : Option α :=
  if Below xs p ∨ Above xs p ∨ Below ys q ∨ Above ys q then (if k = Extrap.none then none else some 0)
  else some ((((f[xs.idxOf p]?).getD [])[ys.idxOf q]?).getD 0)


noncomputable def li3 (k : Extrap) (xs ys zs : List α) (f : List (List (List α))) (p q r : α) : Option α :=
  if Below xs p ∨ Above xs p ∨ Below ys q ∨ Above ys q ∨ Below zs r ∨ Above zs r then
    (if k = Extrap.none then none else some 0)
  else some ((((((f[xs.idxOf p]?).getD [])[ys.idxOf q]?).getD [])[zs.idxOf r]?).getD 0)


/-- the interpolant part of the contract holds for the look-up interpolants, over any ordered field -/
theorem lookup_spec (logc loge pow10 : α → α)
    (h1 : ∀ y, 0 < y → pow10 (logc y) = y) (h2 : ∀ x, 0 < pow10 x) (h3 : ∀ a b, pow10 (a + b) = pow10 a * pow10 b)
    (h4 : ∀ x y, 0 < x → x < y → logc x < logc y) :
    ExtSpec (⟨logc, loge, pow10, li1, li2, li3⟩ : Ext α) where
  pow_log := h1
  pow_pos := h2
  pow_add := h3
  logc_mono := h4
  i1_knot := by
    intro k xs fs i x v hv hx hf
    have hm := List.mem_of_getElem? hx
    simp only [li1, if_neg (not_or.mpr ⟨mem_not_below hv.2.2 hm, mem_not_above hv.2.2 hm⟩), idxOf_knot hv.2.2 hx, hf,
      Option.getD_some]
  i1_within := by
    intro k xs fs p hv hw
    simp [li1, if_neg (within_not_outside hw)]
  i1_outside := by
    intro xs fs p hv ho
    simp [li1, if_pos ho]
  i1_extrap := by
    intro k xs fs p hv hk
    show (li1 k xs fs p).isSome = true
    unfold li1
    split_ifs <;> simp_all
  i2_knot := by
    intro k xs ys f i j x y row v hv hx hy hr hvv
    have hmx := List.mem_of_getElem? hx
    have hmy := List.mem_of_getElem? hy
    have hno : ¬ (Below xs x ∨ Above xs x ∨ Below ys y ∨ Above ys y) := by
      rintro (h | h | h | h)
      · exact mem_not_below hv.2.2.1 hmx h
      · exact mem_not_above hv.2.2.1 hmx h
      · exact mem_not_below hv.2.2.2.1 hmy h
      · exact mem_not_above hv.2.2.2.1 hmy h
    simp only [li2, if_neg hno, idxOf_knot hv.2.2.1 hx, idxOf_knot hv.2.2.2.1 hy, hr, Option.getD_some, hvv]
  i2_within := by
    intro k xs ys f p q hv hw1 hw2
    have hno : ¬ (Below xs p ∨ Above xs p ∨ Below ys q ∨ Above ys q) := by
      rintro (h | h | h | h)
      · exact within_not_outside hw1 (Or.inl h)
      · exact within_not_outside hw1 (Or.inr h)
      · exact within_not_outside hw2 (Or.inl h)
      · exact within_not_outside hw2 (Or.inr h)
    simp [li2, if_neg hno]
  i2_outside := by
    intro xs ys f p q hv ho
    simp [li2, if_pos ho]
  i2_extrap := by
    intro k xs ys f p q hv hk
    show (li2 k xs ys f p q).isSome = true
    unfold li2
    split_ifs <;> simp_all
  i3_knot := by
    intro k xs ys zs f i j l x y z pl row v hv hx hy hz hpl hrow hvv
    have hmx := List.mem_of_getElem? hx
    have hmy := List.mem_of_getElem? hy
    have hmz := List.mem_of_getElem? hz
    have hno : ¬ (Below xs x ∨ Above xs x ∨ Below ys y ∨ Above ys y ∨ Below zs z ∨ Above zs z) := by
      rintro (h | h | h | h | h | h)
      · exact mem_not_below hv.2.2.2.1 hmx h
      · exact mem_not_above hv.2.2.2.1 hmx h
      · exact mem_not_below hv.2.2.2.2.1 hmy h
      · exact mem_not_above hv.2.2.2.2.1 hmy h
      · exact mem_not_below hv.2.2.2.2.2.1 hmz h
      · exact mem_not_above hv.2.2.2.2.2.1 hmz h
    simp only [li3, if_neg hno, idxOf_knot hv.2.2.2.1 hx, idxOf_knot hv.2.2.2.2.1 hy, idxOf_knot hv.2.2.2.2.2.1 hz,
      hpl, hrow, Option.getD_some, hvv]
  i3_within := by
    intro k xs ys zs f p q r hv hw1 hw2 hw3
    have hno : ¬ (Below xs p ∨ Above xs p ∨ Below ys q ∨ Above ys q ∨ Below zs r ∨ Above zs r) := by
      rintro (h | h | h | h | h | h)
      · exact within_not_outside hw1 (Or.inl h)
      · exact within_not_outside hw1 (Or.inr h)
      · exact within_not_outside hw2 (Or.inl h)
      · exact within_not_outside hw2 (Or.inr h)
      · exact within_not_outside hw3 (Or.inl h)
      · exact within_not_outside hw3 (Or.inr h)
    simp [li3, if_neg hno]
  i3_outside := by
    intro xs ys zs f p q r hv ho
    simp [li3, if_pos ho]
  i3_extrap := by
    intro k xs ys zs f p q r hv hk
    show (li3 k xs ys zs f p q r).isSome = true
    unfold li3
    split_ifs <;> simp_all


/-- real numbers: `10 ^ x` and `logb 10`; `gap` shifts the `log10` used by `evaluate` (0 = the two agree) -/
noncomputable def realExt (gap : ℝ) : Ext ℝ :=
  ⟨Real.logb 10, fun x => Real.logb 10 x - gap, fun x => (10 : ℝ) ^ x, li1, li2, li3⟩


theorem realExt_spec (gap : ℝ) : ExtSpec (realExt gap) :=
  lookup_spec _ _ _
    (fun y hy => Real.rpow_logb (by norm_num) (by norm_num) hy)
    (fun x => Real.rpow_pos_of_pos (by norm_num) x)
    (fun a b => Real.rpow_add (by norm_num) a b)
    (fun x y hx hxy => Real.logb_lt_logb (by norm_num) hx hxy)


theorem realExt_logAgree : LogAgree (realExt 0) := fun x _ => by simp [realExt]


end Cherab.Props.C07
