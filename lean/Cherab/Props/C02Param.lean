import Cherab.Props.C02
import Cherab.Lemmas.LineShapeParam

/-!
# C02 round 6 — `ParametrisedZeemanTriplet` is normalised

Closes item (1) of "still unproved" of the first deepening pass: the end-to-end statement for the fourth Zeeman-type model
(zeeman.pyx:205 `ParametrisedZeemanTriplet.add_line`), whose width carries the extra factor `sqrt(1 + β² T^(2γ))`.
`pow` stays a parameter; the only fact used about it is the named hypothesis `0 ≤ pow T (2γ)` at the temperature in
question (true of C `pow` for every `T > 0`, any real exponent).
-/

namespace Cherab.Props.C02
set_option linter.unusedSectionVars false
open Cherab.LineShape Cherab.Lemmas.LineShape

variable {α : Type} [Field α] [LinearOrder α] [IsStrictOrderedRing α]

/-- the parametrised width is positive and never below the Doppler width, for every `β`, `γ` (either sign) -/
theorem paramZeeman_width_bounds (F : Fns α) (hs : SqrtSpec F.sqrt) (K : Consts α) (hK : ConstsPos K) (be ga : α) (e : Env α)
    (hwl : 0 < e.wl) (haw : 0 < e.aw) (hts : 0 < e.ts) (hp : 0 ≤ F.pow e.ts (2.0 * ga)) :
    0 < thermalBroadening F K e.wl e.ts e.aw * F.sqrt (1.0 + be * be * F.pow e.ts (2.0 * ga)) ∧
      thermalBroadening F K e.wl e.ts e.aw ≤
        thermalBroadening F K e.wl e.ts e.aw * F.sqrt (1.0 + be * be * F.pow e.ts (2.0 * ga)) :=
  ⟨paramZeeman_width_pos F hs K hK be ga e hwl haw hts hp, paramZeeman_width_ge_thermal F hs K hK be ga e hwl haw hts hp⟩

/-- **ParametrisedZeemanTriplet (unpolarised) is normalised for every field vector, viewing direction and every
`α, β, γ`**, `|B| = 0` included: window spanning the components ⇒ `R·erf(cut/√2) ≤ Σ added·Δ ≤ R` -/
theorem paramZeeman_normalised (F : Fns α) (hf : FloorSpec F.floorI) (hc : CeilSpec F.ceilI) (he : ErfSpec F.erf)
    (h2 : 0 < F.sqrt2) (hsq : SqrtSpec F.sqrt) (K : Consts α) (hK : ConstsPos K) (I : α → α → α → α → α) (cutG cutL : α)
    (hG : 0 ≤ cutG) (al be ga R : α) (e : Env α) (hR : 0 ≤ R) (hwl : 0 < e.wl) (haw : 0 < e.aw) (hts : 0 < e.ts)
    (hd : dot e.dir e.dir ≠ 0) (hp : 0 ≤ F.pow e.ts (2.0 * ga)) (s : Spec α) (hs : WF s)
    (hsp : Spans cutG (paramZeemanComps F K al be ga Pol.no R e) s) :
    integral s + R * F.erf (cutG / F.sqrt2) ≤ integral (addComps F I cutG cutL (paramZeemanComps F K al be ga Pol.no R e) s) ∧
      integral (addComps F I cutG cutL (paramZeemanComps F K al be ga Pol.no R e) s) ≤ integral s + R :=
  comps_normalised F hf hc he h2 I cutG cutL hG _ R (paramZeeman_good F hsq K hK al be ga Pol.no R e hR hwl haw hts hd hp)
    (Cherab.Lemmas.LineShape.paramZeeman_weights_sum F K al be ga R e hts) s hs hsp

/-- the π- and σ-polarised spectra, each added to the same base spectrum with a window spanning its components, together
deliver the radiance: `R·erf(cut/√2) ≤ (Σπ − base) + (Σσ − base) ≤ R` -/
theorem paramZeeman_polarised_normalised (F : Fns α) (hf : FloorSpec F.floorI) (hc : CeilSpec F.ceilI) (he : ErfSpec F.erf)
    (h2 : 0 < F.sqrt2) (hsq : SqrtSpec F.sqrt) (K : Consts α) (hK : ConstsPos K) (I : α → α → α → α → α) (cutG cutL : α)
    (hG : 0 ≤ cutG) (al be ga R : α) (e : Env α) (hR : 0 ≤ R) (hwl : 0 < e.wl) (haw : 0 < e.aw) (hts : 0 < e.ts)
    (hd : dot e.dir e.dir ≠ 0) (hp : 0 ≤ F.pow e.ts (2.0 * ga)) (s : Spec α) (hs : WF s)
    (hpi : Spans cutG (paramZeemanComps F K al be ga Pol.pi R e) s)
    (hsg : Spans cutG (paramZeemanComps F K al be ga Pol.sigma R e) s) :
    R * F.erf (cutG / F.sqrt2) ≤
        (integral (addComps F I cutG cutL (paramZeemanComps F K al be ga Pol.pi R e) s) - integral s) +
        (integral (addComps F I cutG cutL (paramZeemanComps F K al be ga Pol.sigma R e) s) - integral s) ∧
      (integral (addComps F I cutG cutL (paramZeemanComps F K al be ga Pol.pi R e) s) - integral s) +
        (integral (addComps F I cutG cutL (paramZeemanComps F K al be ga Pol.sigma R e) s) - integral s) ≤ R := by
  obtain ⟨a1, a2⟩ := model_whole_radiance F hf hc he h2 I cutG cutL hG _
    (paramZeeman_good F hsq K hK al be ga Pol.pi R e hR hwl haw hts hd hp) s hs hpi
  obtain ⟨b1, b2⟩ := model_whole_radiance F hf hc he h2 I cutG cutL hG _
    (paramZeeman_good F hsq K hK al be ga Pol.sigma R e hR hwl haw hts hd hp) s hs hsg
  have hsh := Cherab.Lemmas.LineShape.paramZeeman_pol_shares F K al be ga R e hts
  constructor
  · have : R * F.erf (cutG / F.sqrt2) = radSum (paramZeemanComps F K al be ga Pol.pi R e) * F.erf (cutG / F.sqrt2) +
        radSum (paramZeemanComps F K al be ga Pol.sigma R e) * F.erf (cutG / F.sqrt2) := by
      rw [← add_mul, hsh]
    linarith
  · linarith

/-! ### non-vacuity (α = ℚ, the instance `Fq` of `Props/C02.lean`: `pow = 0` satisfies `0 ≤ pow T (2γ)`) -/

def Kp : Consts ℚ := { amu := 1, echarge := 1, c := 40, hc := 1, muB := 1 / 8 }
example : ConstsPos Kp := ⟨by norm_num [Kp], by norm_num [Kp], by norm_num [Kp]⟩
example : (0 : ℚ) ≤ Fq.pow envq.ts (2.0 * 1) := le_refl _
example : 0 < envq.wl ∧ 0 < envq.aw ∧ 0 < envq.ts ∧ dot envq.dir envq.dir ≠ 0 := by decide +kernel
example : (paramZeemanComps Fq Kp (1 / 2) 3 1 Pol.no 8 envq).length = 3 := by decide +kernel
example : radSum (paramZeemanComps Fq Kp (1 / 2) 3 1 Pol.no 8 envq) = 8 := by decide +kernel
example : ∀ c ∈ paramZeemanComps Fq Kp (1 / 2) 3 1 Pol.no 8 envq, c.lor = false ∧ 0 ≤ c.rad ∧ 0 < c.width := by decide +kernel
/-- the conclusion is attained: the three components lie inside the window and the whole radiance 8 arrives -/
example : integral (addComps Fq (fun _ _ _ _ => 0) 10 50 (paramZeemanComps Fq Kp (1 / 2) 3 1 Pol.no 8 envq) spq)
    = integral spq + 8 := by decide +kernel
example : (integral (addComps Fq (fun _ _ _ _ => 0) 10 50 (paramZeemanComps Fq Kp (1 / 2) 3 1 Pol.pi 8 envq) spq) - integral spq)
    + (integral (addComps Fq (fun _ _ _ _ => 0) 10 50 (paramZeemanComps Fq Kp (1 / 2) 3 1 Pol.sigma 8 envq) spq) - integral spq)
    = 8 := by decide +kernel

end Cherab.Props.C02
